package props

import (
	"go/ast"
	"go/token"
	"go/types"
	"sort"
	"strconv"

	"verif/checker/internal/an"
	"verif/checker/internal/rep"
)

// C06 gap round — necessary conditions of crash recovery that no rule decided
// yet.  Every rule states a condition without which some crash point (or the
// recovery itself) leaves an incoherent store:
//
//   write-unit       every DB transaction / bulk opened by the chain package is
//                    committed / flushed on every path that reports success
//   state-before-tip success of the executor chain implies the state commit ran
//   marker-fields    number and hash of each marker role come from the same block
//   rollback-mapping which marker field plays which role when the height mapping
//                    is rolled back; result only after the flush; no flush after a
//                    failed read
//   redo             the redo uses the marker's top block and the marker itself;
//                    the mapping swap is skipped only when the tip already is the
//                    new top; success of swapChain implies the marker was removed;
//                    the receipts deleted are those of the abandoned branch
//   boot-order       the state DB is opened on the best block read after the
//                    chain DB recovered; genesis state before genesis block
//   state-marker     writer/reader agreement of the finalisation marker value;
//                    the marker is staged after all storage tries
//   recovered-flag   the "recovered" flag starts false and turns true only after
//                    Recover succeeded
//   marker-cdb       a decoded marker gets its chain DB before it is used; every
//                    other marker field survives the gob round trip (exported)
//   reco-roles       the redo rebuilds the rolled-back list from the old best block
//                    and the roll-forward list from the new top
//   tip-block-stored the tip transaction stores the block body unless a WAL did
//   load-tip         with a stored latest pointer, loading succeeds only with the
//                    tip block read and installed
//
// plus the existing C05 bulk-swap and C08 persistence rules, which decide two
// C06 anchors (persisted latest pointer vs in-memory tip after a swap; LIB status
// in the same write unit as the tip).

func init() {
	extend("C06", c06GapWriteUnits)
	extend("C06", c06GapStateBeforeTip)
	extend("C06", c06GapMarkerFields)
	extend("C06", c06GapRollbackMapping)
	extend("C06", c06GapRedo)
	extend("C06", c06GapBootOrder)
	extend("C06", c06GapStateMarker)
	extend("C06", c06GapRecoveredFlag)
	extend("C06", c06GapMarkerCDB)
	extend("C06", c06GapRecoRoles)
	extend("C06", c06GapTipBlockStored)
	extend("C06", c06GapLoadTip)
	extend("C06", c05BulkSwaps)
	extend("C06", c08Persistence)
}

// ---------------------------------------------------------------------------
// helpers

// c06GapResolve returns e and, transitively (bounded), the defining
// expressions of the once-defined locals mentioned in e.
func c06GapResolve(g *an.Graph, info *types.Info, e ast.Node, depth int) []ast.Node {
	out := []ast.Node{e}
	if depth <= 0 || e == nil {
		return out
	}
	seen := map[types.Object]bool{}
	ast.Inspect(e, func(n ast.Node) bool {
		id, ok := n.(*ast.Ident)
		if !ok {
			return true
		}
		o := info.Uses[id]
		if _, isVar := o.(*types.Var); !isVar || seen[o] {
			return true
		}
		seen[o] = true
		if rhs, _ := g.SingleDef(o); rhs != nil {
			out = append(out, c06GapResolve(g, info, rhs, depth-1)...)
		}
		return true
	})
	return out
}

// c06GapReads: e (locals resolved) reads the struct field.
func c06GapReads(g *an.Graph, info *types.Info, e ast.Node, field *types.Var) bool {
	if field == nil || e == nil {
		return false
	}
	for _, x := range c06GapResolve(g, info, e, 3) {
		if readsField(info, x, field) {
			return true
		}
	}
	return false
}

// c06GapCalls: e (locals resolved) contains a call of one of the callees.
func c06GapCalls(g *an.Graph, info *types.Info, e ast.Node, names ...string) bool {
	if e == nil {
		return false
	}
	for _, x := range c06GapResolve(g, info, e, 3) {
		if containsCallTo(info, x, names...) {
			return true
		}
	}
	return false
}

// c06GapMentions: e (locals resolved) mentions obj.
func c06GapMentions(g *an.Graph, info *types.Info, e ast.Node, obj types.Object) bool {
	if obj == nil || e == nil {
		return false
	}
	for _, x := range c06GapResolve(g, info, e, 3) {
		if mentions(info, x, obj) {
			return true
		}
	}
	return false
}

// c06GapFieldsOf lists the fields of struct st read in e (locals resolved), sorted by name.
func c06GapFieldsOf(g *an.Graph, info *types.Info, e ast.Node, st *types.Struct) []string {
	set := map[string]bool{}
	if st == nil {
		return nil
	}
	for i := 0; i < st.NumFields(); i++ {
		if c06GapReads(g, info, e, st.Field(i)) {
			set[st.Field(i).Name()] = true
		}
	}
	var out []string
	for k := range set {
		out = append(out, k)
	}
	sort.Strings(out)
	return out
}

// c06GapSuccessGated: every return of f that may report success (nil error,
// bare return, `return call()`, `return err`) is either dominated by the
// success edges of one of the sites, or hands the (unmodified) error result of
// one of the sites straight to the caller.
func c06GapSuccessGated(g *an.Graph, sites []an.Site, extra an.Set) bool {
	info := g.Fn.Info()
	if len(sites) == 0 {
		return false
	}
	gates := errEdgesOf(g, sites).Union(extra)
	for _, r := range g.NilReturns() {
		if g.Dominated(r, gates) {
			continue
		}
		rs, _ := r.Ast.(*ast.ReturnStmt)
		if rs == nil || len(rs.Results) == 0 {
			return false
		}
		last := ast.Unparen(rs.Results[len(rs.Results)-1])
		pass := false
		for _, s := range sites {
			if call, ok := last.(*ast.CallExpr); ok && call == s.Call {
				pass = true
			}
			if id, ok := last.(*ast.Ident); ok {
				rv := g.ResultVarAt(s, c06GapErrIndex(info, s.Call))
				if rv != nil && info.Uses[id] == rv && g.Dominated(r, an.SetOf(s.Node)) {
					clean := true
					for m := range g.Between(s.Node, r) {
						if m != s.Node && m.Kind == an.KStmt && an.Assigns(info, m.Ast, rv) {
							clean = false
						}
					}
					if clean {
						pass = true
					}
				}
			}
		}
		if !pass {
			return false
		}
	}
	return true
}

func c06GapErrIndex(info *types.Info, call *ast.CallExpr) int {
	if tv, ok := info.Types[call]; ok {
		if tup, isTup := tv.Type.(*types.Tuple); isTup {
			return tup.Len() - 1
		}
	}
	return 0
}

// ---------------------------------------------------------------------------
// write-unit: a transaction / bulk that was opened is committed / flushed on
// every path that does not report an error (and before it is opened again).

var c06GapUnitExempt = map[string]string{
	"chain.(*ChainDB).NewTx": "factory: hands the transaction to its caller",
}

func c06GapWriteUnits(c *rep.Ctx) {
	pk := c.Prog.Pkg("chain")
	if pk == nil {
		c.Undecide("write-unit", "chain", "package not loaded")
		return
	}
	creators := []string{c05NewTx, c05NewBulk, "chain.(*ChainDB).NewTx"}
	n := 0
	for _, f := range c.Prog.Funcs() {
		if f.Pkg != pk || f.Body == nil {
			continue
		}
		g := f.Graph()
		sites := g.CallsTo(creators...)
		if len(sites) == 0 {
			continue
		}
		sort.Slice(sites, func(i, j int) bool { return sites[i].Call.Pos() < sites[j].Call.Pos() })
		if why, ex := c06GapUnitExempt[f.Name()]; ex {
			c.Note("write-unit: %s exempt (%s)", f.Name(), why)
			continue
		}
		info := f.Info()
		nilRet := map[*an.Node]bool{}
		for _, r := range g.NilReturns() {
			nilRet[r] = true
		}
		errRet := an.Set{}
		for _, r := range g.Returns() {
			if !nilRet[r] {
				errRet[r] = true
			}
		}
		for i, s := range sites {
			n++
			key := f.Name() + "|unit" + strconv.Itoa(i+1)
			v := g.ResultVarAt(s, 0)
			if v == nil {
				c.Undecide("write-unit", key, "the transaction / bulk is not bound to a variable")
				continue
			}
			avoid := an.Set{}
			for e := range errRet {
				avoid[e] = true
			}
			var deferred []*an.Node
			for _, cm := range g.CallsTo(c05TxCommit, c05Flush) {
				if recvObj(info, cm.Call) == v {
					if _, isDefer := cm.Node.Ast.(*ast.DeferStmt); isDefer {
						deferred = append(deferred, cm.Node) // runs at exit on every path through the defer statement
						continue
					}
					avoid[cm.Node] = true
				}
			}
			// writes through the unit: Set/Delete on it, or handing it (or its address) to a callee
			var writes []*an.Node
			for _, w := range g.Calls(nil) {
				if avoid[w.Node] || w.Node == s.Node {
					continue
				}
				if sel, isSel := ast.Unparen(w.Call.Fun).(*ast.SelectorExpr); isSel && an.RootObj(info, sel.X) == v {
					switch sel.Sel.Name {
					case "Set", "Delete":
						writes = append(writes, w.Node)
					}
					continue
				}
				for _, a := range w.Call.Args {
					if mentions(info, a, v) {
						writes = append(writes, w.Node)
						break
					}
				}
			}
			if len(writes) == 0 {
				c.Undecide("write-unit", key, "no write through the transaction / bulk was recognised")
				continue
			}
			ok := true
			for _, w := range writes {
				covered := false
				for _, d := range deferred {
					if g.Dominated(w, an.SetOf(d)) {
						covered = true
					}
				}
				if covered {
					continue
				}
				reach := g.Reach(w.Succs, avoid)
				if reach[g.Exit] || reach[s.Node] {
					ok = false
				}
			}
			c.Check("write-unit", key, s.Call.Pos(), ok, "whatever is written through a DB transaction / bulk opened by the chain DB is committed / flushed on every path that does not return an error, and before the unit is opened again in a loop: a success that leaves its writes uncommitted is indistinguishable from a crash before them, but nothing repairs it")
		}
	}
	c.Floor("write-unit", 12)
	_ = n
}

// ---------------------------------------------------------------------------
// state-before-tip: the tip transaction is reached only through successful
// returns, and a successful return of every link implies the state commit.

func c06GapStateBeforeTip(c *rep.Ctx) {
	const rule = "state-before-tip"
	if f := c.Fn("chain.(*chainProcessor).execute"); f != nil {
		ex := errGate(c, f, "chain.(*chainProcessor).executeBlock")
		mustPrecede(c, rule, f, ex, sitesOf(f, "chain.(*chainProcessor).connectToChain"), nil, "the tip transaction is opened only after the block was executed and its state committed")
	}
	link := func(fn string, callee ...string) {
		f := c.Fn(fn)
		if f == nil {
			return
		}
		g := f.Graph()
		sites := sitesOf(f, callee...)
		ok := len(sites) >= 1 && c06GapSuccessGated(g, sites, nil)
		c.Check(rule, fn+"|success-implies|"+shortNames(callee), f.Pos(), ok, "this link of the executor chain reports success only if the next link did; otherwise the tip moves to a block whose state was never committed")
	}
	link("chain.(*chainProcessor).executeBlock", "chain.(*ChainService).executeBlock")
	link("chain.(*ChainService).executeBlock", "chain.(*blockExecutor).execute")
	if f := c.Fn("chain.(*blockExecutor).execute"); f != nil {
		g := f.Graph()
		vo := c.Prog.LookupField("chain", "blockExecutor", "verifyOnly")
		sites := sitesOf(f, "chain.(*blockExecutor).commit")
		ok := vo != nil && len(sites) >= 1
		if ok {
			verifyOnly := g.EdgesImplying(an.FieldAtom(f.Info(), vo, "vo"), map[string]bool{"vo": true})
			ok = c06GapSuccessGated(g, sites, verifyOnly)
		}
		c.Check(rule, "chain.(*blockExecutor).execute|success-implies|commit", f.Pos(), ok, "the block executor reports success only after commit succeeded, except in verify-only mode (which never moves the tip)")
	}
	if f := c.Fn("chain.(*blockExecutor).commit"); f != nil {
		g := f.Graph()
		cm := sitesOf(f, "state/statedb.(*StateDB).Commit", "state.(*BlockState).Commit")
		ok := len(cm) >= 1
		if ok {
			gates := errEdgesOf(g, cm)
			for _, r := range g.NilReturns() {
				ok = ok && g.Dominated(r, gates)
			}
		}
		c.Check(rule, "chain.(*blockExecutor).commit|success-implies|Commit", f.Pos(), ok, "commit reports success only if the block state was flushed")
	}
	// the root the state DB moves to is the committed block state's root
	if f := c.Fn("state.(*ChainStateDB).UpdateRoot"); f != nil {
		g := f.Graph()
		info := f.Info()
		sr := sitesOf(f, "state/statedb.(*StateDB).SetRoot")
		ok := len(sr) == 1
		if ok {
			a := sr[0].Call.Args[0]
			ok = c06GapMentions(g, info, a, f.ParamObj(0)) && c06GapCalls(g, info, a, "state/statedb.(*StateDB).GetRoot", "state.(*BlockState).GetRoot")
			// the root read is the block state's, not the chain state DB's own
			ast.Inspect(a, func(n ast.Node) bool {
				if call, isCall := n.(*ast.CallExpr); isCall {
					if fn := an.Callee(info, call); fn != nil && fn.Name() == "GetRoot" {
						if sel, isSel := ast.Unparen(call.Fun).(*ast.SelectorExpr); isSel && an.RootObj(info, sel.X) != f.ParamObj(0) {
							if !c06GapMentions(g, info, sel.X, f.ParamObj(0)) {
								ok = false
							}
						}
					}
				}
				return true
			})
		}
		c.Check(rule, "state.(*ChainStateDB).UpdateRoot|root-of-block-state", posOf(sr), ok, "after a block was committed the state DB moves to the root of that block state")
	}
}

// ---------------------------------------------------------------------------
// marker-fields: BrXNo and BrXHash are taken from the same block

func c06GapMarkerFields(c *rep.Ctx) {
	const rule = "marker-fields"
	f := c.Fn("chain.NewReorgMarker")
	if f == nil {
		return
	}
	g := f.Graph()
	info := f.Info()
	rst := c.Prog.LookupStruct("chain", "reorganizer")
	mst := c.Prog.LookupStruct("chain", "ReorgMarker")
	if rst == nil || mst == nil {
		c.Undecide(rule, "chain.NewReorgMarker", "struct reorganizer / ReorgMarker not found")
		return
	}
	// value written to each marker field: literal key or field assignment
	val := map[string]ast.Expr{}
	dup := false
	ast.Inspect(f.Body, func(n ast.Node) bool {
		switch x := n.(type) {
		case *ast.CompositeLit:
			tv, ok := info.Types[x]
			if !ok {
				return true
			}
			t := tv.Type
			if p, isPtr := t.(*types.Pointer); isPtr {
				t = p.Elem()
			}
			if st, _ := t.Underlying().(*types.Struct); st != mst {
				return true
			}
			for _, el := range x.Elts {
				if kv, isKV := el.(*ast.KeyValueExpr); isKV {
					if id, isID := kv.Key.(*ast.Ident); isID {
						if _, had := val[id.Name]; had {
							dup = true
						}
						val[id.Name] = kv.Value
					}
				}
			}
		case *ast.AssignStmt:
			for i, l := range x.Lhs {
				if fld := an.FieldOf(info, l); fld != nil && len(x.Lhs) == len(x.Rhs) {
					for j := 0; j < mst.NumFields(); j++ {
						if mst.Field(j) == fld {
							if _, had := val[fld.Name()]; had {
								dup = true
							}
							val[fld.Name()] = x.Rhs[i]
						}
					}
				}
			}
		}
		return true
	})
	for _, role := range []string{"BrStart", "BrBest", "BrTop"} {
		h, n := val[role+"Hash"], val[role+"No"]
		if h == nil || n == nil || dup {
			c.Undecide(rule, "chain.NewReorgMarker|"+role, "the values stored in "+role+"Hash / "+role+"No were not recognised")
			continue
		}
		fh := c06GapFieldsOf(g, info, h, rst)
		fn := c06GapFieldsOf(g, info, n, rst)
		ok := len(fh) == 1 && len(fn) == 1 && fh[0] == fn[0] &&
			c06GapCalls(g, info, n, "types.(*BlockHeader).GetBlockNo", "types.(*Block).BlockNo")
		c.Check(rule, "chain.NewReorgMarker|"+role+"|no-and-hash-same-block", n.Pos(), ok, "the number and the hash recorded for one role of the marker come from the same block: the roll-back of the height mapping walks by number, the redo by hash")
	}
}

// ---------------------------------------------------------------------------
// rollback-mapping: RecoverChainMapping

func c06GapRollbackMapping(c *rep.Ctx) {
	const rule = "rollback-mapping"
	f := c.Fn("chain.(*ReorgMarker).RecoverChainMapping")
	if f == nil {
		return
	}
	const fn = "chain.(*ReorgMarker).RecoverChainMapping"
	g := f.Graph()
	info := f.Info()
	fld := func(n string) *types.Var { return c.Prog.LookupField("chain", "ReorgMarker", n) }
	bestHash, bestNo, topNo, startNo, startHash := fld("BrBestHash"), fld("BrBestNo"), fld("BrTopNo"), fld("BrStartNo"), fld("BrStartHash")
	if bestHash == nil || bestNo == nil || topNo == nil || startNo == nil || startHash == nil {
		c.Undecide(rule, fn, "marker fields not found")
		return
	}
	flush := g.CallsTo(c05Flush)
	bulk := g.CallsTo(c05NewBulk)
	sl := g.CallsTo("chain.(*ChainDB).setLatest")
	if len(flush) != 1 || len(bulk) != 1 || len(sl) != 1 {
		c.Undecide(rule, fn, "one bulk / one flush / one setLatest expected")
		return
	}
	// (a) nothing to do <=> the tip is the marker's old best
	eqTrue, eqFalse := an.Set{}, an.Set{}
	for _, s := range g.CallsTo("bytes.Equal") {
		if len(s.Call.Args) == 2 && (c06GapReads(g, info, s.Call.Args[0], bestHash) || c06GapReads(g, info, s.Call.Args[1], bestHash)) {
			eqTrue = eqTrue.Union(g.BoolEdges(s, true))
			eqFalse = eqFalse.Union(g.BoolEdges(s, false))
		}
	}
	okSkip := len(eqFalse) > 0 && g.Dominated(bulk[0].Node, eqFalse)
	c.Check(rule, fn+"|skip-iff-old-best", f.Pos(), okSkip, "the mapping is left alone exactly when the current tip is the marker's old best block (BrBestHash); any other tip is rolled back")
	// (b) success only after the flush (or on the nothing-to-do edge)
	okRes := true
	for _, r := range g.NilReturns() {
		okRes = okRes && g.Dominated(r, eqTrue.Union(nodesOf(flush)))
	}
	c.Check(rule, fn+"|success-after-flush", posOf(flush), okRes, "the roll-back reports success only after the bulk was flushed")
	// (c) a failed read never reaches the flush
	okFail := true
	for _, s := range g.Calls(nil) {
		e := g.ErrNilEdges(s)
		if len(e) == 0 || s.Node == flush[0].Node {
			continue
		}
		if !g.Reach(bulk[0].Node.Succs, nil)[s.Node] {
			continue
		}
		if g.Reach(s.Node.Succs, e)[flush[0].Node] {
			okFail = false
		}
	}
	c.Check(rule, fn+"|no-flush-after-failure", posOf(flush), okFail, "when a block of the old branch cannot be read the partial mapping is not flushed")
	// (d) the in-memory tip is the block fetched by BrBestHash; the persisted latest pointer is its number
	tip := an.ObjOf(info, ast.Unparen(sl[0].Call.Args[0]))
	okTip := tip != nil
	if okTip {
		rhs, _ := g.SingleDef(tip)
		call, isCall := ast.Unparen(rhs).(*ast.CallExpr)
		okTip = rhs != nil && isCall && containsCallTo(info, rhs, "chain.(*ChainDB).getBlock", "chain.(*ChainDB).GetBlock") && len(call.Args) == 1 && c06GapReads(g, info, call.Args[0], bestHash)
	}
	c.Check(rule, fn+"|memory-tip-is-old-best", posOf(sl), okTip, "the in-memory tip is set to the block stored under the marker's BrBestHash")
	okLatest, seen := false, 0
	for _, s := range g.CallsTo(c05BulkSet) {
		if !containsCallTo(info, s.Call.Args[0], "types/dbkey.LatestBlock") {
			continue
		}
		seen++
		v := s.Call.Args[1]
		if !c06GapCalls(g, info, v, "types.BlockNoToBytes") {
			continue
		}
		byField := c06GapReads(g, info, v, bestNo)
		byBlock := tip != nil && c06GapMentions(g, info, v, tip) && c06GapCalls(g, info, v, "types.(*BlockHeader).GetBlockNo", "types.(*Block).BlockNo")
		okLatest = byField || byBlock
	}
	c.Check(rule, fn+"|latest-is-old-best", posOf(sl), seen == 1 && okLatest, "the persisted latest pointer is the number of the marker's old best block, the block the in-memory tip is set to")
	// (e) roles in the two loops
	var delLoop, setLoop ast.Node
	loops := c06GapLoops(f.Body)
	for _, s := range g.CallsTo(c05BulkDel) {
		delLoop = c06GapEnclosing(loops, s.Call)
	}
	for _, s := range g.CallsTo(c05BulkSet) {
		if containsCallTo(info, s.Call.Args[0], "types/dbkey.LatestBlock") {
			continue
		}
		setLoop = c06GapEnclosing(loops, s.Call)
	}
	if delLoop == nil || setLoop == nil {
		c.Undecide(rule, fn+"|loops", "the delete loop / restore loop were not recognised")
		return
	}
	okDel := c06GapReads(g, info, delLoop, topNo) && c06GapReads(g, info, delLoop, bestNo)
	c.Check(rule, fn+"|delete-range", delLoop.Pos(), okDel, "the height entries removed are bounded by the new top (BrTopNo) and the old best (BrBestNo): the heights only the new branch has")
	okSet := c06GapReads(g, info, setLoop, startNo) || c06GapReads(g, info, setLoop, startHash)
	c.Check(rule, fn+"|restore-down-to-fork", setLoop.Pos(), okSet, "the walk that restores the old branch's height entries ends at the fork point (BrStartNo / BrStartHash)")
}

func c06GapLoops(body ast.Node) []ast.Node {
	var out []ast.Node
	ast.Inspect(body, func(n ast.Node) bool {
		switch n.(type) {
		case *ast.ForStmt, *ast.RangeStmt:
			out = append(out, n)
		case *ast.FuncLit:
			return false
		}
		return true
	})
	return out
}

// innermost loop containing n
func c06GapEnclosing(loops []ast.Node, n ast.Node) ast.Node {
	var best ast.Node
	for _, l := range loops {
		if l.Pos() <= n.Pos() && n.End() <= l.End() {
			if best == nil || (best.Pos() <= l.Pos() && l.End() <= best.End()) {
				best = l
			}
		}
	}
	return best
}

// ---------------------------------------------------------------------------
// redo: recoverReorg, swapChainMapping (reorganizer), swapChain, deleteOldReceipts

func c06GapRedo(c *rep.Ctx) {
	const rule = "redo"
	c.NotDecided = append(c.NotDecided,
		"marker sanity bounds in initRecovery and the height-continuity check of the roll-back walk (value-level)",
		"whether the consensus status is advanced correctly by the non-executing recovery executor (needs executions)",
		"interaction of the persisted LIB status with a rolled-back tip (the status is loaded lazily at the first Update; needs executions)")
	if f := c.Fn("chain.(*ChainService).recoverReorg"); f != nil {
		g := f.Graph()
		info := f.Info()
		topHash := c.Prog.LookupField("chain", "ReorgMarker", "BrTopHash")
		re := sitesOf(f, "chain.(*ChainService).reorg")
		ok := len(re) == 1 && topHash != nil && len(re[0].Call.Args) == 2
		if ok {
			a0 := re[0].Call.Args[0]
			viaGet := false
			for _, x := range c06GapResolve(g, info, a0, 2) {
				ast.Inspect(x, func(n ast.Node) bool {
					if call, isCall := n.(*ast.CallExpr); isCall && len(call.Args) == 1 {
						if fn := an.Callee(info, call); fn != nil && (fn.Name() == "GetBlock" || fn.Name() == "getBlock") && c06GapReads(g, info, call.Args[0], topHash) && c06GapMentions(g, info, call.Args[0], f.ParamObj(0)) {
							viaGet = true
						}
					}
					return true
				})
			}
			ok = viaGet && argIs(info, re[0].Call, 1, f.ParamObj(0))
		}
		c.Check(rule, "chain.(*ChainService).recoverReorg|top-and-marker", posOf(re), ok, "the interrupted reorganisation is redone towards the block stored under the marker's BrTopHash, with the marker itself (recovery mode)")
		c.Check(rule, "chain.(*ChainService).recoverReorg|result", f.Pos(), len(re) == 1 && c06GapSuccessGated(g, re, nil), "recovery reports success only if the redo succeeded")
	}
	if f := c.Fn("chain.(*reorganizer).swapChainMapping"); f != nil {
		g := f.Graph()
		info := f.Info()
		top := c.Prog.LookupField("chain", "reorganizer", "brTopBlock")
		sw := sitesOf(f, "chain.(*ChainDB).swapChainMapping")
		var best types.Object
		for _, s := range g.CallsTo("chain.(*ChainDB).GetBestBlock", "chain.(*ChainService).GetBestBlock") {
			best = g.ResultVarAt(s, 0)
		}
		already := an.Set{}
		for _, s := range g.CallsTo("bytes.Equal") {
			if len(s.Call.Args) != 2 {
				continue
			}
			a, b := s.Call.Args[0], s.Call.Args[1]
			if (c06GapReads(g, info, a, top) && c06GapMentions(g, info, b, best)) || (c06GapReads(g, info, b, top) && c06GapMentions(g, info, a, best)) {
				already = already.Union(g.BoolEdges(s, true))
			}
		}
		ok := len(sw) == 1 && c06GapSuccessGated(g, sw, already)
		c.Check(rule, "chain.(*reorganizer).swapChainMapping|skip-only-at-new-top", f.Pos(), ok, "the swap of the height mapping is skipped only when the current tip already is the new top block; otherwise success means the chain DB swapped it")
	}
	if f := c.Fn("chain.(*reorganizer).swapChain"); f != nil {
		g := f.Graph()
		del := g.CallsTo("chain.(*ReorgMarker).delete")
		ok := len(del) >= 1
		for _, r := range g.NilReturns() {
			ok = ok && g.Dominated(r, nodesOf(del))
		}
		c.Check(rule, "chain.(*reorganizer).swapChain|success-implies-marker-removed", posOf(del), ok, "swapChain reports success only after the marker was removed: a marker that outlives its reorganisation rolls the height mapping back at the next start, below blocks connected since")
	}
	if f := c.Fn("chain.(*reorganizer).deleteOldReceipts"); f != nil {
		g := f.Graph()
		info := f.Info()
		old := c.Prog.LookupField("chain", "reorganizer", "oldBlocks")
		dels := sitesOf(f, "chain.(*ChainDB).deleteReceiptsAndOperations")
		if len(dels) == 0 || old == nil {
			c.Undecide(rule, "chain.(*reorganizer).deleteOldReceipts", "the receipt deleter is not called directly")
		}
		loops := c06GapLoops(f.Body)
		for _, s := range dels {
			ok := false
			switch l := c06GapEnclosing(loops, s.Call).(type) {
			case *ast.RangeStmt:
				v := an.ObjOf(info, l.Value)
				if l.Value == nil {
					v = nil
				}
				ok = c06GapReads(g, info, l.X, old) && v != nil && len(s.Call.Args) == 3 && mentions(info, s.Call.Args[1], v) && mentions(info, s.Call.Args[2], v)
				if !ok && c06GapReads(g, info, l.X, old) && len(s.Call.Args) == 3 {
					// for i := range oldBlocks { ... oldBlocks[i] ... }
					ok = c06GapReads(g, info, s.Call.Args[1], old) && c06GapReads(g, info, s.Call.Args[2], old)
				}
			case *ast.ForStmt:
				ok = len(s.Call.Args) == 3 && c06GapReads(g, info, s.Call.Args[1], old) && c06GapReads(g, info, s.Call.Args[2], old)
			}
			c.Check(rule, "chain.(*reorganizer).deleteOldReceipts|abandoned-branch", s.Call.Pos(), ok, "the receipts deleted (also when the deletion is repeated by recovery) are those of the blocks rolled back (oldBlocks), never of the branch that becomes the main chain")
		}
	}
	if f := c.Fn("chain.(*ChainDB).getReorgMarker"); f != nil {
		g := f.Graph()
		info := f.Info()
		dec := sitesOf(f, "internal/enc/gob.Decode")
		get := sitesOf(f, "github.com/aergoio/aergo-lib/db.(DB).Get")
		ok := len(dec) == 1 && len(get) == 1 && containsCallTo(info, get[0].Call.Args[0], "types/dbkey.ReOrg")
		if ok {
			after := g.Reach(dec[0].Node.Succs, nil)
			gates := g.ErrNilEdges(dec[0])
			rv := g.ResultVarAt(dec[0], 0)
			for _, r := range g.NilReturns() {
				if !after[r] || g.Dominated(r, gates) {
					continue
				}
				// `return &marker, err` hands the decoder's verdict to the caller
				rs := r.Ast.(*ast.ReturnStmt)
				pass := false
				if len(rs.Results) == 2 {
					last := ast.Unparen(rs.Results[1])
					if id, isID := last.(*ast.Ident); isID && rv != nil && info.Uses[id] == rv {
						pass = true
						for m := range g.Between(dec[0].Node, r) {
							if m != dec[0].Node && m.Kind == an.KStmt && an.Assigns(info, m.Ast, rv) {
								pass = false
							}
						}
					}
					if call, isCall := last.(*ast.CallExpr); isCall && call == dec[0].Call {
						pass = true
					}
				}
				ok = ok && pass
			}
		}
		c.Check(rule, "chain.(*ChainDB).getReorgMarker|stored-marker-never-dropped", f.Pos(), ok, "a marker that is stored under the ReOrg key but cannot be decoded is an error, never \"no marker\": start-up and Recover take the no-marker result as licence to skip the roll-back and the redo")
	}
	if f := c.Fn("chain.(*ReorgMarker).write"); f != nil {
		g := f.Graph()
		w := sitesOf(f, "chain.(*ChainDB).writeReorgMarker")
		c.Check(rule, "chain.(*ReorgMarker).write|result", f.Pos(), len(w) == 1 && c06GapSuccessGated(g, w, nil), "the marker write reports success only if the chain DB wrote it; the destructive steps of swapChain are gated by this result")
	}
}

// ---------------------------------------------------------------------------
// boot-order

func c06GapBootOrder(c *rep.Ctx) {
	const rule = "boot-order"
	if f := c.Fn("chain.(*Core).init"); f != nil {
		g := f.Graph()
		info := f.Info()
		ci := errGate(c, f, "chain.(*ChainDB).Init")
		si := sitesOf(f, "state.(*ChainStateDB).Init")
		mustPrecede(c, rule, f, ci, si, nil, "the state DB is opened after the chain DB was initialised and an interrupted reorganisation rolled back")
		ok := len(si) == 1 && len(si[0].Call.Args) >= 3
		if ok {
			a := ast.Unparen(si[0].Call.Args[2])
			var src *ast.CallExpr
			if call, isCall := a.(*ast.CallExpr); isCall {
				src = call
			} else if o := an.ObjOf(info, a); o != nil {
				if rhs, _ := g.SingleDef(o); rhs != nil {
					src, _ = ast.Unparen(rhs).(*ast.CallExpr)
				}
			}
			ok = false
			if src != nil {
				if fn := an.Callee(info, src); fn != nil && an.FuncName(fn) == "chain.(*ChainDB).GetBestBlock" {
					if n := g.NodeContaining(src.Pos()); n != nil {
						ok = len(ci.edges) > 0 && g.Dominated(n, ci.edges)
					}
				}
			}
		}
		c.Check(rule, "chain.(*Core).init|best-after-recover", posOf(si), ok, "the block whose state root the state DB opens is the chain DB's best block read after Init (load + roll-back of the mapping) succeeded")
	}
	if f := c.Fn("state.(*ChainStateDB).Init"); f != nil {
		g := f.Graph()
		info := f.Info()
		best := f.ParamObj(2)
		ns := sitesOf(f, "state/statedb.NewStateDB")
		ok := len(ns) == 1 && best != nil && len(ns[0].Call.Args) >= 2
		if ok {
			a := ast.Unparen(ns[0].Call.Args[1])
			isRoot := func(e ast.Node) bool {
				return c06GapMentions(g, info, e, best) && c06GapCalls(g, info, e, "types.(*BlockHeader).GetBlocksRootHash")
			}
			if isRoot(a) {
				ok = true
			} else if o := an.ObjOf(info, a); o != nil {
				gates := g.EdgesImplying(an.NilAtom(info, best), map[string]bool{"nil": true})
				for _, n := range g.Nodes {
					if n.Kind != an.KStmt {
						continue
					}
					if as, isAs := n.Ast.(*ast.AssignStmt); isAs && an.Assigns(info, as, o) {
						if len(as.Rhs) == 1 && isRoot(as.Rhs[0]) {
							gates = gates.Add(n)
						} else {
							ok = false // some other value is stored in the root variable
						}
					}
				}
				ok = ok && g.Dominated(ns[0].Node, gates)
			} else {
				ok = false
			}
		}
		c.Check(rule, "state.(*ChainStateDB).Init|root-of-best", posOf(ns), ok, "the state DB is opened on the state root of the best block it was handed whenever there is one")
	}
	if f := c.Fn("chain.(*Core).initGenesis"); f != nil {
		sg := errGate(c, f, "state.(*ChainStateDB).SetGenesis")
		mustPrecede(c, rule, f, sg, sitesOf(f, "chain.(*ChainDB).addGenesisBlock"), nil, "the genesis state is committed before the genesis block becomes the tip")
	}
}

// ---------------------------------------------------------------------------
// state-marker

func c06GapStateMarker(c *rep.Ctx) {
	const rule = "state-marker"
	// the reader: a root is finalised only if the stored value equals a package-level value
	var cmp types.Object
	if f := c.Fn("state/statedb.(*StateDB).HasMarker"); f != nil {
		g := f.Graph()
		info := f.Info()
		var eqCall *ast.CallExpr
		var eqSite an.Site
		for _, s := range g.CallsTo("bytes.Equal") {
			if len(s.Call.Args) != 2 {
				continue
			}
			for i := 0; i < 2; i++ {
				o := an.ObjOf(info, ast.Unparen(s.Call.Args[i]))
				if o != nil && o.Pkg() != nil && o.Parent() == o.Pkg().Scope() && c06GapCalls(g, info, s.Call.Args[1-i], "github.com/aergoio/aergo-lib/db.(DB).Get") {
					eqCall, eqSite, cmp = s.Call, s, o
				}
			}
		}
		ok := eqCall != nil
		if ok {
			at := func(e ast.Expr) (string, bool, bool) {
				if ast.Unparen(e) == ast.Expr(eqCall) {
					return "eq", false, true
				}
				return "", false, false
			}
			gates := g.EdgesImplying(at, map[string]bool{"eq": true}).Union(g.BoolEdges(eqSite, true))
			for _, r := range g.Returns() {
				rs := r.Ast.(*ast.ReturnStmt)
				if len(rs.Results) != 1 {
					ok = false
					continue
				}
				if tv, has := info.Types[rs.Results[0]]; has && tv.Value != nil {
					if tv.Value.ExactString() == "true" && !g.Dominated(r, gates) {
						ok = false
					}
					continue
				}
				if !an.CondImplies(info, rs.Results[0], true, at, map[string]bool{"eq": true}) && !g.Dominated(r, gates) {
					ok = false
				}
			}
		}
		c.Check(rule, "state/statedb.(*StateDB).HasMarker|equals-marker-value", f.Pos(), ok, "a state root counts as finalised only if the value stored under its marker key equals the package-level marker value")
	}
	// the writer stores that very value
	if f := c.Fn("state/statedb.(*StateDB).setMarker"); f != nil && cmp != nil {
		g := f.Graph()
		info := f.Info()
		sets := g.Calls(func(fn *types.Func, _ *ast.CallExpr) bool { return fn != nil && fn.Name() == "Set" })
		for _, s := range sets {
			if len(s.Call.Args) != 2 {
				continue
			}
			v := ast.Unparen(s.Call.Args[1])
			switch v.(type) {
			case *ast.Ident, *ast.SelectorExpr:
				c.Check(rule, "state/statedb.(*StateDB).setMarker|value-agreement", s.Call.Pos(), an.ObjOf(info, v) == cmp, "setMarker writes the value HasMarker compares with")
			default:
				c.Undecide(rule, "state/statedb.(*StateDB).setMarker|value-agreement", "the marker value written is not a named value; agreement with HasMarker is not decided")
			}
		}
	}
	if f := c.Fn("state/statedb.(*StateDB).Commit"); f != nil {
		g := f.Graph()
		stage := g.CallsTo("state/statedb.(*StateDB).stage")
		sstage := g.CallsTo("state/statedb.(*bufferedStorage).stage")
		ok := len(stage) == 1 && len(sstage) >= 1
		if ok {
			after := g.Reach(stage[0].Node.Succs, nil)
			for _, s := range sstage {
				if after[s.Node] {
					ok = false
				}
			}
		}
		c.Check(rule, "state/statedb.(*StateDB).Commit|marker-after-storages", posOf(stage), ok, "the account trie, which stages the finalisation marker last, is staged after every storage trie: with a bulk that is flushed in parts the marker must not become durable before the contract storage it vouches for")
	}
}

// ---------------------------------------------------------------------------
// recovered-flag

func c06GapRecoveredFlag(c *rep.Ctx) {
	const rule = "recovered-flag"
	sites := c.Prog.CallSitesOf(map[string]bool{"chain.(*ChainService).setRecovered": true})
	if len(sites) == 0 {
		c.Undecide(rule, "chain.(*ChainService).setRecovered", "no call site found")
		return
	}
	if refs := c.Prog.FuncRefs(map[string]bool{"chain.(*ChainService).setRecovered": true}); len(refs) > 0 {
		c.Undecide(rule, "chain.(*ChainService).setRecovered", "used as a function value")
	}
	nTrue := 0
	for _, s := range sites {
		if s.Fn == nil || s.Call == nil || len(s.Call.Args) != 1 {
			continue
		}
		info := s.Fn.Info()
		name := s.Fn.TopDecl().Name()
		tv, has := info.Types[s.Call.Args[0]]
		if !has || tv.Value == nil {
			c.Check(rule, name+"|constant", s.Call.Pos(), false, "the recovered flag is set from a constant: false at construction, true after Recover succeeded")
			continue
		}
		if tv.Value.ExactString() == "false" {
			c.CheckTrivial(rule, name+"|false", s.Call.Pos(), true, "clearing the flag forces a recovery before the next message")
			continue
		}
		nTrue++
		g := s.Fn.Graph()
		rec := g.CallsTo("chain.(*ChainService).Recover")
		n := g.NodeContaining(s.Call.Pos())
		ok := name == "chain.(*ChainService).Receive" && len(rec) == 1 && n != nil && len(g.ErrNilEdges(rec[0])) > 0 && g.Dominated(n, g.ErrNilEdges(rec[0]))
		c.Check(rule, name+"|true-after-Recover", s.Call.Pos(), ok, "the flag that lets Receive skip crash recovery is raised only after Recover returned without error")
	}
	c.Check(rule, "chain.(*ChainService).setRecovered|raised-once", token.NoPos, nTrue == 1, "exactly one site raises the flag")
}

// ---------------------------------------------------------------------------
// marker-cdb: a marker decoded from the store has no chain DB (the field is not
// exported, gob skips it); write/delete dereference it.

func c06GapMarkerCDB(c *rep.Ctx) {
	const rule = "marker-cdb"
	cdbF := c.Prog.LookupField("chain", "ReorgMarker", "cdb")
	if cdbF == nil {
		c.Undecide(rule, "chain.ReorgMarker.cdb", "field not found")
		return
	}
	// design A: the reader fills the field itself
	if rd := c.Fn("chain.(*ChainDB).getReorgMarker"); rd != nil {
		for _, w := range c.Prog.FieldWrites(map[*types.Var]bool{cdbF: true}) {
			if w.Fn != nil && w.Fn.TopDecl() == rd {
				c.Check(rule, "chain.(*ChainDB).getReorgMarker|sets-cdb", w.Pos, true, "the decoded marker is bound to its chain DB by the reader")
				return
			}
		}
	}
	// design B: newReorganizer binds it on the recovery path
	f := c.Fn("chain.newReorganizer")
	if f == nil {
		return
	}
	g := f.Graph()
	info := f.Info()
	marker := f.ParamObj(2)
	var set an.Set = an.Set{}
	for _, s := range g.CallsTo("chain.(*ReorgMarker).setCDB") {
		if recvObj(info, s.Call) == marker && len(s.Call.Args) == 1 {
			if tv, has := info.Types[s.Call.Args[0]]; !has || !tv.IsNil() {
				set[s.Node] = true
			}
		}
	}
	base := an.NilAtom(info, marker)
	at := func(e ast.Expr) (string, bool, bool) {
		if id, isID := ast.Unparen(e).(*ast.Ident); isID {
			if o := info.Uses[id]; o != nil {
				if rhs, _ := g.SingleDef(o); rhs != nil {
					return base(ast.Unparen(rhs))
				}
			}
		}
		return base(e)
	}
	noMarker := g.EdgesImplying(at, map[string]bool{"nil": true})
	ok := marker != nil && len(set) > 0
	for _, r := range g.Returns() {
		rs := r.Ast.(*ast.ReturnStmt)
		if len(rs.Results) == 2 {
			if tv, has := info.Types[rs.Results[0]]; has && tv.IsNil() {
				continue
			}
		}
		ok = ok && g.Dominated(r, set.Union(noMarker))
	}
	c.Check(rule, "chain.newReorganizer|binds-marker-cdb", f.Pos(), ok, "a reorganizer built from a stored marker binds the marker to the chain DB before it is returned: swapChain writes and deletes the marker through that field, and a nil dereference there makes every restart die in recovery")
}

// ---------------------------------------------------------------------------
// reco-roles: gatherReco rebuilds oldBlocks from the old best block and
// newBlocks from the new top block (swapped lists make the redo delete the
// receipts and the transaction index of the branch that becomes the main chain)

func c06GapRecoRoles(c *rep.Ctx) {
	const rule = "reco-roles"
	f := c.Fn("chain.(*reorganizer).gatherReco")
	if f == nil {
		return
	}
	g := f.Graph()
	info := f.Info()
	fld := func(n string) *types.Var { return c.Prog.LookupField("chain", "reorganizer", n) }
	oldB, newB, best, top := fld("oldBlocks"), fld("newBlocks"), fld("bestBlock"), fld("brTopBlock")
	if oldB == nil || newB == nil || best == nil || top == nil {
		c.Undecide(rule, "chain.(*reorganizer).gatherReco", "reorganizer fields not found")
		return
	}
	src := map[*types.Var][]ast.Expr{}
	ast.Inspect(f.Body, func(n ast.Node) bool {
		as, ok := n.(*ast.AssignStmt)
		if !ok {
			return true
		}
		for i, l := range as.Lhs {
			fv := an.FieldOf(info, l)
			if fv != oldB && fv != newB {
				continue
			}
			switch {
			case len(as.Rhs) == len(as.Lhs):
				src[fv] = append(src[fv], as.Rhs[i])
			case len(as.Rhs) == 1:
				src[fv] = append(src[fv], as.Rhs[0])
			}
		}
		return true
	})
	for _, row := range []struct {
		dst, want, not *types.Var
		name, why      string
	}{
		{oldB, best, top, "oldBlocks", "the blocks to roll back are collected from the marker's old best block down to the fork point"},
		{newB, top, best, "newBlocks", "the blocks to roll forward are collected from the marker's new top block down to the fork point"},
	} {
		if len(src[row.dst]) == 0 {
			c.Undecide(rule, "chain.(*reorganizer).gatherReco|"+row.name, "no assignment of the list was recognised")
			continue
		}
		ok := true
		for _, e := range src[row.dst] {
			// appends to the list itself are neutral
			if call, isCall := ast.Unparen(e).(*ast.CallExpr); isCall && an.IsBuiltin(info, call, "append") {
				continue
			}
			if !c06GapReads(g, info, e, row.want) || c06GapReads(g, info, e, row.not) {
				ok = false
			}
		}
		c.Check(rule, "chain.(*reorganizer).gatherReco|"+row.name, src[row.dst][0].Pos(), ok, row.why)
	}
	// every persisted field of the marker survives gob: exported, except the chain DB handle
	if st := c.Prog.LookupStruct("chain", "ReorgMarker"); st != nil {
		exempt := map[string]string{"cdb": "run-time handle, bound after decoding (marker-cdb)"}
		for i := 0; i < st.NumFields(); i++ {
			fv := st.Field(i)
			if _, ex := exempt[fv.Name()]; ex {
				c.CheckTrivial("marker-cdb", "chain.ReorgMarker."+fv.Name()+"|not-persisted", fv.Pos(), !fv.Exported(), "the chain DB handle is not part of the persisted marker")
				continue
			}
			c.CheckTrivial("marker-cdb", "chain.ReorgMarker."+fv.Name()+"|persisted", fv.Pos(), fv.Exported(), "the marker is persisted with gob, which silently drops unexported fields: a field the recovery reads must be exported")
		}
	} else {
		c.Undecide("marker-cdb", "chain.ReorgMarker", "struct not found")
	}
}

// ---------------------------------------------------------------------------
// tip-block-stored

func c06GapTipBlockStored(c *rep.Ctx) {
	const rule = "tip-block-stored"
	if f := c.Fn("chain.(*chainProcessor).connectToChain"); f != nil {
		g := f.Graph()
		info := f.Info()
		conn := sitesOf(f, "chain.(*ChainDB).connectToChain")
		ok := len(conn) == 1 && len(conn[0].Call.Args) == 3
		if ok {
			at := func(e ast.Expr) (string, bool, bool) {
				if call, isCall := ast.Unparen(e).(*ast.CallExpr); isCall {
					if fn := an.Callee(info, call); fn != nil && fn.Name() == "HasWAL" {
						return "wal", false, true
					}
				}
				return "", false, false
			}
			e := ast.Unparen(conn[0].Call.Args[2])
			if o := an.ObjOf(info, e); o != nil {
				if rhs, _ := g.SingleDef(o); rhs != nil {
					e = ast.Unparen(rhs)
				}
			}
			if tv, has := info.Types[e]; has && tv.Value != nil {
				ok = tv.Value.ExactString() == "false"
			} else {
				ok = an.CondImplies(info, e, true, at, map[string]bool{"wal": true})
			}
		}
		c.Check(rule, "chain.(*chainProcessor).connectToChain|skip-only-with-wal", posOf(conn), ok, "the tip transaction leaves out the block body only when the consensus has a write-ahead log that stored it already; otherwise the latest pointer names a block that is not in the store after a restart")
	}
	if f := c.Fn("chain.(*ChainDB).connectToChain"); f != nil {
		g := f.Graph()
		info := f.Info()
		skip := f.ParamObj(2)
		add := sitesOf(f, "chain.(*ChainDB).addBlock")
		at := func(e ast.Expr) (string, bool, bool) {
			if id, isID := ast.Unparen(e).(*ast.Ident); isID && skip != nil && info.Uses[id] == skip {
				return "skip", false, true
			}
			return "", false, false
		}
		gates := g.EdgesImplying(at, map[string]bool{"skip": true}).Union(errEdgesOf(g, add))
		ok := skip != nil && len(add) >= 1
		n := 0
		for _, s := range g.CallsTo(c05TxSet) {
			if containsCallTo(info, s.Call.Args[0], "types/dbkey.LatestBlock") {
				n++
				ok = ok && g.Dominated(s.Node, gates)
			}
		}
		c.Check(rule, "chain.(*ChainDB).connectToChain|block-with-pointer", f.Pos(), ok && n >= 1, "the latest pointer is written only after the block body was staged into the same transaction (or the caller vouched that a WAL holds it)")
	}
}

// ---------------------------------------------------------------------------
// load-tip

func c06GapLoadTip(c *rep.Ctx) {
	const rule = "load-tip"
	f := c.Fn("chain.(*ChainDB).loadChainData")
	if f == nil {
		return
	}
	g := f.Graph()
	get := sitesOf(f, "chain.(*ChainDB).GetBlockByNo", "chain.(*ChainDB).getBlock", "chain.(*ChainDB).GetBlock")
	sl := sitesOf(f, "chain.(*ChainDB).setLatest")
	ok := len(get) >= 1 && len(sl) >= 1
	if ok {
		after := g.Reach(get[0].Node.Succs, nil)
		okEdges := errEdgesOf(g, get)
		for _, r := range g.NilReturns() {
			if !after[r] {
				continue
			}
			ok = ok && len(okEdges) > 0 && g.Dominated(r, okEdges) && g.Dominated(r, nodesOf(sl))
		}
		// the block installed is the one read
		blk := g.ResultVarAt(get[0], 0)
		ok = ok && blk != nil && argIs(f.Info(), sl[0].Call, 0, blk)
	}
	c.Check(rule, "chain.(*ChainDB).loadChainData|tip-installed", posOf(sl), ok, "once a latest pointer is stored, loading the chain data succeeds only if the block it names was read and installed as the in-memory tip; a swallowed failure starts the node on an empty chain over a populated store")
}
