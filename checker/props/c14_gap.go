package props

import (
	"fmt"
	"go/ast"
	"go/constant"
	"go/token"
	"go/types"
	"os"
	"sort"
	"strings"

	"golang.org/x/tools/go/cfg"

	"verif/checker/internal/an"
	"verif/checker/internal/rep"
)

// C14 gap review — rules for the clauses the base engine leaves open: what a
// transaction's arguments become AFTER they were accepted and stored (a vote's
// candidate bytes, the admin list, configuration values, the tally map) and is
// read back by a later transaction, a query or the next admission check.
//
//	stored-bounds   every index / slice expression of the governance packages
//	                (and every one on types.Vote fields anywhere) is in bounds
//	                by a length fact about the SAME operand that dominates it
//	big-nil         a *big.Int looked up in a map is never handed to big.Int
//	                arithmetic without a nil test, unless the map is total
//	tally-total     ... and the tally map IS total: every stored entry is
//	                loaded, every loaded entry is stored again
//	ctx-args        EnterpriseContext.Args / ArgsAny hold as many elements as
//	                the consumer indexes, per command
//	divisor         no division by a value that can be zero
func init() { extend("C14", c14GapRun) }

var c14GapPkgs = []string{"contract/system", "contract/name", "contract/enterprise"}

func c14GapRun(c *rep.Ctx) {
	c14GapBounds(c)
	c14GapBigNil(c)
	c14GapTallyTotal(c)
	c14GapCtxArgs(c)
	c14GapDivisor(c)
	c14GapSyncAfterAdd(c)
	c14GapConfValueChecked(c)
	// param-sign is registered for C02 and C15 (props/round3.go): since VoteResult.threshold was repaired a
	// negative parameter value no longer crashes a node; it still makes a running and a restarted node disagree.
}

func c14GapDebug() bool { return os.Getenv("C14GAP_DEBUG") != "" }

// ---------------------------------------------------------------------------
// functions in scope

func c14GapInPkgs(f *an.Func) bool {
	rel := an.Rel(f.Pkg.PkgPath)
	for _, p := range c14GapPkgs {
		if rel == p {
			return true
		}
	}
	return false
}

func c14GapAllFuncs(p *an.Prog) []*an.Func {
	var all []*an.Func
	var walk func(f *an.Func)
	walk = func(f *an.Func) {
		if f.Body != nil {
			all = append(all, f)
		}
		for _, l := range f.Lits {
			walk(l)
		}
	}
	for _, f := range p.Funcs() {
		rel := an.Rel(f.Pkg.PkgPath)
		if strings.HasPrefix(rel, "cmd/") || strings.HasPrefix(rel, "tools/") || strings.HasPrefix(rel, "tests") {
			continue
		}
		walk(f)
	}
	sort.Slice(all, func(i, j int) bool { return all[i].Pos() < all[j].Pos() })
	return all
}

// ---------------------------------------------------------------------------
// operand keys: a canonical spelling of a side-effect free operand expression
// in which identifiers are objects (not names)

type c14GapFn struct {
	f      *an.Func
	g      *an.Graph
	info   *types.Info
	useNil bool // prove may use nilBased facts
}

func c14GapFnOf(f *an.Func) *c14GapFn {
	if f == nil || f.Body == nil {
		return nil
	}
	g := f.Graph()
	if g == nil {
		return nil
	}
	return &c14GapFn{f: f, g: g, info: f.Info()}
}

func c14GapObjKey(o types.Object) string {
	if o == nil {
		return ""
	}
	if v, ok := o.(*types.Var); ok && v.Pkg() != nil && v.Parent() == v.Pkg().Scope() {
		return "g:" + an.Rel(v.Pkg().Path()) + "." + v.Name()
	}
	return fmt.Sprintf("v:%s@%d", o.Name(), o.Pos())
}

// key of an operand; "" when the expression is not a stable operand.  objs
// receives the variables the key is built from.
func (a *c14GapFn) key(e ast.Expr, objs map[types.Object]bool) string {
	e = ast.Unparen(e)
	switch x := e.(type) {
	case *ast.Ident:
		o := an.ObjOf(a.info, x)
		if _, isVar := o.(*types.Var); !isVar {
			return ""
		}
		if objs != nil {
			objs[o] = true
		}
		return c14GapObjKey(o)
	case *ast.SelectorExpr:
		if fv := an.FieldOf(a.info, x); fv != nil {
			b := a.key(x.X, objs)
			if b == "" {
				return ""
			}
			return b + "." + fv.Name()
		}
		if o, ok := a.info.Uses[x.Sel].(*types.Var); ok && !o.IsField() {
			return c14GapObjKey(o)
		}
		return ""
	case *ast.StarExpr:
		return a.key(x.X, objs)
	case *ast.IndexExpr:
		b := a.key(x.X, objs)
		if b == "" {
			return ""
		}
		if tv, ok := a.info.Types[x.Index]; ok && tv.Value != nil {
			return b + "[" + tv.Value.ExactString() + "]"
		}
		if id, ok := ast.Unparen(x.Index).(*ast.Ident); ok {
			if k := a.key(id, objs); k != "" {
				return b + "[" + k + "]"
			}
		}
		return ""
	case *ast.CallExpr:
		// conversions between string and []byte keep the length
		if tv, ok := a.info.Types[x.Fun]; ok && tv.IsType() && len(x.Args) == 1 {
			if c14GapBytesLike(tv.Type) && c14GapBytesLike(a.info.TypeOf(x.Args[0])) {
				return a.key(x.Args[0], objs)
			}
			return ""
		}
		// generated getters  x.GetField()  read the field
		if sel, ok := ast.Unparen(x.Fun).(*ast.SelectorExpr); ok && len(x.Args) == 0 {
			if fn := an.Callee(a.info, x); fn != nil && strings.HasPrefix(fn.Name(), "Get") {
				if fld := c14GapGetterField(fn); fld != nil {
					b := a.key(sel.X, objs)
					if b == "" {
						return ""
					}
					return b + "." + fld.Name()
				}
			}
		}
	}
	return ""
}

func c14GapBytesLike(t types.Type) bool {
	if t == nil {
		return false
	}
	switch u := t.Underlying().(type) {
	case *types.Basic:
		return u.Info()&types.IsString != 0
	case *types.Slice:
		b, ok := u.Elem().Underlying().(*types.Basic)
		return ok && b.Kind() == types.Byte
	}
	return false
}

// c14GapGetterField: method GetX on *T where T is a struct with a field X of
// the result type (the protobuf getter shape).
func c14GapGetterField(fn *types.Func) *types.Var {
	sig, _ := fn.Type().(*types.Signature)
	if sig == nil || sig.Recv() == nil || sig.Params().Len() != 0 || sig.Results().Len() != 1 {
		return nil
	}
	t := sig.Recv().Type()
	if p, ok := t.Underlying().(*types.Pointer); ok {
		t = p.Elem()
	}
	st, ok := t.Underlying().(*types.Struct)
	if !ok {
		return nil
	}
	want := strings.TrimPrefix(fn.Name(), "Get")
	for i := 0; i < st.NumFields(); i++ {
		if f := st.Field(i); f.Name() == want && types.Identical(f.Type(), sig.Results().At(0).Type()) {
			return f
		}
	}
	return nil
}

// ---------------------------------------------------------------------------
// linear forms over operand lengths and integer variables

type c14GapLin struct {
	t map[string]int64
	k int64
}

func (l c14GapLin) add(m c14GapLin, f int64) c14GapLin {
	out := c14GapLin{t: map[string]int64{}, k: l.k + f*m.k}
	for a, v := range l.t {
		out.t[a] = v
	}
	for a, v := range m.t {
		out.t[a] += f * v
		if out.t[a] == 0 {
			delete(out.t, a)
		}
	}
	return out
}

func (l c14GapLin) String() string {
	var ks []string
	for a := range l.t {
		ks = append(ks, a)
	}
	sort.Strings(ks)
	s := ""
	for _, a := range ks {
		s += fmt.Sprintf("%+d*%s ", l.t[a], a)
	}
	return s + fmt.Sprintf("%+d", l.k)
}

func c14GapConst(k int64) c14GapLin { return c14GapLin{t: map[string]int64{}, k: k} }
func c14GapAtom(a string) c14GapLin { return c14GapLin{t: map[string]int64{a: 1}} }

func c14GapIntConst(info *types.Info, e ast.Expr) (int64, bool) {
	tv, ok := info.Types[e]
	if !ok || tv.Value == nil {
		return 0, false
	}
	v := constant.ToInt(tv.Value)
	if v.Kind() != constant.Int {
		return 0, false
	}
	return constant.Int64Val(v)
}

// lin: the expression as a linear form; objs collects the variables it reads.
func (a *c14GapFn) lin(e ast.Expr, objs map[types.Object]bool, depth int) (c14GapLin, bool) {
	e = ast.Unparen(e)
	if k, ok := c14GapIntConst(a.info, e); ok {
		return c14GapConst(k), true
	}
	if depth > 4 {
		return c14GapLin{}, false
	}
	switch x := e.(type) {
	case *ast.BinaryExpr:
		switch x.Op {
		case token.ADD, token.SUB:
			l, ok1 := a.lin(x.X, objs, depth)
			r, ok2 := a.lin(x.Y, objs, depth)
			if !ok1 || !ok2 {
				return c14GapLin{}, false
			}
			if x.Op == token.SUB {
				return l.add(r, -1), true
			}
			return l.add(r, 1), true
		case token.REM:
			// n % K with K > 0 constant and n >= 0:  0 <= n%K <= n  (facts added by modFacts)
			if k, ok := c14GapIntConst(a.info, x.Y); ok && k > 0 {
				if l, ok2 := a.lin(x.X, objs, depth); ok2 && len(l.t) == 1 && l.k == 0 {
					for at, cf := range l.t {
						if cf == 1 && strings.HasPrefix(at, "len:") {
							return c14GapAtom(fmt.Sprintf("mod%d:%s", k, at)), true
						}
					}
				}
			}
			return c14GapLin{}, false
		case token.MUL:
			if k, ok := c14GapIntConst(a.info, x.X); ok {
				if r, ok2 := a.lin(x.Y, objs, depth); ok2 {
					return c14GapConst(0).add(r, k), true
				}
			}
			if k, ok := c14GapIntConst(a.info, x.Y); ok {
				if l, ok2 := a.lin(x.X, objs, depth); ok2 {
					return c14GapConst(0).add(l, k), true
				}
			}
		}
		return c14GapLin{}, false
	case *ast.CallExpr:
		if an.IsBuiltin(a.info, x, "len") && len(x.Args) == 1 {
			if k := a.key(x.Args[0], objs); k != "" {
				return c14GapAtom("len:" + k), true
			}
			return c14GapLin{}, false
		}
		if tv, ok := a.info.Types[x.Fun]; ok && tv.IsType() && len(x.Args) == 1 {
			if b, ok := tv.Type.Underlying().(*types.Basic); ok && b.Info()&types.IsInteger != 0 {
				return a.lin(x.Args[0], objs, depth)
			}
		}
		return c14GapLin{}, false
	case *ast.Ident:
		o := an.ObjOf(a.info, x)
		v, isVar := o.(*types.Var)
		if !isVar {
			return c14GapLin{}, false
		}
		if b, ok := v.Type().Underlying().(*types.Basic); !ok || b.Info()&types.IsInteger == 0 {
			return c14GapLin{}, false
		}
		// a local defined once from a linear expression stands for it
		if v.Pkg() != nil && v.Parent() != v.Pkg().Scope() && !v.IsField() {
			if rhs, idx := a.g.SingleDef(o); rhs != nil && idx == 0 {
				if _, isCall := ast.Unparen(rhs).(*ast.CallExpr); !isCall || an.IsBuiltin(a.info, ast.Unparen(rhs).(*ast.CallExpr), "len") {
					sub := map[types.Object]bool{}
					if l, ok := a.lin(rhs, sub, depth+1); ok && a.allStable(sub) {
						for s := range sub {
							if objs != nil {
								objs[s] = true
							}
						}
						return l, true
					}
				}
			}
		}
		if objs != nil {
			objs[o] = true
		}
		return c14GapAtom(c14GapObjKey(o)), true
	case *ast.SelectorExpr:
		if k := a.key(x, objs); k != "" {
			if b, ok := a.info.TypeOf(x).Underlying().(*types.Basic); ok && b.Info()&types.IsInteger != 0 {
				return c14GapAtom(k), true
			}
		}
	}
	return c14GapLin{}, false
}

func (a *c14GapFn) allStable(objs map[types.Object]bool) bool {
	for o := range objs {
		if v, ok := o.(*types.Var); ok && v.Pkg() != nil && v.Parent() == v.Pkg().Scope() {
			continue
		}
		if !a.g.SingleDefOrParam(o) {
			return false
		}
	}
	return true
}

// ---------------------------------------------------------------------------
// facts: comparisons known at a vertex

type c14GapFact struct {
	l    c14GapLin // l op 0
	op   token.Token
	mod  int64  // > 0:  len:<modKey> % mod == 0
	mkey string // atom of the modulus fact
	objs map[types.Object]bool
	edge *an.Node
	keys []string // operand keys the fact talks about
	// nilBased:  X != nil  read as  len(X) >= 1 — only true of contract-state
	// records (a missing key reads as nil, a stored record is not empty); used
	// by the presence test of rule stored-bounds only
	nilBased bool
}

func c14GapNegOp(op token.Token) token.Token {
	switch op {
	case token.LSS:
		return token.GEQ
	case token.LEQ:
		return token.GTR
	case token.GTR:
		return token.LEQ
	case token.GEQ:
		return token.LSS
	case token.EQL:
		return token.NEQ
	case token.NEQ:
		return token.EQL
	}
	return op
}

// leaves of a condition that hold when the condition has value val
func (a *c14GapFn) leaves(cond ast.Expr, val bool, out *[]c14GapFact, edge *an.Node) {
	cond = ast.Unparen(cond)
	switch x := cond.(type) {
	case *ast.UnaryExpr:
		if x.Op == token.NOT {
			a.leaves(x.X, !val, out, edge)
		}
		return
	case *ast.BinaryExpr:
		switch x.Op {
		case token.LAND:
			if val {
				a.leaves(x.X, true, out, edge)
				a.leaves(x.Y, true, out, edge)
			}
			return
		case token.LOR:
			if !val {
				a.leaves(x.X, false, out, edge)
				a.leaves(x.Y, false, out, edge)
			}
			return
		case token.LSS, token.LEQ, token.GTR, token.GEQ, token.EQL, token.NEQ:
			op := x.Op
			if !val {
				op = c14GapNegOp(op)
			}
			objs := map[types.Object]bool{}
			// X != nil
			if op == token.NEQ {
				for _, pr := range [][2]ast.Expr{{x.X, x.Y}, {x.Y, x.X}} {
					if tv, ok := a.info.Types[pr[1]]; ok && tv.IsNil() {
						if _, isSlice := a.info.TypeOf(pr[0]).Underlying().(*types.Slice); isSlice {
							if k := a.key(pr[0], objs); k != "" {
								*out = append(*out, c14GapFact{l: c14GapConst(1).add(c14GapAtom("len:"+k), -1), op: token.LEQ, objs: objs, edge: edge, nilBased: true})
							}
						}
						return
					}
				}
			}
			// modulus fact:  len(X) % K == 0
			if op == token.EQL {
				for _, pr := range [][2]ast.Expr{{x.X, x.Y}, {x.Y, x.X}} {
					if z, ok := c14GapIntConst(a.info, pr[1]); !ok || z != 0 {
						continue
					}
					if be, ok := ast.Unparen(pr[0]).(*ast.BinaryExpr); ok && be.Op == token.REM {
						if k, ok := c14GapIntConst(a.info, be.Y); ok && k > 0 {
							if l, ok := a.lin(be.X, objs, 0); ok && len(l.t) == 1 && l.k == 0 {
								for at, cf := range l.t {
									if cf == 1 && strings.HasPrefix(at, "len:") {
										*out = append(*out, c14GapFact{mod: k, mkey: at, objs: objs, edge: edge})
										return
									}
								}
							}
						}
					}
				}
			}
			l, ok1 := a.lin(x.X, objs, 0)
			r, ok2 := a.lin(x.Y, objs, 0)
			if !ok1 || !ok2 {
				return
			}
			*out = append(*out, c14GapFact{l: l.add(r, -1), op: op, objs: objs, edge: edge})
		}
	}
}

// region: vertices that can lie between the last passage of edge and target
func (a *c14GapFn) region(edge, target *an.Node) an.Set {
	fw := a.g.Reach(edge.Succs, an.SetOf(edge))
	bw := a.g.CoReach(target.Preds, an.SetOf(edge))
	out := an.Set{}
	for n := range fw {
		if bw[n] && n != edge {
			out[n] = true
		}
	}
	return out
}

// firstNodeIn: the vertex of the statement that is evaluated first
func (a *c14GapFn) firstNodeIn(st ast.Stmt) *an.Node {
	var best *an.Node
	for _, n := range a.g.Nodes {
		if n.Kind != an.KStmt || n.Ast == nil || n.Ast.Pos() < st.Pos() || n.Ast.End() > st.End() {
			continue
		}
		if best == nil || n.Ast.Pos() < best.Ast.Pos() {
			best = n
		}
	}
	return best
}

// regionSet: like region, but a path that passes another gate does not count
// (the fact is re-established there)
func (a *c14GapFn) regionSet(edge *an.Node, gates an.Set, target *an.Node) an.Set {
	fw := a.g.Reach(edge.Succs, gates)
	bw := a.g.CoReach(target.Preds, gates)
	out := an.Set{}
	for n := range fw {
		if bw[n] && !gates[n] {
			out[n] = true
		}
	}
	return out
}

// assignedIn: some vertex of the region assigns one of the variables, or
// assigns a field path the operand key runs through
func (a *c14GapFn) assignedIn(reg an.Set, objs map[types.Object]bool, keys []string) bool {
	for n := range reg {
		if n.Kind != an.KStmt || n.Ast == nil {
			continue
		}
		for o := range objs {
			if v, ok := o.(*types.Var); ok && v.Pkg() != nil && v.Parent() == v.Pkg().Scope() {
				continue
			}
			if an.Assigns(a.info, n.Ast, o) {
				return true
			}
		}
		if len(keys) == 0 {
			continue
		}
		hit := false
		an.InspectShallow(n.Ast, func(m ast.Node) bool {
			var lhs []ast.Expr
			switch s := m.(type) {
			case *ast.AssignStmt:
				lhs = s.Lhs
			case *ast.IncDecStmt:
				lhs = []ast.Expr{s.X}
			}
			for _, l := range lhs {
				if _, isID := ast.Unparen(l).(*ast.Ident); isID {
					continue
				}
				lk := a.key(l, nil)
				if lk == "" {
					// an element / unknown target: x[i] = ..., *p = ...
					if ix, ok := ast.Unparen(l).(*ast.IndexExpr); ok {
						lk = a.key(ix.X, nil)
						if lk == "" {
							continue
						}
						// writing an element does not change the length of x, but it may
						// replace a record the key runs through:  key = lk[..].f
						for _, k := range keys {
							if strings.HasPrefix(k, lk+"[") {
								hit = true
							}
						}
					}
					continue
				}
				for _, k := range keys {
					if k == lk || strings.HasPrefix(k, lk+".") || strings.HasPrefix(k, lk+"[") {
						hit = true
					}
				}
			}
			return !hit
		})
		if hit {
			return true
		}
	}
	return false
}

func c14GapLenKeys(l c14GapLin) []string {
	var out []string
	for at := range l.t {
		if strings.HasPrefix(at, "len:") {
			out = append(out, strings.TrimPrefix(at, "len:"))
		} else if strings.Contains(at, ".") || strings.Contains(at, "[") {
			out = append(out, at)
		}
	}
	return out
}

// factsAt: comparisons that hold at target on every path, and whose operands
// were not assigned since
func (a *c14GapFn) factsAt(target *an.Node) []c14GapFact {
	var out []c14GapFact
	for _, f := range a.g.FactsAt(target) {
		var ls []c14GapFact
		a.leaves(f.Cond, f.Val, &ls, f.Edge)
		for _, l := range ls {
			if l.mod > 0 {
				l.keys = []string{strings.TrimPrefix(l.mkey, "len:")}
			} else {
				l.keys = c14GapLenKeys(l.l)
			}
			if a.assignedIn(a.region(f.Edge, target), l.objs, l.keys) {
				continue
			}
			out = append(out, l)
		}
	}
	// range loops:  for i := range X  gives 0 <= i < len(X) inside the body
	a.rangeFacts(target, &out)
	return out
}

// shortCircuit: facts that hold where site is evaluated because it is the
// right operand of && (left holds) or || (left does not hold) in the same
// expression statement / condition.
func (a *c14GapFn) shortCircuit(root ast.Node, site ast.Expr, out *[]c14GapFact) {
	var path []ast.Node
	var found []ast.Node
	ast.Inspect(root, func(n ast.Node) bool {
		if n == nil {
			path = path[:len(path)-1]
			return true
		}
		if _, isLit := n.(*ast.FuncLit); isLit {
			path = append(path, n)
			return true
		}
		path = append(path, n)
		if n == ast.Node(site) && found == nil {
			found = append([]ast.Node(nil), path...)
		}
		return true
	})
	for i := 0; i+1 < len(found); i++ {
		be, ok := found[i].(*ast.BinaryExpr)
		if !ok || (be.Op != token.LAND && be.Op != token.LOR) {
			continue
		}
		if found[i+1] != ast.Node(be.Y) {
			continue
		}
		var ls []c14GapFact
		a.leaves(be.X, be.Op == token.LAND, &ls, nil)
		for _, l := range ls {
			if l.mod == 0 {
				l.keys = c14GapLenKeys(l.l)
			}
			*out = append(*out, l)
		}
	}
}

// modFacts: for every atom  mod<K>:len:<key>  of the goal:  0 <= atom <= len:<key>, atom <= K-1
func c14GapModFacts(goal c14GapLin, out *[]c14GapFact) {
	for at := range goal.t {
		if !strings.HasPrefix(at, "mod") {
			continue
		}
		i := strings.Index(at, ":")
		if i < 0 {
			continue
		}
		base := at[i+1:]
		*out = append(*out,
			c14GapFact{l: c14GapAtom(at).add(c14GapAtom(base), -1), op: token.LEQ},
			c14GapFact{l: c14GapConst(0).add(c14GapAtom(at), -1), op: token.LEQ})
	}
}

func (a *c14GapFn) rangeFacts(target *an.Node, out *[]c14GapFact) {
	if target.Ast == nil {
		return
	}
	pos := target.Ast.Pos()
	ast.Inspect(a.f.Body, func(n ast.Node) bool {
		if _, isLit := n.(*ast.FuncLit); isLit {
			return false
		}
		rs, ok := n.(*ast.RangeStmt)
		if !ok {
			return true
		}
		if pos < rs.Body.Pos() || pos > rs.Body.End() || rs.Key == nil {
			return true
		}
		kid, ok := rs.Key.(*ast.Ident)
		if !ok || kid.Name == "_" {
			return true
		}
		ko := an.ObjOf(a.info, kid)
		if ko == nil {
			return true
		}
		switch a.info.TypeOf(rs.X).Underlying().(type) {
		case *types.Slice, *types.Basic:
		default:
			return true
		}
		objs := map[types.Object]bool{ko: true}
		xk := a.key(rs.X, objs)
		if xk == "" {
			return true
		}
		// neither the key nor the operand is assigned in the body before the target
		_, edge := a.loopHead(rs)
		if edge == nil {
			return true
		}
		delete(objs, ko)
		reg := a.region(edge, target)
		if a.assignedIn(reg, map[types.Object]bool{ko: true}, nil) || a.assignedIn(reg, objs, []string{xk}) {
			return true
		}
		objs[ko] = true
		ik := c14GapObjKey(ko)
		// i - len + 1 <= 0 ;  -i <= 0
		*out = append(*out,
			c14GapFact{l: c14GapAtom(ik).add(c14GapAtom("len:"+xk), -1).add(c14GapConst(1), 1), op: token.LEQ, objs: objs, edge: edge, keys: []string{xk}},
			c14GapFact{l: c14GapConst(0).add(c14GapAtom(ik), -1), op: token.LEQ, objs: objs, edge: edge})
		return true
	})
}

// nonNeg: the atom is known to be >= 0
func (a *c14GapFn) nonNeg(atom string, o types.Object) bool {
	return a.nonNegVar(atom, o, map[types.Object]bool{})
}

// nonNegVar decides by induction over the assignments of the variable: every
// value assigned to it is non-negative, assuming the variables currently under
// examination are (they start at their zero value or a checked initial value).
func (a *c14GapFn) nonNegVar(atom string, o types.Object, visiting map[types.Object]bool) bool {
	if strings.HasPrefix(atom, "len:") || strings.HasPrefix(atom, "mod") {
		return true
	}
	v, ok := o.(*types.Var)
	if !ok {
		return false
	}
	if b, ok := v.Type().Underlying().(*types.Basic); ok && b.Info()&types.IsUnsigned != 0 {
		return true
	}
	if visiting[o] {
		return true
	}
	if v.IsField() || (v.Pkg() != nil && v.Parent() == v.Pkg().Scope()) {
		return false
	}
	// a parameter is the caller's business
	for i := 0; ; i++ {
		po := a.f.ParamObj(i)
		if po == nil {
			break
		}
		if po == o {
			return false
		}
	}
	visiting[o] = true
	defer delete(visiting, o)
	okAll, n := true, 0
	for _, nd := range a.g.Nodes {
		if nd.Kind != an.KStmt || nd.Ast == nil || !an.Assigns(a.info, nd.Ast, o) {
			continue
		}
		n++
		switch s := nd.Ast.(type) {
		case *ast.IncDecStmt:
			if s.Tok != token.INC {
				okAll = false
			}
		case *ast.ValueSpec:
			for i, nm := range s.Names {
				if a.info.Defs[nm] != o {
					continue
				}
				if len(s.Values) == 0 {
					continue // zero value
				}
				if len(s.Values) != len(s.Names) || !a.nonNegTerm(s.Values[i], visiting) {
					okAll = false
				}
			}
		case *ast.AssignStmt:
			for i, l := range s.Lhs {
				if an.ObjOf(a.info, l) != o {
					continue
				}
				if len(s.Lhs) != len(s.Rhs) {
					// i := sort.SearchStrings(...) style single calls are handled below
					okAll = false
					continue
				}
				switch s.Tok {
				case token.ADD_ASSIGN, token.ASSIGN, token.DEFINE:
					if !a.nonNegTerm(s.Rhs[i], visiting) {
						okAll = false
					}
				default:
					okAll = false
				}
			}
		case *ast.Ident:
			// range key
		default:
			okAll = false
		}
	}
	return okAll && n > 0
}

// nonNegTerm: a sum of non-negative things
func (a *c14GapFn) nonNegTerm(e ast.Expr, visiting map[types.Object]bool) bool {
	e = ast.Unparen(e)
	if k, ok := c14GapIntConst(a.info, e); ok {
		return k >= 0
	}
	if t := a.info.TypeOf(e); t != nil {
		if b, ok := t.Underlying().(*types.Basic); ok && b.Info()&types.IsUnsigned != 0 {
			return true
		}
	}
	switch x := e.(type) {
	case *ast.BinaryExpr:
		if x.Op == token.ADD || x.Op == token.MUL {
			return a.nonNegTerm(x.X, visiting) && a.nonNegTerm(x.Y, visiting)
		}
		if x.Op == token.REM {
			return a.nonNegTerm(x.X, visiting)
		}
		return false
	case *ast.CallExpr:
		if an.IsBuiltin(a.info, x, "len") || an.IsBuiltin(a.info, x, "cap") {
			return true
		}
		if tv, ok := a.info.Types[x.Fun]; ok && tv.IsType() && len(x.Args) == 1 {
			// conversion: of an unsigned value (overflow of 64-bit lengths is not modelled) or a non-negative one
			return a.nonNegTerm(x.Args[0], visiting)
		}
		switch an.CalleeName(a.info, x) {
		case "sort.Search", "sort.SearchStrings", "sort.SearchInts", "sort.SearchFloat64s":
			return true // an insertion position: 0 <= i <= n
		}
		return false
	case *ast.Ident:
		o := an.ObjOf(a.info, x)
		if o == nil {
			return false
		}
		return a.nonNegVar(c14GapObjKey(o), o, visiting)
	}
	return false
}

// upperBound: the variable is set once from a linear expression E and is
// otherwise only decremented; E's operands are not assigned while the variable
// lives (checked over the whole function):  v - E <= 0
func (a *c14GapFn) upperBound(o types.Object, target *an.Node) (c14GapFact, bool) {
	v, ok := o.(*types.Var)
	if !ok || v.IsField() || (v.Pkg() != nil && v.Parent() == v.Pkg().Scope()) {
		return c14GapFact{}, false
	}
	var init ast.Expr
	var initNode *an.Node
	for _, nd := range a.g.Nodes {
		if nd.Kind != an.KStmt || nd.Ast == nil || !an.Assigns(a.info, nd.Ast, o) {
			continue
		}
		switch s := nd.Ast.(type) {
		case *ast.IncDecStmt:
			if s.Tok != token.DEC {
				return c14GapFact{}, false
			}
		case *ast.AssignStmt:
			for i, l := range s.Lhs {
				if an.ObjOf(a.info, l) != o {
					continue
				}
				if len(s.Lhs) != len(s.Rhs) {
					return c14GapFact{}, false
				}
				switch s.Tok {
				case token.SUB_ASSIGN:
					if k, ok := c14GapIntConst(a.info, s.Rhs[i]); !ok || k < 0 {
						return c14GapFact{}, false
					}
				case token.DEFINE, token.ASSIGN:
					if init != nil {
						return c14GapFact{}, false
					}
					init, initNode = s.Rhs[i], nd
				default:
					return c14GapFact{}, false
				}
			}
		default:
			return c14GapFact{}, false
		}
	}
	if init == nil {
		return c14GapFact{}, false
	}
	objs := map[types.Object]bool{}
	e, ok := a.lin(init, objs, 4)
	if !ok {
		return c14GapFact{}, false
	}
	// the operands of E are not assigned between the initialisation and the use
	if !a.allStable(objs) || target == nil || initNode == nil {
		return c14GapFact{}, false
	}
	if a.assignedIn(a.region(initNode, target), nil, c14GapLenKeys(e)) {
		return c14GapFact{}, false
	}
	objs[o] = true
	return c14GapFact{l: c14GapAtom(c14GapObjKey(o)).add(e, -1), op: token.LEQ, objs: objs}, true
}

// nonNegValue: kept for += steps
func (a *c14GapFn) nonNegValue(e ast.Expr) bool {
	return a.nonNegTerm(e, map[types.Object]bool{})
}

// prove  goal <= 0  at the target from the facts
func (a *c14GapFn) prove(goal c14GapLin, facts []c14GapFact, objs map[types.Object]bool) bool {
	if len(goal.t) == 0 {
		return goal.k <= 0
	}
	c14GapModFacts(goal, &facts)
	// all atoms non-negative with non-positive coefficients
	triv := goal.k <= 0
	for at, cf := range goal.t {
		if cf > 0 {
			triv = false
			break
		}
		var obj types.Object
		for o := range objs {
			if c14GapObjKey(o) == at {
				obj = o
			}
		}
		if !a.nonNeg(at, obj) {
			triv = false
			break
		}
	}
	if triv {
		return true
	}
	type leq struct {
		l c14GapLin
		s int64
	}
	var ls []leq
	for _, f := range facts {
		if f.mod > 0 || (f.nilBased && !a.useNil) {
			continue
		}
		switch f.op {
		case token.LEQ:
			ls = append(ls, leq{f.l, 0})
		case token.LSS:
			ls = append(ls, leq{f.l, 1})
		case token.GEQ:
			ls = append(ls, leq{c14GapConst(0).add(f.l, -1), 0})
		case token.GTR:
			ls = append(ls, leq{c14GapConst(0).add(f.l, -1), 1})
		case token.EQL:
			ls = append(ls, leq{f.l, 0}, leq{c14GapConst(0).add(f.l, -1), 0})
		case token.NEQ:
			// len(X) != 0  is  len(X) >= 1
			if len(f.l.t) == 1 && f.l.k == 0 {
				for at, cf := range f.l.t {
					if strings.HasPrefix(at, "len:") && (cf == 1 || cf == -1) {
						ls = append(ls, leq{c14GapConst(1).add(c14GapAtom(at), -1), 0})
					}
				}
			}
		}
	}
	// variables known to be non-negative:  -v <= 0
	nn := map[string]bool{}
	addNN := func(l c14GapLin, os map[types.Object]bool) {
		for at := range l.t {
			if nn[at] || strings.HasPrefix(at, "len:") || strings.HasPrefix(at, "mod") {
				continue
			}
			for o := range os {
				if c14GapObjKey(o) == at && a.nonNeg(at, o) {
					nn[at] = true
					ls = append(ls, leq{c14GapConst(0).add(c14GapAtom(at), -1), 0})
				}
			}
		}
	}
	addNN(goal, objs)
	for _, f := range facts {
		if f.mod == 0 {
			addNN(f.l, f.objs)
		}
	}
	// goal = f + d  with  f <= -s   =>  goal <= d - s
	for _, f := range ls {
		d := goal.add(f.l, -1)
		if len(d.t) == 0 && d.k-f.s <= 0 {
			return true
		}
	}
	for i, f1 := range ls {
		for j, f2 := range ls {
			if i >= j {
				continue
			}
			d := goal.add(f1.l, -1).add(f2.l, -1)
			if len(d.t) == 0 && d.k-f1.s-f2.s <= 0 {
				return true
			}
		}
	}
	for i, f1 := range ls {
		for j, f2 := range ls {
			for k, f3 := range ls {
				if i >= j || j >= k {
					continue
				}
				d := goal.add(f1.l, -1).add(f2.l, -1).add(f3.l, -1)
				if len(d.t) == 0 && d.k-f1.s-f2.s-f3.s <= 0 {
					return true
				}
			}
		}
	}
	return false
}

// ---------------------------------------------------------------------------
// rule stored-bounds

// c14GapBoundsOK: index / slice expressions that are in bounds for a reason the
// local facts cannot express, one row each (function | shape).
var c14GapBoundsOK = map[string]string{
	"contract/system.(*VoteResult).Sync|resultList.Votes[0]":          "Sync of a parameter vote (ex) runs only after AddVote of a record with at least one candidate (updateVoteResult: the new vote, types.ValidateSystemTx demands len(Args) >= 2; refreshAllVote: a stored record), so the tally map and the list built from it are not empty; rule sync-after-add checks the call order",
	"contract/enterprise.(*Conf).Validate|strings.Split(v, \":\")[1]": "every RPCPERMISSIONS value passed checkRPCPermissions (exactly one ':') in checkArgs before setConf / appendConf stored it; rule conf-value-checked checks that checkArgs applies the per-key check to every value",
}

type c14GapSite struct {
	a     *c14GapFn
	expr  ast.Expr // *ast.IndexExpr or *ast.SliceExpr
	x     ast.Expr
	shape string
}

func c14GapShape(a *c14GapFn, e ast.Expr) string {
	return an.ExprString(e)
}

// c14GapStoredFields: fields of records whose length is chosen by a
// transaction's sender and that are read back later — index / slice
// expressions on them are obligations anywhere in the module.
func c14GapStoredFields(c *rep.Ctx) map[*types.Var]string {
	out := map[*types.Var]string{}
	for _, r := range [][3]string{{"types", "Vote", "Candidate"}, {"types", "Vote", "Amount"}} {
		if f := c.Prog.LookupField(r[0], r[1], r[2]); f != nil {
			out[f] = r[1] + "." + r[2]
		} else {
			c.Undecide("stored-bounds", r[0]+"."+r[1]+"."+r[2], "field not found")
		}
	}
	return out
}

func c14GapBounds(c *rep.Ctx) {
	p := c.Prog
	stored := c14GapStoredFields(c)
	fArgs := p.LookupField("types", "CallInfo", "Args")
	ctxArgs := p.LookupField("contract/enterprise", "EnterpriseContext", "Args")
	ctxAny := p.LookupField("contract/enterprise", "EnterpriseContext", "ArgsAny")
	txBody := p.LookupStruct("types", "TxBody")
	baseField := func(fv *types.Var) bool {
		if fv == nil {
			return false
		}
		if fv == fArgs || fv == ctxArgs || fv == ctxAny {
			return true // base engine (riskop) / rule ctx-args
		}
		if txBody != nil {
			for i := 0; i < txBody.NumFields(); i++ {
				if txBody.Field(i) == fv {
					return true // base engine
				}
			}
		}
		return false
	}
	nSites, nFns := 0, 0
	cg := p.BuildCallGraphCached()
	for _, f := range c14GapAllFuncs(p) {
		inPkg := c14GapInPkgs(f)
		if f.File != nil && ast.IsGenerated(f.File) {
			continue // stringer / protobuf output: not maintained by hand
		}
		a := c14GapFnOf(f)
		if a == nil {
			continue
		}
		var sites []c14GapSite
		an.InspectShallow(f.Body, func(n ast.Node) bool {
			var x ast.Expr
			switch s := n.(type) {
			case *ast.IndexExpr:
				x = s.X
			case *ast.SliceExpr:
				x = s.X
			default:
				return true
			}
			t := a.info.TypeOf(x)
			if t == nil {
				return true
			}
			switch u := t.Underlying().(type) {
			case *types.Slice:
			case *types.Basic:
				if u.Info()&types.IsString == 0 {
					return true
				}
			default:
				return true // maps, arrays, pointers to arrays, type parameters
			}
			if tv, ok := a.info.Types[x]; ok && tv.IsType() {
				return true // generic instantiation
			}
			// operands the base engine / ctx-args decide
			root := x
			onStored := false
			for {
				root = ast.Unparen(root)
				if fv := an.FieldOf(a.info, root); fv != nil {
					if baseField(fv) {
						return true
					}
					if stored[fv] != "" {
						onStored = true
					}
				}
				switch y := root.(type) {
				case *ast.SelectorExpr:
					root = y.X
					continue
				case *ast.IndexExpr:
					root = y.X
					continue
				case *ast.SliceExpr:
					root = y.X
					continue
				case *ast.StarExpr:
					root = y.X
					continue
				case *ast.CallExpr:
					if tv, ok := a.info.Types[y.Fun]; ok && tv.IsType() && len(y.Args) == 1 {
						root = y.Args[0]
						continue
					}
					if sel, ok := ast.Unparen(y.Fun).(*ast.SelectorExpr); ok && len(y.Args) == 0 {
						if fn := an.Callee(a.info, y); fn != nil {
							if fld := c14GapGetterField(fn); fld != nil {
								if stored[fld] != "" {
									onStored = true
								}
								root = sel.X
								continue
							}
						}
					}
				}
				break
			}
			if !inPkg && !onStored {
				return true
			}
			sites = append(sites, c14GapSite{a: a, expr: n.(ast.Expr), x: x, shape: c14GapShape(a, n.(ast.Expr))})
			return true
		})
		if len(sites) == 0 {
			continue
		}
		nFns++
		seen := map[string]int{}
		for _, s := range sites {
			nSites++
			construct := f.Name() + "|" + s.shape
			seen[construct]++
			if seen[construct] > 1 {
				construct += fmt.Sprintf("#%d", seen[construct])
			}
			ok, why := c14GapDecideBounds(s)
			if why2, listed := c14GapBoundsOK[f.Name()+"|"+s.shape]; listed && !ok {
				c.CheckTrivial("stored-bounds", construct, s.expr.Pos(), true, "in bounds by a property the local facts cannot express: "+why2)
				continue
			}
			if !ok && !c14GapStrideLoop(a, s.expr) && c14GapStateBlob(a, s.x, cg, 0) {
				if present, pwhy := c14GapPresent(a, s.x, a.g.NodeContaining(s.expr.Pos()), cg, 0); !present {
					c.Check("stored-bounds", construct, s.expr.Pos(), false, "a record read from the contract state is decoded without a presence test: a key that was never written reads as nil / empty and the decoder indexes it ("+pwhy+")")
					continue
				}
				if c14GapDebug() {
					fmt.Fprintf(os.Stderr, "C14GAP bounds codec %s @%s\n", construct, p.Pos(s.expr.Pos()))
				}
				c.CheckTrivial("stored-bounds", construct, s.expr.Pos(), true, "decodes a framed record that only this package's serializer writes: in every caller the operand is the result of a contract-state read (GetData / GetInitialData), never bytes of a transaction; that the reader inverts the writer is C15 codec-agreement")
				continue
			}
			if c14GapDebug() {
				fmt.Fprintf(os.Stderr, "C14GAP bounds %-5v %s @%s :: %s\n", ok, construct, p.Pos(s.expr.Pos()), why)
			}
			c.Check("stored-bounds", construct, s.expr.Pos(), ok, "index / slice expression on a value whose length a transaction's sender (or the stored state) decides is in bounds by a length fact about the same operand that holds on every path: "+why)
		}
	}
	c.Note("stored-bounds: %d index / slice expressions in %d functions (governance packages; types.Vote fields module-wide)", nSites, nFns)
	c.Floor("stored-bounds", 20)
}

func c14GapDecideBounds(s c14GapSite) (bool, string) {
	a := s.a
	node := a.g.NodeContaining(s.expr.Pos())
	if node == nil {
		return false, "cannot locate the expression in the control-flow graph"
	}
	if !a.g.Live(node) {
		return true, "unreachable"
	}
	objs := map[types.Object]bool{}
	xk := a.key(s.x, objs)
	facts := a.factsAt(node)
	if node.Ast != nil {
		a.shortCircuit(node.Ast, s.expr, &facts)
	}
	// a counter that starts at E and is only decremented:  i <= E
	{
		vars := map[types.Object]bool{}
		collect := func(e ast.Expr) {
			if e != nil {
				a.lin(e, vars, 4)
			}
		}
		switch e := s.expr.(type) {
		case *ast.IndexExpr:
			collect(e.Index)
		case *ast.SliceExpr:
			collect(e.Low)
			collect(e.High)
		}
		for o := range vars {
			if f, ok := a.upperBound(o, node); ok {
				facts = append(facts, f)
			}
		}
	}
	// x := make([]T, n)  and never assigned again:  len(x) == n
	if id, ok := ast.Unparen(s.x).(*ast.Ident); ok {
		if o := an.ObjOf(a.info, id); o != nil {
			if rhs, idx := a.g.SingleDef(o); rhs != nil && idx == 0 {
				if call, ok := ast.Unparen(rhs).(*ast.CallExpr); ok && an.IsBuiltin(a.info, call, "make") && len(call.Args) >= 2 {
					mo := map[types.Object]bool{}
					if n, ok := a.lin(call.Args[1], mo, 0); ok && a.allStable(mo) {
						facts = append(facts, c14GapFact{l: c14GapAtom("len:"+xk).add(n, -1), op: token.EQL})
					}
				}
			}
		}
	}
	// strings.Split(s, sep) with a non-empty constant separator has at least one element
	if call, ok := ast.Unparen(s.x).(*ast.CallExpr); ok && xk == "" {
		if nm := an.CalleeName(a.info, call); (nm == "strings.Split" || nm == "strings.SplitN") && len(call.Args) >= 2 {
			if tv, ok := a.info.Types[call.Args[1]]; ok && tv.Value != nil && tv.Value.Kind() == constant.String && constant.StringVal(tv.Value) != "" {
				xk = fmt.Sprintf("split@%d", call.Pos())
				facts = append(facts, c14GapFact{l: c14GapConst(1).add(c14GapAtom("len:"+xk), -1), op: token.LEQ})
			}
		}
	}
	lenX := c14GapLin{}
	if xk != "" {
		lenX = c14GapAtom("len:" + xk)
	}
	// sort.Interface: Less(i, j) / Swap(i, j) are called with 0 <= i, j < Len()
	if ix, ok := s.expr.(*ast.IndexExpr); ok {
		if c14GapSortIndex(a, ix) || c14GapSortSliceIndex(a, ix) {
			return true, "index handed in by package sort (sort.Interface / sort.Slice contract: 0 <= i < Len())"
		}
	}
	need := func(what string, goal c14GapLin, gobjs map[types.Object]bool) (bool, string) {
		if a.prove(goal, facts, gobjs) {
			return true, ""
		}
		return false, what + " is not established by a dominating comparison on this operand"
	}
	switch e := s.expr.(type) {
	case *ast.IndexExpr:
		if xk == "" {
			return false, "the operand is not a variable or field path (its length cannot have been tested)"
		}
		io := map[types.Object]bool{}
		il, ok := a.lin(e.Index, io, 0)
		if !ok {
			return false, "the index is not a linear expression"
		}
		for o := range objs {
			io[o] = true
		}
		if ok, why := need("index < len", il.add(lenX, -1).add(c14GapConst(1), 1), io); !ok {
			return false, why
		}
		if ok, why := need("index >= 0", c14GapConst(0).add(il, -1), io); !ok {
			return false, why
		}
		return true, "index within the tested length"
	case *ast.SliceExpr:
		if e.Low == nil && e.High == nil {
			return true, "full slice"
		}
		io := map[types.Object]bool{}
		for o := range objs {
			io[o] = true
		}
		var lo, hi c14GapLin
		hasLo, hasHi := false, false
		if e.Low != nil {
			l, ok := a.lin(e.Low, io, 0)
			if !ok {
				return false, "the low bound is not a linear expression"
			}
			lo, hasLo = l, true
		}
		if e.High != nil {
			h, ok := a.lin(e.High, io, 0)
			if !ok {
				return false, "the high bound is not a linear expression"
			}
			hi, hasHi = h, true
		}
		if hasHi {
			if xk == "" {
				return false, "the operand is not a variable or field path (its length cannot have been tested)"
			}
			if !a.prove(hi.add(lenX, -1), facts, io) && !c14GapStrideOK(a, e, xk, facts) {
				return false, "high bound <= len is not established by a dominating comparison on this operand"
			}
		}
		if hasLo {
			if hasHi {
				if ok, why := need("low <= high", lo.add(hi, -1), io); !ok {
					return false, why
				}
			} else {
				if xk == "" {
					return false, "the operand is not a variable or field path (its length cannot have been tested)"
				}
				if ok, why := need("low bound <= len", lo.add(lenX, -1), io); !ok {
					return false, why
				}
			}
			if ok, why := need("low >= 0", c14GapConst(0).add(lo, -1), io); !ok {
				return false, why
			}
		}
		return true, "bounds within the tested length"
	}
	return false, "unexpected expression"
}

// c14GapStrideOK:  for v := 0; v < len(X); v += K { X[v+a : v+b] }  with
// b <= K is in bounds when len(X) % K == 0 is known.
func c14GapStrideOK(a *c14GapFn, e *ast.SliceExpr, xk string, facts []c14GapFact) bool {
	var mod int64
	for _, f := range facts {
		if f.mod > 0 && f.mkey == "len:"+xk {
			mod = f.mod
		}
	}
	if mod == 0 {
		return false
	}
	// enclosing for statement
	var loop *ast.ForStmt
	ast.Inspect(a.f.Body, func(n ast.Node) bool {
		if fs, ok := n.(*ast.ForStmt); ok && e.Pos() >= fs.Body.Pos() && e.End() <= fs.Body.End() {
			loop = fs
		}
		return true
	})
	if loop == nil || loop.Init == nil || loop.Cond == nil || loop.Post == nil {
		return false
	}
	init, ok := loop.Init.(*ast.AssignStmt)
	if !ok || len(init.Lhs) != 1 || len(init.Rhs) != 1 {
		return false
	}
	v := an.ObjOf(a.info, init.Lhs[0])
	if z, ok := c14GapIntConst(a.info, init.Rhs[0]); !ok || z != 0 || v == nil {
		return false
	}
	post, ok := loop.Post.(*ast.AssignStmt)
	if !ok || post.Tok != token.ADD_ASSIGN || an.ObjOf(a.info, post.Lhs[0]) != v {
		return false
	}
	if k, ok := c14GapIntConst(a.info, post.Rhs[0]); !ok || k != mod {
		return false
	}
	cond, ok := ast.Unparen(loop.Cond).(*ast.BinaryExpr)
	if !ok || cond.Op != token.LSS || an.ObjOf(a.info, cond.X) != v {
		return false
	}
	if l, ok := a.lin(cond.Y, nil, 0); !ok || len(l.t) != 1 || l.t["len:"+xk] != 1 || l.k != 0 {
		return false
	}
	// v is assigned only by init and post
	cnt := 0
	for _, n := range a.g.Nodes {
		if n.Kind == an.KStmt && n.Ast != nil && an.Assigns(a.info, n.Ast, v) {
			cnt++
		}
	}
	if cnt != 2 {
		return false
	}
	hi, ok := a.lin(e.High, nil, 0)
	if !ok || len(hi.t) != 1 || hi.t[c14GapObjKey(v)] != 1 || hi.k > mod || hi.k < 0 {
		return false
	}
	return true
}

// c14GapSortSliceIndex:  sort.Slice(X, func(i, j int) bool { ... X[i] ... X[j] ... })
func c14GapSortSliceIndex(a *c14GapFn, ix *ast.IndexExpr) bool {
	f := a.f
	if f.Lit == nil || f.Parent == nil || f.Parent.Body == nil {
		return false
	}
	id, ok := ast.Unparen(ix.Index).(*ast.Ident)
	if !ok {
		return false
	}
	o := an.ObjOf(a.info, id)
	if o == nil || !a.g.SingleDefOrParam(o) || (f.ParamObj(0) != o && f.ParamObj(1) != o) {
		return false
	}
	pa := c14GapFnOf(f.Parent)
	if pa == nil {
		return false
	}
	found := false
	ast.Inspect(f.Parent.Body, func(n ast.Node) bool {
		call, ok := n.(*ast.CallExpr)
		if !ok || len(call.Args) != 2 || ast.Unparen(call.Args[1]) != ast.Expr(f.Lit) {
			return true
		}
		switch an.CalleeName(pa.info, call) {
		case "sort.Slice", "sort.SliceStable":
			k1, k2 := pa.key(call.Args[0], nil), a.key(ix.X, nil)
			if k1 != "" && k1 == k2 {
				found = true
			}
		}
		return true
	})
	return found
}

// c14GapStateBlob: the operand is (a slice of) a record read from the contract
// state: the result of ContractState.GetData / GetInitialData (or of the
// dataGetter interface), possibly handed down through []byte parameters by
// every caller.
func c14GapStateBlob(a *c14GapFn, e ast.Expr, cg *an.CallGraph, depth int) bool {
	if depth > 5 {
		return false
	}
	e = ast.Unparen(e)
	switch x := e.(type) {
	case *ast.SliceExpr:
		return c14GapStateBlob(a, x.X, cg, depth)
	case *ast.CallExpr:
		if tv, ok := a.info.Types[x.Fun]; ok && tv.IsType() && len(x.Args) == 1 {
			return c14GapStateBlob(a, x.Args[0], cg, depth)
		}
		if fn := an.Callee(a.info, x); fn != nil && (fn.Name() == "GetData" || fn.Name() == "GetInitialData") {
			return true
		}
		return false
	case *ast.Ident:
		o := an.ObjOf(a.info, x)
		v, ok := o.(*types.Var)
		if !ok || v.IsField() || (v.Pkg() != nil && v.Parent() == v.Pkg().Scope()) {
			return false
		}
		// a parameter: every caller passes a state record
		top := a.f
		for i := 0; ; i++ {
			po := top.ParamObj(i)
			if po == nil {
				break
			}
			if po != o {
				continue
			}
			if !a.g.SingleDefOrParam(o) || cg == nil {
				return false
			}
			n := 0
			for _, ed := range cg.In[top] {
				if ed.Call == nil || ed.Caller == nil || i >= len(ed.Call.Args) {
					if c14GapDebug() {
						fmt.Fprintf(os.Stderr, "C14GAP blob %s: edge without call from %v\n", top.Name(), ed.Caller != nil)
					}
					return false
				}
				ca := c14GapFnOf(ed.Caller)
				if ca == nil || !c14GapStateBlob(ca, ed.Call.Args[i], cg, depth+1) {
					if c14GapDebug() {
						fmt.Fprintf(os.Stderr, "C14GAP blob %s: caller %s passes %s\n", top.Name(), ed.Caller.Name(), an.ExprString(ed.Call.Args[i]))
					}
					return false
				}
				n++
			}
			if n == 0 && c14GapDebug() {
				fmt.Fprintf(os.Stderr, "C14GAP blob %s: no caller\n", top.Name())
			}
			return n > 0
		}
		// a local: every assignment is a state read (or a slice of one)
		n := 0
		good := true
		for _, nd := range a.g.Nodes {
			if nd.Kind != an.KStmt || nd.Ast == nil || !an.Assigns(a.info, nd.Ast, o) {
				continue
			}
			if ds, isDecl := nd.Ast.(*ast.DeclStmt); isDecl {
				// var x []byte  (no value): empty until assigned
				plain := true
				if gd, ok := ds.Decl.(*ast.GenDecl); ok {
					for _, sp := range gd.Specs {
						if vs, ok := sp.(*ast.ValueSpec); ok && len(vs.Values) != 0 {
							plain = false
						}
					}
				}
				if plain {
					continue
				}
			}
			if vs, isSpec := nd.Ast.(*ast.ValueSpec); isSpec && len(vs.Values) == 0 {
				continue // var x []byte
			}
			n++
			as, ok := nd.Ast.(*ast.AssignStmt)
			if !ok {
				good = false
				continue
			}
			for i, l := range as.Lhs {
				if an.ObjOf(a.info, l) != o {
					continue
				}
				var rhs ast.Expr
				if len(as.Rhs) == len(as.Lhs) {
					rhs = as.Rhs[i]
				} else if len(as.Rhs) == 1 && i == 0 {
					rhs = as.Rhs[0]
				}
				if rhs == nil || !c14GapStateBlob(a, rhs, cg, depth+1) {
					good = false
				}
			}
		}
		return good && n > 0
	}
	return false
}

// c14GapPresent: the state record e (a variable) is known to be non-empty at
// node: a dominating len / nil test or loop bound in this function, or — for a
// parameter — at every call site.  A slice cut out of a larger record is not
// tested (its framing is the writer's business).
func c14GapPresent(a *c14GapFn, e ast.Expr, node *an.Node, cg *an.CallGraph, depth int) (bool, string) {
	e = ast.Unparen(e)
	for {
		if call, ok := e.(*ast.CallExpr); ok {
			if tv, ok := a.info.Types[call.Fun]; ok && tv.IsType() && len(call.Args) == 1 {
				e = ast.Unparen(call.Args[0])
				continue
			}
		}
		break
	}
	id, ok := e.(*ast.Ident)
	if !ok {
		return true, "part of a larger record"
	}
	o := an.ObjOf(a.info, id)
	if o == nil || node == nil {
		return false, "operand not resolved"
	}
	objs := map[types.Object]bool{o: true}
	k := a.key(id, objs)
	facts := a.factsAt(node)
	if node.Ast != nil {
		a.shortCircuit(node.Ast, e, &facts)
	}
	a.useNil = true
	got := a.prove(c14GapConst(1).add(c14GapAtom("len:"+k), -1), facts, objs)
	a.useNil = false
	if got {
		return true, ""
	}
	// a local cut out of another record, or another name for a record tested before
	if rhs, idx := a.g.SingleDefInLoop(o); rhs != nil && idx == 0 {
		if _, isSlice := ast.Unparen(rhs).(*ast.SliceExpr); isSlice {
			return true, "part of a larger record"
		}
		if rid, isID := ast.Unparen(rhs).(*ast.Ident); isID && depth <= 4 {
			if ro := an.ObjOf(a.info, rid); ro != nil && ro != o {
				if def := a.g.NodeContaining(rid.Pos()); def != nil {
					return c14GapPresent(a, rid, def, cg, depth+1)
				}
			}
		}
	}
	if depth > 4 || cg == nil {
		return false, an.ExprString(e) + " is not tested in " + a.f.Name()
	}
	for i := 0; ; i++ {
		po := a.f.ParamObj(i)
		if po == nil {
			break
		}
		if po != o {
			continue
		}
		n := 0
		for _, ed := range cg.In[a.f] {
			if ed.Call == nil || ed.Caller == nil || i >= len(ed.Call.Args) {
				return false, "unknown caller of " + a.f.Name()
			}
			ca := c14GapFnOf(ed.Caller)
			if ca == nil {
				return false, "unknown caller of " + a.f.Name()
			}
			if ok, why := c14GapPresent(ca, ed.Call.Args[i], ca.g.NodeContaining(ed.Call.Pos()), cg, depth+1); !ok {
				return false, why
			}
			n++
		}
		if n > 0 {
			return true, ""
		}
	}
	return false, an.ExprString(e) + " is not tested for presence in " + a.f.Name()
}

// c14GapStrideLoop: the slice expression reads a fixed stride of an enclosing
// counting loop ( for v := ..; v < len(X); v += K { X[v : v+K] } ): an
// unframed record, in bounds only if len(X) is a multiple of K.
func c14GapStrideLoop(a *c14GapFn, e ast.Expr) bool {
	se, ok := e.(*ast.SliceExpr)
	if !ok || se.High == nil {
		return false
	}
	stride := false
	ast.Inspect(a.f.Body, func(n ast.Node) bool {
		fs, ok := n.(*ast.ForStmt)
		if !ok || fs.Post == nil || e.Pos() < fs.Body.Pos() || e.End() > fs.Body.End() {
			return true
		}
		post, ok := fs.Post.(*ast.AssignStmt)
		if !ok || post.Tok != token.ADD_ASSIGN || len(post.Lhs) != 1 {
			return true
		}
		if _, isK := c14GapIntConst(a.info, post.Rhs[0]); !isK {
			return true
		}
		v := an.ObjOf(a.info, post.Lhs[0])
		objs := map[types.Object]bool{}
		if _, ok := a.lin(se.High, objs, 0); ok && v != nil && objs[v] {
			stride = true
		}
		return true
	})
	return stride
}

// c14GapSortIndex: x.f[i] in Less / Swap of a type that implements
// sort.Interface, i an unmodified parameter, Len() returning len of the same field.
func c14GapSortIndex(a *c14GapFn, ix *ast.IndexExpr) bool {
	f := a.f
	if f.Decl == nil || f.Decl.Recv == nil || f.Obj == nil {
		return false
	}
	if nm := f.Obj.Name(); nm != "Less" && nm != "Swap" {
		return false
	}
	id, ok := ast.Unparen(ix.Index).(*ast.Ident)
	if !ok {
		return false
	}
	o := an.ObjOf(a.info, id)
	isParam := false
	for i := 0; i < 2; i++ {
		if f.ParamObj(i) == o && o != nil {
			isParam = true
		}
	}
	if !isParam || !a.g.SingleDefOrParam(o) {
		return false
	}
	sig := f.Obj.Type().(*types.Signature)
	recvT := sig.Recv().Type()
	var lenFn *types.Func
	ms := types.NewMethodSet(recvT)
	for _, nm := range []string{"Len", "Less", "Swap"} {
		sel := ms.Lookup(f.Obj.Pkg(), nm)
		if sel == nil {
			return false
		}
		if nm == "Len" {
			lenFn, _ = sel.Obj().(*types.Func)
		}
	}
	lf := f.Prog.FuncOf(lenFn)
	if lf == nil || lf.Body == nil || len(lf.Body.List) != 1 {
		return false
	}
	ret, ok := lf.Body.List[0].(*ast.ReturnStmt)
	if !ok || len(ret.Results) != 1 {
		return false
	}
	call, ok := ast.Unparen(ret.Results[0]).(*ast.CallExpr)
	if !ok || !an.IsBuiltin(lf.Info(), call, "len") {
		return false
	}
	// same field path relative to the receiver
	rel := func(fn *an.Func, e ast.Expr) string {
		var parts []string
		for {
			e = ast.Unparen(e)
			sel, ok := e.(*ast.SelectorExpr)
			if !ok {
				break
			}
			fv := an.FieldOf(fn.Info(), sel)
			if fv == nil {
				return ""
			}
			parts = append(parts, fv.Name())
			e = sel.X
		}
		id, ok := e.(*ast.Ident)
		if !ok || fn.Decl == nil || fn.Decl.Recv == nil || len(fn.Decl.Recv.List) != 1 || len(fn.Decl.Recv.List[0].Names) != 1 {
			return ""
		}
		if fn.Info().Defs[fn.Decl.Recv.List[0].Names[0]] != an.ObjOf(fn.Info(), id) {
			return ""
		}
		return "recv." + strings.Join(parts, ".")
	}
	r1, r2 := rel(f, ix.X), rel(lf, call.Args[0])
	return r1 != "" && r1 == r2
}

// ---------------------------------------------------------------------------
// shapes: structural spelling of an expression with identifiers as objects
// (two occurrences with the same shape and unassigned variables are equal)

func (a *c14GapFn) shape(e ast.Expr, objs map[types.Object]bool) string {
	e = ast.Unparen(e)
	if tv, ok := a.info.Types[e]; ok && tv.Value != nil {
		return "c:" + tv.Value.ExactString()
	}
	switch x := e.(type) {
	case *ast.Ident:
		o := an.ObjOf(a.info, x)
		if o == nil {
			return "?" + x.Name
		}
		if _, isVar := o.(*types.Var); isVar && objs != nil {
			objs[o] = true
		}
		return c14GapObjKey(o)
	case *ast.SelectorExpr:
		if fv := an.FieldOf(a.info, x); fv != nil {
			return a.shape(x.X, objs) + "." + fv.Name()
		}
		if o := a.info.Uses[x.Sel]; o != nil {
			if _, isPkg := a.info.Uses[identOf(x.X)].(*types.PkgName); isPkg {
				return "q:" + an.Rel(o.Pkg().Path()) + "." + o.Name()
			}
			return a.shape(x.X, objs) + ".m:" + o.Name()
		}
	case *ast.StarExpr:
		return "*" + a.shape(x.X, objs)
	case *ast.IndexExpr:
		return a.shape(x.X, objs) + "[" + a.shape(x.Index, objs) + "]"
	case *ast.CallExpr:
		var as []string
		for _, y := range x.Args {
			as = append(as, a.shape(y, objs))
		}
		return "call:" + a.shape(x.Fun, objs) + "(" + strings.Join(as, ",") + ")"
	case *ast.BinaryExpr:
		return "(" + a.shape(x.X, objs) + x.Op.String() + a.shape(x.Y, objs) + ")"
	case *ast.UnaryExpr:
		return x.Op.String() + a.shape(x.X, objs)
	case *ast.SliceExpr:
		return "slice?" + fmt.Sprint(x.Pos())
	}
	return "?" + fmt.Sprint(e.Pos())
}

// ---------------------------------------------------------------------------
// loop totality: every iteration of the loop performs the step (a vertex of
// steps) before the next iteration starts, the loop is left by break, or the
// function returns a result that may be a success

// c14GapLoopHead returns the condition vertex of a for / range statement and
// its continue-edge (the edge into the body).
func (a *c14GapFn) loopHead(loop ast.Stmt) (head, into *an.Node) {
	switch l := loop.(type) {
	case *ast.RangeStmt:
		// go/cfg: operand, key and value are evaluated before the (empty) loop block
		for _, n := range a.g.Nodes {
			if n.Kind == an.KHead && n.Block != nil && n.Block.Kind == cfg.KindRangeLoop && n.Block.Stmt == ast.Stmt(l) {
				head = n
			}
		}
	case *ast.ForStmt:
		if l.Cond != nil {
			head = a.g.NodeOf(l.Cond)
		}
	}
	if head == nil {
		return nil, nil
	}
	for _, s := range head.Succs {
		if s.Kind == an.KTrue {
			into = s
		}
	}
	return head, into
}

func (a *c14GapFn) loopTotal(loop ast.Stmt, steps an.Set) (bool, string) {
	head, into := a.loopHead(loop)
	if head == nil || into == nil {
		return false, "loop shape not recognised"
	}
	var body *ast.BlockStmt
	switch l := loop.(type) {
	case *ast.RangeStmt:
		body = l.Body
	case *ast.ForStmt:
		body = l.Body
	}
	avoid := an.Set{}
	for n := range steps {
		avoid[n] = true
	}
	reach := a.g.Reach([]*an.Node{into}, avoid)
	if reach[head] {
		return false, "an iteration can reach the next one without the step (continue / conditional step)"
	}
	nilRet := map[*an.Node]bool{}
	for _, r := range a.g.NilReturns() {
		nilRet[r] = true
	}
	for n := range reach {
		if n.Kind != an.KStmt || n.Ast == nil {
			continue
		}
		inBody := n.Ast.Pos() >= body.Pos() && n.Ast.End() <= body.End()
		if !inBody {
			return false, "the loop can be left (break) before the step of the current element"
		}
		if nilRet[n] {
			return false, "the function can return a success result from inside the loop before the step"
		}
	}
	return true, ""
}

// ---------------------------------------------------------------------------
// rule tally-total: the tally map of a vote result holds an entry for every
// candidate that ever received a vote — every stored ranking entry is loaded
// into it, every entry of it is stored again.  SubVote relies on it
// (rule big-nil).

type c14GapTotal struct {
	ok   bool
	why  []string
	done bool
}

var c14GapTallyState = map[*rep.Ctx]*c14GapTotal{}

func c14GapTallyTotal(c *rep.Ctx) { c14GapTally(c) }

func c14GapTally(c *rep.Ctx) *c14GapTotal {
	if t := c14GapTallyState[c]; t != nil {
		return t
	}
	t := &c14GapTotal{ok: true}
	c14GapTallyState[c] = t
	p := c.Prog
	rmap := p.LookupField("contract/system", "VoteResult", "rmap")
	votes := p.LookupField("types", "VoteList", "Votes")
	if rmap == nil || votes == nil {
		c.Undecide("tally-total", "contract/system.VoteResult.rmap", "field not found")
		t.ok = false
		return t
	}
	fail := func(key string, pos token.Pos, ok bool, msg string) {
		if !ok {
			t.ok = false
			t.why = append(t.why, key)
		}
		c.Check("tally-total", key, pos, ok, msg)
	}
	// assignment vertices  X.rmap[...] = ...
	rmapStores := func(a *c14GapFn) an.Set {
		out := an.Set{}
		for _, n := range a.g.Nodes {
			if n.Kind != an.KStmt {
				continue
			}
			as, ok := n.Ast.(*ast.AssignStmt)
			if !ok {
				continue
			}
			for _, l := range as.Lhs {
				if ix, ok := ast.Unparen(l).(*ast.IndexExpr); ok && an.FieldOf(a.info, ix.X) == rmap {
					out[n] = true
				}
			}
		}
		return out
	}
	// vertices  V = append(V, ...)  for the given variable / field
	appends := func(a *c14GapFn, isTarget func(e ast.Expr) bool) an.Set {
		out := an.Set{}
		for _, n := range a.g.Nodes {
			if n.Kind != an.KStmt {
				continue
			}
			as, ok := n.Ast.(*ast.AssignStmt)
			if !ok || len(as.Lhs) != 1 || len(as.Rhs) != 1 || !isTarget(as.Lhs[0]) {
				continue
			}
			call, ok := ast.Unparen(as.Rhs[0]).(*ast.CallExpr)
			if ok && an.IsBuiltin(a.info, call, "append") && len(call.Args) >= 2 && isTarget(call.Args[0]) {
				out[n] = true
			}
		}
		return out
	}
	loopsOf := func(a *c14GapFn, want func(l ast.Stmt) bool) []ast.Stmt {
		var out []ast.Stmt
		an.InspectShallow(a.f.Body, func(n ast.Node) bool {
			switch l := n.(type) {
			case *ast.RangeStmt:
				if want(l) {
					out = append(out, l)
				}
			case *ast.ForStmt:
				if want(l) {
					out = append(out, l)
				}
			}
			return true
		})
		return out
	}
	within := func(l ast.Stmt, set an.Set) bool {
		for n := range set {
			if n.Ast.Pos() >= l.Pos() && n.Ast.End() <= l.End() {
				return true
			}
		}
		return false
	}
	innermost := func(ls []ast.Stmt) []ast.Stmt {
		var out []ast.Stmt
		for _, l := range ls {
			inner := false
			for _, m := range ls {
				if m != l && m.Pos() >= l.Pos() && m.End() <= l.End() {
					inner = true
				}
			}
			if !inner {
				out = append(out, l)
			}
		}
		return out
	}

	// T1: loadVoteResult puts every entry of the stored ranking into the map
	if f := c.Fn("contract/system.loadVoteResult"); f != nil {
		a := c14GapFnOf(f)
		stores := rmapStores(a)
		loops := innermost(loopsOf(a, func(l ast.Stmt) bool { return within(l, stores) }))
		if len(stores) == 0 || len(loops) != 1 {
			c.Undecide("tally-total", "contract/system.loadVoteResult|load-loop", "the loop that fills the tally map from the stored ranking was not found")
			t.ok = false
		} else {
			ok, why := a.loopTotal(loops[0], stores)
			fail("contract/system.loadVoteResult|every-entry-loaded", loops[0].Pos(), ok, "every entry of the stored ranking (zero tallies included) is put into the tally map: VoteResult.SubVote subtracts from the entry of every candidate named in a voter's stored record without a nil test "+why)
			// the loop runs over the whole decoded list
			rs, isRange := loops[0].(*ast.RangeStmt)
			whole := false
			if isRange {
				x := ast.Unparen(rs.X)
				if call, ok := x.(*ast.CallExpr); ok {
					if sel, ok := ast.Unparen(call.Fun).(*ast.SelectorExpr); ok && len(call.Args) == 0 {
						x = sel.X
					}
				} else if sel, ok := x.(*ast.SelectorExpr); ok && an.FieldOf(a.info, sel) == votes {
					x = sel.X
				}
				if o := an.ObjOf(a.info, x); o != nil {
					if rhs, _ := a.g.SingleDef(o); rhs != nil {
						if call, ok := ast.Unparen(rhs).(*ast.CallExpr); ok && an.CalleeName(a.info, call) == "contract/system.deserializeVoteList" {
							whole = true
						}
					}
				}
			}
			fail("contract/system.loadVoteResult|whole-list", loops[0].Pos(), whole, "the load loop ranges over the complete list decoded by deserializeVoteList (not a prefix or a filtered copy)")
			// the loop is skipped only where nothing is stored
			head, _ := a.loopHead(loops[0])
			gates := an.Set{}
			if head != nil {
				gates[head] = true
				if isRange {
					if n := a.g.NodeOf(rs.X); n != nil {
						gates[n] = true
					}
				}
			}
			for _, n := range a.g.Nodes {
				if n.Kind != an.KTrue && n.Kind != an.KFalse {
					continue
				}
				cond, ok := n.Ast.(ast.Expr)
				if !ok {
					continue
				}
				var ls []c14GapFact
				a.leaves(cond, n.Kind == an.KTrue, &ls, n)
				for _, l := range ls {
					// len(data) == 0  /  len(data) <= 0
					if l.mod == 0 && len(l.l.t) == 1 && l.l.k == 0 {
						for at, cf := range l.l.t {
							if strings.HasPrefix(at, "len:") && ((cf == 1 && (l.op == token.EQL || l.op == token.LEQ)) || (cf == -1 && (l.op == token.EQL || l.op == token.GEQ))) {
								gates[n] = true
							}
						}
					}
				}
				// X == nil for the decoded list
				if be, ok := ast.Unparen(cond).(*ast.BinaryExpr); ok && (be.Op == token.EQL || be.Op == token.NEQ) {
					for _, pr := range [][2]ast.Expr{{be.X, be.Y}, {be.Y, be.X}} {
						if tv, ok := a.info.Types[pr[1]]; ok && tv.IsNil() {
							if _, isPtr := a.info.TypeOf(pr[0]).Underlying().(*types.Pointer); isPtr {
								if (be.Op == token.EQL) == (n.Kind == an.KTrue) {
									gates[n] = true
								}
							}
						}
					}
				}
			}
			skipped := false
			reach := a.g.Reach([]*an.Node{a.g.Entry}, gates)
			for _, r := range a.g.NilReturns() {
				if reach[r] {
					skipped = true
				}
			}
			fail("contract/system.loadVoteResult|load-not-skipped", loops[0].Pos(), !skipped, "a vote result is returned without running the load loop only where the stored ranking is empty")
		}
	} else {
		t.ok = false
	}

	// T2: buildVoteList emits one entry per key of the map
	if f := c.Fn("contract/system.(*VoteResult).buildVoteList"); f != nil {
		a := c14GapFnOf(f)
		var ranges []ast.Stmt
		an.InspectShallow(f.Body, func(n ast.Node) bool {
			if rs, ok := n.(*ast.RangeStmt); ok && an.FieldOf(a.info, rs.X) == rmap {
				ranges = append(ranges, rs)
			}
			return true
		})
		app := appends(a, func(e ast.Expr) bool { return an.FieldOf(a.info, e) == votes })
		if len(ranges) != 1 || len(app) == 0 {
			c.Undecide("tally-total", "contract/system.(*VoteResult).buildVoteList|emit-loop", "the loop over the tally map that builds the ranking was not found")
			t.ok = false
		} else {
			ok, why := a.loopTotal(ranges[0], app)
			fail("contract/system.(*VoteResult).buildVoteList|every-entry-emitted", ranges[0].Pos(), ok, "the ranking built for storage has one entry per key of the tally map (zero tallies included): a candidate dropped here is missing from the map after the next load while voters' records still name it "+why)
		}
	} else {
		t.ok = false
	}

	// T3 / T4: the list codec keeps every entry
	for _, spec := range []string{"contract/system.serializeVoteList", "contract/system.deserializeVoteList"} {
		f := c.Fn(spec)
		if f == nil {
			t.ok = false
			continue
		}
		a := c14GapFnOf(f)
		// the variable (or field of it) that is returned
		var retObjs []types.Object
		for _, r := range a.g.Returns() {
			rs := r.Ast.(*ast.ReturnStmt)
			if len(rs.Results) == 1 {
				if o := an.ObjOf(a.info, rs.Results[0]); o != nil {
					retObjs = append(retObjs, o)
				}
			}
		}
		isTarget := func(e ast.Expr) bool {
			e = ast.Unparen(e)
			if sel, ok := e.(*ast.SelectorExpr); ok {
				e = sel.X
			}
			o := an.ObjOf(a.info, e)
			for _, r := range retObjs {
				if r == o && o != nil {
					return true
				}
			}
			return false
		}
		app := appends(a, isTarget)
		loops := innermost(loopsOf(a, func(l ast.Stmt) bool { return within(l, app) }))
		if len(app) == 0 || len(loops) != 1 {
			c.Undecide("tally-total", spec+"|loop", "the loop that copies the entries was not found")
			t.ok = false
			continue
		}
		inLoop := an.Set{}
		for n := range app {
			if n.Ast.Pos() >= loops[0].Pos() && n.Ast.End() <= loops[0].End() {
				inLoop[n] = true
			}
		}
		ok, why := a.loopTotal(loops[0], inLoop)
		fail(spec+"|every-entry-kept", loops[0].Pos(), ok, "the ranking codec writes / reads back every entry of the list "+why)
	}

	// T5: Sync stores the complete ranking built from the map on every successful exit
	if f := c.Fn("contract/system.(*VoteResult).Sync"); f != nil {
		a := c14GapFnOf(f)
		isStore := func(n ast.Node) bool {
			found := false
			ast.Inspect(n, func(m ast.Node) bool {
				call, ok := m.(*ast.CallExpr)
				if !ok || len(call.Args) != 2 {
					return true
				}
				fn := an.Callee(a.info, call)
				if fn == nil || fn.Name() != "SetData" {
					return true
				}
				k, ok := ast.Unparen(call.Args[0]).(*ast.CallExpr)
				if !ok || an.CalleeName(a.info, k) != "types/dbkey.SystemVoteSort" {
					return true
				}
				v, ok := ast.Unparen(call.Args[1]).(*ast.CallExpr)
				if !ok || an.CalleeName(a.info, v) != "contract/system.serializeVoteList" || len(v.Args) < 1 {
					return true
				}
				src := ast.Unparen(v.Args[0])
				if o := an.ObjOf(a.info, src); o != nil {
					if rhs, _ := a.g.SingleDef(o); rhs != nil {
						src = ast.Unparen(rhs)
					}
				}
				if bc, ok := src.(*ast.CallExpr); ok && an.CalleeName(a.info, bc) == "contract/system.(*VoteResult).buildVoteList" {
					found = true
				}
				return true
			})
			return found
		}
		stores := an.Set{}
		for _, n := range a.g.Nodes {
			if n.Kind == an.KStmt && n.Ast != nil && isStore(n.Ast) {
				stores[n] = true
			}
		}
		ok := len(stores) > 0
		for _, r := range a.g.NilReturns() {
			if !stores[r] && !a.g.Dominated(r, stores) {
				ok = false
			}
		}
		fail("contract/system.(*VoteResult).Sync|stores-whole-ranking", f.Pos(), ok, "every exit of Sync that can report success has stored serializeVoteList(buildVoteList()) under the ranking key: the next load sees every key of the map")
	} else {
		t.ok = false
	}
	c.Floor("tally-total", 6)
	t.done = true
	return t
}

// ---------------------------------------------------------------------------
// rule big-nil: m[k] with m a map to *big.Int, used as receiver or operand of
// big.Int arithmetic, is nil for a missing key

// c14GapTotalMaps: maps whose lookups may rely on totality (rule tally-total)
// (only a debit — the minuend of big.Int.Sub — may rely on it: the entry it
// takes from was credited before; every other use meets keys for the first time)
var c14GapTotalMaps = map[string]string{
	"contract/system.VoteResult.rmap": "every candidate named in a stored vote record has an entry: AddVote creates it, Sync stores all entries, loadVoteResult loads all entries (rule tally-total)",
}

func c14GapIsBigPtr(t types.Type) bool {
	p, ok := t.(*types.Pointer)
	if !ok {
		return false
	}
	n, ok := p.Elem().(*types.Named)
	return ok && n.Obj().Pkg() != nil && n.Obj().Pkg().Path() == "math/big" && n.Obj().Name() == "Int"
}

func c14GapBigNil(c *rep.Ctx) {
	p := c.Prog
	n := 0
	for _, f := range c14GapAllFuncs(p) {
		if !c14GapInPkgs(f) {
			continue
		}
		a := c14GapFnOf(f)
		if a == nil {
			continue
		}
		// lookups:  m[k]  with value type *big.Int, not on the left of an assignment
		lhs := map[ast.Expr]bool{}
		an.InspectShallow(f.Body, func(nd ast.Node) bool {
			if as, ok := nd.(*ast.AssignStmt); ok {
				for _, l := range as.Lhs {
					lhs[ast.Unparen(l)] = true
				}
			}
			return true
		})
		type use struct {
			ix    *ast.IndexExpr
			at    ast.Node // where the value is dereferenced
			how   string
			debit bool // minuend of big.Int.Sub: taking back what was credited before
		}
		var uses []use
		isLookup := func(e ast.Expr) *ast.IndexExpr {
			ix, ok := ast.Unparen(e).(*ast.IndexExpr)
			if !ok || lhs[ix] {
				return nil
			}
			m, ok := a.info.TypeOf(ix.X).Underlying().(*types.Map)
			if !ok || !c14GapIsBigPtr(m.Elem()) {
				return nil
			}
			return ix
		}
		// a value expression that is a lookup, or a local defined once by a lookup
		resolve := func(e ast.Expr) *ast.IndexExpr {
			if ix := isLookup(e); ix != nil {
				return ix
			}
			if id, ok := ast.Unparen(e).(*ast.Ident); ok {
				if o := an.ObjOf(a.info, id); o != nil {
					if v, isVar := o.(*types.Var); isVar && !v.IsField() && v.Pkg() != nil && v.Parent() != v.Pkg().Scope() {
						if rhs, idx := a.g.SingleDefInLoop(o); rhs != nil && idx == 0 {
							return isLookup(rhs)
						}
					}
				}
			}
			return nil
		}
		an.InspectShallow(f.Body, func(nd ast.Node) bool {
			call, ok := nd.(*ast.CallExpr)
			if !ok {
				return true
			}
			fn := an.Callee(a.info, call)
			if fn == nil || fn.Pkg() == nil || fn.Pkg().Path() != "math/big" {
				// a method called on the value itself
				return true
			}
			if sel, ok := ast.Unparen(call.Fun).(*ast.SelectorExpr); ok {
				if ix := resolve(sel.X); ix != nil {
					uses = append(uses, use{ix, call, "receiver of " + fn.Name(), false})
				}
			}
			for i, arg := range call.Args {
				if ix := resolve(arg); ix != nil {
					uses = append(uses, use{ix, call, "operand of big.Int." + fn.Name(), fn.Name() == "Sub" && i == 0})
				}
			}
			return true
		})
		seen := map[string]int{}
		for _, u := range uses {
			n++
			fv := an.FieldOf(a.info, u.ix.X)
			mapName := an.ExprString(u.ix.X)
			if fv != nil {
				if owner := c14GapOwnerOf(p, fv); owner != "" {
					mapName = owner + "." + fv.Name()
				}
			} else if o := an.ObjOf(a.info, u.ix.X); o != nil && o.Pkg() != nil {
				mapName = an.Rel(o.Pkg().Path()) + "." + o.Name()
			}
			construct := f.Name() + "|" + mapName + "|" + u.how
			seen[construct]++
			if seen[construct] > 1 {
				construct += fmt.Sprintf("#%d", seen[construct])
			}
			target := a.g.NodeContaining(u.at.Pos())
			if target == nil {
				c.Undecide("big-nil", construct, "cannot locate the use in the control-flow graph")
				continue
			}
			// local guard:  m[k] != nil  edge, or  m[k] = <fresh value>  on every path
			objs := map[types.Object]bool{}
			want := a.shape(u.ix, objs)
			gates := an.Set{}
			for _, nd := range a.g.Nodes {
				switch nd.Kind {
				case an.KTrue, an.KFalse:
					cond, ok := nd.Ast.(ast.Expr)
					if !ok {
						continue
					}
					if c14GapNonNilOn(a, cond, nd.Kind == an.KTrue, want) {
						gates[nd] = true
					}
				case an.KStmt:
					as, ok := nd.Ast.(*ast.AssignStmt)
					if !ok || len(as.Lhs) != len(as.Rhs) {
						continue
					}
					for i, l := range as.Lhs {
						if a.shape(l, nil) == want && c14GapFreshBig(a, as.Rhs[i]) {
							gates[nd] = true
						}
					}
				}
			}
			guarded := false
			if len(gates) > 0 && a.g.Dominated(target, gates) {
				guarded = true
				for gt := range gates {
					if !a.g.Reach([]*an.Node{gt}, nil)[target] {
						continue
					}
					reg := a.regionSet(gt, gates, target)
					if a.assignedIn(reg, objs, nil) {
						guarded = false
					}
					// another store to the same map entry that is not a fresh value
					for m := range reg {
						if as, ok := m.Ast.(*ast.AssignStmt); ok && m.Kind == an.KStmt && !gates[m] {
							for _, l := range as.Lhs {
								if a.shape(l, nil) == want {
									guarded = false
								}
							}
						}
					}
				}
			}
			if guarded {
				c.Check("big-nil", construct, u.at.Pos(), true, "the looked-up *big.Int is tested against nil (or freshly stored under the same key) on every path before it is used as "+u.how)
				continue
			}
			why, listed := c14GapTotalMaps[mapName]
			if !listed || !u.debit {
				c.Check("big-nil", construct, u.at.Pos(), false, "a *big.Int looked up in a map is used as "+u.how+" without a nil test: a missing key yields nil and big.Int arithmetic dereferences it (panic in block execution)")
				continue
			}
			t := c14GapTally(c)
			c.Check("big-nil", construct, u.at.Pos(), t.ok, "no nil test before the use as "+u.how+"; relies on the map being total — "+why+" "+strings.Join(t.why, ", "))
		}
	}
	c.Note("big-nil: %d uses of map-looked-up *big.Int values in big.Int arithmetic in the governance packages", n)
	c.Floor("big-nil", 3)
}

func c14GapOwnerOf(p *an.Prog, fv *types.Var) string {
	if fv.Pkg() == nil {
		return ""
	}
	sc := fv.Pkg().Scope()
	for _, nm := range sc.Names() {
		tn, ok := sc.Lookup(nm).(*types.TypeName)
		if !ok {
			continue
		}
		st, ok := tn.Type().Underlying().(*types.Struct)
		if !ok {
			continue
		}
		for i := 0; i < st.NumFields(); i++ {
			if st.Field(i) == fv {
				return an.Rel(fv.Pkg().Path()) + "." + nm
			}
		}
	}
	return ""
}

// the condition having value val implies  <want> != nil
func c14GapNonNilOn(a *c14GapFn, cond ast.Expr, val bool, want string) bool {
	cond = ast.Unparen(cond)
	switch x := cond.(type) {
	case *ast.UnaryExpr:
		if x.Op == token.NOT {
			return c14GapNonNilOn(a, x.X, !val, want)
		}
	case *ast.BinaryExpr:
		switch x.Op {
		case token.LAND:
			if val {
				return c14GapNonNilOn(a, x.X, true, want) || c14GapNonNilOn(a, x.Y, true, want)
			}
		case token.LOR:
			if !val {
				return c14GapNonNilOn(a, x.X, false, want) || c14GapNonNilOn(a, x.Y, false, want)
			}
		case token.EQL, token.NEQ:
			for _, pr := range [][2]ast.Expr{{x.X, x.Y}, {x.Y, x.X}} {
				if tv, ok := a.info.Types[pr[1]]; ok && tv.IsNil() && a.shape(pr[0], nil) == want {
					return (x.Op == token.NEQ) == val
				}
			}
		}
	}
	return false
}

// new(big.Int)...., big.NewInt(..), a call result of a math/big method chain on a fresh value
func c14GapFreshBig(a *c14GapFn, e ast.Expr) bool {
	e = ast.Unparen(e)
	call, ok := e.(*ast.CallExpr)
	if !ok {
		return false
	}
	if an.IsBuiltin(a.info, call, "new") {
		return true
	}
	fn := an.Callee(a.info, call)
	if fn == nil || fn.Pkg() == nil || fn.Pkg().Path() != "math/big" {
		return false
	}
	if fn.Name() == "NewInt" {
		return true
	}
	if sel, ok := ast.Unparen(call.Fun).(*ast.SelectorExpr); ok {
		// methods that return their receiver
		switch fn.Name() {
		case "Set", "SetUint64", "SetInt64", "SetBytes", "Add", "Sub", "Mul", "Neg", "Abs":
			return c14GapFreshBig(a, sel.X)
		}
	}
	return false
}

// ---------------------------------------------------------------------------
// rule divisor: a division in the governance packages has a divisor that
// cannot be zero

func c14GapDivisor(c *rep.Ctx) {
	p := c.Prog
	n := 0
	for _, f := range c14GapAllFuncs(p) {
		if !c14GapInPkgs(f) || (f.File != nil && ast.IsGenerated(f.File)) {
			continue
		}
		a := c14GapFnOf(f)
		if a == nil {
			continue
		}
		type site struct {
			at   ast.Expr
			div  ast.Expr
			what string
			big  bool
		}
		var sites []site
		an.InspectShallow(f.Body, func(nd ast.Node) bool {
			switch x := nd.(type) {
			case *ast.CallExpr:
				fn := an.Callee(a.info, x)
				if fn == nil || fn.Pkg() == nil || fn.Pkg().Path() != "math/big" {
					return true
				}
				switch fn.Name() {
				case "Div", "Quo", "Mod", "Rem", "DivMod", "QuoRem":
					if len(x.Args) >= 2 {
						sites = append(sites, site{x, x.Args[1], "big.Int." + fn.Name(), true})
					}
				}
			case *ast.BinaryExpr:
				if x.Op == token.QUO || x.Op == token.REM {
					if b, ok := a.info.TypeOf(x).Underlying().(*types.Basic); ok && b.Info()&types.IsInteger != 0 {
						if _, isConst := c14GapIntConst(a.info, x.Y); !isConst {
							sites = append(sites, site{x, x.Y, "integer " + x.Op.String(), false})
						}
					}
				}
			case *ast.AssignStmt:
				if (x.Tok == token.QUO_ASSIGN || x.Tok == token.REM_ASSIGN) && len(x.Rhs) == 1 {
					if _, isConst := c14GapIntConst(a.info, x.Rhs[0]); !isConst {
						sites = append(sites, site{x.Rhs[0], x.Rhs[0], "integer " + x.Tok.String(), false})
					}
				}
			}
			return true
		})
		seen := map[string]int{}
		for _, s := range sites {
			n++
			construct := f.Name() + "|" + s.what + "|" + an.ExprString(s.div)
			seen[construct]++
			if seen[construct] > 1 {
				construct += fmt.Sprintf("#%d", seen[construct])
			}
			ok, why := c14GapNonZero(a, s.at, s.div, s.big)
			c.Check("divisor", construct, s.at.Pos(), ok, "the divisor of "+s.what+" cannot be zero (division by zero panics in block execution): "+why)
		}
	}
	c.Note("divisor: %d divisions with a non-constant or big.Int divisor in the governance packages", n)
	c.Floor("divisor", 1)
}

func c14GapNonZero(a *c14GapFn, at ast.Expr, div ast.Expr, big bool) (bool, string) {
	div = ast.Unparen(div)
	if big {
		// big.NewInt(k) / new(big.Int).SetUint64(k) with k != 0
		if call, ok := div.(*ast.CallExpr); ok {
			fn := an.Callee(a.info, call)
			if fn != nil && fn.Pkg() != nil && fn.Pkg().Path() == "math/big" && len(call.Args) == 1 {
				switch fn.Name() {
				case "NewInt", "SetUint64", "SetInt64":
					if k, ok := c14GapIntConst(a.info, call.Args[0]); ok {
						if k != 0 {
							return true, "constant " + fmt.Sprint(k)
						}
						return false, "constant zero"
					}
				}
			}
			return false, "the divisor is a computed value that is not tested against zero"
		}
	}
	o := an.ObjOf(a.info, div)
	if o == nil {
		return false, "the divisor is not a variable that was tested against zero"
	}
	target := a.g.NodeContaining(at.Pos())
	if target == nil {
		return false, "cannot locate the division"
	}
	// a dominating test of the same variable:  d.Sign() != 0 / > 0 ,  d.Cmp(zero) != 0 / > 0 ,  d != 0 / > 0
	gates := an.Set{}
	for _, nd := range a.g.Nodes {
		if nd.Kind != an.KTrue && nd.Kind != an.KFalse {
			continue
		}
		cond, ok := nd.Ast.(ast.Expr)
		if !ok {
			continue
		}
		if c14GapNonZeroOn(a, cond, nd.Kind == an.KTrue, o) {
			gates[nd] = true
		}
	}
	if len(gates) == 0 || !a.g.Dominated(target, gates) {
		return false, "no dominating test of the divisor against zero"
	}
	for gt := range gates {
		if a.g.Reach([]*an.Node{gt}, nil)[target] && a.assignedIn(a.region(gt, target), map[types.Object]bool{o: true}, nil) {
			return false, "the divisor is assigned after the test"
		}
	}
	return true, "tested against zero on every path"
}

func c14GapNonZeroOn(a *c14GapFn, cond ast.Expr, val bool, o types.Object) bool {
	cond = ast.Unparen(cond)
	switch x := cond.(type) {
	case *ast.UnaryExpr:
		if x.Op == token.NOT {
			return c14GapNonZeroOn(a, x.X, !val, o)
		}
	case *ast.BinaryExpr:
		switch x.Op {
		case token.LAND:
			if val {
				return c14GapNonZeroOn(a, x.X, true, o) || c14GapNonZeroOn(a, x.Y, true, o)
			}
			return false
		case token.LOR:
			if !val {
				return c14GapNonZeroOn(a, x.X, false, o) || c14GapNonZeroOn(a, x.Y, false, o)
			}
			return false
		case token.EQL, token.NEQ, token.GTR, token.LSS, token.GEQ, token.LEQ:
			op := x.Op
			if !val {
				op = c14GapNegOp(op)
			}
			for _, pr := range [][2]ast.Expr{{x.X, x.Y}, {x.Y, x.X}} {
				z, isZ := c14GapIntConst(a.info, pr[1])
				if !isZ || z != 0 {
					op = c14GapFlipOp(op)
					continue
				}
				subj := ast.Unparen(pr[0])
				isSubj := false
				if an.ObjOf(a.info, subj) == o {
					isSubj = true
				} else if call, ok := subj.(*ast.CallExpr); ok {
					switch an.CalleeName(a.info, call) {
					case "math/big.(*Int).Sign":
						isSubj = recvObj(a.info, call) == o
					case "math/big.(*Int).Cmp":
						if recvObj(a.info, call) == o && len(call.Args) == 1 && c14GapZeroBig(a, call.Args[0]) {
							isSubj = true
						}
					}
				}
				if isSubj {
					// subj op 0 : non-zero when op is !=, >, <
					return op == token.NEQ || op == token.GTR || op == token.LSS
				}
				op = c14GapFlipOp(op)
			}
		}
	}
	return false
}

func c14GapFlipOp(op token.Token) token.Token {
	switch op {
	case token.LSS:
		return token.GTR
	case token.GTR:
		return token.LSS
	case token.LEQ:
		return token.GEQ
	case token.GEQ:
		return token.LEQ
	}
	return op
}

func c14GapZeroBig(a *c14GapFn, e ast.Expr) bool {
	if c01IsZeroBig(a.info, e) {
		return true
	}
	if o := an.ObjOf(a.info, e); o != nil {
		if v, ok := o.(*types.Var); ok && v.Pkg() != nil && v.Parent() == v.Pkg().Scope() && (v.Name() == "zeroValue" || v.Name() == "zeroBig") {
			return true
		}
	}
	return false
}

// ---------------------------------------------------------------------------
// rule ctx-args: the enterprise validator copies the checked arguments into
// EnterpriseContext.Args / ArgsAny and the executor (and the validator itself)
// index them with constants.  Decided by counting: the number of elements
// appended on every path of the validator's arm for a command is at least what
// the consumers of that command index.

func c14GapCtxArgs(c *rep.Ctx) {
	p := c.Prog
	val := c.Fn("contract/enterprise.ValidateEnterpriseTx")
	exe := c.Fn("contract/enterprise.ExecuteEnterpriseTx")
	chk := c.Fn("contract/enterprise.checkArgs")
	fields := map[*types.Var]string{}
	for _, nm := range []string{"Args", "ArgsAny"} {
		if f := p.LookupField("contract/enterprise", "EnterpriseContext", nm); f != nil {
			fields[f] = nm
		}
	}
	fArgs := p.LookupField("types", "CallInfo", "Args")
	fName := p.LookupField("types", "CallInfo", "Name")
	fCall := p.LookupField("contract/enterprise", "EnterpriseContext", "Call")
	if val == nil || exe == nil || chk == nil {
		return
	}
	if len(fields) != 2 || fArgs == nil || fName == nil || fCall == nil {
		c.Undecide("ctx-args", "contract/enterprise.EnterpriseContext", "fields not found")
		return
	}
	va, ca := c14GapFnOf(val), c14GapFnOf(chk)

	// --- checkArgs appends one element per element of ci.Args, or fails
	chkTotal := false
	{
		var loop *ast.RangeStmt
		an.InspectShallow(chk.Body, func(n ast.Node) bool {
			if rs, ok := n.(*ast.RangeStmt); ok && an.FieldOf(ca.info, rs.X) == fArgs {
				if loop != nil {
					loop = nil
					return false
				}
				loop = rs
			}
			return true
		})
		steps := an.Set{}
		other := false
		for _, n := range ca.g.Nodes {
			if n.Kind != an.KStmt {
				continue
			}
			as, ok := n.Ast.(*ast.AssignStmt)
			if !ok {
				continue
			}
			for i, l := range as.Lhs {
				fv := an.FieldOf(ca.info, l)
				if fields[fv] != "Args" {
					continue
				}
				call, isCall := ast.Unparen(as.Rhs[min(i, len(as.Rhs)-1)]).(*ast.CallExpr)
				if isCall && an.IsBuiltin(ca.info, call, "append") && len(call.Args) == 2 && !call.Ellipsis.IsValid() && an.FieldOf(ca.info, call.Args[0]) == fv &&
					loop != nil && n.Ast.Pos() >= loop.Body.Pos() && n.Ast.End() <= loop.Body.End() {
					steps[n] = true
				} else {
					other = true
				}
			}
		}
		if loop == nil || len(steps) == 0 {
			c.Undecide("ctx-args", "contract/enterprise.checkArgs|copy-loop", "the loop that copies the arguments into the context was not found")
			return
		}
		ok, why := ca.loopTotal(loop, steps)
		// success only after the loop has run to its end
		head, _ := ca.loopHead(loop)
		gates := an.Set{}
		for _, s := range head.Succs {
			if s.Kind == an.KFalse {
				gates[s] = true
			}
		}
		for _, r := range ca.g.NilReturns() {
			if !ca.g.Dominated(r, gates) {
				ok, why = false, "checkArgs can report success before the copy loop has finished"
			}
		}
		if other {
			ok, why = false, "the context's Args are written outside the copy loop"
		}
		chkTotal = ok
		c.Check("ctx-args", "contract/enterprise.checkArgs|one-per-argument", loop.Pos(), ok, "checkArgs appends exactly one element to the context's Args for every element of the payload's argument list or fails: the context then has as many arguments as the payload "+why)
	}

	// --- weights of the validator's vertices
	ctxObj := func(a *c14GapFn, e ast.Expr) types.Object {
		sel, ok := ast.Unparen(e).(*ast.SelectorExpr)
		if !ok {
			return nil
		}
		return an.ObjOf(a.info, sel.X)
	}
	undecWhy := []string{}
	undec := false
	weight := func(a *c14GapFn, n *an.Node, fld string) int {
		if n.Kind != an.KStmt || n.Ast == nil {
			return 0
		}
		w := 0
		an.InspectShallow(n.Ast, func(m ast.Node) bool {
			switch s := m.(type) {
			case *ast.AssignStmt:
				for i, l := range s.Lhs {
					fv := an.FieldOf(a.info, l)
					if fields[fv] != fld {
						continue
					}
					if len(s.Lhs) != len(s.Rhs) {
						undec = true
						undecWhy = append(undecWhy, "multi-value assignment to the context arguments")
						continue
					}
					call, isCall := ast.Unparen(s.Rhs[i]).(*ast.CallExpr)
					if isCall && an.IsBuiltin(a.info, call, "append") && !call.Ellipsis.IsValid() && len(call.Args) >= 1 && an.FieldOf(a.info, call.Args[0]) == fv && ctxObj(a, call.Args[0]) == ctxObj(a, l) {
						w += len(call.Args) - 1
					} else {
						undec = true
						undecWhy = append(undecWhy, "the context arguments are assigned something that is not an append of single elements")
					}
				}
			case *ast.CallExpr:
				if fld == "Args" && an.CalleeName(a.info, s) == "contract/enterprise.checkArgs" && chkTotal {
					// at least as many as the known lower bound of len(ci.Args) here
					facts := a.factsAt(n)
					lo := 0
					if len(s.Args) == 2 {
						arg := ast.Unparen(s.Args[1])
						if u, ok := arg.(*ast.UnaryExpr); ok && u.Op == token.AND {
							arg = u.X
						}
						objs := map[types.Object]bool{}
						if k := a.key(arg, objs); k != "" {
							for try := 1; try <= 8; try++ {
								goal := c14GapConst(int64(try)).add(c14GapAtom("len:"+k+".Args"), -1)
								if a.prove(goal, facts, objs) {
									lo = try
								}
							}
						}
					}
					w += lo
				}
			}
			return true
		})
		return w
	}
	// shortest path (sum of weights of the vertices passed, target excluded)
	dist := func(a *c14GapFn, from *an.Node, fld string) map[*an.Node]int {
		const inf = 1 << 30
		d := map[*an.Node]int{}
		for _, n := range a.g.Nodes {
			d[n] = inf
		}
		d[from] = 0
		done := map[*an.Node]bool{}
		for {
			var best *an.Node
			for _, n := range a.g.Nodes {
				if !done[n] && d[n] < inf && (best == nil || d[n] < d[best]) {
					best = n
				}
			}
			if best == nil {
				break
			}
			done[best] = true
			w := weight(a, best, fld)
			for _, s := range best.Succs {
				if d[best]+w < d[s] {
					d[s] = d[best] + w
				}
			}
		}
		return d
	}

	// --- the validator: context literal, switch on the command name
	var ctxVar types.Object
	var ciVar types.Object
	an.InspectShallow(val.Body, func(n ast.Node) bool {
		as, ok := n.(*ast.AssignStmt)
		if !ok || len(as.Lhs) != 1 || len(as.Rhs) != 1 {
			return true
		}
		u, ok := ast.Unparen(as.Rhs[0]).(*ast.UnaryExpr)
		if !ok || u.Op != token.AND {
			return true
		}
		lit, ok := ast.Unparen(u.X).(*ast.CompositeLit)
		if !ok {
			return true
		}
		if nt := c14Named(va.info.TypeOf(lit)); nt == nil || nt.Obj().Name() != "EnterpriseContext" {
			return true
		}
		ctxVar = an.ObjOf(va.info, as.Lhs[0])
		for _, el := range lit.Elts {
			kv, ok := el.(*ast.KeyValueExpr)
			if !ok {
				undec = true
				undecWhy = append(undecWhy, "context literal without field names")
				continue
			}
			fv, _ := va.info.ObjectOf(identOf(kv.Key)).(*types.Var)
			if fields[fv] != "" {
				undec = true
				undecWhy = append(undecWhy, "the context literal already sets the arguments") // starts non-empty: not counted
			}
			if fv == fCall {
				if cu, ok := ast.Unparen(kv.Value).(*ast.UnaryExpr); ok && cu.Op == token.AND {
					ciVar = an.ObjOf(va.info, cu.X)
				}
			}
		}
		return true
	})
	if ctxVar == nil || ciVar == nil || !va.g.SingleDefOrParam(ctxVar) {
		c.Undecide("ctx-args", "contract/enterprise.ValidateEnterpriseTx|context", "the context literal &EnterpriseContext{Call: &ci} was not found")
		return
	}
	// the context handed to a helper: the helper must not write the counted fields
	// (checkArgs is summarised above); otherwise the count is not followed
	an.InspectShallow(val.Body, func(n ast.Node) bool {
		call, ok := n.(*ast.CallExpr)
		if !ok {
			return true
		}
		passes := false
		for _, x := range call.Args {
			if an.ObjOf(va.info, x) == ctxVar {
				passes = true
			}
		}
		if sel, ok := ast.Unparen(call.Fun).(*ast.SelectorExpr); ok && an.ObjOf(va.info, sel.X) == ctxVar {
			passes = true
		}
		if !passes {
			return true
		}
		fn := an.Callee(va.info, call)
		if fn == nil {
			if !an.IsBuiltin(va.info, call, "append") {
				undec = true
				undecWhy = append(undecWhy, "context passed to an unresolved call")
			}
			return true
		}
		if an.FuncName(fn) == "contract/enterprise.checkArgs" {
			return true
		}
		hf := p.FuncOf(fn)
		if hf == nil || hf.Body == nil {
			return true // outside the module: cannot name the unexported struct's fields usefully
		}
		writes := false
		ast.Inspect(hf.Body, func(m ast.Node) bool {
			if as, ok := m.(*ast.AssignStmt); ok {
				for _, l := range as.Lhs {
					if fields[an.FieldOf(hf.Info(), l)] != "" {
						writes = true
					}
				}
			}
			return true
		})
		if writes {
			undec = true
			undecWhy = append(undecWhy, "helper "+an.FuncName(fn)+" writes the context's arguments (not followed)")
		}
		return true
	})
	var sw *ast.SwitchStmt
	an.InspectShallow(val.Body, func(n ast.Node) bool {
		if s, ok := n.(*ast.SwitchStmt); ok && s.Tag != nil && an.FieldOf(va.info, s.Tag) == fName {
			if sel, ok := ast.Unparen(s.Tag).(*ast.SelectorExpr); ok && an.ObjOf(va.info, sel.X) == ciVar && sw == nil {
				sw = s
			}
		}
		return true
	})
	if sw == nil {
		c.Undecide("ctx-args", "contract/enterprise.ValidateEnterpriseTx|switch", "the switch on the command name was not found")
		return
	}
	const inf = 1 << 30
	post := map[string]map[string]int{} // field -> command -> guaranteed count
	for _, fld := range []string{"Args", "ArgsAny"} {
		post[fld] = map[string]int{}
		d0 := dist(va, va.g.Entry, fld)
		for _, cl := range sw.Body.List {
			cc := cl.(*ast.CaseClause)
			if len(cc.List) == 0 {
				continue
			}
			best := inf
			if len(cc.Body) > 0 {
				first := va.firstNodeIn(cc.Body[0])
				if first == nil {
					undec = true
					undecWhy = append(undecWhy, "first statement of a command arm not found in the control-flow graph")
					continue
				}
				d1 := dist(va, first, fld)
				for _, r := range va.g.NilReturns() {
					if d1[r] < inf && d0[first] < inf {
						if v := d0[first] + d1[r]; v < best {
							best = v
						}
					}
				}
			} else {
				best = 0
			}
			for _, x := range cc.List {
				if tv, ok := va.info.Types[x]; ok && tv.Value != nil && tv.Value.Kind() == constant.String {
					post[fld][constant.StringVal(tv.Value)] = best
				} else {
					undec = true
					undecWhy = append(undecWhy, "non-constant command name in the validator switch")
				}
			}
		}
	}

	// --- consumers: every constant index / slice on the two fields, module wide
	n := 0
	for _, f := range c14GapAllFuncs(p) {
		a := c14GapFnOf(f)
		if a == nil {
			continue
		}
		seen := map[string]int{}
		an.InspectShallow(f.Body, func(nd ast.Node) bool {
			var x ast.Expr
			var needLen int64
			var shape string
			switch s := nd.(type) {
			case *ast.IndexExpr:
				x = s.X
				k, ok := c14GapIntConst(a.info, s.Index)
				if fields[an.FieldOf(a.info, x)] == "" {
					return true
				}
				if !ok {
					needLen = -1
				} else {
					needLen = k + 1
				}
				shape = an.ExprString(s)
			case *ast.SliceExpr:
				x = s.X
				if fields[an.FieldOf(a.info, x)] == "" {
					return true
				}
				for _, b := range []ast.Expr{s.Low, s.High} {
					if b == nil {
						continue
					}
					k, ok := c14GapIntConst(a.info, b)
					if !ok {
						needLen = -1
						break
					}
					if k > needLen {
						needLen = k
					}
				}
				shape = an.ExprString(s)
			default:
				return true
			}
			fld := fields[an.FieldOf(a.info, x)]
			n++
			construct := f.Name() + "|" + shape
			seen[construct]++
			if seen[construct] > 1 {
				construct += fmt.Sprintf("#%d", seen[construct])
			}
			pos := nd.Pos()
			if needLen < 0 {
				c.Check("ctx-args", construct, pos, false, "the context's "+fld+" are indexed with a non-constant index")
				return true
			}
			node := a.g.NodeContaining(pos)
			if node == nil {
				c.Undecide("ctx-args", construct, "cannot locate the expression")
				return true
			}
			switch f {
			case val:
				if ctxObj(a, x) != ctxVar {
					c.Check("ctx-args", construct, pos, false, "not the context built by this function")
					return true
				}
				d := dist(va, va.g.Entry, fld)
				have := d[node]
				c.Check("ctx-args", construct, pos, have < inf && int64(have) >= needLen, fmt.Sprintf("the validator reads %s after at least %d element(s) were appended on every path (needs %d)", shape, have, needLen))
			case exe:
				// the context is the validator's result, used where it succeeded
				o := ctxObj(a, x)
				var okCtx bool
				if o != nil {
					if rhs, idx := a.g.SingleDef(o); rhs != nil && idx == 0 {
						if call, ok := ast.Unparen(rhs).(*ast.CallExpr); ok && an.CalleeName(a.info, call) == "contract/enterprise.ValidateEnterpriseTx" {
							for _, st := range a.g.CallsTo("contract/enterprise.ValidateEnterpriseTx") {
								if st.Call == call && a.g.Dominated(node, a.g.ErrNilEdges(st)) {
									okCtx = true
								}
							}
						}
					}
				}
				if !okCtx {
					c.Check("ctx-args", construct, pos, false, "the context indexed here is not the result of a successful ValidateEnterpriseTx call in this function")
					return true
				}
				// no write of the field in the executor
				for _, m := range a.g.Nodes {
					if m.Kind == an.KStmt && m.Ast != nil && weight(a, m, fld) != 0 {
						undec = true
						undecWhy = append(undecWhy, "the executor writes the context arguments")
					}
				}
				// the arm of the executor's switch on context.Call.Name
				names := []string{}
				all := true
				an.InspectShallow(f.Body, func(m ast.Node) bool {
					s, ok := m.(*ast.SwitchStmt)
					if !ok || s.Tag == nil || an.FieldOf(a.info, s.Tag) != fName || pos < s.Pos() || pos > s.End() {
						return true
					}
					// tag is  context.Call.Name
					if sel, ok := ast.Unparen(s.Tag).(*ast.SelectorExpr); !ok || an.FieldOf(a.info, sel.X) != fCall || ctxObj(a, sel.X) != o {
						return true
					}
					for _, cl := range s.Body.List {
						cc := cl.(*ast.CaseClause)
						if pos < cc.Pos() || pos > cc.End() || len(cc.List) == 0 {
							continue
						}
						all = false
						for _, y := range cc.List {
							if tv, ok := a.info.Types[y]; ok && tv.Value != nil && tv.Value.Kind() == constant.String {
								names = append(names, constant.StringVal(tv.Value))
							} else {
								undec = true
								undecWhy = append(undecWhy, "non-constant command name in the executor switch")
							}
						}
					}
					return true
				})
				if all {
					for nm := range post[fld] {
						names = append(names, nm)
					}
				}
				sort.Strings(names)
				ok := true
				var bad []string
				for _, nm := range names {
					have, known := post[fld][nm]
					if !known || have >= inf {
						continue // the validator refuses this command: the arm is dead
					}
					if int64(have) < needLen {
						ok = false
						bad = append(bad, fmt.Sprintf("%s has %d", nm, have))
					}
				}
				c.Check("ctx-args", construct, pos, ok, fmt.Sprintf("for every command of this arm (%s) the validator appended at least %d element(s) to the context's %s on every accepting path %s", strings.Join(names, ","), needLen, fld, strings.Join(bad, "; ")))
			default:
				c.Check("ctx-args", construct, pos, false, "the context's "+fld+" are indexed outside the validator and the executor: not counted")
			}
			return true
		})
	}
	if undec {
		c.Undecide("ctx-args", "contract/enterprise|counting", "the context's Args / ArgsAny are written in a way the count does not follow (not an append of single elements) "+strings.Join(undecWhy, ","))
	}
	c.Note("ctx-args: %d constant index / slice expressions on EnterpriseContext.Args / ArgsAny; guaranteed counts per command: Args %v, ArgsAny %v", n, post["Args"], post["ArgsAny"])
	c.Floor("ctx-args", 12)
}

// ---------------------------------------------------------------------------
// rule sync-after-add: VoteResult.Sync indexes the first entry of the ranking
// of a parameter vote; the ranking is built from the tally map, so Sync must
// run only after a vote was added to the map in the same command (or on a
// result that is not a parameter vote).

func c14GapSyncAfterAdd(c *rep.Ctx) {
	p := c.Prog
	cg := p.BuildCallGraphCached()
	syncF := c.Fn("contract/system.(*VoteResult).Sync")
	addF := c.Fn("contract/system.(*VoteResult).AddVote")
	if syncF == nil || addF == nil {
		return
	}
	// functions that add a vote on every successful return
	adds := map[*an.Func]bool{addF: true}
	for changed := true; changed; {
		changed = false
		for _, f := range c14GapAllFuncs(p) {
			if adds[f] || !c14GapInPkgs(f) {
				continue
			}
			a := c14GapFnOf(f)
			if a == nil || len(a.g.Returns()) == 0 {
				continue
			}
			sites := an.Set{}
			for _, ed := range cg.Out[f] {
				if ed.Call != nil && ed.Callee != nil && adds[ed.Callee] && ed.Kind != an.ELit {
					if n := a.g.NodeContaining(ed.Call.Pos()); n != nil {
						sites[n] = true
					}
				}
			}
			if len(sites) == 0 {
				continue
			}
			ok := true
			for _, r := range a.g.NilReturns() {
				if !sites[r] && !a.g.Dominated(r, sites) {
					ok = false
				}
			}
			if ok && len(a.g.NilReturns()) > 0 {
				adds[f] = true
				changed = true
			}
		}
	}
	n := 0
	for _, f := range c14GapAllFuncs(p) {
		a := c14GapFnOf(f)
		if a == nil {
			continue
		}
		for _, st := range a.g.CallsTo("contract/system.(*VoteResult).Sync") {
			n++
			construct := f.Name() + "|Sync"
			// calls that add a vote, with the edge on which they succeeded
			gates := an.Set{}
			for _, ed := range cg.Out[f] {
				if ed.Call == nil || ed.Callee == nil || !adds[ed.Callee] || ed.Kind == an.ELit {
					continue
				}
				nd := a.g.NodeContaining(ed.Call.Pos())
				if nd == nil {
					continue
				}
				// every resolved callee of this call adds
				all := true
				for _, e2 := range cg.Out[f] {
					if e2.Call == ed.Call && e2.Callee != nil && !adds[e2.Callee] {
						all = false
					}
				}
				if !all {
					continue
				}
				for e := range a.g.ErrNilEdges(an.Site{Node: nd, Call: ed.Call}) {
					gates[e] = true
				}
			}
			ok := len(gates) > 0 && a.g.Dominated(st.Node, gates)
			how := "dominated by a successful add of a vote"
			if !ok {
				// a result created for the producer election in this function: not a parameter vote
				if sel, isSel := ast.Unparen(st.Call.Fun).(*ast.SelectorExpr); isSel {
					if o := an.ObjOf(a.info, sel.X); o != nil {
						if rhs, _ := a.g.SingleDef(o); rhs != nil {
							if call, isCall := ast.Unparen(rhs).(*ast.CallExpr); isCall && an.CalleeName(a.info, call) == "contract/system.newVoteResult" && len(call.Args) >= 1 {
								if ko := an.ObjOf(a.info, call.Args[0]); ko != nil && ko.Name() == "defaultVoteKey" && ko.Pkg() != nil && ko.Parent() == ko.Pkg().Scope() {
									ok, how = true, "the result is created for the producer election (newVoteResult(defaultVoteKey, ...)): Sync does not index the ranking"
								}
							}
						}
					}
				}
			}
			c.Check("sync-after-add", construct, st.Call.Pos(), ok, "VoteResult.Sync (which reads Votes[0] of a parameter vote's ranking) runs only after a vote was added to the tally map in the same command: "+how)
		}
	}
	c.Floor("sync-after-add", 2)
}

// ---------------------------------------------------------------------------
// rule conf-value-checked: Conf.Validate indexes strings.Split(v, ":")[1] for
// every stored RPCPERMISSIONS value; every such value went through
// checkRPCPermissions, which accepts exactly two parts.

func c14GapConfValueChecked(c *rep.Ctx) {
	chk := c.Fn("contract/enterprise.checkArgs")
	rpc := c.Fn("contract/enterprise.checkRPCPermissions")
	fArgs := c.Prog.LookupField("types", "CallInfo", "Args")
	if chk == nil || rpc == nil || fArgs == nil {
		return
	}
	a := c14GapFnOf(chk)
	// (1) the per-key check is applied to every element but the key
	var loop *ast.RangeStmt
	an.InspectShallow(chk.Body, func(n ast.Node) bool {
		if rs, ok := n.(*ast.RangeStmt); ok && an.FieldOf(a.info, rs.X) == fArgs && loop == nil {
			loop = rs
		}
		return true
	})
	if loop == nil {
		c.Undecide("conf-value-checked", "contract/enterprise.checkArgs|loop", "loop over the arguments not found")
		return
	}
	var opVar types.Object
	steps := an.Set{}
	for _, n := range a.g.Nodes {
		if n.Kind != an.KStmt || n.Ast == nil || n.Ast.Pos() < loop.Body.Pos() || n.Ast.End() > loop.Body.End() {
			continue
		}
		for _, call := range an.CallsIn(n.Ast) {
			if v := an.CalleeVar(a.info, call); v != nil && !v.IsField() {
				opVar = v
				// the call's error leaves the function: only the nil edge continues
				for e := range a.g.ErrNilEdges(an.Site{Node: n, Call: call}) {
					steps[e] = true
				}
			}
		}
	}
	// the key element is skipped:  i == 0
	if ko := an.ObjOf(a.info, loop.Key); ko != nil {
		for _, n := range a.g.Nodes {
			if n.Kind != an.KTrue && n.Kind != an.KFalse {
				continue
			}
			cond, ok := n.Ast.(ast.Expr)
			if !ok {
				continue
			}
			var ls []c14GapFact
			a.leaves(cond, n.Kind == an.KTrue, &ls, n)
			for _, l := range ls {
				if l.mod == 0 && l.op == token.EQL && len(l.l.t) == 1 && l.l.k == 0 && l.l.t[c14GapObjKey(ko)] != 0 {
					steps[n] = true
				}
			}
		}
	}
	ok1 := false
	why := "no call of the per-key check found in the loop"
	if opVar != nil {
		ok1, why = a.loopTotal(loop, steps)
	}
	c.Check("conf-value-checked", "contract/enterprise.checkArgs|every-value", loop.Pos(), ok1, "every configuration value of the payload (all elements but the key) passes the per-key check before checkArgs accepts: stored values are read back and indexed by Conf.Validate "+why)
	// (2) the check selected for RPCPERMISSIONS is checkRPCPermissions
	ok2 := false
	if opVar != nil {
		an.InspectShallow(chk.Body, func(n ast.Node) bool {
			cc, ok := n.(*ast.CaseClause)
			if !ok {
				return true
			}
			isRPC := false
			for _, x := range cc.List {
				if tv, ok := a.info.Types[x]; ok && tv.Value != nil && tv.Value.Kind() == constant.String && constant.StringVal(tv.Value) == "RPCPERMISSIONS" {
					isRPC = true
				}
			}
			if !isRPC {
				return true
			}
			for _, st := range cc.Body {
				if as, ok := st.(*ast.AssignStmt); ok && len(as.Lhs) == 1 && len(as.Rhs) == 1 && an.ObjOf(a.info, as.Lhs[0]) == opVar {
					if fo, ok := an.ObjOf(a.info, as.Rhs[0]).(*types.Func); ok && fo == rpc.Obj {
						ok2 = true
					}
				}
			}
			return true
		})
	}
	c.Check("conf-value-checked", "contract/enterprise.checkArgs|RPCPERMISSIONS", chk.Pos(), ok2, "the check applied to RPCPERMISSIONS values is checkRPCPermissions")
	// (3) checkRPCPermissions accepts only values with exactly two ':'-separated parts
	ra := c14GapFnOf(rpc)
	ok3 := len(ra.g.NilReturns()) > 0
	for _, r := range ra.g.NilReturns() {
		facts := ra.factsAt(r)
		found := false
		for _, f := range facts {
			if f.mod != 0 || f.op != token.EQL || len(f.l.t) != 1 || f.l.k != -2 {
				continue
			}
			for at, cf := range f.l.t {
				if cf != 1 || !strings.HasPrefix(at, "len:") {
					continue
				}
				// the measured value is strings.Split(<param>, ":")
				for o := range f.objs {
					if c14GapObjKey(o) != strings.TrimPrefix(at, "len:") {
						continue
					}
					if rhs, _ := ra.g.SingleDef(o); rhs != nil {
						if call, ok := ast.Unparen(rhs).(*ast.CallExpr); ok && an.CalleeName(ra.info, call) == "strings.Split" && len(call.Args) == 2 && an.ObjOf(ra.info, call.Args[0]) == rpc.ParamObj(0) {
							if tv, ok := ra.info.Types[call.Args[1]]; ok && tv.Value != nil && tv.Value.Kind() == constant.String && constant.StringVal(tv.Value) == ":" {
								found = true
							}
						}
					}
				}
			}
		}
		if !found {
			ok3 = false
		}
	}
	c.Check("conf-value-checked", "contract/enterprise.checkRPCPermissions|two-parts", rpc.Pos(), ok3, "checkRPCPermissions accepts a value only where len(strings.Split(v, \":\")) == 2 is known: Conf.Validate reads part [1] of every stored value")
	c.Floor("conf-value-checked", 3)
}

// ---------------------------------------------------------------------------
// rule param-sign: a negative governance parameter value is never accepted
// (the companion of param-positive, which rejects zero).  big.Int.SetString
// accepts a sign; updateParam stores value.Bytes() (the absolute value) but
// keeps the signed value in memory, and a negative STAKINGMIN admits stakes
// below 100 aer, which VoteResult.threshold divides by (rule divisor).
func c14GapParamSign(c *rep.Ctx) {
	f := c.Fn("contract/system.validateById")
	if f == nil {
		return
	}
	g := f.Graph()
	info := f.Info()
	cand := f.ParamObj(1)
	type tcmp struct {
		node *an.Node
		expr ast.Expr
		op   token.Token // candidate op 0
	}
	var cmps []tcmp
	a := c14GapFnOf(f)
	for _, n := range g.Nodes {
		if n.Kind != an.KStmt || len(n.Succs) != 2 {
			continue
		}
		cond, ok := n.Ast.(ast.Expr)
		if !ok {
			continue
		}
		an.InspectShallow(cond, func(m ast.Node) bool {
			be, ok := m.(*ast.BinaryExpr)
			if !ok {
				return true
			}
			if z, isZ := c14GapIntConst(info, be.Y); !isZ || z != 0 {
				return true
			}
			call, ok := ast.Unparen(be.X).(*ast.CallExpr)
			if !ok {
				return true
			}
			op := be.Op
			switch an.CalleeName(info, call) {
			case "math/big.(*Int).Sign":
				if recvObj(info, call) != cand {
					return true
				}
			case "math/big.(*Int).Cmp":
				sel, _ := ast.Unparen(call.Fun).(*ast.SelectorExpr)
				switch {
				case recvObj(info, call) == cand && len(call.Args) == 1 && c14GapZeroBig(a, call.Args[0]):
				case sel != nil && c14GapZeroBig(a, sel.X) && len(call.Args) == 1 && an.ObjOf(info, call.Args[0]) == cand:
					op = flipOpTok(op)
				default:
					return true
				}
			default:
				return true
			}
			cmps = append(cmps, tcmp{n, be, op})
			return true
		})
	}
	trues := g.BoolReturns(true)
	if len(trues) == 0 || cand == nil {
		c.Undecide("param-sign", "contract/system.validateById", "no accepting return found")
		return
	}
	for _, r := range trues {
		ok := false
		for _, cm := range cmps {
			if !g.Dominated(r, an.SetOf(cm.node)) {
				continue
			}
			e := g.EdgeUnder(cm.node, cm.expr, an.OrdCmp{Op: cm.op}.Holds(-1), nil, nil)
			if e != nil && !g.Reach([]*an.Node{e}, nil)[r] {
				ok = true
			}
		}
		c.Check("param-sign", "contract/system.validateById|negative-rejected", r.Ast.Pos(), ok, "a negative governance parameter value is never accepted (SetString accepts \"-5\"; the stored value is the absolute value (big.Int.Bytes) while the running node keeps the signed one in memory: after a restart the node computes with +5 where the others compute with -5)")
	}
}
