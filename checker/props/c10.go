package props

import (
	"go/ast"
	"go/token"
	"go/types"

	"verif/checker/internal/an"
	"verif/checker/internal/rep"
)

// C10 — state trie: lock discipline under the parallel update, append-only
// node store, content addressing.
//
// Decided (shape of the code only):
//
//	guard          every access of a mutex-guarded field of trie.Trie /
//	               trie.CacheDB / statedb.storageCache happens with its paired
//	               mutex held (lockset, E5), or - in a function that no goroutine
//	               runs - with an exclusive lock of an owning object held
//	entry-lock     every such access in package trie is reached only with the owning
//	               Trie.lock held (any mode) somewhere up the call chain, goroutine
//	               starts included (or an exclusive lock of the trie's owner)
//	lock-release   every Lock/RLock is released on every path (or by defer), and
//	               every Unlock/RUnlock releases a mutex held in that mode
//	reentrant      no function acquires a mutex its caller already holds
//	join           every goroutine of the parallel walks is joined on every path
//	deleter        nothing but Trie.Revert deletes from the state store
//	revert-dead    Trie.Revert has no caller (StateDB.Revert only resets the root)
//	store-escape   the state store handle is used in the state packages only
//	node-key       cache/updated-node maps are keyed by the hash handed in
//	hash-batch     the operands hashed are the children written into the batch
//	commit-key     CacheDB.commit writes batch b under dbkey.Trie(hash of b)
//	key-prefix     every store access of the trie goes through dbkey.Trie
//	data-key       state data is stored under the hash that the trie maps to
//	sorted-batch   the batch handed to Trie.Update is sorted ascending by key
//	order          commit before clearing, storage roots before the account trie
//	get-key-check  Trie.get returns a value only after comparing the stored key
//	key-length     trie.HashLength == types.HashIDLength

func init() { register("C10", runC10) }

const c10TriePkg = "pkg/trie"
const c10StatePkg = "state/statedb"

// c10GuardTable: guarded field -> paired mutex (same struct).  writesOnly:
// the field is also read through unlocked accessors by design (Root is an
// exported field read by the owning StateDB under its own lock); only writes
// are decided.
var c10GuardTable = []struct {
	pkg, owner, field, mutex string
	writesOnly               bool
}{
	{c10TriePkg, "CacheDB", "liveCache", "liveMux", false},
	{c10TriePkg, "CacheDB", "updatedNodes", "updatedMux", false},
	{c10TriePkg, "CacheDB", "nodesToRevert", "revertMux", false},
	{c10TriePkg, "Trie", "LoadDbCounter", "loadDbMux", false},
	{c10TriePkg, "Trie", "LoadCacheCounter", "liveCountMux", false},
	{c10TriePkg, "Trie", "Root", "lock", true},
	{c10TriePkg, "Trie", "prevRoot", "lock", true},
	{c10TriePkg, "Trie", "pastTries", "lock", true},
	{c10TriePkg, "Trie", "atomicUpdate", "lock", true},
	{c10StatePkg, "storageCache", "storages", "lock", false},
}

// c10MutexNotPaired: mutex fields of the analysed structs that guard no field.
var c10MutexNotPaired = map[string]string{
	"pkg/trie.CacheDB.lock":      "serialises Store.Get calls of the disk database (a call, not a field); not decided",
	"state/statedb.StateDB.lock": "owner lock of the whole StateDB (Buffer, Cache, Trie); used by the rule as an owning lock",
}

// c10GuardExceptions: access sites that do not satisfy the guard rule, each
// with the reason read from the code and a machine-checked side condition.
var c10GuardExceptions = map[string]struct{ cond, reason string }{
	"pkg/trie.(*Trie).Revert": {"no-caller", "Revert holds only the read lock of Trie.lock while it rewrites Root, pastTries, the caches and nodesToRevert (latent defect); it is unreachable in the node: no caller (rule revert-dead), StateDB.Revert only resets the root"},
	"*|atomicUpdate=false":    {"true-writers-dead", "`s.atomicUpdate = false` under the read lock in the readers (Get, GetKeys, MerkleProof*): a same-value write as long as nothing sets the flag to true; the only writer of true (AtomicUpdate) has no caller in the node"},
}

// c10JoinExceptions: go statements that are not joined on every path.
var c10JoinExceptions = map[string]string{
	"pkg/trie.(*Trie).loadCache|go#2": "on the error exit of the left subtree (trie node missing in the database) the right goroutine is not awaited; it only touches liveCache under liveMux and its channel is buffered; the caller reports a corrupt database",
}

func runC10(c *rep.Ctx) {
	c.Explain = "Structural decision of the lock discipline and storage discipline of the sparse Merkle trie: a per-function must-lockset (Lock/RLock..Unlock/RUnlock, defer) with caller-to-callee summaries decides that every access of a mutex-guarded field (liveCache, updatedNodes, nodesToRevert, the counters, Root/prevRoot/pastTries/atomicUpdate, storageCache.storages) holds its paired mutex or, outside the goroutine-run functions, an exclusive owner lock; that locks are released and never re-acquired; that the goroutines of the parallel update are joined; that only Trie.Revert (which has no caller) deletes from the store; and that nodes and state data are written under the hash that was computed over them. The shape of the code is decided, not the run-time behaviour of the trie."
	c.NotDecided = []string{
		"map semantics, history independence, shortcut movement, reopen equality (numerical)",
		"reads of Trie.Root / prevRoot / pastTries / atomicUpdate (Root is an exported field read by StateDB under its own lock and by the Verify* functions without a lock)",
		"CacheDB.lock around Store.Get (the database is itself safe for concurrent use)",
		"aliasing of Trie/CacheDB objects beyond the syntactic object path of the access",
		"index arithmetic inside a batch (2*i+1 / 2*i+2 offsets are compared, the 4-level layout is not)",
	}
	c.Assume = []string{
		"a mutex is identified by its field object and the object path of its owner expression; two different paths are assumed to be different objects, equal paths the same object (no reassignment of the path in between)",
		"test files are not loaded: `no caller` means no caller in the node",
		"reflection and unsafe are out of scope",
	}
	p := c.Prog
	if p.Pkg(c10TriePkg) == nil || p.Pkg(c10StatePkg) == nil {
		c.Undecide("anchor", "packages", "pkg/trie or state/statedb not loaded")
		return
	}
	cg := p.BuildCallGraph()
	la := an.NewLockAnalysis(p, cg, c10TriePkg, c10StatePkg)

	c10Guards(c, cg, la)
	c10EntryLock(c, cg, la)
	c10LockRelease(c, la)
	c10Reentrant(c, cg, la)
	c10Join(c, la)
	c10AppendOnly(c, cg)
	c10ContentAddr(c)
	c10Batch(c)
	c10Order(c)
	c10GetKeyCheck(c)
	c10KeyLength(c)
}

// ---------------------------------------------------------------------------
// helpers

func c10AllFuncs(p *an.Prog, pkgs ...string) []*an.Func {
	want := map[string]bool{}
	for _, k := range pkgs {
		want[k] = true
	}
	var out []*an.Func
	var walk func(f *an.Func)
	walk = func(f *an.Func) {
		if f.Body != nil {
			out = append(out, f)
		}
		for _, l := range f.Lits {
			walk(l)
		}
	}
	for _, f := range p.Funcs() {
		if len(want) == 0 || want[an.Rel(f.Pkg.PkgPath)] {
			walk(f)
		}
	}
	return out
}

// c10RootObj strips slicing, indexing, parentheses, conversions and
// append(x, ...) down to the variable the value is taken from.
func c10RootObj(info *types.Info, e ast.Expr) types.Object {
	for {
		e = ast.Unparen(e)
		switch x := e.(type) {
		case *ast.SliceExpr:
			e = x.X
			continue
		case *ast.IndexExpr:
			e = x.X
			continue
		case *ast.StarExpr:
			e = x.X
			continue
		case *ast.CallExpr:
			if an.IsBuiltin(info, x, "append") && len(x.Args) > 0 {
				e = x.Args[0]
				continue
			}
			if tv, ok := info.Types[x.Fun]; ok && tv.IsType() && len(x.Args) == 1 {
				e = x.Args[0]
				continue
			}
			return nil
		case *ast.Ident:
			return an.ObjOf(info, x)
		case *ast.SelectorExpr:
			if o := info.Uses[x.Sel]; o != nil {
				return o // field or package-level object
			}
			return nil
		default:
			return nil
		}
	}
}

func c10IsParam(f *an.Func, obj types.Object) bool {
	if obj == nil || f.Type == nil || f.Type.Params == nil {
		return false
	}
	for _, fl := range f.Type.Params.List {
		for _, nm := range fl.Names {
			if f.Info().Defs[nm] == obj {
				return true
			}
		}
	}
	return false
}

func c10ParamAt(f *an.Func, i int) types.Object {
	if f.Type == nil || f.Type.Params == nil {
		return nil
	}
	k := 0
	for _, fl := range f.Type.Params.List {
		for _, nm := range fl.Names {
			if k == i {
				return f.Info().Defs[nm]
			}
			k++
		}
	}
	return nil
}

func c10ConstInt(info *types.Info, e ast.Expr) (int64, bool) {
	tv, ok := info.Types[e]
	if !ok || tv.Value == nil {
		return 0, false
	}
	s := tv.Value.ExactString()
	n := int64(0)
	neg := false
	for i, ch := range s {
		if i == 0 && ch == '-' {
			neg = true
			continue
		}
		if ch < '0' || ch > '9' {
			return 0, false
		}
		n = n*10 + int64(ch-'0')
	}
	if neg {
		n = -n
	}
	return n, true
}

func c10HasCallers(p *an.Prog, cg *an.CallGraph, f *an.Func) (bool, string) {
	if f == nil {
		return false, ""
	}
	for _, e := range cg.In[f] {
		return true, e.Caller.Name()
	}
	for _, r := range p.FuncRefs(map[string]bool{f.Name(): true}) {
		who := "<package level>"
		if r.Fn != nil {
			who = r.Fn.Name()
		}
		return true, who + " (function value)"
	}
	return false, ""
}

// ---------------------------------------------------------------------------
// guard: lockset rule

type c10Access struct {
	fn    *an.Func
	sel   *ast.SelectorExpr
	field *types.Var
	write bool
	rhs   ast.Expr // for plain assignments `x.f = rhs`
}

// c10Accesses enumerates the selector accesses of the given fields in f
// (not inside nested literals) and classifies them as read or write.
func c10Accesses(f *an.Func, fields map[*types.Var]bool) []c10Access {
	info := f.Info()
	var out []c10Access
	writes := map[*ast.SelectorExpr]ast.Expr{}
	isW := map[*ast.SelectorExpr]bool{}
	base := func(e ast.Expr) *ast.SelectorExpr {
		for {
			e = ast.Unparen(e)
			switch x := e.(type) {
			case *ast.IndexExpr:
				e = x.X
				continue
			case *ast.SliceExpr:
				e = x.X
				continue
			case *ast.StarExpr:
				e = x.X
				continue
			case *ast.SelectorExpr:
				if v := an.FieldOf(info, x); v != nil && fields[v] {
					return x
				}
				return nil
			}
			return nil
		}
	}
	an.InspectShallow(f.Body, func(n ast.Node) bool {
		switch s := n.(type) {
		case *ast.AssignStmt:
			for i, l := range s.Lhs {
				if se := base(l); se != nil {
					isW[se] = true
					if ast.Unparen(l) == ast.Expr(se) && len(s.Lhs) == len(s.Rhs) && s.Tok == token.ASSIGN {
						writes[se] = s.Rhs[i]
					}
				}
			}
		case *ast.IncDecStmt:
			if se := base(s.X); se != nil {
				isW[se] = true
			}
		case *ast.UnaryExpr:
			if s.Op == token.AND {
				if se := base(s.X); se != nil {
					isW[se] = true
				}
			}
		case *ast.CallExpr:
			if an.IsBuiltin(info, s, "delete") && len(s.Args) > 0 {
				if se := base(s.Args[0]); se != nil {
					isW[se] = true
				}
			}
		}
		return true
	})
	an.InspectShallow(f.Body, func(n ast.Node) bool {
		se, ok := n.(*ast.SelectorExpr)
		if !ok {
			return true
		}
		if v := an.FieldOf(info, se); v != nil && fields[v] {
			out = append(out, c10Access{fn: f, sel: se, field: v, write: isW[se], rhs: writes[se]})
		}
		return true
	})
	return out
}

// c10Fresh reports whether obj is a local variable of f that only ever holds
// an object constructed in f (composite literal / new): a constructor.
func c10Fresh(f *an.Func, obj types.Object) bool {
	v, ok := obj.(*types.Var)
	if !ok || v.IsField() || f.Body == nil {
		return false
	}
	if v.Pos() < f.Body.Pos() || v.Pos() > f.Body.End() {
		return false
	}
	info := f.Info()
	fresh := func(e ast.Expr) bool {
		e = ast.Unparen(e)
		if u, ok := e.(*ast.UnaryExpr); ok && u.Op == token.AND {
			e = ast.Unparen(u.X)
		}
		if _, ok := e.(*ast.CompositeLit); ok {
			return true
		}
		if c, ok := e.(*ast.CallExpr); ok && an.IsBuiltin(info, c, "new") {
			return true
		}
		return false
	}
	n, good := 0, true
	ast.Inspect(f.Body, func(x ast.Node) bool {
		switch s := x.(type) {
		case *ast.AssignStmt:
			for i, l := range s.Lhs {
				id, ok := ast.Unparen(l).(*ast.Ident)
				if !ok || (info.Defs[id] != obj && info.Uses[id] != obj) {
					continue
				}
				n++
				if len(s.Lhs) != len(s.Rhs) || !fresh(s.Rhs[i]) {
					good = false
				}
			}
		case *ast.ValueSpec:
			for i, nm := range s.Names {
				if info.Defs[nm] != obj {
					continue
				}
				n++
				if i >= len(s.Values) || !fresh(s.Values[i]) {
					good = false
				}
			}
		}
		return true
	})
	return n > 0 && good
}

func c10Guards(c *rep.Ctx, cg *an.CallGraph, la *an.LockAnalysis) {
	p := c.Prog
	fields := map[*types.Var]bool{}
	pair := map[*types.Var]*types.Var{}
	wonly := map[*types.Var]bool{}
	owner := map[*types.Var]string{}
	pairedMutex := map[*types.Var]bool{}
	for _, r := range c10GuardTable {
		fv := p.LookupField(r.pkg, r.owner, r.field)
		mv := p.LookupField(r.pkg, r.owner, r.mutex)
		if fv == nil || mv == nil {
			c.Undecide("guard", r.owner+"."+r.field, "guarded field or its mutex not found (renamed?)")
			continue
		}
		fields[fv] = true
		pair[fv] = mv
		wonly[fv] = r.writesOnly
		owner[fv] = r.owner
		pairedMutex[mv] = true
	}
	// role cross-check: every mutex field of the analysed structs is in a table
	for _, st := range [][2]string{{c10TriePkg, "Trie"}, {c10TriePkg, "CacheDB"}, {c10StatePkg, "storageCache"}, {c10StatePkg, "StateDB"}} {
		s := p.LookupStruct(st[0], st[1])
		if s == nil {
			c.Undecide("guard", st[1], "struct not found")
			continue
		}
		for i := 0; i < s.NumFields(); i++ {
			fv := s.Field(i)
			ts := types.TypeString(fv.Type(), nil)
			if ts != "sync.RWMutex" && ts != "sync.Mutex" {
				continue
			}
			key := st[0] + "." + st[1] + "." + fv.Name()
			_, np := c10MutexNotPaired[key]
			c.CheckTrivial("mutex-table", key, fv.Pos(), pairedMutex[fv] || np, "every mutex field of the trie/state structs is classified: paired with the fields it guards, or listed as unpaired with a reason")
		}
	}
	_, concurrent := la.GoTargets()

	// side conditions of the exception table
	condCache := map[string]bool{}
	cond := func(name string, fn *an.Func) bool {
		switch name {
		case "no-caller":
			has, _ := c10HasCallers(p, cg, fn.TopDecl())
			return !has
		case "true-writers-dead":
			if v, ok := condCache[name]; ok {
				return v
			}
			ok := true
			au := p.LookupField(c10TriePkg, "Trie", "atomicUpdate")
			for _, f := range c10AllFuncs(p) {
				for _, a := range c10Accesses(f, map[*types.Var]bool{au: true}) {
					if !a.write {
						continue
					}
					isFalse := false
					if a.rhs != nil {
						if tv, has := f.Info().Types[a.rhs]; has && tv.Value != nil && tv.Value.ExactString() == "false" {
							isFalse = true
						}
					}
					if isFalse {
						continue
					}
					if has, _ := c10HasCallers(p, cg, f.TopDecl()); has {
						ok = false
					}
				}
			}
			condCache[name] = ok
			return ok
		}
		return false
	}

	n := 0
	for _, f := range c10AllFuncs(p) {
		accs := c10Accesses(f, fields)
		if len(accs) == 0 {
			continue
		}
		var g *an.Graph
		for _, a := range accs {
			if !a.write && wonly[a.field] {
				continue
			}
			n++
			kind := "read"
			if a.write {
				kind = "write"
			}
			construct := f.Name() + "|" + owner[a.field] + "." + a.field.Name() + ":" + kind
			info := f.Info()
			path, ok := an.ObjPath(info, a.sel.X)
			if !ok {
				c.Check("guard", construct, a.sel.Pos(), false, "the owner expression of the guarded field is not a plain object path; cannot name the mutex instance")
				continue
			}
			if c10Fresh(f, path[0]) {
				c.CheckTrivial("guard", construct, a.sel.Pos(), true, "constructor: the object is created in this function and not yet shared")
				continue
			}
			if !la.InScope(f) {
				c.Check("guard", construct, a.sel.Pos(), false, "guarded field accessed outside the analysed packages")
				continue
			}
			if g == nil {
				g = f.Graph()
			}
			node := g.NodeContaining(a.sel.Pos())
			if node == nil {
				c.Undecide("guard", construct, "cannot locate the access in the control-flow graph")
				continue
			}
			held := la.In(f, node)
			pk := an.PathKey(path)
			need := an.LockR
			if a.write {
				need = an.LockW
			}
			okPair := held[an.LockRef{Path: pk, Mutex: pair[a.field]}] >= need
			how := ""
			if okPair {
				how = "paired mutex " + pair[a.field].Name() + " held (" + held[an.LockRef{Path: pk, Mutex: pair[a.field]}].String() + ")"
			}
			okOwner := false
			if !okPair && !concurrent[f] {
				for ref, mode := range held {
					if mode != an.LockW {
						continue
					}
					objs := an.PathObjs(ref.Path)
					outer := len(objs) == 2 && objs[1] == an.OuterObj && objs[0] == path[0]
					if outer || (len(objs) > 0 && an.PathHasPrefix(pk, ref.Path)) {
						okOwner = true
						how = "exclusive owner lock " + an.PathString(ref.Path) + "." + ref.Mutex.Name() + " held and no goroutine runs this function"
					}
				}
			}
			ok2 := okPair || okOwner
			msg := how
			if !ok2 {
				msg = kind + " of " + owner[a.field] + "." + a.field.Name() + " without its mutex " + pair[a.field].Name()
				if concurrent[f] {
					msg += " in a function run by goroutines of the parallel walk"
				}
				msg += "; held here: " + an.LockSetString(held)
				// exception table
				exKey := f.TopDecl().Name()
				ex, has := c10GuardExceptions[exKey]
				if !has && a.write && a.rhs != nil && a.field.Name() == "atomicUpdate" {
					if tv, h := info.Types[a.rhs]; h && tv.Value != nil && tv.Value.ExactString() == "false" {
						// same-value write under (at least) the read lock of the pair
						if held[an.LockRef{Path: pk, Mutex: pair[a.field]}] >= an.LockR {
							ex, has = c10GuardExceptions["*|atomicUpdate=false"]
						}
					}
				}
				if has && cond(ex.cond, f) {
					c.Check("guard", construct, a.sel.Pos(), true, "exception ("+ex.cond+" verified): "+ex.reason)
					continue
				}
			}
			c.Check("guard", construct, a.sel.Pos(), ok2, msg)
		}
	}
	c.Floor("guard", 40)
}

// ---------------------------------------------------------------------------
// entry-lock: whoever touches the caches holds Trie.lock (any mode), so that
// the holder of the exclusive lock really is alone

func c10EntryLock(c *rep.Ctx, cg *an.CallGraph, la *an.LockAnalysis) {
	p := c.Prog
	trieLock := p.LookupField(c10TriePkg, "Trie", "lock")
	if trieLock == nil {
		c.Undecide("entry-lock", "Trie.lock", "not found")
		return
	}
	fields := map[*types.Var]bool{}
	owner := map[*types.Var]string{}
	for _, r := range c10GuardTable {
		if r.pkg != c10TriePkg || r.writesOnly {
			continue
		}
		if fv := p.LookupField(r.pkg, r.owner, r.field); fv != nil {
			fields[fv] = true
			owner[fv] = r.owner
		}
	}
	lockAt := func(f *an.Func, n *an.Node, path []types.Object) bool {
		pk := an.PathKey(path)
		for ref, mode := range la.In(f, n) {
			objs := an.PathObjs(ref.Path)
			if len(objs) == 2 && objs[1] == an.OuterObj {
				if mode == an.LockW && (len(path) == 0 || objs[0] == path[0]) {
					return true
				}
				continue
			}
			if ref.Mutex == trieLock && (len(path) == 0 || an.PathHasPrefix(pk, ref.Path)) {
				return true
			}
		}
		return false
	}
	funcs := c10AllFuncs(p, c10TriePkg, c10StatePkg)
	prot := map[*an.Func]bool{}
	why := map[*an.Func]string{}
	for _, f := range funcs {
		prot[f] = true
	}
	for changed := true; changed; {
		changed = false
		for _, f := range funcs {
			if !prot[f] {
				continue
			}
			ok, w := true, ""
			if len(cg.In[f]) == 0 {
				ok, w = false, f.Name()+" (no caller: an entry point)"
			}
			for _, e := range cg.In[f] {
				g := e.Caller
				if !la.InScope(g) {
					ok, w = false, g.Name()+" (outside the analysed packages)"
					break
				}
				if e.Call == nil {
					if !prot[g] {
						ok, w = false, why[g]
					}
					continue
				}
				n := g.Graph().NodeContaining(e.Call.Pos())
				var path []types.Object
				if sel, isSel := ast.Unparen(e.Call.Fun).(*ast.SelectorExpr); isSel {
					path, _ = an.ObjPath(g.Info(), sel.X)
				}
				if n != nil && lockAt(g, n, path) {
					continue
				}
				if !prot[g] {
					ok, w = false, why[g]+" -> "+g.Name()
					break
				}
			}
			if !ok {
				prot[f] = false
				why[f] = w
				changed = true
			}
		}
	}
	for _, f := range c10AllFuncs(p, c10TriePkg) {
		accs := c10Accesses(f, fields)
		if len(accs) == 0 {
			continue
		}
		g := f.Graph()
		for _, a := range accs {
			path, ok := an.ObjPath(f.Info(), a.sel.X)
			if !ok || c10Fresh(f, path[0]) {
				continue
			}
			n := g.NodeContaining(a.sel.Pos())
			good := prot[f] || (n != nil && lockAt(f, n, path))
			kind := "read"
			if a.write {
				kind = "write"
			}
			msg := "reached only through call chains on which the owning Trie.lock (or an exclusive lock of the trie's owner) is held"
			if !good {
				msg = "reachable without Trie.lock: " + why[f] + " -> " + f.Name() + "; a holder of the exclusive Trie.lock (StageUpdates, Stash replace the maps without the paired mutex) is then not alone"
			}
			c.Check("entry-lock", f.Name()+"|"+owner[a.field]+"."+a.field.Name()+":"+kind, a.sel.Pos(), good, msg)
		}
	}
	c.Floor("entry-lock", 20)
}

// ---------------------------------------------------------------------------
// lock-release / unlock-held

func c10RefName(ref an.LockRef) string {
	s := an.PathString(ref.Path)
	if s != "" {
		s += "."
	}
	if ref.Mutex != nil {
		s += ref.Mutex.Name()
	}
	return s
}

// c10TypeRef renders a mutex independent of local names: Owner.mutex.
func c10TypeRef(ref an.LockRef) string {
	if ref.Mutex == nil {
		return "?"
	}
	objs := an.PathObjs(ref.Path)
	if len(objs) > 0 {
		t := objs[len(objs)-1].Type()
		if pt, ok := t.Underlying().(*types.Pointer); ok {
			t = pt.Elem()
		}
		if nt, ok := t.(*types.Named); ok {
			return nt.Obj().Name() + "." + ref.Mutex.Name()
		}
	}
	return ref.Mutex.Name()
}

func c10LockRelease(c *rep.Ctx, la *an.LockAnalysis) {
	for _, f := range c10AllFuncs(c.Prog, c10TriePkg, c10StatePkg) {
		g := f.Graph()
		ops, unresolved := g.LockOps()
		for _, u := range unresolved {
			c.Check("lock-release", f.Name()+"|unresolved", u.Pos(), false, "mutex operation on an expression that is not a plain object path: the lockset cannot follow it")
		}
		if len(ops) == 0 {
			continue
		}
		for _, op := range ops {
			mode := "Lock"
			if op.Mode == an.LockR {
				mode = "RLock"
			}
			if op.Acquire {
				gates := an.Set{}
				wrongMode := false
				for _, r := range ops {
					if r.Acquire || r.Ref != op.Ref {
						continue
					}
					if r.Mode != op.Mode {
						wrongMode = true
						continue
					}
					gates[r.Node] = true
				}
				ok := len(gates) > 0 && g.PostDominated(op.Node, gates.Union(an.SetOf()).Add()) && !gates[op.Node]
				// the acquire vertex itself must not count as its own gate
				if ok {
					ok = !g.Reach(op.Node.Succs, gates)[g.Exit]
				}
				msg := "every path from this " + mode + " to a normal return passes the matching unlock (or the defer statement registering it)"
				if !ok {
					msg = "a path from this " + mode + " of " + c10RefName(op.Ref) + " reaches a normal return without the matching unlock"
					if wrongMode {
						msg += " (an unlock of the other mode exists: Lock/RUnlock or RLock/Unlock mismatch)"
					}
				}
				c.Check("lock-release", f.Name()+"|"+c10TypeRef(op.Ref)+":"+mode, op.Call.Pos(), ok, msg)
			} else {
				held := la.In(f, op.Node)
				// locks taken earlier in the same vertex do not occur in this code base
				ok := held[op.Ref] == op.Mode
				un := "Unlock"
				if op.Mode == an.LockR {
					un = "RUnlock"
				}
				msg := "the mutex is held in the mode this call releases"
				if !ok {
					msg = un + " of " + c10RefName(op.Ref) + " where it is held as " + held[op.Ref].String() + " (releasing an unheld mutex or the wrong mode is a fatal run-time error)"
				}
				c.Check("unlock-held", f.Name()+"|"+c10TypeRef(op.Ref)+":"+un, op.Call.Pos(), ok, msg)
			}
		}
	}
	c.Floor("lock-release", 30)
	c.Floor("unlock-held", 30)
}

// ---------------------------------------------------------------------------
// reentrant: no function acquires a mutex that its caller holds

type c10Acq struct {
	ref  an.LockRef // rooted at a receiver/parameter of the function
	mode an.LockMode
}

func c10Reentrant(c *rep.Ctx, cg *an.CallGraph, la *an.LockAnalysis) {
	p := c.Prog
	funcs := c10AllFuncs(p, c10TriePkg, c10StatePkg)
	acq := map[*an.Func]map[c10Acq]bool{}
	formals := func(f *an.Func) map[types.Object]bool {
		m := map[types.Object]bool{}
		if f.Decl != nil && f.Decl.Recv != nil {
			for _, fl := range f.Decl.Recv.List {
				for _, nm := range fl.Names {
					m[f.Info().Defs[nm]] = true
				}
			}
		}
		if f.Type != nil && f.Type.Params != nil {
			for _, fl := range f.Type.Params.List {
				for _, nm := range fl.Names {
					m[f.Info().Defs[nm]] = true
				}
			}
		}
		return m
	}
	// direct acquisitions rooted at a formal
	for _, f := range funcs {
		acq[f] = map[c10Acq]bool{}
		fm := formals(f)
		ops, _ := f.Graph().LockOps()
		for _, op := range ops {
			if !op.Acquire || op.Spawned {
				continue
			}
			objs := an.PathObjs(op.Ref.Path)
			if len(objs) > 0 && fm[objs[0]] {
				acq[f][c10Acq{op.Ref, op.Mode}] = true
			}
		}
	}
	// translate callee acquisitions into caller terms at a call
	type binding struct {
		formal types.Object
		actual []types.Object
	}
	bindings := func(caller *an.Func, call *ast.CallExpr, callee *an.Func) []binding {
		var out []binding
		if callee.Decl == nil {
			return nil
		}
		info := caller.Info()
		cinfo := callee.Info()
		if callee.Decl.Recv != nil && len(callee.Decl.Recv.List) == 1 && len(callee.Decl.Recv.List[0].Names) == 1 {
			if sel, ok := ast.Unparen(call.Fun).(*ast.SelectorExpr); ok {
				if pth, ok := an.ObjPath(info, sel.X); ok {
					out = append(out, binding{cinfo.Defs[callee.Decl.Recv.List[0].Names[0]], pth})
				}
			}
		}
		i := 0
		for _, fl := range callee.Decl.Type.Params.List {
			for _, nm := range fl.Names {
				if i < len(call.Args) {
					if pth, ok := an.ObjPath(info, call.Args[i]); ok {
						out = append(out, binding{cinfo.Defs[nm], pth})
					}
				}
				i++
			}
			if len(fl.Names) == 0 {
				i++
			}
		}
		return out
	}
	translate := func(caller *an.Func, call *ast.CallExpr, callee *an.Func) []c10Acq {
		var out []c10Acq
		bs := bindings(caller, call, callee)
		for a := range acq[callee] {
			objs := an.PathObjs(a.ref.Path)
			for _, b := range bs {
				if len(objs) > 0 && objs[0] == b.formal {
					np := append(append([]types.Object{}, b.actual...), objs[1:]...)
					out = append(out, c10Acq{an.LockRef{Path: an.PathKey(np), Mutex: a.ref.Mutex}, a.mode})
				}
			}
		}
		return out
	}
	inScope := map[*an.Func]bool{}
	for _, f := range funcs {
		inScope[f] = true
	}
	for changed := true; changed; {
		changed = false
		for _, f := range funcs {
			fm := formals(f)
			for _, e := range cg.Out[f] {
				if e.Callee == nil || e.Call == nil || !inScope[e.Callee] || e.Kind != an.EStatic {
					continue
				}
				if n := f.Graph().NodeContaining(e.Call.Pos()); n != nil {
					if gs, ok := n.Ast.(*ast.GoStmt); ok && gs.Call == e.Call {
						continue
					}
				}
				for _, a := range translate(f, e.Call, e.Callee) {
					objs := an.PathObjs(a.ref.Path)
					if len(objs) > 0 && fm[objs[0]] && !acq[f][a] {
						acq[f][a] = true
						changed = true
					}
				}
			}
		}
	}
	for _, f := range funcs {
		g := f.Graph()
		// direct double acquisition
		ops, _ := g.LockOps()
		for _, op := range ops {
			if !op.Acquire || op.Deferred || op.Spawned {
				continue
			}
			held := la.In(f, op.Node)
			if m, has := held[op.Ref]; has {
				c.Check("reentrant", f.Name()+"|"+c10TypeRef(op.Ref), op.Call.Pos(), false, "acquires "+c10RefName(op.Ref)+" which is already held ("+m.String()+") here: self-deadlock")
			}
		}
		for _, e := range cg.Out[f] {
			if e.Callee == nil || e.Call == nil || !inScope[e.Callee] || e.Kind != an.EStatic {
				continue
			}
			n := g.NodeContaining(e.Call.Pos())
			if n == nil {
				continue
			}
			if gs, ok := n.Ast.(*ast.GoStmt); ok && gs.Call == e.Call {
				continue
			}
			if ds, ok := n.Ast.(*ast.DeferStmt); ok && ds.Call == e.Call {
				continue
			}
			held := la.In(f, n)
			if len(held) == 0 {
				continue
			}
			tr := translate(f, e.Call, e.Callee)
			if len(tr) == 0 {
				continue
			}
			bad := ""
			for _, a := range tr {
				if m, has := held[a.ref]; has {
					bad = c10RefName(a.ref) + " held " + m.String() + ", callee acquires " + a.mode.String()
				}
			}
			msg := "the callee acquires only mutexes the caller does not hold at this call"
			if bad != "" {
				msg = "the callee (transitively) acquires a mutex the caller holds at the call: " + bad + "; Lock after Lock/RLock self-deadlocks, RLock after RLock deadlocks as soon as a writer queues in between (sync.RWMutex forbids recursive read locking)"
			}
			c.Check("reentrant", f.Name()+"|"+e.Callee.Name(), e.Call.Pos(), bad == "", msg)
		}
	}
	c.Floor("reentrant", 8)
}

// ---------------------------------------------------------------------------
// join: goroutines of the parallel walks are awaited on every path

func c10Join(c *rep.Ctx, la *an.LockAnalysis) {
	for _, f := range c10AllFuncs(c.Prog, c10TriePkg, c10StatePkg) {
		g := f.Graph()
		info := f.Info()
		k := 0
		for _, n := range g.StmtNodes(func(n *an.Node) bool { _, ok := n.Ast.(*ast.GoStmt); return ok }) {
			k++
			gs := n.Ast.(*ast.GoStmt)
			construct := f.Name() + "|go#" + itoa(k)
			// the channel handed to the goroutine
			var ch types.Object
			for _, a := range gs.Call.Args {
				if tv, ok := info.Types[a]; ok {
					if _, isChan := tv.Type.Underlying().(*types.Chan); isChan {
						ch = an.ObjOf(info, a)
					}
				}
			}
			if ch == nil || c10IsParam(f, ch) {
				c.Check("join", construct, gs.Pos(), false, "goroutine started without a result channel created in this function: no join can be established")
				continue
			}
			recvs := an.Set{}
			for _, m := range g.StmtNodes(func(m *an.Node) bool { return true }) {
				an.InspectShallow(m.Ast, func(x ast.Node) bool {
					if _, isRange := x.(*ast.RangeStmt); isRange && x != m.Ast {
						return false
					}
					if u, ok := x.(*ast.UnaryExpr); ok && u.Op == token.ARROW && an.ObjOf(info, u.X) == ch {
						recvs[m] = true
					}
					return true
				})
			}
			delete(recvs, n)
			ok := len(recvs) > 0 && g.PostDominated(n, recvs)
			msg := "a receive from the goroutine's result channel lies on every path from the go statement to a normal return"
			if !ok {
				if why, ex := c10JoinExceptions[construct]; ex {
					c.Check("join", construct, gs.Pos(), true, "exception: "+why)
					continue
				}
				msg = "a path from the go statement returns without receiving from the goroutine's result channel: the goroutine may still be writing the shared batch / node maps after the caller released Trie.lock"
			}
			c.Check("join", construct, gs.Pos(), ok, msg)
		}
	}
	c.Floor("join", 6)
}

// ---------------------------------------------------------------------------
// append-only store

func c10IsStoreType(t types.Type) bool {
	if t == nil {
		return false
	}
	if pt, ok := t.Underlying().(*types.Pointer); ok {
		t = pt.Elem()
	}
	nt, ok := t.(*types.Named)
	if !ok || nt.Obj().Pkg() == nil {
		return false
	}
	path := nt.Obj().Pkg().Path()
	if path == "github.com/aergoio/aergo-lib/db" {
		return true
	}
	return path == an.Module+"/"+c10TriePkg && nt.Obj().Name() == "DbTx"
}

func c10AppendOnly(c *rep.Ctx, cg *an.CallGraph) {
	p := c.Prog
	allowed := map[string]string{
		"pkg/trie.(*Trie).Revert": "rewinds to a root in pastTries and deletes the newer nodes; must stay unreachable (rule revert-dead)",
	}
	nStoreCalls := 0
	for _, f := range c10AllFuncs(p, c10TriePkg, c10StatePkg, "state") {
		info := f.Info()
		an.InspectShallow(f.Body, func(n ast.Node) bool {
			call, ok := n.(*ast.CallExpr)
			if !ok {
				return true
			}
			sel, ok := ast.Unparen(call.Fun).(*ast.SelectorExpr)
			if !ok {
				return true
			}
			fn := an.Callee(info, call)
			if fn == nil {
				return true
			}
			sig, _ := fn.Type().(*types.Signature)
			if sig == nil || sig.Recv() == nil {
				return true
			}
			if !c10IsStoreType(sig.Recv().Type()) && !c10IsStoreType(info.Types[sel.X].Type) {
				return true
			}
			nStoreCalls++
			if fn.Name() != "Delete" {
				return true
			}
			_, ok = allowed[f.TopDecl().Name()]
			c.Check("deleter", f.Name()+"|"+an.FuncName(fn), call.Pos(), ok, "a Delete on the state store may occur only in Trie.Revert (the store of trie nodes and state data is append-only)")
			return true
		})
	}
	c.CheckTrivial("deleter", "store-call-count", token.NoPos, nStoreCalls >= 12, itoa(nStoreCalls)+" calls on the key-value store interfaces enumerated in pkg/trie, state/statedb and state (reference tree: 20)")
	if nStoreCalls < 12 {
		c.Undecide("deleter", "store-call-count", "the enumeration of store calls lost its anchors")
	}
	for name := range allowed {
		f := c.Fn(name)
		if f == nil {
			continue
		}
		has, who := c10HasCallers(p, cg, f)
		c.Check("revert-dead", name, f.Pos(), !has, "the only deleter of trie nodes has no caller and is not used as a function value in the node"+map[bool]string{true: " (used by " + who + ")", false: ""}[has])
	}
	// StateDB.Revert must not reach a deleter: it only resets the root
	if f := c.Fn("state/statedb.(*StateDB).Revert"); f != nil {
		rootF := p.LookupField(c10TriePkg, "Trie", "Root")
		g := f.Graph()
		callsTrie := false
		for _, s := range g.Calls(nil) {
			if s.Fn != nil && s.Fn.Pkg() != nil && an.Rel(s.Fn.Pkg().Path()) == c10TriePkg {
				callsTrie = true
			}
		}
		w := false
		for _, a := range c10Accesses(f, map[*types.Var]bool{rootF: true}) {
			if a.write {
				w = true
			}
		}
		c.Check("revert-dead", "state/statedb.(*StateDB).Revert", f.Pos(), w && !callsTrie, "StateDB.Revert assigns the trie root and calls nothing of package trie")
	}
	// the store handle does not leave the state packages
	var storeFields []*types.Var
	for _, s := range [][3]string{{c10StatePkg, "StateDB", "Store"}, {c10TriePkg, "CacheDB", "Store"}, {"state", "ChainStateDB", "store"}, {c10StatePkg, "ContractState", "store"}} {
		fv := p.LookupField(s[0], s[1], s[2])
		if fv == nil {
			c.Undecide("store-escape", s[1]+"."+s[2], "store field not found")
			continue
		}
		storeFields = append(storeFields, fv)
	}
	okPk := map[string]bool{c10TriePkg: true, c10StatePkg: true, "state": true}
	for _, fv := range storeFields {
		n, bad := 0, ""
		var badPos token.Pos
		for _, f := range c10AllFuncs(p) {
			for _, a := range c10Accesses(f, map[*types.Var]bool{fv: true}) {
				n++
				if !okPk[an.Rel(f.Pkg.PkgPath)] {
					bad = f.Name()
					badPos = a.sel.Pos()
				}
			}
		}
		c.Check("store-escape", fv.Pkg().Name()+"."+fv.Name(), badPos, bad == "", itoa(n)+" uses of the store handle, all inside pkg/trie, state/statedb and state, where rule deleter enumerates every call on it"+map[bool]string{true: "", false: "; used in " + bad}[bad == ""])
	}
}

// ---------------------------------------------------------------------------
// content addressing

func c10HashCall(info *types.Info, call *ast.CallExpr, hashField *types.Var) bool {
	return hashField != nil && an.CalleeVar(info, call) == hashField && an.Callee(info, call) == nil
}

// c10BatchSlot decodes  b[2*i+k]  into (b, i, k).
func c10BatchSlot(info *types.Info, e ast.Expr) (b, i types.Object, k int64, ok bool) {
	ix, isIx := ast.Unparen(e).(*ast.IndexExpr)
	if !isIx {
		return nil, nil, 0, false
	}
	b = an.ObjOf(info, ix.X)
	be, isBin := ast.Unparen(ix.Index).(*ast.BinaryExpr)
	if b == nil || !isBin || be.Op != token.ADD {
		return nil, nil, 0, false
	}
	kk, isC := c10ConstInt(info, be.Y)
	mul, isMul := ast.Unparen(be.X).(*ast.BinaryExpr)
	if !isC || !isMul || mul.Op != token.MUL {
		return nil, nil, 0, false
	}
	var iv ast.Expr
	if two, is2 := c10ConstInt(info, mul.X); is2 && two == 2 {
		iv = mul.Y
	} else if two, is2 := c10ConstInt(info, mul.Y); is2 && two == 2 {
		iv = mul.X
	} else {
		return nil, nil, 0, false
	}
	i = an.ObjOf(info, iv)
	if i == nil {
		return nil, nil, 0, false
	}
	return b, i, kk, true
}

// c10BatchSlotG: like c10BatchSlot, with the index decoded as a linear form 2*i+k in which
// once-defined locals are expanded ( keySlot := 2*iBatch+1; batch[keySlot+1] is slot 2*iBatch+2 ).
func c10BatchSlotG(g *an.Graph, info *types.Info, e ast.Expr) (b, i types.Object, k int64, ok bool) {
	if b, i, k, ok = c10BatchSlot(info, e); ok {
		return
	}
	ix, isIx := ast.Unparen(e).(*ast.IndexExpr)
	if !isIx {
		return nil, nil, 0, false
	}
	b = an.ObjOf(info, ix.X)
	if b == nil {
		return nil, nil, 0, false
	}
	// eval: expression = coef*obj + k
	var eval func(x ast.Expr, depth int) (types.Object, int64, int64, bool)
	eval = func(x ast.Expr, depth int) (types.Object, int64, int64, bool) {
		x = ast.Unparen(x)
		if v, isC := c10ConstInt(info, x); isC {
			return nil, 0, v, true
		}
		if depth > 5 {
			return nil, 0, 0, false
		}
		switch y := x.(type) {
		case *ast.Ident:
			o := an.ObjOf(info, y)
			if o == nil {
				return nil, 0, 0, false
			}
			if g != nil {
				if rhs, _ := g.SingleDef(o); rhs != nil && rhs != x {
					if ro, rc, rk, rok := eval(rhs, depth+1); rok {
						return ro, rc, rk, true
					}
				}
			}
			return o, 1, 0, true
		case *ast.CallExpr:
			if tv, isT := info.Types[y.Fun]; isT && tv.IsType() && len(y.Args) == 1 {
				return eval(y.Args[0], depth+1)
			}
		case *ast.BinaryExpr:
			ao, ac, ak, aok := eval(y.X, depth+1)
			bo, bc, bk, bok := eval(y.Y, depth+1)
			if !aok || !bok {
				return nil, 0, 0, false
			}
			switch y.Op {
			case token.ADD, token.SUB:
				sgn := int64(1)
				if y.Op == token.SUB {
					sgn = -1
				}
				switch {
				case ao == nil:
					return bo, sgn * bc, ak + sgn*bk, true
				case bo == nil:
					return ao, ac, ak + sgn*bk, true
				case ao == bo:
					return ao, ac + sgn*bc, ak + sgn*bk, true
				}
			case token.MUL:
				if ao == nil && ac == 0 {
					return bo, ak * bc, ak * bk, true
				}
				if bo == nil && bc == 0 {
					return ao, bk * ac, bk * ak, true
				}
			}
		}
		return nil, 0, 0, false
	}
	o, coef, kk, eok := eval(ix.Index, 0)
	if !eok || o == nil || coef != 2 {
		return nil, nil, 0, false
	}
	return b, o, kk, true
}

func c10ContentAddr(c *rep.Ctx) {
	p := c.Prog
	live := p.LookupField(c10TriePkg, "CacheDB", "liveCache")
	upd := p.LookupField(c10TriePkg, "CacheDB", "updatedNodes")
	hashField := p.LookupField(c10TriePkg, "Trie", "hash")
	defLeaf := p.LookupObj(c10TriePkg, "DefaultLeaf")
	if live == nil || upd == nil || hashField == nil || defLeaf == nil {
		c.Undecide("node-key", "anchors", "CacheDB.liveCache/updatedNodes, Trie.hash or DefaultLeaf not found")
		return
	}
	maps := map[*types.Var]bool{live: true, upd: true}

	// ---- node-key: m[K] = V  with K copied from the hash parameter
	for _, f := range c10AllFuncs(p) {
		info := f.Info()
		var g *an.Graph
		an.InspectShallow(f.Body, func(n ast.Node) bool {
			as, ok := n.(*ast.AssignStmt)
			if !ok || len(as.Lhs) != 1 || len(as.Rhs) != 1 {
				return true
			}
			ix, ok := ast.Unparen(as.Lhs[0]).(*ast.IndexExpr)
			if !ok {
				return true
			}
			fv := an.FieldOf(info, ix.X)
			if fv == nil || !maps[fv] {
				return true
			}
			if g == nil {
				g = f.Graph()
			}
			construct := f.Name() + "|" + fv.Name()
			kobj := an.ObjOf(info, ix.Index)
			vobj := an.ObjOf(info, as.Rhs[0])
			node := g.NodeContaining(as.Pos())
			if kobj == nil || vobj == nil || node == nil {
				c.Check("node-key", construct, as.Pos(), false, "the key or the value stored in the node map is not a plain variable")
				return true
			}
			// K is filled by copy(K[:], H) and never assigned otherwise (a plain
			// copy K := K2 of such a variable is followed)
			var src types.Object
			keyOK := false
			cur := kobj
			for depth := 0; depth < 3 && cur != nil; depth++ {
				nCopies := 0
				dominates := false
				for _, s := range g.Calls(func(_ *types.Func, call *ast.CallExpr) bool { return an.IsBuiltin(info, call, "copy") }) {
					if len(s.Call.Args) == 2 && c10RootObj(info, s.Call.Args[0]) == cur {
						nCopies++
						src = c10RootObj(info, s.Call.Args[1])
						dominates = g.Dominated(node, an.SetOf(s.Node))
					}
				}
				var defs []ast.Expr
				nAssign := 0
				for _, m := range g.Nodes {
					if m.Kind != an.KStmt || !an.Assigns(info, m.Ast, cur) {
						continue
					}
					nAssign++
					if as2, isAs := m.Ast.(*ast.AssignStmt); isAs && len(as2.Lhs) == len(as2.Rhs) {
						for i, l := range as2.Lhs {
							if an.ObjOf(info, l) == cur {
								defs = append(defs, as2.Rhs[i])
							}
						}
					}
				}
				if nCopies == 1 && dominates && src != nil && c10IsParam(f, src) && nAssign <= 1 && len(defs) == 0 {
					keyOK = true
					break
				}
				if nCopies == 0 && nAssign == 1 && len(defs) == 1 {
					cur = an.ObjOf(info, defs[0])
					continue
				}
				break
			}
			// V is the batch parameter, or the batch parsed from the store entry read under the same hash
			valOK := false
			if sn := p.Func("pkg/trie.(*Trie).storeNode"); sn == f {
				// the parameter positions rule hash-batch validates at every call site: (batch, hash, ...)
				keyOK = keyOK && src == c10ParamAt(f, 1)
				valOK = vobj == c10ParamAt(f, 0)
			} else if src != nil {
				valOK = c10ParsedFrom(f, g, vobj, src)
			}
			c.Check("node-key", construct, as.Pos(), keyOK && valOK, "the node map is keyed by a copy of the hash parameter and stores the batch that was handed in with that hash (or parsed from the store entry read under it)")
			return true
		})
	}
	c.Floor("node-key", 2)

	// ---- hash-batch: in every function that stores a node
	storeNode := p.Func("pkg/trie.(*Trie).storeNode")
	if storeNode == nil {
		c.Undecide("hash-batch", "pkg/trie.(*Trie).storeNode", "not found")
	} else {
		for _, f := range c10AllFuncs(p, c10TriePkg) {
			g := f.Graph()
			info := f.Info()
			for _, s := range g.CallsTo("pkg/trie.(*Trie).storeNode") {
				construct := f.Name() + "|storeNode"
				if len(s.Call.Args) < 2 {
					continue
				}
				bobj := an.ObjOf(info, s.Call.Args[0])
				hobj := an.ObjOf(info, s.Call.Args[1])
				if bobj == nil || hobj == nil {
					c.Check("hash-batch", construct, s.Call.Pos(), false, "storeNode is not called with plain variables for the batch and its hash")
					continue
				}
				// all definitions of h: hash(...) or append(h, flag)
				var hashCalls []*ast.CallExpr
				defsOK := true
				an.InspectShallow(f.Body, func(n ast.Node) bool {
					as, ok := n.(*ast.AssignStmt)
					if !ok {
						return true
					}
					for i, l := range as.Lhs {
						if an.ObjOf(info, l) != hobj || len(as.Lhs) != len(as.Rhs) {
							continue
						}
						r, isCall := ast.Unparen(as.Rhs[i]).(*ast.CallExpr)
						switch {
						case isCall && c10HashCall(info, r, hashField):
							hashCalls = append(hashCalls, r)
						case isCall && an.IsBuiltin(info, r, "append") && len(r.Args) == 2 && an.ObjOf(info, r.Args[0]) == hobj:
							if _, isConst := c10ConstInt(info, r.Args[1]); !isConst {
								defsOK = false
							}
						default:
							defsOK = false
						}
					}
					return true
				})
				if c10IsParam(f, hobj) {
					defsOK = false
				}
				// slots written into the batch on every path to the storeNode call
				var left, right types.Object
				var li, ri types.Object
				for _, m := range g.Nodes {
					as, ok := m.Ast.(*ast.AssignStmt)
					if m.Kind != an.KStmt || !ok || len(as.Lhs) != 1 || len(as.Rhs) != 1 {
						continue
					}
					b, i, k, ok := c10BatchSlotG(g, info, as.Lhs[0])
					if !ok || b != bobj || !g.Dominated(s.Node, an.SetOf(m)) {
						continue
					}
					// only the slots of the node itself (2*iBatch+k), not of a child
					switch k {
					case 1:
						if left == nil {
							left, li = c10RootObj(info, as.Rhs[0]), i
						}
					case 2:
						if right == nil {
							right, ri = c10RootObj(info, as.Rhs[0]), i
						}
					}
				}
				ok := defsOK && len(hashCalls) > 0 && left != nil && right != nil && li == ri
				why := ""
				if ok {
					for _, hc := range hashCalls {
						if len(hc.Args) < 2 {
							ok = false
							continue
						}
						o0 := c10RootObj(info, hc.Args[0])
						o1 := c10RootObj(info, hc.Args[1])
						if !(o0 == left || o0 == defLeaf) || !(o1 == right || o1 == defLeaf) || (o0 == defLeaf && o1 == defLeaf) {
							ok = false
							why = "; a hash call's operands are not (left child | DefaultLeaf, right child | DefaultLeaf)"
						}
					}
				} else {
					why = "; could not identify the hash definitions or the two slot writes that dominate the storeNode call"
				}
				c.Check("hash-batch", construct, s.Call.Pos(), ok, "the hash handed to storeNode is computed from the same two values that are written into slots 2i+1 and 2i+2 of the stored batch, in that order"+why)
			}
		}
		c.Floor("hash-batch", 2)
	}

	// ---- commit-key
	if f := c.Fn("pkg/trie.(*CacheDB).commit"); f != nil {
		info := f.Info()
		var rng *ast.RangeStmt
		an.InspectShallow(f.Body, func(n ast.Node) bool {
			if r, ok := n.(*ast.RangeStmt); ok && an.FieldOf(info, r.X) == upd {
				rng = r
			}
			return true
		})
		ok := false
		var pos token.Pos = f.Pos()
		if rng != nil && rng.Key != nil && rng.Value != nil {
			kobj := an.ObjOf(info, rng.Key)
			vobj := an.ObjOf(info, rng.Value)
			nSet := 0
			good := true
			an.InspectShallow(rng.Body, func(n ast.Node) bool {
				call, isCall := n.(*ast.CallExpr)
				if !isCall {
					return true
				}
				fn := an.Callee(info, call)
				if fn == nil || fn.Name() != "Set" || len(call.Args) != 2 {
					return true
				}
				nSet++
				pos = call.Pos()
				k, isK := ast.Unparen(call.Args[0]).(*ast.CallExpr)
				v, isV := ast.Unparen(call.Args[1]).(*ast.CallExpr)
				if !isK || !isV || an.CalleeName(info, k) != "types/dbkey.Trie" || len(k.Args) != 1 || c10RootObj(info, k.Args[0]) != kobj {
					good = false
					return true
				}
				if an.CalleeName(info, v) != "pkg/trie.(*CacheDB).serializeBatch" || len(v.Args) != 1 || an.ObjOf(info, v.Args[0]) != vobj {
					good = false
				}
				return true
			})
			ok = nSet == 1 && good && kobj != nil && vobj != nil
		}
		c.Check("commit-key", "pkg/trie.(*CacheDB).commit", pos, ok, "commit ranges over updatedNodes and writes serializeBatch(batch) under dbkey.Trie(key) for the key/batch pair of the same map entry")
	}

	// ---- key-prefix: every Get/Set/Delete/Exist of the trie on the store wraps its key in dbkey.Trie
	nk := 0
	for _, f := range c10AllFuncs(p, c10TriePkg) {
		info := f.Info()
		an.InspectShallow(f.Body, func(n ast.Node) bool {
			call, ok := n.(*ast.CallExpr)
			if !ok || len(call.Args) == 0 {
				return true
			}
			sel, ok := ast.Unparen(call.Fun).(*ast.SelectorExpr)
			if !ok {
				return true
			}
			fn := an.Callee(info, call)
			if fn == nil {
				return true
			}
			switch fn.Name() {
			case "Get", "Set", "Delete", "Exist":
			default:
				return true
			}
			if !c10IsStoreType(info.Types[sel.X].Type) {
				if st, isStar := ast.Unparen(sel.X).(*ast.StarExpr); !isStar || !c10IsStoreType(info.Types[st].Type) {
					return true
				}
			}
			nk++
			k, isK := ast.Unparen(call.Args[0]).(*ast.CallExpr)
			ok = isK && an.CalleeName(info, k) == "types/dbkey.Trie"
			c.Check("key-prefix", f.Name()+"|"+fn.Name(), call.Pos(), ok, "trie nodes are read, written and deleted under dbkey.Trie(hash): writer and readers agree on the key space")
			return true
		})
	}
	c.Floor("key-prefix", 5)

	// ---- data-key: state data is stored under entry.Hash(), the value the trie maps the key to
	if f := c.Fn("state/statedb.(*stateBuffer).stage"); f != nil {
		info := f.Info()
		g := f.Graph()
		n := 0
		for _, s := range g.Calls(func(fn *types.Func, call *ast.CallExpr) bool {
			return fn != nil && fn.Name() == "Set" && len(call.Args) == 2
		}) {
			n++
			ok := false
			if k, isK := ast.Unparen(s.Call.Args[0]).(*ast.CallExpr); isK && an.CalleeName(info, k) == "state/statedb.(entry).Hash" {
				recv := c10RecvObj(info, k)
				vobj := an.ObjOf(info, s.Call.Args[1])
				// value = Marshal(recv.Value())
				for _, m := range g.CallsTo("state/statedb.Marshal") {
					if g.ResultVarAt(m, 0) == vobj && vobj != nil && len(m.Call.Args) == 1 && g.Dominated(s.Node, an.SetOf(m.Node)) {
						if vc, isV := ast.Unparen(m.Call.Args[0]).(*ast.CallExpr); isV && an.CalleeName(info, vc) == "state/statedb.(entry).Value" && c10RecvObj(info, vc) == recv && recv != nil {
							ok = true
						}
					}
				}
			}
			c.Check("data-key", "state/statedb.(*stateBuffer).stage|Set", s.Call.Pos(), ok, "the buffer writes Marshal(e.Value()) under the key e.Hash() of the same entry e")
		}
		if n == 0 {
			c.Undecide("data-key", "state/statedb.(*stateBuffer).stage", "no Set call found")
		}
	}
	if f := c.Fn("state/statedb.(*stateBuffer).export"); f != nil {
		info := f.Info()
		// results: keys built from KeyID(), values from Hash() of the same loop entry
		var keyRecv, valRecv types.Object
		var kobj, vobj types.Object
		an.InspectShallow(f.Body, func(n ast.Node) bool {
			as, ok := n.(*ast.AssignStmt)
			if !ok || len(as.Lhs) != 1 || len(as.Rhs) != 1 {
				return true
			}
			ap, ok := ast.Unparen(as.Rhs[0]).(*ast.CallExpr)
			if !ok || !an.IsBuiltin(info, ap, "append") || len(ap.Args) != 2 {
				return true
			}
			src, ok := ast.Unparen(ap.Args[1]).(*ast.CallExpr)
			if !ok {
				return true
			}
			// KeyID().Bytes()  or  Hash()
			inner := src
			if an.CalleeName(info, src) == "types.(HashID).Bytes" {
				if s2, ok := ast.Unparen(src.Fun).(*ast.SelectorExpr); ok {
					if c2, ok := ast.Unparen(s2.X).(*ast.CallExpr); ok {
						inner = c2
					}
				}
			}
			switch an.CalleeName(info, inner) {
			case "state/statedb.(entry).KeyID":
				keyRecv = c10RecvObj(info, inner)
				kobj = c10RootObj(info, as.Lhs[0])
			case "state/statedb.(entry).Hash":
				valRecv = c10RecvObj(info, inner)
				vobj = c10RootObj(info, as.Lhs[0])
			}
			return true
		})
		ok := keyRecv != nil && keyRecv == valRecv && kobj != nil && vobj != nil && kobj != vobj
		if ok {
			// returned in the order (keys, values)
			for _, r := range f.Graph().Returns() {
				rs := r.Ast.(*ast.ReturnStmt)
				if len(rs.Results) != 2 || an.ObjOf(info, rs.Results[0]) != kobj || an.ObjOf(info, rs.Results[1]) != vobj {
					ok = false
				}
			}
		}
		c.Check("data-key", "state/statedb.(*stateBuffer).export", f.Pos(), ok, "export pairs e.KeyID() (trie key) with e.Hash() (trie value = the key the data is staged under) of the same entry and returns (keys, values) in that order")
	}
}

func c10RecvObj(info *types.Info, call *ast.CallExpr) types.Object {
	sel, ok := ast.Unparen(call.Fun).(*ast.SelectorExpr)
	if !ok {
		return nil
	}
	return c10RootObj(info, sel.X)
}

// c10ParsedFrom: v := s.parseBatch(d) with d := Store.Get(dbkey.Trie(src...)).
func c10ParsedFrom(f *an.Func, g *an.Graph, v, src types.Object) bool {
	info := f.Info()
	for _, s := range g.CallsTo("pkg/trie.(*Trie).parseBatch") {
		if g.ResultVarAt(s, 0) != v || len(s.Call.Args) != 1 {
			continue
		}
		d := an.ObjOf(info, s.Call.Args[0])
		for _, gs := range g.Calls(func(fn *types.Func, call *ast.CallExpr) bool {
			return fn != nil && fn.Name() == "Get" && len(call.Args) == 1
		}) {
			if g.ResultVarAt(gs, 0) != d || d == nil {
				continue
			}
			if k, ok := ast.Unparen(gs.Call.Args[0]).(*ast.CallExpr); ok && an.CalleeName(info, k) == "types/dbkey.Trie" && len(k.Args) == 1 && c10RootObj(info, k.Args[0]) == src {
				return true
			}
		}
	}
	return false
}

// ---------------------------------------------------------------------------
// sorted batch and the single update path

func c10Batch(c *rep.Ctx) {
	p := c.Prog
	if f := c.Fn("state/statedb.(*stateBuffer).export"); f != nil {
		g := f.Graph()
		info := f.Info()
		sorts := g.CallsTo("sort.Slice")
		ok := len(sorts) == 1
		var pos token.Pos = f.Pos()
		if ok {
			s := sorts[0]
			pos = s.Call.Pos()
			// sorted before any return
			for _, r := range g.Returns() {
				if !g.Dominated(r, an.SetOf(s.Node)) {
					ok = false
				}
			}
			// the comparator is  a[i].KeyID().Compare(a[j].KeyID()) == -1  (or < 0)
			ok = ok && len(s.Call.Args) == 2 && c10AscendingLess(info, s.Call.Args[0], s.Call.Args[1])
		}
		c.Check("sorted-batch", "state/statedb.(*stateBuffer).export", pos, ok, "the exported batch is sorted by sort.Slice before it is returned, with a comparator that orders element i before element j exactly when KeyID(i).Compare(KeyID(j)) is negative (ascending keys, as Trie.update's splitKeys requires)")
	}
	// every call of Trie.Update / AtomicUpdate in the module passes the two results of export()
	sites := p.CallSitesOf(map[string]bool{"pkg/trie.(*Trie).Update": true, "pkg/trie.(*Trie).AtomicUpdate": true})
	for _, cs := range sites {
		if cs.Fn == nil {
			continue
		}
		g := cs.Fn.Graph()
		info := cs.Fn.Info()
		ok := false
		node := g.NodeContaining(cs.Call.Pos())
		exps := g.CallsTo("state/statedb.(*stateBuffer).export")
		if len(exps) == 1 && len(cs.Call.Args) == 2 && node != nil {
			k := g.ResultVarAt(exps[0], 0)
			v := g.ResultVarAt(exps[0], 1)
			ok = k != nil && v != nil && an.ObjOf(info, cs.Call.Args[0]) == k && an.ObjOf(info, cs.Call.Args[1]) == v && g.Dominated(node, an.SetOf(exps[0].Node))
			for m := range g.Between(exps[0].Node, node) {
				if m.Kind == an.KStmt && (an.Assigns(info, m.Ast, k) || an.Assigns(info, m.Ast, v)) {
					ok = false
				}
			}
		}
		c.Check("sorted-batch", cs.Fn.Name()+"|"+an.FuncName(cs.Obj), cs.Call.Pos(), ok, "the trie is updated with exactly the (keys, values) pair returned by stateBuffer.export (sorted, one entry per key)")
	}
	c.Floor("sorted-batch", 2)
}

// c10AscendingLess recognises func(i, j int) bool { return a[i].KeyID().Compare(a[j].KeyID()) == -1 } (or < 0).
func c10AscendingLess(info *types.Info, slice ast.Expr, fnExpr ast.Expr) bool {
	lit, ok := ast.Unparen(fnExpr).(*ast.FuncLit)
	if !ok || len(lit.Body.List) != 1 || lit.Type.Params == nil {
		return false
	}
	var ps []types.Object
	for _, fl := range lit.Type.Params.List {
		for _, nm := range fl.Names {
			ps = append(ps, info.Defs[nm])
		}
	}
	if len(ps) != 2 {
		return false
	}
	rs, ok := lit.Body.List[0].(*ast.ReturnStmt)
	if !ok || len(rs.Results) != 1 {
		return false
	}
	be, ok := ast.Unparen(rs.Results[0]).(*ast.BinaryExpr)
	if !ok {
		return false
	}
	cv, isC := c10ConstInt(info, be.Y)
	if !isC || !((be.Op == token.EQL && cv == -1) || (be.Op == token.LSS && cv == 0)) {
		return false
	}
	cmp, ok := ast.Unparen(be.X).(*ast.CallExpr)
	if !ok || an.CalleeName(info, cmp) != "types.(HashID).Compare" || len(cmp.Args) != 1 {
		return false
	}
	sobj := c10RootObj(info, slice)
	elemIdx := func(e ast.Expr) types.Object {
		// a[x].KeyID()
		call, ok := ast.Unparen(e).(*ast.CallExpr)
		if !ok || an.CalleeName(info, call) != "state/statedb.(entry).KeyID" {
			return nil
		}
		sel, ok := ast.Unparen(call.Fun).(*ast.SelectorExpr)
		if !ok {
			return nil
		}
		ix, ok := ast.Unparen(sel.X).(*ast.IndexExpr)
		if !ok || an.ObjOf(info, ix.X) != sobj || sobj == nil {
			return nil
		}
		return an.ObjOf(info, ix.Index)
	}
	recvSel, ok := ast.Unparen(cmp.Fun).(*ast.SelectorExpr)
	if !ok {
		return false
	}
	return elemIdx(recvSel.X) == ps[0] && elemIdx(cmp.Args[0]) == ps[1]
}

// ---------------------------------------------------------------------------
// ordering inside stage / update / commit

func c10Order(c *rep.Ctx) {
	p := c.Prog
	upd := p.LookupField(c10TriePkg, "CacheDB", "updatedNodes")
	// StageUpdates: commit dominates the reset of updatedNodes; the reset never precedes it
	if f := c.Fn("pkg/trie.(*Trie).StageUpdates"); f != nil && upd != nil {
		g := f.Graph()
		commits := g.CallsTo("pkg/trie.(*CacheDB).commit")
		var resets []*an.Node
		for _, a := range c10Accesses(f, map[*types.Var]bool{upd: true}) {
			if a.write && a.rhs != nil {
				resets = append(resets, g.NodeContaining(a.sel.Pos()))
			}
		}
		ok := len(commits) == 1 && len(resets) >= 1
		if ok {
			for _, r := range resets {
				if r == nil || !g.Dominated(r, an.SetOf(commits[0].Node)) || g.Reachable(r, commits[0].Node) {
					ok = false
				}
			}
			// every normal return has committed
			if !g.Dominated(g.Exit, an.SetOf(commits[0].Node)) {
				ok = false
			}
		}
		c.Check("order", "pkg/trie.(*Trie).StageUpdates|commit<reset", f.Pos(), ok, "StageUpdates hands updatedNodes to the database transaction on every path, and only afterwards replaces the map")
	}
	// stage functions: the trie nodes and the buffered data are staged before the buffer is reset
	for _, name := range []string{"state/statedb.(*StateDB).stage", "state/statedb.(*bufferedStorage).stage"} {
		f := c.Fn(name)
		if f == nil {
			continue
		}
		g := f.Graph()
		tr := g.CallsTo("pkg/trie.(*Trie).StageUpdates")
		bs := g.CallsTo("state/statedb.(*stateBuffer).stage")
		rs := g.CallsTo("state/statedb.(*stateBuffer).reset")
		ok := len(tr) == 1 && len(bs) == 1 && len(rs) == 1
		if ok {
			nilEdges := g.ErrNilEdges(bs[0])
			ok = g.Dominated(rs[0].Node, an.SetOf(tr[0].Node)) && len(nilEdges) > 0 && g.Dominated(rs[0].Node, nilEdges)
			// a nil return implies everything was staged
			for _, r := range g.Returns() {
				ret := r.Ast.(*ast.ReturnStmt)
				if len(ret.Results) == 1 {
					if tv, has := f.Info().Types[ret.Results[0]]; has && tv.IsNil() {
						if !g.Dominated(r, nilEdges) || !g.Dominated(r, an.SetOf(tr[0].Node)) {
							ok = false
						}
					}
				}
			}
		}
		c.Check("order", name+"|stage<reset", f.Pos(), ok, "the trie nodes (StageUpdates) and the buffered state data (Buffer.stage, succeeded) are handed to the transaction before the buffer is reset and before success is returned")
	}
	// StateDB.Commit: Flush only after every stage succeeded; failure discards
	if f := c.Fn("state/statedb.(*StateDB).Commit"); f != nil {
		g := f.Graph()
		st := g.CallsTo("state/statedb.(*StateDB).stage")
		ss := g.CallsTo("state/statedb.(*bufferedStorage).stage")
		var flush, discard []an.Site
		for _, s := range g.Calls(nil) {
			if s.Fn == nil {
				continue
			}
			switch s.Fn.Name() {
			case "Flush":
				flush = append(flush, s)
			case "DiscardLast":
				discard = append(discard, s)
			}
		}
		ok := len(st) == 1 && len(ss) == 1 && len(flush) == 1
		if ok {
			e1 := g.ErrNilEdges(st[0])
			ok = len(e1) > 0 && g.Dominated(flush[0].Node, e1)
			// no path on which a storage stage failed reaches Flush
			e2 := g.ErrNilEdges(ss[0])
			if len(e2) == 0 {
				ok = false
			}
			for _, d := range discard {
				if g.Reachable(d.Node, flush[0].Node) {
					ok = false
				}
			}
			// failing edge of the storage stage cannot reach Flush
			for _, n := range g.Nodes {
				if (n.Kind == an.KTrue || n.Kind == an.KFalse) && n.Cond != nil && !e2[n] {
					if sib := c10Sibling(n); sib != nil && e2[sib] && g.Reach([]*an.Node{n}, nil)[flush[0].Node] {
						ok = false
					}
				}
			}
		}
		c.Check("order", "state/statedb.(*StateDB).Commit|stage<flush", f.Pos(), ok, "the bulk is flushed only when the account trie/buffer were staged without error and no storage stage failed; a failed stage never reaches Flush")
	}
	// StateDB.update: storage tries first (their roots go into the account states), then the account trie
	if f := c.Fn("state/statedb.(*StateDB).update"); f != nil {
		g := f.Graph()
		us := g.CallsTo("state/statedb.(*StateDB).updateStorage")
		ut := g.CallsTo("state/statedb.(*stateBuffer).updateTrie")
		ok := len(us) == 1 && len(ut) == 1
		if ok {
			e := g.ErrNilEdges(us[0])
			ok = len(e) > 0 && g.Dominated(ut[0].Node, e)
		}
		c.Check("order", "state/statedb.(*StateDB).update|storage<accounts", f.Pos(), ok, "the account buffer is exported to the account trie only after every contract storage trie was updated successfully")
	}
	// updateStorage: the new storage root is written into the account state that is put back
	if f := c.Fn("state/statedb.(*StateDB).updateStorage"); f != nil {
		g := f.Graph()
		info := f.Info()
		sroot := p.LookupField("types", "State", "StorageRoot")
		troot := p.LookupField(c10TriePkg, "Trie", "Root")
		ok := false
		if sroot != nil && troot != nil {
			for _, a := range c10Accesses(f, map[*types.Var]bool{sroot: true}) {
				if !a.write || a.rhs == nil || an.FieldOf(info, a.rhs) != troot {
					continue
				}
				stObj := c10RootObj(info, a.sel.X)
				wn := g.NodeContaining(a.sel.Pos())
				// storage object whose root is read is the one whose update() ran
				var storageObj types.Object
				if sx, isSel := ast.Unparen(a.rhs).(*ast.SelectorExpr); isSel {
					storageObj = c10RootObj(info, sx.X)
					if inner, isSel2 := ast.Unparen(sx.X).(*ast.SelectorExpr); isSel2 {
						storageObj = c10RootObj(info, inner.X)
					}
				}
				for _, put := range g.CallsTo("state/statedb.(*stateBuffer).put") {
					if wn == nil || !g.Dominated(put.Node, an.SetOf(wn)) || len(put.Call.Args) != 1 {
						continue
					}
					ne, isCall := ast.Unparen(put.Call.Args[0]).(*ast.CallExpr)
					if !isCall || len(ne.Args) != 2 || an.ObjOf(info, ne.Args[1]) != stObj || stObj == nil {
						continue
					}
					for _, u := range g.CallsTo("state/statedb.(*bufferedStorage).update") {
						if c10RecvObj(info, u.Call) == storageObj && storageObj != nil && g.Dominated(wn, g.ErrNilEdges(u)) {
							ok = true
						}
					}
				}
			}
		}
		c.Check("order", "state/statedb.(*StateDB).updateStorage|root-link", f.Pos(), ok, "after a storage trie was updated without error its new Root is assigned to StorageRoot of the account state that is put back into the account buffer")
	}
	c.Floor("order", 5)
}

func c10Sibling(n *an.Node) *an.Node {
	if n.Cond == nil {
		return nil
	}
	for _, s := range n.Cond.Succs {
		if s != n && (s.Kind == an.KTrue || s.Kind == an.KFalse) {
			return s
		}
	}
	return nil
}

// ---------------------------------------------------------------------------
// get-key-check: a shortcut's value is returned only when its key equals the
// key asked for

func c10KeyEqualEdges(f *an.Func, g *an.Graph, loadSite an.Site, key types.Object) an.Set {
	info := f.Info()
	lnode := g.ResultVarAt(loadSite, 2)
	out := an.Set{}
	if lnode == nil || key == nil {
		return out
	}
	for _, s := range g.CallsTo("bytes.Equal") {
		if len(s.Call.Args) != 2 {
			continue
		}
		a, b := c10RootObj(info, s.Call.Args[0]), c10RootObj(info, s.Call.Args[1])
		if (a == lnode && b == key) || (a == key && b == lnode) {
			for e := range g.BoolEdges(s, true) {
				out[e] = true
			}
		}
	}
	return out
}

func c10GetKeyCheck(c *rep.Ctx) {
	f := c.Fn("pkg/trie.(*Trie).get")
	if f == nil {
		return
	}
	g := f.Graph()
	info := f.Info()
	loads := g.CallsTo("pkg/trie.(*Trie).loadChildren")
	key := c10ParamAt(f, 1)
	if len(loads) != 1 || key == nil {
		c.Undecide("get-key-check", f.Name(), "loadChildren call or key parameter not found")
		return
	}
	rnode := g.ResultVarAt(loads[0], 3)
	edges := c10KeyEqualEdges(f, g, loads[0], key)
	n := 0
	for _, r := range g.Returns() {
		rs := r.Ast.(*ast.ReturnStmt)
		if len(rs.Results) != 2 {
			continue
		}
		if c10RootObj(info, rs.Results[0]) != rnode || rnode == nil {
			continue
		}
		n++
		c.Check("get-key-check", f.Name()+"|return-value", rs.Pos(), len(edges) > 0 && g.Dominated(r, edges), "the value slot of a shortcut node is returned only on the true edge of bytes.Equal(stored key, requested key)")
	}
	if n == 0 {
		c.Undecide("get-key-check", f.Name(), "no return of the shortcut value found")
	}
}

func c10KeyLength(c *rep.Ctx) {
	p := c.Prog
	a := p.LookupObj(c10TriePkg, "HashLength")
	b := p.LookupObj("types", "HashIDLength")
	ca, ok1 := a.(*types.Const)
	cb, ok2 := b.(*types.Const)
	if !ok1 || !ok2 {
		c.Undecide("key-length", "trie.HashLength/types.HashIDLength", "constants not found")
		return
	}
	c.CheckTrivial("key-length", "trie.HashLength=types.HashIDLength", ca.Pos(), ca.Val().ExactString() == cb.Val().ExactString(), "the trie truncates keys, values and node hashes to HashLength bytes; account/storage ids are HashIDLength bytes: "+ca.Val().ExactString()+" vs "+cb.Val().ExactString())
}
