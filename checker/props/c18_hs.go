package props

import (
	"go/ast"
	"go/token"
	"go/types"
	"sort"
	"strings"

	"verif/checker/internal/an"
	"verif/checker/internal/rep"
)

// ---------------------------------------------------------------------------
// handshake: chain id, genesis hash and peer id guards of every status check
// that is reachable for an accepted protocol version

var c18Roles = []string{"chain-id", "genesis", "peer-id"}

type c18HS struct {
	c      *rep.Ctx
	p      *an.Prog
	status *types.TypeName                // types.Status
	memo   map[*an.Func]map[string]string // role -> "" (holds) | reason
	busy   map[*an.Func]bool
}

// c18IsStatusCheck: method  func (h *T) f(s *types.Status) error
func (h *c18HS) isStatusCheck(fn *types.Func) bool {
	if fn == nil {
		return false
	}
	sig, ok := fn.Type().(*types.Signature)
	if !ok || sig.Recv() == nil || sig.Params().Len() != 1 || sig.Results().Len() != 1 {
		return false
	}
	if c18Named(sig.Params().At(0).Type()) != h.status {
		return false
	}
	if _, isPtr := sig.Params().At(0).Type().(*types.Pointer); !isPtr {
		return false
	}
	return types.Identical(sig.Results().At(0).Type(), types.Universe.Lookup("error").Type())
}

func c18Mentions(info *types.Info, e ast.Node, obj types.Object) bool {
	found := false
	if e == nil || obj == nil {
		return false
	}
	ast.Inspect(e, func(n ast.Node) bool {
		if id, ok := n.(*ast.Ident); ok && (info.Uses[id] == obj || info.Defs[id] == obj) {
			found = true
		}
		return !found
	})
	return found
}

// c18UniqueDef returns the single value assigned to the local obj in f (nil if
// not exactly one plain definition).
func c18UniqueDef(f *an.Func, obj types.Object) ast.Expr {
	info := f.Info()
	var def ast.Expr
	n := 0
	an.InspectShallow(f.Body, func(m ast.Node) bool {
		switch s := m.(type) {
		case *ast.AssignStmt:
			for i, l := range s.Lhs {
				if an.ObjOf(info, l) == obj {
					n++
					if len(s.Lhs) == len(s.Rhs) {
						def = s.Rhs[i]
					} else {
						def = nil
						n++
					}
				}
			}
		case *ast.ValueSpec:
			for i, nm := range s.Names {
				if info.Defs[nm] == obj {
					n++
					if i < len(s.Values) {
						def = s.Values[i]
					}
				}
			}
		case *ast.UnaryExpr:
			if s.Op == token.AND && an.ObjOf(info, s.X) == obj {
				n += 2
			}
		}
		return true
	})
	if n != 1 {
		return nil
	}
	return def
}

// derivesFromStatus: e mentions the status parameter, directly or through one
// or two local definitions.
func c18FromStatus(f *an.Func, e ast.Expr, status types.Object, depth int) bool {
	info := f.Info()
	if c18Mentions(info, e, status) {
		return true
	}
	if depth > 2 {
		return false
	}
	res := false
	ast.Inspect(e, func(n ast.Node) bool {
		id, ok := n.(*ast.Ident)
		if !ok || res {
			return !res
		}
		if v, ok := info.Uses[id].(*types.Var); ok && !v.IsField() && v.Parent() != nil && v.Pkg() != nil && v.Parent() != v.Pkg().Scope() {
			if def := c18UniqueDef(f, v); def != nil && c18FromStatus(f, def, status, depth+1) {
				res = true
			}
		}
		return !res
	})
	return res
}

// statusField: e is <status>.<name> or <status>.Get<name>()
func c18StatusField(info *types.Info, e ast.Expr, status types.Object, name string) bool {
	e = ast.Unparen(e)
	if call, ok := e.(*ast.CallExpr); ok && len(call.Args) == 0 {
		if sel, ok := ast.Unparen(call.Fun).(*ast.SelectorExpr); ok && sel.Sel.Name == "Get"+name {
			return an.ObjOf(info, sel.X) == status
		}
		return false
	}
	if sel, ok := e.(*ast.SelectorExpr); ok {
		if f := an.FieldOf(info, sel); f != nil && f.Name() == name {
			return an.ObjOf(info, sel.X) == status
		}
	}
	return false
}

func c18IsPeerID(t types.Type) bool {
	tn := c18Named(t)
	if tn == nil || tn.Pkg() == nil {
		return false
	}
	// types.PeerID is an alias of libp2p's peer.ID in some versions: accept both
	return tn.Name() == "PeerID" || (tn.Name() == "ID" && strings.HasSuffix(tn.Pkg().Path(), "/peer"))
}

// edgesFor returns the branch edges of cf on which the equality of role holds.
func (h *c18HS) edgesFor(cf *an.Func, role string, status, recv types.Object) (an.Set, string) {
	g := cf.Graph()
	info := cf.Info()
	extra := ""
	var at an.Atomizer
	switch role {
	case "chain-id":
		// remote chain id objects: receivers of  X.Read(status.ChainID)
		remote := map[types.Object]an.Site{}
		for _, s := range g.CallsTo("types.(*ChainID).Read") {
			sel, ok := ast.Unparen(s.Call.Fun).(*ast.SelectorExpr)
			if !ok || len(s.Call.Args) != 1 || !c18StatusField(info, s.Call.Args[0], status, "ChainID") {
				continue
			}
			if o := an.ObjOf(info, sel.X); o != nil {
				remote[o] = s
			}
		}
		if len(remote) == 0 {
			return nil, "the status' ChainID is never decoded (no ChainID.Read(status.ChainID))"
		}
		at = func(e ast.Expr) (string, bool, bool) {
			call, ok := ast.Unparen(e).(*ast.CallExpr)
			if !ok || an.CalleeName(info, call) != "types.(*ChainID).Equals" || len(call.Args) != 1 {
				return "", false, false
			}
			sel, ok := ast.Unparen(call.Fun).(*ast.SelectorExpr)
			if !ok {
				return "", false, false
			}
			x, y := an.ObjOf(info, sel.X), an.ObjOf(info, call.Args[0])
			_, xr := remote[x]
			_, yr := remote[y]
			// the other operand is the local chain id: it may be selected by the remote best
			// height (hard forks) but must not be derived from the remote chain id itself
			fromRemote := func(e ast.Expr) bool {
				bad := false
				var visit func(e ast.Expr, depth int)
				visit = func(e ast.Expr, depth int) {
					ast.Inspect(e, func(n ast.Node) bool {
						switch v := n.(type) {
						case *ast.SelectorExpr:
							if c18StatusField(info, v, status, "ChainID") {
								bad = true
							}
						case *ast.CallExpr:
							if c18StatusField(info, v, status, "ChainID") {
								bad = true
							}
						case *ast.Ident:
							o := an.ObjOf(info, v)
							if _, isR := remote[o]; isR {
								bad = true
							} else if lv, ok := o.(*types.Var); ok && depth < 3 && !lv.IsField() {
								if def := c18UniqueDef(cf, lv); def != nil {
									visit(def, depth+1)
								}
							}
						}
						return !bad
					})
				}
				visit(e, 0)
				return bad
			}
			if (xr && !yr && !fromRemote(call.Args[0])) || (yr && !xr && !fromRemote(sel.X)) {
				return "EQ", false, true
			}
			return "", false, false
		}
		_ = extra
	case "genesis":
		at = func(e ast.Expr) (string, bool, bool) {
			call, ok := ast.Unparen(e).(*ast.CallExpr)
			if !ok || an.CalleeName(info, call) != "bytes.Equal" || len(call.Args) != 2 {
				return "", false, false
			}
			a0, a1 := call.Args[0], call.Args[1]
			s0, s1 := c18StatusField(info, a0, status, "Genesis"), c18StatusField(info, a1, status, "Genesis")
			if (s0 && !s1 && !c18FromStatus(cf, a1, status, 0)) || (s1 && !s0 && !c18FromStatus(cf, a0, status, 0)) {
				return "EQ", false, true
			}
			return "", false, false
		}
	case "peer-id":
		isLocal := func(e ast.Expr) bool {
			sel, ok := ast.Unparen(e).(*ast.SelectorExpr)
			if !ok {
				return false
			}
			f := an.FieldOf(info, sel)
			if f == nil || !c18IsPeerID(f.Type()) {
				return false
			}
			// selected on the receiver (possibly through embedded handshakers)
			base := ast.Unparen(sel.X)
			for {
				if s2, ok := base.(*ast.SelectorExpr); ok {
					base = ast.Unparen(s2.X)
					continue
				}
				break
			}
			return an.ObjOf(info, base) == recv && recv != nil
		}
		isRemote := func(e ast.Expr) bool {
			t := info.TypeOf(e)
			return t != nil && c18IsPeerID(t) && !isLocal(e) && c18FromStatus(cf, e, status, 0)
		}
		at = func(e ast.Expr) (string, bool, bool) {
			e = ast.Unparen(e)
			if be, ok := e.(*ast.BinaryExpr); ok && (be.Op == token.EQL || be.Op == token.NEQ) {
				if (isLocal(be.X) && isRemote(be.Y)) || (isLocal(be.Y) && isRemote(be.X)) {
					return "EQ", be.Op == token.NEQ, true
				}
			}
			if call, ok := e.(*ast.CallExpr); ok && an.CalleeName(info, call) == "types.IsSamePeerID" && len(call.Args) == 2 {
				if (isLocal(call.Args[0]) && isRemote(call.Args[1])) || (isLocal(call.Args[1]) && isRemote(call.Args[0])) {
					return "EQ", false, true
				}
			}
			return "", false, false
		}
	}
	return g.EdgesImplying(at, map[string]bool{"EQ": true}), ""
}

// successReturns: the return statements of a status check that may yield nil.
func c18SuccessReturns(cf *an.Func) []*an.Node {
	g := cf.Graph()
	info := cf.Info()
	var out []*an.Node
	for _, r := range g.Returns() {
		rs := r.Ast.(*ast.ReturnStmt)
		if len(rs.Results) != 1 {
			out = append(out, r) // bare return of a named result: unknown
			continue
		}
		e := ast.Unparen(rs.Results[0])
		if tv, ok := info.Types[e]; ok && tv.IsNil() {
			out = append(out, r)
			continue
		}
		if _, isCall := e.(*ast.CallExpr); isCall {
			continue // fmt.Errorf / errors.New ...: an error exit
		}
		if obj := an.ObjOf(info, e); obj != nil {
			if ok, _ := g.GuardedAt(r, an.NilAtom(info, obj), map[string]bool{"nil": false}); ok {
				continue // known non-nil error
			}
			// package-level error value (ErrXxx)
			if v, isVar := obj.(*types.Var); isVar && v.Pkg() != nil && v.Parent() == v.Pkg().Scope() {
				continue
			}
		}
		out = append(out, r)
	}
	return out
}

// roles decides, per role, whether every success return of cf is dominated by
// the role's guard (own or delegated).  "" = holds.
func (h *c18HS) roles(cf *an.Func) map[string]string {
	if m, ok := h.memo[cf]; ok {
		return m
	}
	out := map[string]string{}
	if h.busy[cf] || cf.Body == nil {
		for _, r := range c18Roles {
			out[r] = "recursive or bodiless status check"
		}
		return out
	}
	h.busy[cf] = true
	defer func() { h.busy[cf] = false }()
	g := cf.Graph()
	info := cf.Info()
	var status, recv types.Object
	if cf.Type.Params != nil && len(cf.Type.Params.List) == 1 && len(cf.Type.Params.List[0].Names) == 1 {
		status = info.Defs[cf.Type.Params.List[0].Names[0]]
	}
	if cf.Decl != nil && cf.Decl.Recv != nil && len(cf.Decl.Recv.List) == 1 && len(cf.Decl.Recv.List[0].Names) == 1 {
		recv = info.Defs[cf.Decl.Recv.List[0].Names[0]]
	}
	succ := c18SuccessReturns(cf)
	// delegation: calls of other status checks with the same status value
	type deleg struct {
		site an.Site
		fn   *an.Func
	}
	var delegs []deleg
	for _, s := range g.Calls(func(fn *types.Func, call *ast.CallExpr) bool {
		return h.isStatusCheck(fn) && len(call.Args) == 1 && an.ObjOf(info, call.Args[0]) == status && status != nil
	}) {
		if df := h.p.FuncOf(s.Fn); df != nil && df != cf {
			delegs = append(delegs, deleg{s, df})
		}
	}
	for _, role := range c18Roles {
		if status == nil || len(succ) == 0 {
			out[role] = "the status check has no named status parameter or no success return"
			continue
		}
		edges, why := h.edgesFor(cf, role, status, recv)
		all := an.Set{}
		for e := range edges {
			all[e] = true
		}
		for _, d := range delegs {
			if h.roles(d.fn)[role] == "" {
				for e := range g.ErrNilEdges(d.site) {
					all[e] = true
				}
			}
		}
		ok := len(all) > 0
		for _, r := range succ {
			if !g.Dominated(r, all) {
				ok = false
			}
		}
		if role == "chain-id" && ok && len(edges) > 0 {
			// the decode of the remote chain id must have succeeded as well
			dec := an.Set{}
			for _, s := range g.CallsTo("types.(*ChainID).Read") {
				for e := range g.ErrNilEdges(s) {
					dec[e] = true
				}
			}
			own := false
			for _, r := range succ {
				if g.Dominated(r, edges) {
					own = true
				}
			}
			if own {
				for _, r := range succ {
					if !g.Dominated(r, dec) {
						ok = false
						why = "the error of ChainID.Read(status.ChainID) does not lead to an error exit"
					}
				}
			}
		}
		switch {
		case ok:
			out[role] = ""
		case why != "" && len(delegs) == 0:
			out[role] = why
		case len(all) == 0:
			out[role] = "no comparison of the remote " + role + " with the local one exists in the status check (nor in a status check it delegates to)"
		default:
			out[role] = "a success return is reachable without passing the " + role + " comparison"
		}
	}
	h.memo[cf] = out
	return out
}

func c18VarInitElems(p *an.Prog, pkgRel, name string) ([]types.Object, types.Object) {
	pk := p.Pkg(pkgRel)
	if pk == nil {
		return nil, nil
	}
	obj := pk.Types.Scope().Lookup(name)
	var out []types.Object
	for _, file := range pk.Syntax {
		for _, d := range file.Decls {
			gd, ok := d.(*ast.GenDecl)
			if !ok || gd.Tok != token.VAR {
				continue
			}
			for _, sp := range gd.Specs {
				vs := sp.(*ast.ValueSpec)
				for i, nm := range vs.Names {
					if pk.TypesInfo.Defs[nm] != obj || i >= len(vs.Values) {
						continue
					}
					if cl, ok := ast.Unparen(vs.Values[i]).(*ast.CompositeLit); ok {
						for _, el := range cl.Elts {
							if o := an.ObjOf(pk.TypesInfo, el); o != nil {
								out = append(out, o)
							} else if sel, ok := el.(*ast.SelectorExpr); ok {
								out = append(out, pk.TypesInfo.Uses[sel.Sel])
							}
						}
					}
				}
			}
		}
	}
	return out, obj
}

// c18VarWritten reports assignments to a package-level variable anywhere in the module.
func c18VarWritten(p *an.Prog, obj types.Object) []token.Pos {
	var out []token.Pos
	for _, pk := range p.ModulePkgs() {
		info := pk.TypesInfo
		if info == nil {
			continue
		}
		is := func(e ast.Expr) bool {
			for {
				e = ast.Unparen(e)
				switch x := e.(type) {
				case *ast.IndexExpr:
					e = x.X
					continue
				case *ast.SliceExpr:
					e = x.X
					continue
				case *ast.Ident:
					return info.Uses[x] == obj
				case *ast.SelectorExpr:
					return info.Uses[x.Sel] == obj
				}
				return false
			}
		}
		for _, file := range pk.Syntax {
			ast.Inspect(file, func(n ast.Node) bool {
				switch s := n.(type) {
				case *ast.AssignStmt:
					for _, l := range s.Lhs {
						if is(l) {
							out = append(out, l.Pos())
						}
					}
				case *ast.UnaryExpr:
					if s.Op == token.AND && is(s.X) {
						out = append(out, s.Pos())
					}
				}
				return true
			})
		}
	}
	return out
}

func c18Handshake(c *rep.Ctx) {
	p := c.Prog
	h := &c18HS{c: c, p: p, memo: map[*an.Func]map[string]string{}, busy: map[*an.Func]bool{}}
	if o, ok := p.LookupObj("types", "Status").(*types.TypeName); ok {
		h.status = o
	}
	if h.status == nil {
		c.Undecide("hs-guard", "types.Status", "status message type not found")
		return
	}
	inb, inObj := c18VarInitElems(p, "p2p/p2pcommon", "AcceptedInboundVersions")
	outb, outObj := c18VarInitElems(p, "p2p/p2pcommon", "AttemptingOutboundVersions")
	if len(inb) == 0 || len(outb) == 0 {
		c.Undecide("hs-versions", "p2p/p2pcommon", "accepted / attempted version lists not found or not composite literals")
		return
	}
	for _, pr := range []struct {
		o types.Object
		n string
	}{{inObj, "AcceptedInboundVersions"}, {outObj, "AttemptingOutboundVersions"}} {
		w := c18VarWritten(p, pr.o)
		pos := pr.o.Pos()
		if len(w) > 0 {
			pos = w[0]
		}
		c.Check("hs-versions", "p2p/p2pcommon."+pr.n+"|writers", pos, len(w) == 0, "the version list is fixed by its declaration (never assigned, element-assigned or address-taken elsewhere): the set of accepted handshakers is the one enumerated here")
	}
	// ---- the version manager(s): switch on the version parameter
	type impl struct {
		vm    *an.Func
		typ   *types.TypeName
		cases []types.Object
	}
	var impls []impl
	nVM := 0
	for _, f := range p.Funcs() {
		if f.Obj == nil || f.Obj.Name() != "GetVersionedHandshaker" || f.Body == nil || !c18InScope(an.Rel(f.Pkg.PkgPath)) {
			continue
		}
		nVM++
		c.Fns[f.Name()] = true
		info := f.Info()
		ast.Inspect(f.Body, func(n ast.Node) bool {
			sw, ok := n.(*ast.SwitchStmt)
			if !ok || sw.Tag == nil {
				return true
			}
			if _, isParam := an.ObjOf(info, sw.Tag).(*types.Var); !isParam {
				return true
			}
			for _, st := range sw.Body.List {
				cc := st.(*ast.CaseClause)
				var consts []types.Object
				for _, e := range cc.List {
					switch x := ast.Unparen(e).(type) {
					case *ast.Ident:
						consts = append(consts, info.Uses[x])
					case *ast.SelectorExpr:
						consts = append(consts, info.Uses[x.Sel])
					}
				}
				if len(consts) == 0 {
					continue
				}
				seen := map[*types.TypeName]bool{}
				for _, s := range cc.Body {
					ast.Inspect(s, func(m ast.Node) bool {
						rs, ok := m.(*ast.ReturnStmt)
						if !ok || len(rs.Results) == 0 {
							return true
						}
						t := info.TypeOf(rs.Results[0])
						if _, isPtr := t.(*types.Pointer); !isPtr {
							return true
						}
						if tn := c18Named(t); tn != nil && !seen[tn] {
							seen[tn] = true
							impls = append(impls, impl{f, tn, consts})
						}
						return true
					})
				}
			}
			return false
		})
	}
	if nVM == 0 || len(impls) == 0 {
		c.Undecide("hs-versions", "GetVersionedHandshaker", "no version manager switch found")
		return
	}
	typesOf := func(ver types.Object) []*types.TypeName {
		var out []*types.TypeName
		for _, im := range impls {
			for _, k := range im.cases {
				if k == ver {
					out = append(out, im.typ)
				}
			}
		}
		return out
	}
	// ---- per version and direction: result only after the status check; collect the check functions
	type use struct{ ver, dir string }
	checkUses := map[*an.Func][]use{}
	var order []*an.Func
	dirs := []struct {
		name   string
		list   []types.Object
		method string
	}{{"inbound", inb, "DoForInbound"}, {"outbound", outb, "DoForOutbound"}}
	for _, d := range dirs {
		for _, ver := range d.list {
			if ver == nil {
				continue
			}
			ts := typesOf(ver)
			c.CheckTrivial("hs-versions", ver.Name()+"/"+d.name, ver.Pos(), len(ts) > 0, "a handshaker is constructed for the "+d.name+" version "+ver.Name())
			for _, tn := range ts {
				obj, _, _ := types.LookupFieldOrMethod(types.NewPointer(tn.Type()), true, tn.Pkg(), d.method)
				mf, _ := obj.(*types.Func)
				body := p.FuncOf(mf)
				construct := ver.Name() + "/" + d.name + "|" + an.Rel(tn.Pkg().Path()) + "." + tn.Name()
				if body == nil || body.Body == nil {
					c.Undecide("hs-gate", construct, "method "+d.method+" not found")
					continue
				}
				c.Fns[body.Name()] = true
				g := body.Graph()
				info := body.Info()
				checks := g.Calls(func(fn *types.Func, _ *ast.CallExpr) bool { return h.isStatusCheck(fn) })
				// the status value comes from the receive call of the same function
				recvs := g.Calls(func(fn *types.Func, call *ast.CallExpr) bool {
					if fn == nil {
						return false
					}
					sig := fn.Type().(*types.Signature)
					return sig.Results().Len() == 2 && c18Named(sig.Results().At(0).Type()) == h.status && sig.Recv() != nil
				})
				gates := an.Set{}
				flow := len(checks) > 0
				for _, cs := range checks {
					for e := range g.ErrNilEdges(cs) {
						gates[e] = true
					}
					fromRecv := false
					for _, rs := range recvs {
						if o := g.ResultVarAt(rs, 0); o != nil && len(cs.Call.Args) == 1 && an.ObjOf(info, cs.Call.Args[0]) == o && g.Dominated(cs.Node, g.ErrNilEdges(rs)) {
							fromRecv = true
						}
					}
					if !fromRecv {
						flow = false
					}
					if cf := p.FuncOf(cs.Fn); cf != nil {
						if _, seen := checkUses[cf]; !seen {
							order = append(order, cf)
						}
						checkUses[cf] = append(checkUses[cf], use{ver.Name(), d.name})
					}
				}
				okAll, n := len(checks) > 0, 0
				for _, r := range g.Returns() {
					rs := r.Ast.(*ast.ReturnStmt)
					if len(rs.Results) != 2 {
						continue
					}
					if tv, has := info.Types[rs.Results[0]]; has && tv.IsNil() {
						continue // (nil, err)
					}
					if _, isCall := ast.Unparen(rs.Results[0]).(*ast.CallExpr); isCall {
						continue // delegating return f(...): not a result built here
					}
					n++
					if !g.Dominated(r, gates) {
						okAll = false
					}
				}
				c.Check("hs-gate", construct, body.Pos(), okAll && n > 0 && flow, body.Name()+" returns a handshake result only on paths where the status received from the peer passed the status check without error")
			}
		}
	}
	// ---- the guards of every status check used at top level, siblings compared
	sort.Slice(order, func(i, j int) bool { return order[i].Name() < order[j].Name() })
	table := map[string][]string{} // role -> implementations that have it
	for _, cf := range order {
		rs := h.roles(cf)
		for _, role := range c18Roles {
			if rs[role] == "" {
				table[role] = append(table[role], cf.Name())
			}
		}
	}
	for _, cf := range order {
		c.Fns[cf.Name()] = true
		rs := h.roles(cf)
		seen := map[string]bool{}
		for _, u := range checkUses[cf] {
			k := u.ver + "/" + u.dir
			if seen[k] {
				continue
			}
			seen[k] = true
			for _, role := range c18Roles {
				msg := "status check of " + u.dir + " protocol version " + u.ver + ": every nil return is dominated by an error-exiting comparison of the remote " + role + " with the local one"
				if rs[role] != "" {
					msg = "status check of " + u.dir + " protocol version " + u.ver + ": " + rs[role] + "; sibling implementations that have this guard: " + strings.Join(table[role], ", ")
				}
				c.Check("hs-guard", cf.Name()+"|"+role+"|"+k, cf.Pos(), rs[role] == "", msg)
			}
		}
	}
	c.Floor("hs-guard", 18)
	c.Floor("hs-gate", 6)

	// ---- the local genesis hash / peer id / chain id of a handshaker are set by its constructor only
	fields := map[*types.Var]bool{}
	owner := map[*types.Var]string{}
	seenT := map[*types.TypeName]bool{}
	var addFields func(tn *types.TypeName)
	addFields = func(tn *types.TypeName) {
		if seenT[tn] {
			return
		}
		seenT[tn] = true
		st, _ := tn.Type().Underlying().(*types.Struct)
		for i := 0; st != nil && i < st.NumFields(); i++ {
			f := st.Field(i)
			if f.Embedded() {
				if en := c18Named(f.Type()); en != nil {
					addFields(en)
				}
				continue
			}
			isGenesis := false
			if sl, ok := f.Type().Underlying().(*types.Slice); ok {
				if b, ok := sl.Elem().Underlying().(*types.Basic); ok && b.Kind() == types.Byte {
					isGenesis = true
				}
			}
			if c18IsPeerID(f.Type()) || isGenesis || (c18Named(f.Type()) != nil && c18Named(f.Type()).Name() == "ChainID") {
				fields[f] = true
				owner[f] = an.Rel(tn.Pkg().Path()) + "." + tn.Name()
			}
		}
	}
	for _, im := range impls {
		addFields(im.typ)
	}
	nFW := 0
	for _, w := range p.FieldWrites(fields) {
		fn := "<package level>"
		ok := false
		if w.Fn != nil {
			fn = w.Fn.TopDecl().Name()
			// constructor by role: a function (not a method) returning a pointer to a handshaker type
			td := w.Fn.TopDecl()
			if td.Decl != nil && td.Decl.Recv == nil && td.Obj != nil {
				sig := td.Obj.Type().(*types.Signature)
				if sig.Results().Len() == 1 {
					if tn := c18Named(sig.Results().At(0).Type()); tn != nil && seenT[tn] {
						ok = true
					}
				}
			}
		}
		nFW++
		c.Check("hs-identity-writers", owner[w.Field]+"."+w.Field.Name()+"|"+fn, w.Pos, ok, "the local identity a handshaker compares against (genesis hash, chain id, expected peer id) is set only by a handshaker constructor ("+w.How+" in "+fn+")")
	}
	if nFW < 5 {
		c.Undecide("hs-identity-writers", "handshakers", "expected the constructor writes of the local identity fields")
	}
}

var _ = rep.New
