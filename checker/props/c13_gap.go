package props

import (
	"go/ast"
	"go/token"
	"go/types"

	"golang.org/x/tools/go/cfg"

	"verif/checker/internal/an"
	"verif/checker/internal/rep"
)

// C13 gap review: necessary conditions of the pool's nonce order / bookkeeping
// that the first rules left undecided.  Every rule is a shape-of-the-code
// decision; idioms that are not recognised are reported undecided.
//
//	base-recount        a new account state is installed in a list (txList.base) only
//	                    together with a recount of the ready prefix, or where the old
//	                    and the new state are known to carry the same nonce
//	filter-bulk-keep    FilterByState keeps either the current entry or, in one step,
//	                    the whole rest list[i:] of the loop's own index and then leaves
//	                    the loop (nothing skipped, nothing kept twice)
//	filter-fresh        the kept and the removed slice of FilterByState do not both
//	                    reuse the list's backing array
//	orphans-kept        a nonce that is too high is never a reason to refuse (MemPool.put)
//	                    or to drop (FilterByState) a transaction
//	remove-delta        txList.RemoveTx reports (orphans after) - (orphans before) with
//	                    exactly one entry removed: readyBefore - readyAfter - 1
//	remove-by-hash      RemoveTx cuts out list[i] only where list[i] has the hash of the
//	                    transaction it was asked to remove (the caller un-indexes that hash)
//	continuous-pred     continuous() reads the entry under test at its parameter and the
//	                    predecessor at ready-1, the latter only where ready > 0
//	put-extend          after an insertion, txList.Put starts extending the ready run at
//	                    the insertion index (or at ready) and advances by one per test
//	orphan-counted      every list operation that can change the number of orphans has
//	                    its delta applied to MemPool.orphan
//	release-after-op    a list is not handed to releaseMemPoolList before the operation
//	                    that fills it
//	named-resolved      the account under which put files a transaction / block arrival
//	                    marks a sender is the resolved one whenever the transaction
//	                    carries a verified / named account
//	put-after-verify    MemPool.put is reached only with a transaction that verifyTx accepted
//	                    (verifyTx is what records the resolved account of a named sender)
//	state-root          setStateDB moves the pool's state view to the arriving block's
//	                    state root whenever it adopts the block as best block
//	chain-notify        a successfully executed block is always announced to the pool,
//	                    with that very block
func init() { extend("C13", c13GapRun) }

func c13GapRun(c *rep.Ctx) {
	e := c13GapEnv(c)
	if e == nil {
		return
	}
	c13GapBaseRecount(e)
	c13GapFilter(e)
	c13GapPutTooHigh(e)
	c13GapRemoveTx(e)
	c13GapContinuous(e)
	c13GapPutExtend(e)
	c13GapOrphanCounted(e)
	c13GapReleaseAfterOp(e)
	c13GapNamedResolved(e)
	c13GapPutAfterVerify(e)
	c13GapStateRoot(e)
	c13GapChainNotify(e)
}

// c13GapEnv rebuilds the field anchors of the base run (without the lockset).
func c13GapEnv(c *rep.Ctx) *c13Env {
	p := c.Prog
	e := &c13Env{c: c, p: p}
	e.pool = p.LookupField("mempool", "MemPool", "pool")
	e.length = p.LookupField("mempool", "MemPool", "length")
	e.orphan = p.LookupField("mempool", "MemPool", "orphan")
	e.cache = p.LookupField("mempool", "MemPool", "cache")
	e.mpMutex = p.LookupField("mempool", "MemPool", "RWMutex")
	e.tlMutex = p.LookupField("mempool", "txList", "RWMutex")
	e.tlList = p.LookupField("mempool", "txList", "list")
	e.tlReady = p.LookupField("mempool", "txList", "ready")
	e.tlBase = p.LookupField("mempool", "txList", "base")
	e.stNonce = p.LookupField("types", "State", "Nonce")
	for _, v := range []*types.Var{e.pool, e.length, e.orphan, e.cache, e.mpMutex, e.tlMutex, e.tlList, e.tlReady, e.tlBase, e.stNonce} {
		if v == nil {
			return nil // the base run already reported the lost anchor
		}
	}
	all := map[*types.Var]bool{e.pool: true, e.length: true, e.orphan: true, e.cache: true}
	if st := p.LookupStruct("mempool", "txList"); st != nil {
		for i := 0; i < st.NumFields(); i++ {
			if st.Field(i) != e.tlMutex {
				e.tlFields = append(e.tlFields, st.Field(i))
				all[st.Field(i)] = true
			}
		}
	}
	e.acc = p.FieldAccesses(all)
	return e
}

func c13GapDead(f *an.Func) bool {
	_, dead := c13DeadOK[f.TopDecl().Name()]
	return dead
}

// c13GapFuncs: the functions of package mempool that have call sites.
func c13GapFuncs(e *c13Env) []*an.Func {
	pk := e.p.Pkg("mempool")
	var out []*an.Func
	for _, f := range e.p.Funcs() {
		if f.Pkg == pk && f.Body != nil && !c13GapDead(f) {
			out = append(out, f)
		}
	}
	return out
}

// ---------------------------------------------------------------------------
// linear forms over expressions (objects, not spellings)

type c13GapTerm struct {
	x ast.Expr
	k int
}

// c13GapLin normalises x = sum(k_i * operand_i) + konst over +, -, integer
// constants and conversions.  With resolve, once-assigned locals are replaced
// by their definition.
func c13GapLin(f *an.Func, x ast.Expr, resolve bool, depth int) (terms []c13GapTerm, konst int, ok bool) {
	info := f.Info()
	x = ast.Unparen(x)
	if depth > 6 {
		return nil, 0, false
	}
	if k, isC := c13ConstInt(info, x); isC {
		return nil, k, true
	}
	switch v := x.(type) {
	case *ast.BinaryExpr:
		if v.Op != token.ADD && v.Op != token.SUB {
			return nil, 0, false
		}
		lt, lk, ok1 := c13GapLin(f, v.X, resolve, depth+1)
		rt, rk, ok2 := c13GapLin(f, v.Y, resolve, depth+1)
		if !ok1 || !ok2 {
			return nil, 0, false
		}
		s := 1
		if v.Op == token.SUB {
			s = -1
		}
		for _, t := range rt {
			lt = append(lt, c13GapTerm{t.x, s * t.k})
		}
		return lt, lk + s*rk, true
	case *ast.CallExpr:
		if tv, isT := info.Types[v.Fun]; isT && tv.IsType() && len(v.Args) == 1 {
			return c13GapLin(f, v.Args[0], resolve, depth+1)
		}
	case *ast.Ident:
		if resolve {
			if obj, isV := an.ObjOf(info, v).(*types.Var); isV && !obj.IsField() {
				if d := c13SingleDef(f, obj); d != nil && c13ParamIndexAny(f, obj) < 0 {
					return c13GapLin(f, d, resolve, depth+1)
				}
			}
		}
	}
	return []c13GapTerm{{x, 1}}, 0, true
}

// c13ParamIndexAny: index of obj among the parameters of f or of an enclosing function.
func c13ParamIndexAny(f *an.Func, obj types.Object) int {
	for g := f; g != nil; g = g.Parent {
		if i := c13ParamIndex(g, obj); i >= 0 {
			return i
		}
	}
	return -1
}

// c13GapIsObjPlus: x == obj + k (a single operand that is the variable obj).
func c13GapIsObjPlus(f *an.Func, x ast.Expr, obj types.Object, k int) bool {
	if x == nil || obj == nil {
		return false
	}
	ts, c, ok := c13GapLin(f, x, true, 0)
	if !ok || c != k {
		return false
	}
	sum := 0
	for _, t := range ts {
		if an.ObjOf(f.Info(), t.x) != obj {
			return false
		}
		sum += t.k
	}
	return sum == 1
}

func c13GapIsLenOfList(e *c13Env, info *types.Info, x ast.Expr) bool {
	lc, ok := ast.Unparen(x).(*ast.CallExpr)
	return ok && an.IsBuiltin(info, lc, "len") && len(lc.Args) == 1 && an.FieldOf(info, lc.Args[0]) == e.tlList
}

// c13GapLoopHead: s is the loop-head vertex of range statement rs.
func c13GapLoopHead(s *an.Node, rs *ast.RangeStmt) bool {
	return s.Block != nil && s.Block.Stmt == ast.Stmt(rs) && s.Block.Kind == cfg.KindRangeLoop
}

// c13GapRepeats: vertex n (inside the body of rs) can be followed by another
// iteration of rs.
func c13GapRepeats(g *an.Graph, n *an.Node, rs *ast.RangeStmt) bool {
	avoid := an.Set{}
	for _, m := range g.Nodes {
		if !c13Inside(m, rs) && !c13GapLoopHead(m, rs) {
			avoid[m] = true
		}
	}
	for m := range g.Reach(n.Succs, avoid) {
		if c13GapLoopHead(m, rs) {
			return true
		}
	}
	return false
}

// c13GapErrAtoms: atoms NIL (ev == nil) and HIGH (ev == types.ErrTxNonceToohigh).
func c13GapErrAtoms(e *c13Env, info *types.Info, ev types.Object) an.Atomizer {
	tooHigh := e.p.LookupObj("types", "ErrTxNonceToohigh")
	return func(x ast.Expr) (string, bool, bool) {
		b, ok := ast.Unparen(x).(*ast.BinaryExpr)
		if !ok || (b.Op != token.EQL && b.Op != token.NEQ) || ev == nil || tooHigh == nil {
			return "", false, false
		}
		for _, pr := range [][2]ast.Expr{{b.X, b.Y}, {b.Y, b.X}} {
			if an.ObjOf(info, pr[0]) != ev {
				continue
			}
			if tv, ok := info.Types[pr[1]]; ok && tv.IsNil() {
				return "NIL", b.Op == token.NEQ, true
			}
			if sel, ok := ast.Unparen(pr[1]).(*ast.SelectorExpr); ok && info.Uses[sel.Sel] == tooHigh {
				return "HIGH", b.Op == token.NEQ, true
			}
		}
		return "", false, false
	}
}

// ---------------------------------------------------------------------------
// base-recount

// c13GapNonceOf: the expression whose nonce x reads (x = Y.Nonce or Y.GetNonce()).
func c13GapNonceOf(e *c13Env, info *types.Info, x ast.Expr) ast.Expr {
	switch v := ast.Unparen(x).(type) {
	case *ast.SelectorExpr:
		if an.FieldOf(info, v) == e.stNonce {
			return v.X
		}
	case *ast.CallExpr:
		if an.CalleeName(info, v) == "types.(*State).GetNonce" {
			if sel, ok := ast.Unparen(v.Fun).(*ast.SelectorExpr); ok {
				return sel.X
			}
		}
	}
	return nil
}

func c13GapBaseRecount(e *c13Env) {
	c := e.c
	n := 0
	for _, a := range e.acc {
		if a.Field != e.tlBase || !a.Write || a.How == "literal" || a.Fn == nil || c13GapDead(a.Fn) {
			continue
		}
		n++
		f := a.Fn
		g := f.Graph()
		info := f.Info()
		w := g.NodeContaining(a.Pos)
		name := f.Name() + "|txList.base"
		as, _ := w.Ast.(*ast.AssignStmt)
		if a.How != "assign" || as == nil || len(as.Lhs) != len(as.Rhs) {
			c.Check("base-recount", name, a.Pos, false, "txList.base is changed by something else than a plain assignment")
			continue
		}
		var rhs types.Object
		for i, l := range as.Lhs {
			if an.FieldOf(info, l) == e.tlBase {
				rhs = an.ObjOf(info, as.Rhs[i])
			}
		}
		// other writes of base in this function
		others := an.Set{}
		for _, b := range e.acc {
			if b.Fn == f && b.Field == e.tlBase && b.Write && b.How != "literal" {
				if m := g.NodeContaining(b.Pos); m != w {
					others[m] = true
				}
			}
		}
		ups := an.Set{}
		for _, s := range g.CallsTo("mempool.(*txList).updateReady") {
			ups[s.Node] = true
		}
		// atom SAMEN: (old base).nonce == (new state).nonce; the old base is read
		// directly (only before the write) or through a local copy taken before it
		atom := func(direct bool) an.Atomizer {
			return func(x ast.Expr) (string, bool, bool) {
				b, ok := ast.Unparen(x).(*ast.BinaryExpr)
				if !ok || (b.Op != token.EQL && b.Op != token.NEQ) || rhs == nil {
					return "", false, false
				}
				for _, pr := range [][2]ast.Expr{{b.X, b.Y}, {b.Y, b.X}} {
					old, nw := c13GapNonceOf(e, info, pr[0]), c13GapNonceOf(e, info, pr[1])
					if old == nil || nw == nil || an.ObjOf(info, nw) != rhs {
						continue
					}
					isOld := direct && an.FieldOf(info, old) == e.tlBase
					if obj, isV := an.ObjOf(info, old).(*types.Var); isV && !obj.IsField() {
						defs, nodes := c13Defs(f, obj)
						if len(defs) == 1 && defs[0] != nil && an.FieldOf(info, defs[0]) == e.tlBase && !g.Reachable(w, nodes[0]) && g.Dominated(w, an.SetOf(nodes[0])) {
							isOld = true
						}
					}
					if isOld {
						return "SAMEN", b.Op == token.NEQ, true
					}
				}
				return "", false, false
			}
		}
		pre := an.Set{}
		for en := range g.EdgesImplying(atom(true), map[string]bool{"SAMEN": true}) {
			clean := en.Cond != nil && !g.Reachable(w, en.Cond)
			for m := range g.Between(en.Cond, w) {
				if others[m] {
					clean = false
				}
			}
			if clean {
				pre[en] = true
			}
		}
		post := an.Set{}
		for en := range g.EdgesImplying(atom(false), map[string]bool{"SAMEN": true}) {
			if en.Cond != nil && g.Reachable(w, en.Cond) {
				post[en] = true
			}
		}
		ok := (len(pre) > 0 && g.Dominated(w, pre)) || ((len(ups) > 0 || len(post) > 0) && g.PostDominated(w, ups.Union(post)))
		c.Check("base-recount", name, a.Pos, ok, "ready counts the run base.Nonce+1, base.Nonce+2, ...: a new base is installed only where every path to the exit recounts it (updateReady) or where the old and the new state are known to have the same nonce (== / != on the two nonces); otherwise the list keeps offering a run that does not start at the new state's nonce + 1")
	}
	if n < 1 {
		c.Undecide("base-recount", "mempool.txList.base", "fewer writes of txList.base than on the reference tree")
	}
}

// ---------------------------------------------------------------------------
// FilterByState: filter-bulk-keep, filter-fresh, orphans-kept (list side)

func c13GapFilter(e *c13Env) {
	c := e.c
	f := c.Fn("mempool.(*txList).FilterByState")
	if f == nil {
		return
	}
	g := f.Graph()
	info := f.Info()
	name := "mempool.(*txList).FilterByState"
	lists := c13Ranges(f, func(rs *ast.RangeStmt) bool { return an.FieldOf(info, rs.X) == e.tlList })
	vals := g.CallsTo("types.(Transaction).ValidateWithSenderState")
	if len(lists) != 1 || len(vals) != 1 {
		return // reported undecided by the base rule
	}
	lr, vs := lists[0], vals[0]
	var elem, key types.Object
	if lr.Value != nil {
		elem = an.ObjOf(info, lr.Value)
	}
	if lr.Key != nil {
		key = an.ObjOf(info, lr.Key)
	}
	var keptVar, remVar types.Object
	for _, a := range e.acc {
		if a.Fn == f && a.Field == e.tlList && a.Write && a.How == "assign" {
			if as, ok := g.NodeContaining(a.Pos).Ast.(*ast.AssignStmt); ok && len(as.Rhs) == 1 {
				keptVar = an.ObjOf(info, as.Rhs[0])
			}
		}
	}
	for _, r := range g.Returns() {
		rs := r.Ast.(*ast.ReturnStmt)
		if len(rs.Results) == 2 {
			if o, isVar := an.ObjOf(info, rs.Results[1]).(*types.Var); isVar {
				remVar = o
			}
		}
	}
	if keptVar == nil || remVar == nil || keptVar == remVar || elem == nil {
		c.Undecide("filter-bulk-keep", name, "kept / removed slices or the loop element not found")
		return
	}
	type app struct {
		n    *an.Node
		call *ast.CallExpr
	}
	appends := func(v types.Object) []app {
		var out []app
		for _, n := range g.Nodes {
			as, ok := n.Ast.(*ast.AssignStmt)
			if n.Kind != an.KStmt || !ok || len(as.Lhs) != 1 || len(as.Rhs) != 1 || an.ObjOf(info, as.Lhs[0]) != v {
				continue
			}
			if call, ok := ast.Unparen(as.Rhs[0]).(*ast.CallExpr); ok && an.IsBuiltin(info, call, "append") && len(call.Args) >= 1 && an.ObjOf(info, call.Args[0]) == v {
				out = append(out, app{n, call})
			}
		}
		return out
	}
	isCur := func(x ast.Expr) bool {
		x = c13Resolve(f, x)
		if an.ObjOf(info, x) == elem {
			return true
		}
		ix, ok := x.(*ast.IndexExpr)
		return ok && an.FieldOf(info, ix.X) == e.tlList && c13GapIsObjPlus(f, ix.Index, key, 0)
	}
	// filter-bulk-keep
	nKeep := 0
	for _, ap := range appends(keptVar) {
		if !c13Inside(ap.n, lr) {
			continue
		}
		nKeep++
		pos := ap.call.Pos()
		switch {
		case len(ap.call.Args) == 2 && !ap.call.Ellipsis.IsValid():
			c.Check("filter-bulk-keep", name+"|keep-one", pos, isCur(ap.call.Args[1]), "the entry appended to the new list is the loop's current entry")
		case len(ap.call.Args) == 2 && ap.call.Ellipsis.IsValid():
			se, isS := c13Resolve(f, ap.call.Args[1]).(*ast.SliceExpr)
			if !isS || an.FieldOf(info, se.X) != e.tlList || se.Max != nil {
				c.Undecide("filter-bulk-keep", name+"|keep-rest", "the slice appended in one step is not a slice of the list")
				continue
			}
			okLow := key != nil && c13GapIsObjPlus(f, se.Low, key, 0)
			okHigh := se.High == nil || c13GapIsLenOfList(e, info, se.High)
			okLeave := !c13GapRepeats(g, ap.n, lr)
			msg := "the rest of the list is kept in one step as list[i:] of the loop's own index i, and the loop is left afterwards"
			switch {
			case !okLow || !okHigh:
				msg += " — the slice does not start at the current entry / end at the end of the list: entries vanish from the list without being handed back for un-counting, or are kept although they were dropped"
			case !okLeave:
				msg += " — the loop goes on after the rest was kept: the following entries are appended a second time (two entries with the same account and nonce)"
			}
			c.Check("filter-bulk-keep", name+"|keep-rest", pos, okLow && okHigh && okLeave, msg)
		default:
			c.Undecide("filter-bulk-keep", name, "append form not recognised")
		}
	}
	if nKeep == 0 {
		c.Undecide("filter-bulk-keep", name, "no append to the new list inside the loop")
	}
	// filter-fresh
	aliases := func(v types.Object) (bool, token.Pos) {
		defs, nodes := c13Defs(f, v)
		for i, d := range defs {
			if d == nil {
				continue
			}
			if call, ok := ast.Unparen(d).(*ast.CallExpr); ok && an.IsBuiltin(info, call, "append") && len(call.Args) >= 1 && an.ObjOf(info, call.Args[0]) == v {
				continue // v = append(v, ...)
			}
			x := ast.Unparen(d)
			if se, isS := x.(*ast.SliceExpr); isS {
				x = ast.Unparen(se.X)
			}
			if an.FieldOf(info, x) == e.tlList {
				return true, nodes[i].Ast.Pos()
			}
		}
		return false, token.NoPos
	}
	ka, kp := aliases(keptVar)
	ra, _ := aliases(remVar)
	pos := f.Pos()
	if ka {
		pos = kp
	}
	c.Check("filter-fresh", name+"|kept-vs-removed", pos, !(ka && ra), "the slice that becomes the new list and the slice handed back for un-counting are not both built on the list's own backing array (their appends would overwrite each other: a kept entry is reported removed, a dropped one stays indexed)")
	// orphans-kept: an entry is handed back as removed only when it is invalid for a
	// reason other than a nonce that is too high
	ev := g.ResultVarAt(vs, 0)
	at := c13GapErrAtoms(e, info, ev)
	nRem := 0
	for _, ap := range appends(remVar) {
		if !c13Inside(ap.n, lr) {
			continue
		}
		nRem++
		clean := ev != nil && g.Dominated(ap.n, an.SetOf(vs.Node))
		if ev != nil {
			for m := range g.Between(vs.Node, ap.n) {
				if m.Kind == an.KStmt && an.Assigns(info, m.Ast, ev) {
					clean = false
				}
			}
		}
		ok, how := false, "error variable reassigned"
		if clean {
			ok, how = g.GuardedAt(ap.n, at, map[string]bool{"NIL": false, "HIGH": false})
		}
		c.Check("orphans-kept", name+"|removed-only-invalid", ap.call.Pos(), ok, "an entry is dropped from the list only where its validation error is known to be neither nil nor ErrTxNonceToohigh (transactions beyond a gap wait in the list until the gap is filled): "+how)
	}
	if nRem == 0 {
		c.Undecide("orphans-kept", name, "no append to the removed slice inside the loop")
	}
}

// c13GapPutTooHigh: MemPool.put refuses a transaction after validateTx only
// where the error is known not to be ErrTxNonceToohigh.
func c13GapPutTooHigh(e *c13Env) {
	c := e.c
	f := c.Fn("mempool.(*MemPool).put")
	if f == nil {
		return
	}
	g := f.Graph()
	info := f.Info()
	vss := g.CallsTo("mempool.(*MemPool).validateTx")
	pss := g.CallsTo("mempool.(*txList).Put")
	if len(vss) != 1 || len(pss) != 1 {
		return // base rule reports
	}
	vs, ps := vss[0], pss[0]
	ev := g.ResultVarAt(vs, 0)
	if ev == nil {
		c.Undecide("orphans-kept", "mempool.(*MemPool).put", "error of validateTx not stored in a variable")
		return
	}
	at := c13GapErrAtoms(e, info, ev)
	avoid := an.SetOf(ps.Node)
	for _, n := range g.Nodes {
		if n.Kind == an.KStmt && n != vs.Node && an.Assigns(info, n.Ast, ev) {
			avoid[n] = true
		}
	}
	region := g.Reach(vs.Node.Succs, avoid)
	ok, n := true, 0
	pos := vs.Call.Pos()
	for _, r := range g.Returns() {
		if !region[r] {
			continue
		}
		n++
		if good, _ := g.GuardedAt(r, at, map[string]bool{"HIGH": false}); !good {
			ok, pos = false, r.Ast.Pos()
		}
	}
	c.Check("orphans-kept", "mempool.(*MemPool).put|too-high-accepted", pos, ok && n > 0, "between validateTx and txList.Put the function returns only where the validation error is known not to be ErrTxNonceToohigh: a transaction beyond a nonce gap is held aside in the list, not refused")
}

// ---------------------------------------------------------------------------
// RemoveTx: remove-delta, remove-by-hash

func c13GapRemoveTx(e *c13Env) {
	c := e.c
	f := c.Fn("mempool.(*txList).RemoveTx")
	if f == nil {
		return
	}
	g := f.Graph()
	info := f.Info()
	name := "mempool.(*txList).RemoveTx"
	param := f.ParamObj(0)
	var muts, listW []*an.Node
	for _, a := range e.acc {
		if a.Fn == f && a.Write && a.How != "literal" && (a.Field == e.tlList || a.Field == e.tlReady) {
			n := g.NodeContaining(a.Pos)
			muts = append(muts, n)
			if a.Field == e.tlList {
				listW = append(listW, n)
			}
		}
	}
	for _, s := range g.CallsTo("mempool.(*txList).updateReady") {
		muts = append(muts, s.Node)
	}
	if len(listW) != 1 || param == nil {
		c.Undecide("remove-delta", name, "expected one parameter and exactly one write of txList.list")
		return
	}
	w := listW[0]
	// --- remove-delta
	// operands: 'R' ready, 'L' len(list), each taken before every change ('b') or
	// after every change that reaches the return ('a'); locals are followed to
	// their single definition and evaluated where that definition stands
	isReady := func(x ast.Expr) bool {
		x = ast.Unparen(x)
		if an.FieldOf(info, x) == e.tlReady {
			return true
		}
		call, ok := x.(*ast.CallExpr)
		return ok && an.CalleeName(info, call) == "mempool.(*txList).Len"
	}
	type operand struct {
		cl, when byte
		k        int
	}
	when := func(at, r *an.Node) byte {
		before, after := true, at == r || g.Dominated(r, an.SetOf(at))
		for _, m := range muts {
			if m == at || g.Reachable(m, at) || !g.Dominated(m, an.SetOf(at)) {
				before = false
			}
			if g.Reachable(m, r) && (m == at || g.Reachable(at, m)) {
				after = false
			}
		}
		switch {
		case before:
			return 'b'
		case after:
			return 'a'
		}
		return 0
	}
	var lin func(x ast.Expr, at, r *an.Node, sign, depth int) ([]operand, int, string)
	lin = func(x ast.Expr, at, r *an.Node, sign, depth int) ([]operand, int, string) {
		x = ast.Unparen(x)
		if depth > 6 {
			return nil, 0, "expression too deep"
		}
		if k, isC := c13ConstInt(info, x); isC {
			return nil, sign * k, ""
		}
		switch v := x.(type) {
		case *ast.BinaryExpr:
			if v.Op == token.ADD || v.Op == token.SUB {
				lo, lk, m1 := lin(v.X, at, r, sign, depth+1)
				s2 := sign
				if v.Op == token.SUB {
					s2 = -sign
				}
				ro, rk, m2 := lin(v.Y, at, r, s2, depth+1)
				return append(lo, ro...), lk + rk, m1 + m2
			}
		case *ast.CallExpr:
			if tv, isT := info.Types[v.Fun]; isT && tv.IsType() && len(v.Args) == 1 {
				return lin(v.Args[0], at, r, sign, depth+1)
			}
		case *ast.Ident:
			if obj, isV := an.ObjOf(info, v).(*types.Var); isV && !obj.IsField() {
				defs, nodes := c13Defs(f, obj)
				if len(defs) == 1 && defs[0] != nil {
					return lin(defs[0], nodes[0], r, sign, depth+1)
				}
				return nil, 0, " (local " + obj.Name() + " is not assigned exactly once)"
			}
		}
		cl := byte(0)
		switch {
		case isReady(x):
			cl = 'R'
		case c13GapIsLenOfList(e, info, x):
			cl = 'L'
		default:
			return nil, 0, " (operand " + an.ExprString(x) + " is neither ready nor len(list))"
		}
		wh := when(at, r)
		if wh == 0 {
			return nil, 0, " (operand " + an.ExprString(x) + " is taken neither before every change nor after every change)"
		}
		return []operand{{cl, wh, sign}}, 0, ""
	}
	nAfter := 0
	for _, r := range g.Returns() {
		rs := r.Ast.(*ast.ReturnStmt)
		if len(rs.Results) != 2 {
			c.Undecide("remove-delta", name, "unexpected return form")
			return
		}
		changed := false
		for _, m := range muts {
			if g.Reachable(m, r) {
				changed = true
			}
		}
		if !changed {
			c.Check("remove-delta", name+"|nothing-removed", rs.Pos(), c13IsZero(info, rs.Results[0]), "a return that follows no change of the list reports a delta of 0")
			continue
		}
		nAfter++
		ops, k, msg := lin(rs.Results[0], r, r, 1, 0)
		// coefficients of Rb, Ra, Lb (La = Lb - 1)
		rb, ra, lb := 0, 0, 0
		for _, o := range ops {
			switch {
			case o.cl == 'R' && o.when == 'b':
				rb += o.k
			case o.cl == 'R' && o.when == 'a':
				ra += o.k
			case o.cl == 'L' && o.when == 'b':
				lb += o.k
			case o.cl == 'L' && o.when == 'a':
				lb += o.k
				k -= o.k
			}
		}
		good := msg == "" && rb == 1 && ra == -1 && lb == 0 && k == -1
		c.Check("remove-delta", name+"|delta", rs.Pos(), good, "with exactly one entry cut out, (orphans after) - (orphans before) = readyBefore - readyAfter - 1; MemPool.removeTx adds this result to the orphan total"+msg)
	}
	if nAfter == 0 {
		c.Undecide("remove-delta", name, "no return after the removal")
	}
	// --- remove-by-hash
	lists := c13Ranges(f, func(rs *ast.RangeStmt) bool { return an.FieldOf(info, rs.X) == e.tlList })
	if len(lists) != 1 || !c13Inside(w, lists[0]) {
		c.Undecide("remove-by-hash", name, "the removal is not inside a single loop over the list")
		return
	}
	lr := lists[0]
	var elem, key types.Object
	if lr.Value != nil {
		elem = an.ObjOf(info, lr.Value)
	}
	if lr.Key != nil {
		key = an.ObjOf(info, lr.Key)
	}
	// hashOwner: the object X of X.GetHash() / X.GetTx().GetHash() / list[i]....
	hashOwner := func(x ast.Expr) (types.Object, bool) {
		call, ok := ast.Unparen(x).(*ast.CallExpr)
		if !ok {
			return nil, false
		}
		if an.CalleeName(info, call) == "types.ToTxID" && len(call.Args) == 1 {
			call, ok = ast.Unparen(call.Args[0]).(*ast.CallExpr)
			if !ok {
				return nil, false
			}
		}
		fn := an.Callee(info, call)
		if fn == nil || fn.Name() != "GetHash" {
			return nil, false
		}
		sel, ok := ast.Unparen(call.Fun).(*ast.SelectorExpr)
		if !ok {
			return nil, false
		}
		recv := ast.Unparen(sel.X)
		if inner, ok := recv.(*ast.CallExpr); ok {
			if ifn := an.Callee(info, inner); ifn != nil && ifn.Name() == "GetTx" {
				if s2, ok := ast.Unparen(inner.Fun).(*ast.SelectorExpr); ok {
					recv = ast.Unparen(s2.X)
				}
			}
		}
		if ix, ok := recv.(*ast.IndexExpr); ok && an.FieldOf(info, ix.X) == e.tlList && c13GapIsObjPlus(f, ix.Index, key, 0) {
			return elem, elem != nil
		}
		o := an.ObjOf(info, recv)
		return o, o != nil
	}
	at := func(x ast.Expr) (string, bool, bool) {
		x = ast.Unparen(x)
		var a, b ast.Expr
		neg := false
		switch v := x.(type) {
		case *ast.CallExpr:
			if an.CalleeName(info, v) != "bytes.Equal" || len(v.Args) != 2 {
				return "", false, false
			}
			a, b = v.Args[0], v.Args[1]
		case *ast.BinaryExpr:
			if v.Op != token.EQL && v.Op != token.NEQ {
				return "", false, false
			}
			a, b, neg = v.X, v.Y, v.Op == token.NEQ
		default:
			return "", false, false
		}
		oa, ok1 := hashOwner(a)
		ob, ok2 := hashOwner(b)
		if ok1 && ok2 && ((oa == param && ob == elem) || (oa == elem && ob == param)) {
			return "HASHEQ", neg, true
		}
		return "", false, false
	}
	okHash, how := g.GuardedAt(w, at, map[string]bool{"HASHEQ": true})
	okHash = okHash && c13Stable(f, param) && elem != nil
	c.Check("remove-by-hash", name+"|guard", w.Ast.Pos(), okHash, "the entry is cut out only where its hash equals the hash of the transaction RemoveTx was asked for (MemPool.removeTx deletes that hash from the index and decrements the total): "+how)
	// the cut: list = append(list[:i], list[i+1:]...)
	as, _ := w.Ast.(*ast.AssignStmt)
	okCut := false
	recognised := false
	if as != nil && len(as.Rhs) == 1 {
		if call, ok := ast.Unparen(as.Rhs[0]).(*ast.CallExpr); ok && an.IsBuiltin(info, call, "append") && len(call.Args) == 2 && call.Ellipsis.IsValid() {
			h, ok1 := ast.Unparen(call.Args[0]).(*ast.SliceExpr)
			t, ok2 := ast.Unparen(call.Args[1]).(*ast.SliceExpr)
			if ok1 && ok2 && an.FieldOf(info, h.X) == e.tlList && an.FieldOf(info, t.X) == e.tlList {
				recognised = true
				okCut = (h.Low == nil || c13IsZero(info, h.Low)) && c13GapIsObjPlus(f, h.High, key, 0) && h.Max == nil &&
					c13GapIsObjPlus(f, t.Low, key, 1) && (t.High == nil || c13GapIsLenOfList(e, info, t.High)) && t.Max == nil
			}
		}
	}
	if !recognised {
		c.Undecide("remove-by-hash", name+"|cut", "removal idiom not recognised (expected list = append(list[:i], list[i+1:]...))")
	} else {
		c.Check("remove-by-hash", name+"|cut", w.Ast.Pos(), okCut && key != nil, "exactly the matching entry is cut out: list[:i] + list[i+1:] for the loop's own index i")
	}
	c.Check("remove-by-hash", name+"|once", w.Ast.Pos(), !c13GapRepeats(g, w, lr), "the loop is left after the removal (the slice it iterates over was modified in place)")
}

// ---------------------------------------------------------------------------
// continuous-pred

func c13GapContinuous(e *c13Env) {
	c := e.c
	f := c.Fn("mempool.(*txList).continuous")
	if f == nil {
		return
	}
	g := f.Graph()
	info := f.Info()
	name := "mempool.(*txList).continuous"
	param := f.ParamObj(0)
	// atom RPOS <=> ready > 0
	rpos := func(x ast.Expr) (string, bool, bool) {
		b, ok := ast.Unparen(x).(*ast.BinaryExpr)
		if !ok {
			return "", false, false
		}
		lt, lk, ok1 := c13GapLin(f, b.X, true, 0)
		rt, rk, ok2 := c13GapLin(f, b.Y, true, 0)
		if !ok1 || !ok2 {
			return "", false, false
		}
		coef := 0
		for _, t := range lt {
			if an.FieldOf(info, t.x) != e.tlReady {
				return "", false, false
			}
			coef += t.k
		}
		for _, t := range rt {
			if an.FieldOf(info, t.x) != e.tlReady {
				return "", false, false
			}
			coef -= t.k
		}
		// coef*ready + (lk-rk) op 0
		op, t := b.Op, rk-lk // ready op t   (for coef == 1)
		if coef == -1 {
			t = lk - rk
			switch op {
			case token.LSS:
				op = token.GTR
			case token.GTR:
				op = token.LSS
			case token.LEQ:
				op = token.GEQ
			case token.GEQ:
				op = token.LEQ
			}
		} else if coef != 1 {
			return "", false, false
		}
		switch {
		case op == token.GTR && t == 0, op == token.GEQ && t == 1, op == token.NEQ && t == 0:
			return "RPOS", false, true
		case op == token.LEQ && t == 0, op == token.LSS && t == 1, op == token.EQL && t == 0:
			return "RPOS", true, true
		}
		return "", false, false
	}
	nCand, nPred := 0, 0
	ast.Inspect(f.Body, func(n ast.Node) bool {
		ix, ok := n.(*ast.IndexExpr)
		if !ok || an.FieldOf(info, ix.X) != e.tlList {
			return true
		}
		ts, k, okL := c13GapLin(f, ix.Index, true, 0)
		switch {
		case okL && len(ts) == 1 && ts[0].k == 1 && k == 0 && param != nil && an.ObjOf(info, ts[0].x) == param:
			nCand++
		case okL && len(ts) == 1 && ts[0].k == 1 && k == -1 && an.FieldOf(info, ts[0].x) == e.tlReady:
			nPred++
			ok2, how := g.GuardedAt(g.NodeContaining(ix.Pos()), rpos, map[string]bool{"RPOS": true})
			c.Check("continuous-pred", name+"|predecessor-guard", ix.Pos(), ok2, "the last ready entry list[ready-1] is read only where ready > 0: "+how)
		default:
			c.Check("continuous-pred", name+"|index", ix.Pos(), false, "the list is read at an index that is neither the parameter (the entry under test) nor ready-1 (the last entry of the ready run): the successor test must compare with the end of the ready run, not with an arbitrary neighbour, or ready would count entries behind a gap")
		}
		return true
	})
	if nCand == 0 || nPred == 0 {
		c.Undecide("continuous-pred", name, "the reads list[index] and list[ready-1] were not both found")
		return
	}
	c.CheckTrivial("continuous-pred", name+"|reads", f.Pos(), true, "the entry under test is list[parameter], the predecessor list[ready-1]")
}

// ---------------------------------------------------------------------------
// put-extend

func c13GapPutExtend(e *c13Env) {
	c := e.c
	f := c.Fn("mempool.(*txList).Put")
	if f == nil {
		return
	}
	g := f.Graph()
	info := f.Info()
	name := "mempool.(*txList).Put"
	searches := g.CallsTo("mempool.(*txList).search")
	conts := g.CallsTo("mempool.(*txList).continuous")
	if len(searches) != 1 || len(conts) == 0 {
		return // base rules report
	}
	ss := searches[0]
	idx := g.ResultVarAt(ss, 0)
	var inserts []*an.Node
	for _, a := range e.acc {
		if a.Fn == f && a.Field == e.tlList && a.Write && a.How != "literal" {
			inserts = append(inserts, g.NodeContaining(a.Pos))
		}
	}
	contNodes := an.Set{}
	for _, cs := range conts {
		contNodes[cs.Node] = true
	}
	for _, cs := range conts {
		if len(cs.Call.Args) != 1 {
			continue
		}
		arg := ast.Unparen(cs.Call.Args[0])
		if an.FieldOf(info, arg) == e.tlReady {
			c.CheckTrivial("put-extend", name+"|start", cs.Call.Pos(), true, "continuous() is asked about list[ready]")
			continue
		}
		v := an.ObjOf(info, arg)
		if v == nil || idx == nil {
			c.Undecide("put-extend", name, "argument of continuous() is not a variable")
			continue
		}
		ok, msg := true, ""
		starts := 0
		for _, n := range g.Nodes {
			if n.Kind != an.KStmt || !an.Assigns(info, n.Ast, v) {
				continue
			}
			switch st := n.Ast.(type) {
			case *ast.IncDecStmt:
				if st.Tok != token.INC {
					ok, msg = false, "the index is decremented"
				}
				for _, w := range inserts {
					if g.Reach(w.Succs, contNodes)[n] {
						ok, msg = false, "the index is advanced after the insertion before continuous() was asked about the inserted entry: the new transaction (and every entry behind it) is never counted as ready although it closes the gap"
					}
				}
			default:
				starts++
				switch {
				case n == ss.Node && v == idx:
				case v != idx:
					d := c13SingleDefAt(f, v, n)
					if d == nil || !(an.ObjOf(info, d) == idx || an.FieldOf(info, d) == e.tlReady) {
						ok, msg = false, "the index does not start at the insertion index returned by search() or at ready"
					}
				default:
					ok, msg = false, "the insertion index is overwritten"
				}
			}
		}
		if v != idx {
			// the search index itself must still be the search result
			for _, n := range g.Nodes {
				if n.Kind == an.KStmt && n != ss.Node && an.Assigns(info, n.Ast, idx) {
					ok, msg = false, "the insertion index is modified"
				}
			}
		}
		c.Check("put-extend", name+"|start", cs.Call.Pos(), ok && starts == 1, "after the insertion the ready run is extended by asking continuous() about the inserted entry first (index = result of search(), or ready) and about the following entries one by one "+msg)
	}
}

// c13SingleDefAt: the right-hand side assigned to obj at vertex n (plain assignment / declaration).
func c13SingleDefAt(f *an.Func, obj types.Object, n *an.Node) ast.Expr {
	info := f.Info()
	switch s := n.Ast.(type) {
	case *ast.AssignStmt:
		if len(s.Lhs) == len(s.Rhs) {
			for i, l := range s.Lhs {
				if an.ObjOf(info, l) == obj {
					return ast.Unparen(s.Rhs[i])
				}
			}
		}
	case *ast.ValueSpec:
		if len(s.Names) == len(s.Values) {
			for i, nm := range s.Names {
				if info.Defs[nm] == obj {
					return ast.Unparen(s.Values[i])
				}
			}
		}
	}
	return nil
}

// ---------------------------------------------------------------------------
// orphan-counted

func c13GapOrphanCounted(e *c13Env) {
	c := e.c
	n := 0
	for _, f := range c13GapFuncs(e) {
		g := f.Graph()
		info := f.Info()
		var ow []*an.Node
		for _, a := range e.acc {
			if a.Fn == f && a.Field == e.orphan && a.Write && a.How == "op-assign" {
				ow = append(ow, g.NodeContaining(a.Pos))
			}
		}
		for callee := range c13OrphanDelta {
			for _, cs := range g.CallsTo(callee) {
				n++
				v := g.ResultVarAt(cs, 0)
				ok := false
				for _, w := range ow {
					if as, isA := w.Ast.(*ast.AssignStmt); isA && len(as.Rhs) == 1 && v != nil && an.ObjOf(info, as.Rhs[0]) == v {
						ok = true
					}
				}
				c.Check("orphan-counted", f.Name()+"|"+shortName(callee), cs.Call.Pos(), ok, "the orphan delta returned by the list operation is applied to MemPool.orphan (how: orphan-pairing); a discarded delta lets the reported orphan total drift from what the lists hold")
			}
		}
		// whole-list eviction: a list drained through GetAll and un-indexed entry by entry
		for _, cs := range g.CallsTo("mempool.(*txList).GetAll") {
			src := g.ResultVarAt(cs, 0)
			if src == nil {
				continue
			}
			drained := false
			for _, dp := range c13DeleteSites(e, f) {
				if rng := c13RangeOver(f, dp); rng != nil && an.ObjOf(info, rng.X) == src {
					drained = true
				}
			}
			if !drained {
				continue
			}
			n++
			ok := false
			for _, w := range ow {
				if c13Paired(g, cs.Node, w) {
					ok = true
				}
			}
			c.Check("orphan-counted", f.Name()+"|drain", cs.Call.Pos(), ok, "a list that is drained through GetAll() (every entry deleted from the hash index) has its orphans taken off MemPool.orphan in the same iteration")
		}
	}
	if n < 4 {
		c.Undecide("orphan-counted", "mempool", "fewer list operations with an orphan delta than on the reference tree")
	}
}

// ---------------------------------------------------------------------------
// release-after-op

func c13GapReleaseAfterOp(e *c13Env) {
	c := e.c
	n := 0
	for _, f := range c13GapFuncs(e) {
		g := f.Graph()
		info := f.Info()
		rels := g.CallsTo("mempool.(*MemPool).releaseMemPoolList")
		if len(rels) == 0 {
			continue
		}
		ops := g.CallsTo("mempool.(*txList).Put", "mempool.(*txList).RemoveTx", "mempool.(*txList).FilterByState")
		for _, rs := range rels {
			if len(rs.Call.Args) != 1 {
				continue
			}
			lst := an.ObjOf(info, rs.Call.Args[0])
			if lst == nil {
				c.Undecide("release-after-op", f.Name(), "released list is not a variable")
				continue
			}
			_, deferred := rs.Node.Ast.(*ast.DeferStmt)
			n++
			if deferred {
				c.CheckTrivial("release-after-op", f.Name()+"|deferred", rs.Call.Pos(), true, "the release runs at the function's exit")
				continue
			}
			// paths from the release on which lst still names the released list
			avoid := an.Set{}
			for _, m := range g.Nodes {
				if m.Kind == an.KStmt && an.Assigns(info, m.Ast, lst) {
					avoid[m] = true
				}
			}
			for _, rg := range c13Ranges(f, func(r *ast.RangeStmt) bool {
				return (r.Value != nil && an.ObjOf(info, r.Value) == lst) || (r.Key != nil && an.ObjOf(info, r.Key) == lst)
			}) {
				for _, m := range g.Nodes {
					if c13GapLoopHead(m, rg) {
						avoid[m] = true
					}
				}
			}
			after := g.Reach(rs.Node.Succs, avoid)
			ok := true
			for _, op := range ops {
				if c13RecvObj(info, op.Call) == lst && after[op.Node] {
					ok = false
				}
			}
			c.Check("release-after-op", f.Name()+"|"+lst.Name(), rs.Call.Pos(), ok, "releaseMemPoolList drops an empty list from the pool: no Put / RemoveTx / FilterByState on the same list may follow it (a transaction put into a list that already left the pool is indexed and counted but never offered or filtered)")
		}
	}
	if n < 3 {
		c.Undecide("release-after-op", "mempool", "fewer calls of releaseMemPoolList than on the reference tree")
	}
}

// ---------------------------------------------------------------------------
// named-resolved

// c13GapResolvedBefore decides: every path from start to target, without
// passing a vertex of stop, passes a definition `acct = <resolver>` or the
// false edge of the predicate call `txv.<pred>()`.
func c13GapResolvedBefore(f *an.Func, start, target *an.Node, stop an.Set, acct, txv types.Object, pred string, resolver func(call *ast.CallExpr) bool) (bool, string) {
	g := f.Graph()
	info := f.Info()
	gates := an.Set{}
	nRes, nPred := 0, 0
	defs, nodes := c13Defs(f, acct)
	for i, d := range defs {
		if d == nil {
			continue
		}
		if call, ok := ast.Unparen(d).(*ast.CallExpr); ok && resolver(call) {
			gates[nodes[i]] = true
			nRes++
		}
	}
	for _, s := range g.Calls(func(fn *types.Func, call *ast.CallExpr) bool {
		return fn != nil && fn.Name() == pred && c13RecvObj(info, call) == txv
	}) {
		for en := range g.BoolEdges(s, false) {
			gates[en] = true
			nPred++
		}
	}
	if nRes == 0 {
		return false, "the account is never replaced by its resolved form"
	}
	if nPred == 0 {
		return false, "no test of " + pred + "() on the transaction"
	}
	avoid := gates.Union(stop)
	if avoid[start] {
		return true, ""
	}
	if g.Reach([]*an.Node{start}, avoid)[target] {
		return false, "some path reaches the use with " + pred + "() possibly true and the account unresolved"
	}
	return true, ""
}

func c13GapNamedResolved(e *c13Env) {
	c := e.c
	// (a) MemPool.put: the list / validation account is the verified account when there is one
	if f := c.Fn("mempool.(*MemPool).put"); f != nil {
		g := f.Graph()
		info := f.Info()
		txv := f.ParamObj(0)
		for _, as := range g.CallsTo("mempool.(*MemPool).acquireMemPoolList") {
			if len(as.Call.Args) != 1 {
				continue
			}
			acct := an.ObjOf(info, as.Call.Args[0])
			if acct == nil || txv == nil {
				c.Undecide("named-resolved", "mempool.(*MemPool).put", "account argument of acquireMemPoolList is not a variable")
				continue
			}
			ok, why := c13GapResolvedBefore(f, g.Entry, as.Node, an.Set{}, acct, txv, "HasVerifedAccount", func(call *ast.CallExpr) bool {
				fn := an.Callee(info, call)
				return fn != nil && fn.Name() == "GetVerifedAccount" && c13RecvObj(info, call) == txv
			})
			c.Check("named-resolved", "mempool.(*MemPool).put|verified-account", as.Call.Pos(), ok, "the account under which the transaction is validated and filed is tx.GetVerifedAccount() whenever tx.HasVerifedAccount() (a transaction sent under an account name is executed against, and advances the nonce of, the address the name resolves to; filed under the name it would sit in a second list for the same account) "+why)
		}
	}
	// (b) removeOnBlockArrival: a named sender is resolved before it is marked dirty
	f := c.Fn("mempool.(*MemPool).removeOnBlockArrival")
	if f == nil {
		return
	}
	g := f.Graph()
	info := f.Info()
	txRanges := c13Ranges(f, func(rs *ast.RangeStmt) bool {
		call, ok := ast.Unparen(rs.X).(*ast.CallExpr)
		return ok && an.CalleeName(info, call) == "types.(*BlockBody).GetTxs"
	})
	if len(txRanges) != 1 || txRanges[0].Value == nil {
		return // base rule reports
	}
	tr := txRanges[0]
	txv := an.ObjOf(info, tr.Value)
	entry := c13BodyEntry(g, tr)
	stop := an.Set{}
	for _, m := range g.Nodes {
		if c13GapLoopHead(m, tr) {
			stop[m] = true
		}
	}
	n := 0
	for _, m := range g.Nodes {
		as, ok := m.Ast.(*ast.AssignStmt)
		if m.Kind != an.KStmt || !ok || len(as.Lhs) != 1 || !c13Inside(m, tr) {
			continue
		}
		ix, ok := ast.Unparen(as.Lhs[0]).(*ast.IndexExpr)
		if !ok {
			continue
		}
		kc, ok := ast.Unparen(ix.Index).(*ast.CallExpr)
		if !ok || an.CalleeName(info, kc) != "types.ToAccountID" || len(kc.Args) != 1 || !c13FromSender(f, kc.Args[0], txv) {
			continue
		}
		n++
		acct := an.ObjOf(info, kc.Args[0])
		if acct == nil || entry == nil {
			c.Check("named-resolved", "mempool.(*MemPool).removeOnBlockArrival|sender", as.Pos(), false, "the sender is marked under the raw body account: a sender given by name is never resolved")
			continue
		}
		ok2, why := c13GapResolvedBefore(f, entry, m, stop, acct, txv, "HasNameAccount", func(call *ast.CallExpr) bool {
			switch an.CalleeName(info, call) {
			case "mempool.(*MemPool).getOwner", "mempool.(*MemPool).getAddress", "mempool.(*MemPool).getNameDest":
				return len(call.Args) >= 1 && an.ObjOf(info, call.Args[0]) == acct
			}
			return false
		})
		c.Check("named-resolved", "mempool.(*MemPool).removeOnBlockArrival|sender", as.Pos(), ok2, "in every iteration a sender given by account name (tx.HasNameAccount()) is replaced by the address the name stands for before dirty[ToAccountID(sender)] is set: the pool files such transactions under the resolved address, so the raw name would never match a list "+why)
	}
	if n == 0 {
		c.Undecide("named-resolved", "mempool.(*MemPool).removeOnBlockArrival", "no sender mark found")
	}
}

// ---------------------------------------------------------------------------
// put-after-verify

func c13GapPutAfterVerify(e *c13Env) {
	c := e.c
	n := 0
	for _, f := range c13GapFuncs(e) {
		g := f.Graph()
		info := f.Info()
		for _, ps := range g.CallsTo("mempool.(*MemPool).put") {
			n++
			ok := false
			if len(ps.Call.Args) == 1 {
				if tx := an.ObjOf(info, ps.Call.Args[0]); tx != nil && c13Stable(f, tx) {
					gates := an.Set{}
					for _, vs := range g.CallsTo("mempool.(*MemPool).verifyTx") {
						if len(vs.Call.Args) == 1 && an.ObjOf(info, vs.Call.Args[0]) == tx {
							gates = gates.Union(g.ErrNilEdges(vs))
						}
					}
					// or: the resolved account is recorded on this object by hand, or the
					// sender is known not to be given by name
					for _, s := range g.Calls(func(fn *types.Func, call *ast.CallExpr) bool {
						return fn != nil && (fn.Name() == "SetVerifedAccount" || fn.Name() == "NeedNameVerify" || fn.Name() == "HasNameAccount")
					}) {
						sel, isSel := ast.Unparen(s.Call.Fun).(*ast.SelectorExpr)
						if !isSel {
							continue
						}
						recv := ast.Unparen(sel.X)
						if inner, isC := recv.(*ast.CallExpr); isC { // tx.GetTx().NeedNameVerify()
							if ifn := an.Callee(info, inner); ifn != nil && ifn.Name() == "GetTx" {
								if s2, isS2 := ast.Unparen(inner.Fun).(*ast.SelectorExpr); isS2 {
									recv = ast.Unparen(s2.X)
								}
							}
						}
						if an.ObjOf(info, recv) != tx {
							continue
						}
						if s.Fn.Name() == "SetVerifedAccount" {
							gates[s.Node] = true
						} else {
							gates = gates.Union(g.BoolEdges(s, false))
						}
					}
					ok = len(gates) > 0 && g.Dominated(ps.Node, gates)
				}
			}
			c.Check("put-after-verify", f.Name()+"|put", ps.Call.Pos(), ok, "MemPool.put is called only with the transaction object that verifyTx accepted on every path (or on which the resolved account was recorded with SetVerifedAccount, or whose sender is known not to be a name): verifyTx resolves the account name of a named sender and records it (SetVerifedAccount); put files the transaction under that account. A transaction that reaches put unverified is validated against, and filed under, the raw account name — a second list for an account that may already have one")
		}
	}
	if n < 2 {
		c.Undecide("put-after-verify", "mempool.(*MemPool).put", "fewer call sites of put than on the reference tree")
	}
}

// ---------------------------------------------------------------------------
// state-root

func c13GapStateRoot(e *c13Env) {
	c := e.c
	f := c.Fn("mempool.(*MemPool).setStateDB")
	best := e.p.LookupField("mempool", "MemPool", "bestBlockID")
	sdbF := e.p.LookupField("mempool", "MemPool", "stateDB")
	if f == nil || best == nil || sdbF == nil {
		c.Undecide("state-root", "mempool.(*MemPool).setStateDB", "anchor not found")
		return
	}
	g := f.Graph()
	info := f.Info()
	name := "mempool.(*MemPool).setStateDB"
	block := f.ParamObj(0)
	// isRoot: x is <block>...GetBlocksRootHash(), possibly through a once-assigned local
	isRoot := func(x ast.Expr) bool {
		call, ok := c13Resolve(f, x).(*ast.CallExpr)
		if !ok {
			return false
		}
		fn := an.Callee(info, call)
		if fn == nil || fn.Name() != "GetBlocksRootHash" {
			return false
		}
		sel, ok := ast.Unparen(call.Fun).(*ast.SelectorExpr)
		if !ok || block == nil || !c13Stable(f, block) {
			return false
		}
		// the header the root is read from is the block's own header
		switch h := c13Resolve(f, sel.X).(type) {
		case *ast.CallExpr:
			hf := an.Callee(info, h)
			return hf != nil && hf.Name() == "GetHeader" && c13RecvObj(info, h) == block
		case *ast.SelectorExpr:
			return h.Sel.Name == "Header" && an.ObjOf(info, h.X) == block
		}
		return false
	}
	setters := an.Set{}
	nSet := 0
	for _, s := range g.Calls(func(fn *types.Func, call *ast.CallExpr) bool {
		if fn == nil {
			return false
		}
		switch an.FuncName(fn) {
		case "state/statedb.(*StateDB).SetRoot":
			sel, ok := ast.Unparen(call.Fun).(*ast.SelectorExpr)
			return ok && an.FieldOf(info, sel.X) == sdbF
		case "state.(*ChainStateDB).OpenNewStateDB":
			return true
		}
		return false
	}) {
		nSet++
		good := len(s.Call.Args) == 1 && isRoot(s.Call.Args[0])
		if s.Fn.Name() == "OpenNewStateDB" {
			// the new view must be installed as the pool's view
			as, isA := s.Node.Ast.(*ast.AssignStmt)
			good = good && isA && len(as.Lhs) == 1 && an.FieldOf(info, as.Lhs[0]) == sdbF
		}
		c.Check("state-root", name+"|"+s.Fn.Name(), s.Call.Pos(), good, "the pool's state view is opened at / moved to the arriving block's state root (block.GetHeader().GetBlocksRootHash()); getAccountState then reads the nonces of the new state, which is what FilterByState and validateTx compare with")
		if good {
			setters[s.Node] = true
		}
	}
	if nSet == 0 {
		c.Undecide("state-root", name, "no SetRoot / OpenNewStateDB call on the pool's state view")
		return
	}
	// atom ROOTEQ: bytes.Equal(mp.stateDB.GetRoot(), root)
	at := func(x ast.Expr) (string, bool, bool) {
		call, ok := ast.Unparen(x).(*ast.CallExpr)
		if !ok || an.CalleeName(info, call) != "bytes.Equal" || len(call.Args) != 2 {
			return "", false, false
		}
		for _, pr := range [][2]ast.Expr{{call.Args[0], call.Args[1]}, {call.Args[1], call.Args[0]}} {
			gr, ok := ast.Unparen(pr[0]).(*ast.CallExpr)
			if !ok || an.CalleeName(info, gr) != "state/statedb.(*StateDB).GetRoot" {
				continue
			}
			sel, ok := ast.Unparen(gr.Fun).(*ast.SelectorExpr)
			if ok && an.FieldOf(info, sel.X) == sdbF && isRoot(pr[1]) {
				return "ROOTEQ", false, true
			}
		}
		return "", false, false
	}
	gates := setters.Union(g.EdgesImplying(at, map[string]bool{"ROOTEQ": true}))
	nW := 0
	for _, w := range e.p.FieldWrites(map[*types.Var]bool{best: true}) {
		if w.Fn != f {
			continue
		}
		wn := g.NodeContaining(w.Pos)
		if wn == nil {
			continue
		}
		nW++
		ok := g.PostDominated(wn, gates) || g.Dominated(wn, gates)
		c.Check("state-root", name+"|adopted-block", w.Pos, ok, "whenever the block is adopted as the pool's best block, every path also sets the state view to that block's root (SetRoot / OpenNewStateDB) or finds it already there (bytes.Equal(stateDB.GetRoot(), root)); otherwise block arrival filters the lists against the previous state and confirmed nonces stay pooled")
	}
	if nW == 0 {
		c.Undecide("state-root", name, "no write of bestBlockID")
	}
}

// ---------------------------------------------------------------------------
// chain-notify

// c13GapUse: the object an identifier or a package-qualified name refers to.
func c13GapUse(info *types.Info, x ast.Expr) types.Object {
	switch v := ast.Unparen(x).(type) {
	case *ast.Ident:
		return info.Uses[v]
	case *ast.SelectorExpr:
		return info.Uses[v.Sel]
	}
	return nil
}

func c13GapChainNotify(e *c13Env) {
	c := e.c
	p := e.p
	del := p.LookupObj("types/message", "MemPoolDel")
	svc := p.LookupObj("types/message", "MemPoolSvc")
	nf := c.Fn("chain.(*ChainService).notifyEvents")
	xf := c.Fn("chain.(*ChainService).executeBlock")
	if nf == nil || xf == nil {
		return
	}
	if del == nil || svc == nil {
		c.Undecide("chain-notify", "types/message.MemPoolDel", "message type or service name not found")
		return
	}
	c.Pkgs["chain"] = true
	// (a) notifyEvents always requests MemPoolDel{Block: <its block>} from the pool
	{
		g := nf.Graph()
		info := nf.Info()
		block := nf.ParamObj(0)
		sends := an.Set{}
		var pos token.Pos = nf.Pos()
		okBlock := false
		for _, s := range g.Calls(func(fn *types.Func, call *ast.CallExpr) bool { return true }) {
			if len(s.Call.Args) < 2 || c13GapUse(info, s.Call.Args[0]) != svc {
				continue
			}
			var lit *ast.CompositeLit
			switch m := c13Resolve(nf, s.Call.Args[1]).(type) {
			case *ast.UnaryExpr:
				lit, _ = ast.Unparen(m.X).(*ast.CompositeLit)
			case *ast.CompositeLit:
				lit = m
			}
			if lit == nil {
				continue
			}
			tv, ok := info.Types[lit]
			if !ok {
				continue
			}
			nt, ok := tv.Type.(*types.Named)
			if !ok || nt.Obj() != del {
				continue
			}
			sends[s.Node] = true
			pos = s.Call.Pos()
			for i, el := range lit.Elts {
				v := el
				if kv, isKV := el.(*ast.KeyValueExpr); isKV {
					if id, isID := kv.Key.(*ast.Ident); !isID || id.Name != "Block" {
						continue
					}
					v = kv.Value
				} else if i != 0 {
					continue
				}
				if block != nil && an.ObjOf(info, v) == block && c13Stable(nf, block) {
					okBlock = true
				}
			}
		}
		if len(sends) == 0 {
			c.Undecide("chain-notify", "chain.(*ChainService).notifyEvents", "no MemPoolDel request to the pool found")
		} else {
			ok := g.PostDominated(g.Entry, sends) && okBlock
			c.Check("chain-notify", "chain.(*ChainService).notifyEvents|MemPoolDel", pos, ok, "every call of notifyEvents sends MemPoolDel{Block: block} with its own block parameter to the pool, unconditionally (also for a block without transactions: the pool moves its state view and best-block id with every block)")
		}
	}
	// (b) executeBlock: success implies the notification for the executed block
	{
		g := xf.Graph()
		info := xf.Info()
		block := xf.ParamObj(1)
		gates := an.Set{}
		for _, s := range g.CallsTo("chain.(*ChainService).notifyEvents") {
			if len(s.Call.Args) >= 1 && block != nil && an.ObjOf(info, s.Call.Args[0]) == block && c13Stable(xf, block) {
				gates[s.Node] = true
			}
		}
		rets := g.NilReturns()
		ok := len(gates) > 0 && len(rets) > 0
		pos := xf.Pos()
		for _, r := range rets {
			if !g.Dominated(r, gates) {
				ok, pos = false, r.Ast.Pos()
			}
		}
		c.Check("chain-notify", "chain.(*ChainService).executeBlock|notifyEvents", pos, ok, "every successful return of executeBlock (the block's state is committed) is preceded by notifyEvents(block, ...) for the executed block")
	}
}
