package props

import (
	"go/ast"
	"go/constant"
	"go/token"
	"go/types"
	"sort"
	"strings"

	"verif/checker/internal/an"
	"verif/checker/internal/rep"
)

// C16 — raft log storage and cluster membership.
//
// Three groups of structural rules (the shape of the code is decided, never
// its run-time behaviour):
//
//	c16_wal.go     the write-ahead log in package chain: key families and their
//	               closed user sets, codec agreement writer/reader, one DB
//	               transaction per write with commit on every success path,
//	               order truncation < entries < last index < commit, bounds of
//	               the truncation loop, value of the last index, pairing of the
//	               block / inverse-key / conf-change arms, reader cross-checks
//	c16_raft.go    the raft side: entries before hard state, persist before
//	               append / send / advance, snapshot before compaction, the two
//	               converters (field copy, type coverage, parallel slices),
//	               ReadAll range and no-skip
//	c16_member.go  membership: validation guards dominate acceptance, the
//	               availability rule for removing a healthy node, both called
//	               before a proposal leaves and before a change is applied,
//	               attribute coverage of HasDuplicatedAttr, closed mutator sets
func init() { register("C16", runC16) }

const (
	c16DB      = "github.com/aergoio/aergo-lib/db"
	c16Raftpb  = "github.com/aergoio/etcd/raft/raftpb"
	c16RaftPkg = "consensus/impl/raftv2"
)

type c16Env struct {
	c    *rep.Ctx
	p    *an.Prog
	keys map[*types.Func]string // functions of types/dbkey that build a raft key -> their name
}

func runC16(c *rep.Ctx) {
	c.Explain = "Structural decision of the raft storage and membership rules. Storage: the raft keys of types/dbkey form prefix-free families used only by a closed set of ChainDB methods whose writer and reader codecs agree; every write goes through exactly one DB transaction that is committed on every success path (rolled back on error paths); in WriteRaftEntry the conflicting suffix is deleted up to and including the old last index, before the new entries are set, the last index written is the index of the last new entry, the inverse key and the block are written on the block arm only, and commit is dominated by the last-index write; the raft loop persists entries before the hard state, before appending to the in-memory log, before a follower sends and before Advance; ReadAll reads snapshot+1..last without skipping. Membership: in validateChangeMembership every guard (nil, invalid id, removed, invalid fields, already added, duplicated attribute, unknown member) exits with an error and dominates acceptance; removing a healthy node is refused unless healthy-1 >= (N-1)/2+1; both checks dominate every point where a proposal leaves and validation dominates the apply; HasDuplicatedAttr covers every attribute of MemberAttr. The shape of the code is decided (control-flow dominance, site enumeration, field sets), not the behaviour of the database or of the etcd raft library."
	c.NotDecided = []string{
		"equivalence of the stored log with a reference log over all write histories and crash points (value level)",
		"durability and atomicity of db.Transaction.Commit inside aergo-lib / badger",
		"behaviour of the etcd raft library (what Ready() delivers, MemoryStorage)",
		"health classification of members (GetClusterProgress) and timing of membership requests",
		"that the block stored by addBlock is the one named by WalEntry.Data (value level)",
	}
	c.Assume = []string{
		"db.Transaction applies Set/Delete in program order and Commit is atomic",
		"reflection / unsafe writes are out of scope; test files are not loaded",
		"consensus.EntryType has only the constants declared in package consensus",
	}
	e := &c16Env{c: c, p: c.Prog}
	if !e.discoverKeys() {
		return
	}
	c16WAL(e)
	c16Raft(e)
	c16Member(e)
	// floors of the rules that have a fixed number of instances on the reference tree
	for rule, n := range map[string]int{
		"key-func": 7, "key-roles": 7, "codec-family": 4, "tx-only": 1, "bulk-flush": 1, "tx-helper": 3, "tx-rollback": 3,
		"entry-uncond": 1, "invert-stale": 1, "save-order": 3, "save-args": 2, "parallel-slices": 1,
		"proposal-creators": 1, "proposal-send": 1, "proposal-flow": 1,
	} {
		c.Floor(rule, n)
	}
}

// discoverKeys finds, by role, the functions of types/dbkey whose result is
// built from a constant that starts with the raft prefix.
func (e *c16Env) discoverKeys() bool {
	c, p := e.c, e.p
	pk := p.Pkg("types/dbkey")
	if pk == nil || pk.Types == nil {
		c.Undecide("anchor", "types/dbkey", "package not loaded")
		return false
	}
	c.Pkgs["types/dbkey"] = true
	prefObj, _ := pk.Types.Scope().Lookup("raftPrefix").(*types.Const)
	if prefObj == nil || prefObj.Val().Kind() != constant.String {
		c.Undecide("anchor", "types/dbkey.raftPrefix", "raft key prefix constant not found")
		return false
	}
	prefix := constant.StringVal(prefObj.Val())
	e.keys = map[*types.Func]string{}
	type kc struct {
		name string
		val  string
		obj  *types.Const
	}
	var consts []kc
	for _, f := range p.Funcs() {
		if f.Pkg != pk || f.Body == nil || f.Obj == nil {
			continue
		}
		ast.Inspect(f.Body, func(n ast.Node) bool {
			id, ok := n.(*ast.Ident)
			if !ok {
				return true
			}
			if k, ok := pk.TypesInfo.Uses[id].(*types.Const); ok && k != prefObj && k.Val().Kind() == constant.String &&
				strings.HasPrefix(constant.StringVal(k.Val()), prefix) {
				if _, dup := e.keys[f.Obj]; !dup {
					e.keys[f.Obj] = f.Obj.Name()
					consts = append(consts, kc{f.Obj.Name(), constant.StringVal(k.Val()), k})
				}
			}
			return true
		})
	}
	sort.Slice(consts, func(i, j int) bool { return consts[i].name < consts[j].name })
	// prefix-freedom inside the raft family: no raft key constant is a prefix of
	// another one (a fixed key could otherwise be read as a member of a family)
	for i := range consts {
		for j := range consts {
			if i >= j {
				continue
			}
			a, b := consts[i], consts[j]
			ok := !strings.HasPrefix(a.val, b.val) && !strings.HasPrefix(b.val, a.val)
			c.CheckTrivial("key-disjoint", a.name+"|"+b.name, a.obj.Pos(), ok, "raft key constants "+a.obj.Name()+" and "+b.obj.Name()+" are not prefixes of one another")
		}
	}
	c.Floor("key-disjoint", 15)
	// every string constant of dbkey that starts with the raft prefix is reachable through exactly one key function
	byConst := map[*types.Const]int{}
	for _, k := range consts {
		byConst[k.obj]++
	}
	sc := pk.Types.Scope()
	for _, nm := range sc.Names() {
		k, ok := sc.Lookup(nm).(*types.Const)
		if !ok || k == prefObj || k.Val().Kind() != constant.String {
			continue
		}
		v := constant.StringVal(k.Val())
		if strings.HasPrefix(v, prefix) {
			c.CheckTrivial("key-func", nm, k.Pos(), byConst[k] == 1, "raft key constant "+nm+" is used by exactly one key constructor of types/dbkey")
		} else if strings.HasPrefix(prefix, v) && v != "" {
			// informational: a shorter non-raft prefix (receipts "r") — keys differ in length
			c.Note("non-raft key prefix %s=%q is a prefix of the raft prefix %q; the families are told apart by key length only (not decided here)", nm, v, prefix)
		}
	}
	if len(e.keys) < 7 {
		c.Undecide("key-func", "types/dbkey", "fewer than the 7 raft key constructors of the reference tree were discovered ("+itoa(len(e.keys))+")")
		return false
	}
	return true
}

// keyOf returns the name of the raft key constructor called by e, or "".
func (e *c16Env) keyOf(info *types.Info, x ast.Expr) (string, *ast.CallExpr) {
	call, ok := ast.Unparen(x).(*ast.CallExpr)
	if !ok {
		return "", nil
	}
	if fn := an.Callee(info, call); fn != nil {
		if nm, ok := e.keys[fn]; ok {
			return nm, call
		}
	}
	return "", nil
}

// ---------------------------------------------------------------------------
// small helpers shared by the three files

func c16IsNamed(t types.Type, pkgPath, name string) bool {
	if t == nil {
		return false
	}
	if p, ok := t.(*types.Pointer); ok {
		t = p.Elem()
	}
	n, ok := t.(*types.Named)
	if !ok || n.Obj().Pkg() == nil {
		return false
	}
	return n.Obj().Name() == name && n.Obj().Pkg().Path() == pkgPath
}

func c16IsTx(t types.Type) bool {
	if _, ok := t.(*types.Pointer); ok {
		return false
	}
	return c16IsNamed(t, c16DB, "Transaction")
}

func c16Deref(t types.Type) types.Type {
	if p, ok := t.(*types.Pointer); ok {
		return p.Elem()
	}
	return t
}

// c16Param returns the object of the i-th parameter (flattened) of f.
func c16Param(f *an.Func, i int) types.Object {
	if f.Type == nil || f.Type.Params == nil {
		return nil
	}
	k := 0
	for _, fl := range f.Type.Params.List {
		for _, nm := range fl.Names {
			if k == i {
				return f.Info().Defs[nm]
			}
			k++
		}
		if len(fl.Names) == 0 {
			k++
		}
	}
	return nil
}

// c16Recv returns the receiver object of a method declaration.
func c16Recv(f *an.Func) types.Object {
	if f.Decl == nil || f.Decl.Recv == nil || len(f.Decl.Recv.List) == 0 || len(f.Decl.Recv.List[0].Names) == 0 {
		return nil
	}
	return f.Info().Defs[f.Decl.Recv.List[0].Names[0]]
}

// c16AssignNodes lists the vertices of g that assign obj.
func c16AssignNodes(g *an.Graph, obj types.Object) []*an.Node {
	info := g.Fn.Info()
	return g.StmtNodes(func(n *an.Node) bool { return an.Assigns(info, n.Ast, obj) })
}

// c16ValueAssigns returns, for every vertex that gives obj a value (not a bare
// `var x T`), the right-hand side expression that obj receives (the whole call
// for multi-value assignments).
func c16ValueAssigns(g *an.Graph, obj types.Object) (rhs []ast.Expr, nodes []*an.Node, other int) {
	info := g.Fn.Info()
	for _, n := range c16AssignNodes(g, obj) {
		switch s := n.Ast.(type) {
		case *ast.AssignStmt:
			found := false
			for i, l := range s.Lhs {
				if an.ObjOf(info, l) != obj {
					continue
				}
				found = true
				if s.Tok != token.ASSIGN && s.Tok != token.DEFINE {
					other++
					continue
				}
				if len(s.Rhs) == len(s.Lhs) {
					rhs = append(rhs, s.Rhs[i])
				} else if len(s.Rhs) == 1 {
					rhs = append(rhs, s.Rhs[0])
				}
				nodes = append(nodes, n)
			}
			if !found {
				other++
			}
		case *ast.ValueSpec:
			for i, nm := range s.Names {
				if info.Defs[nm] != obj {
					continue
				}
				if len(s.Values) == 0 {
					continue // zero value declaration
				}
				if len(s.Values) == len(s.Names) {
					rhs = append(rhs, s.Values[i])
				} else {
					rhs = append(rhs, s.Values[0])
				}
				nodes = append(nodes, n)
			}
		default:
			other++
		}
	}
	return
}

// c16SureErr: the return vertex r certainly returns a non-nil error.
func c16SureErr(g *an.Graph, r *an.Node) bool {
	rs, ok := r.Ast.(*ast.ReturnStmt)
	if !ok || len(rs.Results) == 0 {
		return false
	}
	info := g.Fn.Info()
	last := ast.Unparen(rs.Results[len(rs.Results)-1])
	if an.NonNilErrorExpr(info, last) {
		return true
	}
	if id, ok := last.(*ast.Ident); ok {
		obj := info.Uses[id]
		if obj == nil {
			return false
		}
		okG, _ := g.GuardedAt(r, an.NilAtom(info, obj), map[string]bool{"nil": false})
		return okG
	}
	return false
}

// c16NilLiteralReturns: return vertices whose last result is the literal nil
// (or, for bool functions, see callers).
func c16NilErrReturns(g *an.Graph) []*an.Node {
	info := g.Fn.Info()
	var out []*an.Node
	for _, r := range g.Returns() {
		rs := r.Ast.(*ast.ReturnStmt)
		if len(rs.Results) == 0 {
			continue
		}
		last := rs.Results[len(rs.Results)-1]
		if tv, ok := info.Types[last]; ok && tv.IsNil() {
			out = append(out, r)
		}
	}
	return out
}

// c16FieldSel: e is  X.f  selecting struct field named field of a struct type
// named pkgPath.typeName (possibly through embedding); returns X.
func c16FieldSel(info *types.Info, e ast.Expr, field string) (ast.Expr, *types.Var) {
	sel, ok := ast.Unparen(e).(*ast.SelectorExpr)
	if !ok {
		return nil, nil
	}
	v := an.FieldOf(info, sel)
	if v == nil || v.Name() != field {
		return nil, nil
	}
	return sel.X, v
}

// c16ConstObj returns the constant object an expression denotes (ident or pkg.Ident).
func c16ConstObj(info *types.Info, e ast.Expr) *types.Const {
	switch x := ast.Unparen(e).(type) {
	case *ast.Ident:
		k, _ := info.Uses[x].(*types.Const)
		return k
	case *ast.SelectorExpr:
		k, _ := info.Uses[x.Sel].(*types.Const)
		return k
	}
	return nil
}

func c16IsConst(info *types.Info, e ast.Expr, pkgPath, name string) bool {
	k := c16ConstObj(info, e)
	return k != nil && k.Pkg() != nil && k.Pkg().Path() == pkgPath && k.Name() == name
}

// c16IntConst: e is an integer constant; returns its value.
func c16IntConst(info *types.Info, e ast.Expr) (int64, bool) {
	tv, ok := info.Types[e]
	if !ok || tv.Value == nil || tv.Value.Kind() != constant.Int {
		return 0, false
	}
	return constant.Int64Val(tv.Value)
}

// c16SplitOff strips +/- integer constants and conversions: e = base + off.
func c16SplitOff(info *types.Info, e ast.Expr) (ast.Expr, int64) {
	e = ast.Unparen(e)
	if be, ok := e.(*ast.BinaryExpr); ok && (be.Op == token.ADD || be.Op == token.SUB) {
		if cv, ok := c16IntConst(info, be.Y); ok {
			b, o := c16SplitOff(info, be.X)
			if be.Op == token.SUB {
				cv = -cv
			}
			return b, o + cv
		}
		if cv, ok := c16IntConst(info, be.X); ok && be.Op == token.ADD {
			b, o := c16SplitOff(info, be.Y)
			return b, o + cv
		}
	}
	if call, ok := e.(*ast.CallExpr); ok && len(call.Args) == 1 {
		if tv, ok := info.Types[call.Fun]; ok && tv.IsType() {
			return c16SplitOff(info, call.Args[0])
		}
	}
	return e, 0
}

// c16ErrTestOnly: the branch outcome (cond taken with val) is one that only
// says "an error variable is nil" (the success edge of an error test).
func c16ErrTestOnly(info *types.Info, cond ast.Expr, val bool) bool {
	at := func(e ast.Expr) (string, bool, bool) {
		be, ok := ast.Unparen(e).(*ast.BinaryExpr)
		if !ok || (be.Op != token.EQL && be.Op != token.NEQ) {
			return "", false, false
		}
		for _, pr := range [][2]ast.Expr{{be.X, be.Y}, {be.Y, be.X}} {
			tv, ok := info.Types[pr[0]]
			if !ok || tv.Type == nil || !types.Identical(tv.Type, types.Universe.Lookup("error").Type()) {
				continue
			}
			if tn, ok := info.Types[pr[1]]; ok && tn.IsNil() {
				return "nil", be.Op == token.NEQ, true
			}
		}
		return "", false, false
	}
	return an.CondImplies(info, cond, val, at, map[string]bool{"nil": true})
}

// c16RangeLoop describes a `for k, v := range X` statement in the graph.
type c16RangeLoop struct {
	stmt *ast.RangeStmt
	key  types.Object
	val  types.Object
	head *an.Node // the two-way loop header
	body *an.Node // the edge vertex into the body
	done *an.Node // the edge vertex leaving the loop
}

// c16RangeOver finds the range statements of g's function (not in literals)
// whose operand is the object x.
func c16RangeOver(g *an.Graph, x types.Object) []*c16RangeLoop {
	info := g.Fn.Info()
	var out []*c16RangeLoop
	an.InspectShallow(g.Fn.Body, func(n ast.Node) bool {
		rs, ok := n.(*ast.RangeStmt)
		if !ok || an.ObjOf(info, rs.X) != x {
			return true
		}
		rl := &c16RangeLoop{stmt: rs}
		if id, ok := rs.Key.(*ast.Ident); ok && id.Name != "_" {
			rl.key = info.Defs[id]
			if rl.key == nil {
				rl.key = info.Uses[id]
			}
		}
		if id, ok := rs.Value.(*ast.Ident); ok && id.Name != "_" {
			rl.val = info.Defs[id]
			if rl.val == nil {
				rl.val = info.Uses[id]
			}
		}
		start := g.NodeOf(rs.X)
		for cur, steps := start, 0; cur != nil && steps < 8; steps++ {
			if len(cur.Succs) == 2 {
				rl.head = cur
				for _, s := range cur.Succs {
					if s.Kind == an.KTrue {
						rl.body = s
					} else if s.Kind == an.KFalse {
						rl.done = s
					}
				}
				break
			}
			if len(cur.Succs) != 1 {
				break
			}
			cur = cur.Succs[0]
		}
		if rl.head != nil && rl.body != nil {
			out = append(out, rl)
		}
		return true
	})
	return out
}

// inLoopBody: vertex n lies inside the body of the range loop.
func (rl *c16RangeLoop) contains(g *an.Graph, n *an.Node) bool {
	return n.Ast != nil && rl.stmt.Body.Pos() <= n.Ast.Pos() && n.Ast.End() <= rl.stmt.Body.End()
}

func c16Short(name string) string {
	if i := strings.LastIndex(name, "/"); i >= 0 {
		return name[i+1:]
	}
	return name
}

func c16SortedKeys(m map[string]bool) []string {
	var out []string
	for k := range m {
		out = append(out, k)
	}
	sort.Strings(out)
	return out
}
