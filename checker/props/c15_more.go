package props

import (
	"go/ast"
	"go/token"
	"go/types"

	"verif/checker/internal/an"
)

const (
	c15LoadVoteResult  = "contract/system.loadVoteResult"
	c15ValidateForVote = "contract/system.validateForVote"
)

// issueAgreement: the old vote that is subtracted, the vote record that is
// written and the tally that is loaded/synced belong to the same voting issue
// (and the same voter).
func (e *c15Env) issueAgreement() {
	c, p := e.c, e.p
	// (A) functions that read and write a vote record themselves (refresh after unstake)
	nA := 0
	for _, f := range p.Funcs() {
		if f.Pkg != e.sys || f.Body == nil {
			continue
		}
		g := f.Graph()
		gets, sets, loads := g.CallsTo(c15GetVote, c15GetVoteEx), g.CallsTo(c15SetVote), g.CallsTo(c15LoadVoteResult)
		if len(gets) == 0 || len(sets) == 0 {
			continue
		}
		nA++
		r := c15ResolverOf(f)
		key := f.Name()
		ok := len(gets) == 1 && len(sets) == 1 && len(loads) == 1
		if ok {
			// the arguments are picked by the roles of the callee's parameters (where they
			// end up in the storage key), not by their position
			gk, gv := e.keyArgs(gets[0])
			sk, sv := e.keyArgs(sets[0])
			lk, _ := e.keyArgs(loads[0])
			ok = gk != nil && gv != nil && sk != nil && sv != nil && lk != nil &&
				r.SameValue(gk, sk) && r.SameValue(gk, lk) && r.SameValue(gv, sv)
		}
		c.Check("issue-agreement", key+"|get=set=load", f.Pos(), ok, "the vote read (getVote), the vote written (setVote) and the tally loaded (loadVoteResult) use the same issue key, and the same voter")
		// the key is the Key() of the element of the voting catalog being iterated
		okCat := false
		if len(gets) >= 1 {
			gk, _ := e.keyArgs(gets[0])
			if gk == nil {
				gk = gets[0].Call.Fun
			}
			v := r.Resolve(gk)
			if v.Call != nil && c15CalleeName(r.info, v.Call) == "types.(VotingIssue).Key" {
				recvObj := an.ObjOf(r.info, c15Recv(v.Call))
				ast.Inspect(f.Body, func(n ast.Node) bool {
					rs, isR := n.(*ast.RangeStmt)
					if !isR || rs.Value == nil {
						return true
					}
					if an.ObjOf(r.info, rs.Value) == recvObj && recvObj != nil {
						if call, isC := ast.Unparen(rs.X).(*ast.CallExpr); isC && c15CalleeName(r.info, call) == "contract/system.GetVotingCatalog" {
							okCat = true
						}
					}
					return true
				})
			}
		}
		c.Check("issue-agreement", key+"|catalog", f.Pos(), okCat, "the refresh iterates over the whole voting catalog (GetVotingCatalog) and uses each issue's Key()")
	}
	if nA == 0 {
		c.Undecide("issue-agreement", "refresh", "no function reads and writes vote records (refresh after unstake not found)")
	}
	// (B) the vote command
	issue := p.LookupField("contract/system", "voteCmd", "issue")
	if issue == nil {
		c.Undecide("issue-agreement", "contract/system.voteCmd.issue", "field not found")
		return
	}
	classify := func(f *an.Func, x ast.Expr) (string, *c15Resolver, c15Val) {
		r := c15ResolverOf(f)
		v := r.Resolve(x)
		if v.Call == nil || v.Expr == nil {
			return "", r, v
		}
		// []byte(op.ID())
		if tv, ok := r.info.Types[v.Call.Fun]; ok && tv.IsType() && len(v.Call.Args) == 1 {
			in := r.Resolve(v.Call.Args[0])
			if in.Call != nil && c15CalleeName(r.info, in.Call) == "types.(OpSysTx).ID" && e.recvIsField(r, in.Call, e.fOp) {
				return "OPID", r, in
			}
			return "", r, v
		}
		if c15CalleeName(r.info, v.Call) == "contract/system.(*Proposal).GetKey" {
			return "PROPKEY", r, v
		}
		return "", r, v
	}
	propAtom := func(info *types.Info) an.Atomizer {
		return func(x ast.Expr) (string, bool, bool) {
			be, ok := ast.Unparen(x).(*ast.BinaryExpr)
			if !ok || (be.Op != token.EQL && be.Op != token.NEQ) {
				return "", false, false
			}
			for _, pr := range [][2]ast.Expr{{be.X, be.Y}, {be.Y, be.X}} {
				if an.FieldOf(info, pr[0]) == e.fProposal && c15IsNilExpr(info, pr[1]) {
					return "P", be.Op == token.EQL, true // atom P: proposal present
				}
			}
			return "", false, false
		}
	}
	ws, complete := e.fieldWriteValues(issue)
	if !complete || len(ws) < 2 {
		c.Undecide("issue-agreement", "contract/system.voteCmd.issue", "writes of the issue key not enumerable")
	}
	for _, w := range ws {
		if w.fn == nil || w.expr == nil {
			continue
		}
		class, r, v := classify(w.fn, w.expr)
		g := w.fn.Graph()
		n := g.NodeContaining(w.pos)
		ok := class != "" && n != nil
		how := "unclassified issue key"
		if ok {
			switch class {
			case "PROPKEY":
				ok = e.recvIsField(r, v.Call, e.fProposal)
				if ok {
					ok, how = g.GuardedAt(n, propAtom(r.info), map[string]bool{"P": true})
				}
			case "OPID":
				ok, how = g.GuardedAt(n, propAtom(r.info), map[string]bool{"P": false})
			}
		}
		c.Check("issue-agreement", w.fn.Name()+"|issue:"+class, w.pos, ok, "the command's issue key is the proposal's key exactly when the context carries a proposal, else the operation id ("+how+")")
	}
	// setVote in the command's methods and loadVoteResult in its constructor use that field
	for _, f := range p.Funcs() {
		if f.Pkg != e.sys || f.Body == nil {
			continue
		}
		g := f.Graph()
		r := c15ResolverOf(f)
		isMethod := c15RecvNamed(f) != nil && c15RecvNamed(f).Obj().Name() == "voteCmd"
		builds := false
		for _, w := range ws {
			if w.fn != nil && w.fn.TopDecl() == f {
				builds = true
			}
		}
		if isMethod {
			for _, s := range g.CallsTo(c15SetVote) {
				sk, _ := e.keyArgs(s)
				c.Check("issue-agreement", f.Name()+"|setVote.key", s.Call.Pos(), sk != nil && r.Field(sk) == issue, "the vote record is written under the command's issue key")
			}
		}
		if builds {
			for _, s := range g.CallsTo(c15LoadVoteResult) {
				lk, _ := e.keyArgs(s)
				c.Check("issue-agreement", f.Name()+"|loadVoteResult.key", s.Call.Pos(), lk != nil && r.Field(lk) == issue, "the tally is loaded under the command's issue key")
			}
		}
	}
	// the old vote was read under the same key: per arm of ValidateSystemTx
	if f := c.Fn(c15ValidateSystemTx); f != nil {
		g := f.Graph()
		want := map[string]string{"OpvoteBP": "OPID", "OpvoteDAO": "PROPKEY"}
		for _, s := range g.CallsTo(c15ValidateForVote) {
			vk, _ := e.keyArgs(s)
			if vk == nil {
				_, why := e.roleParam(c15ValidateForVote, c15IssueSink())
				c.Undecide("issue-agreement", c15ValidateSystemTx, "the vote-key argument of validateForVote cannot be identified: "+why)
				continue
			}
			class, r, v := classify(f, vk)
			arm := ""
			for name := range want {
				if o := p.LookupObj("types", name); o != nil {
					if ed := c15CaseEdges(g, o); len(ed) > 0 && g.Dominated(s.Node, ed) {
						arm = name
					}
				}
			}
			ok := arm != "" && class == want[arm]
			if ok && class == "PROPKEY" {
				// the proposal whose key is used is the one stored in the context
				ok = false
				pw, _ := e.fieldWriteValues(e.fProposal)
				for _, w := range pw {
					if w.fn != nil && w.fn.TopDecl() == f && w.expr != nil && r.SameValue(w.expr, c15Recv(v.Call)) {
						ok = true
					}
				}
			}
			c.Check("issue-agreement", c15ValidateSystemTx+"|"+arm+"|oldvote.key", s.Call.Pos(), ok, "the previous vote is looked up under the key the command will write under (operation id for the producer vote, the proposal's key for a parameter vote)")
		}
		// context.Proposal is only set in the parameter-vote arm
		pw, completeP := e.fieldWriteValues(e.fProposal)
		if !completeP || len(pw) == 0 {
			c.Undecide("issue-agreement", "SystemContext.Proposal", "writes not enumerable")
		}
		dao := p.LookupObj("types", "OpvoteDAO")
		for _, w := range pw {
			ok := false
			fn := "<package level>"
			if w.fn != nil {
				fn = w.fn.TopDecl().Name()
				if w.fn.TopDecl() == f && dao != nil {
					if n := g.NodeContaining(w.pos); n != nil {
						ok = g.Dominated(n, c15CaseEdges(g, dao))
					}
				}
			}
			c.Check("issue-agreement", fn+"|SystemContext.Proposal", w.pos, ok, "the context carries a proposal only in the parameter-vote arm of ValidateSystemTx")
		}
	}
	c.Floor("issue-agreement", 8)
}

// ---------------------------------------------------------------------------

// codecAgreement: the producer vote (default key) and the parameter votes use
// two encodings of a vote; writer and reader must select them by the same
// predicate (key == defaultVoteKey, or the `ex` flag derived from it).
func (e *c15Env) codecAgreement() {
	c, p := e.c, e.p
	defKey := p.LookupObj("contract/system", "defaultVoteKey")
	exField := p.LookupField("contract/system", "VoteResult", "ex")
	if defKey == nil || exField == nil {
		c.Undecide("codec-agreement", "contract/system.defaultVoteKey / VoteResult.ex", "selector anchors not found")
		return
	}
	plain := map[string]bool{"contract/system.serializeVote": true, "contract/system.deserializeVote": true}
	ext := map[string]bool{"contract/system.serializeVoteEx": true, "contract/system.deserializeVoteEx": true}
	for k := range plain {
		if p.Func(k) == nil {
			c.Undecide("codec-agreement", k, "codec function not found")
		}
	}
	for k := range ext {
		if p.Func(k) == nil {
			c.Undecide("codec-agreement", k, "codec function not found")
		}
	}
	// atom D: key is the default (producer vote) key; atom X: extended flag set
	mkAtom := func(f *an.Func) an.Atomizer {
		info := f.Info()
		return func(x ast.Expr) (string, bool, bool) {
			x = ast.Unparen(x)
			if id, isID := x.(*ast.Ident); isID {
				// a boolean local assigned once stands for its definition
				if v := c15ResolverOf(f).Resolve(id); v.Expr != nil && ast.Unparen(v.Expr) != x {
					x = ast.Unparen(v.Expr)
				}
			}
			if call, ok := x.(*ast.CallExpr); ok && c15CalleeName(info, call) == "bytes.Equal" && len(call.Args) == 2 {
				if an.ObjOf(info, call.Args[0]) == defKey || an.ObjOf(info, call.Args[1]) == defKey {
					return "D", false, true
				}
			}
			if e.isExFlag(f, x, 0) {
				return "D", true, true // ex == !default
			}
			return "", false, false
		}
	}
	n := 0
	for _, f := range p.Funcs() {
		if f.Pkg != e.sys || f.Body == nil {
			continue
		}
		g := f.Graph()
		for _, s := range g.Calls(func(fn *types.Func, _ *ast.CallExpr) bool {
			return fn != nil && (plain[an.FuncName(fn)] || ext[an.FuncName(fn)])
		}) {
			name := an.FuncName(s.Fn)
			want := map[string]bool{"D": plain[name]}
			ok, how := g.GuardedAt(s.Node, mkAtom(f), want)
			n++
			sel := "the default (producer vote) key"
			if ext[name] {
				sel = "a parameter-vote key"
			}
			c.Check("codec-agreement", f.Name()+"|"+name, s.Call.Pos(), ok, name+" is used only where the issue key is known to be "+sel+": "+how)
		}
	}
	if n < 6 {
		c.Undecide("codec-agreement", "sites", "fewer vote codec call sites than on the reference tree")
	}
	// definitions of the flag: every assignment of VoteResult.ex or of a local flag is a constant consistent with D
	for _, w := range func() []c15Write { ws, _ := e.fieldWriteValues(exField); return ws }() {
		if w.fn == nil || w.expr == nil {
			c.Check("codec-agreement", "VoteResult.ex|write", w.pos, false, "the extended-encoding flag is written in a way that cannot be evaluated")
			continue
		}
		c.Check("codec-agreement", w.fn.Name()+"|VoteResult.ex", w.pos, e.flagWriteOK(w.fn, w.expr, w.pos), "VoteResult.ex is set to false exactly under key == defaultVoteKey and to true otherwise")
	}
	c.Floor("codec-agreement", 8)
}

// isExFlag: x denotes the extended-encoding flag: the field VoteResult.ex, a
// bool parameter that receives a flag at every call site, or a bool local all
// of whose assignments are constants consistent with the default-key test.
func (e *c15Env) isExFlag(f *an.Func, x ast.Expr, depth int) bool {
	if depth > 3 {
		return false
	}
	info := f.Info()
	x = ast.Unparen(x)
	exField := e.p.LookupField("contract/system", "VoteResult", "ex")
	if an.FieldOf(info, x) == exField && exField != nil {
		return true
	}
	id, ok := x.(*ast.Ident)
	if !ok {
		return false
	}
	v, ok := info.Uses[id].(*types.Var)
	if !ok {
		return false
	}
	if b, isB := v.Type().Underlying().(*types.Basic); !isB || b.Info()&types.IsBoolean == 0 {
		return false
	}
	top := f.TopDecl()
	if c15IsParam(top, v) {
		// every call site passes a flag in this position
		sig := top.Obj.Type().(*types.Signature)
		idx := -1
		for i := 0; i < sig.Params().Len(); i++ {
			if sig.Params().At(i) == v {
				idx = i
			}
		}
		sites := e.p.CallSitesOf(map[string]bool{top.Name(): true})
		if len(sites) == 0 || idx < 0 {
			return false
		}
		for _, cs := range sites {
			if cs.Fn == nil || idx >= len(cs.Call.Args) || !e.isExFlag(cs.Fn, cs.Call.Args[idx], depth+1) {
				return false
			}
		}
		return true
	}
	// local: every assignment is a constant, and a constant that is not itself
	// written under the matching outcome of the default-key test reaches a use
	// only through such an outcome (reaching definitions)
	g := top.Graph()
	defKey := e.p.LookupObj("contract/system", "defaultVoteKey")
	type def struct {
		node *an.Node
		val  bool
		ok   bool
	}
	var defs []def
	bad := false
	record := func(lhs ast.Expr, rhs ast.Expr) {
		tv, has := info.Types[rhs]
		n := g.NodeContaining(lhs.Pos())
		if !has || tv.Value == nil || n == nil {
			bad = true
			return
		}
		defs = append(defs, def{n, tv.Value.String() == "true", e.flagWriteOK(f, rhs, lhs.Pos())})
	}
	ast.Inspect(top.Body, func(n ast.Node) bool {
		switch s := n.(type) {
		case *ast.AssignStmt:
			for i, l := range s.Lhs {
				if an.ObjOf(info, l) != v {
					continue
				}
				if len(s.Lhs) != len(s.Rhs) || (s.Tok != token.ASSIGN && s.Tok != token.DEFINE) {
					bad = true
					continue
				}
				record(l, s.Rhs[i])
			}
		case *ast.ValueSpec:
			for i, nm := range s.Names {
				if info.Defs[nm] != v {
					continue
				}
				if i < len(s.Values) {
					record(nm, s.Values[i])
				} else {
					// zero value: false
					if dn := g.NodeContaining(nm.Pos()); dn != nil {
						defs = append(defs, def{dn, false, false})
					} else {
						bad = true
					}
				}
			}
		case *ast.UnaryExpr:
			if s.Op == token.AND && an.ObjOf(info, s.X) == v {
				bad = true
			}
		}
		return true
	})
	if bad || len(defs) == 0 || defKey == nil {
		return false
	}
	at := func(x ast.Expr) (string, bool, bool) {
		if call, ok := ast.Unparen(x).(*ast.CallExpr); ok && c15CalleeName(info, call) == "bytes.Equal" && len(call.Args) == 2 {
			if an.ObjOf(info, call.Args[0]) == defKey || an.ObjOf(info, call.Args[1]) == defKey {
				return "D", false, true
			}
		}
		return "", false, false
	}
	defNodes := an.Set{}
	for _, d := range defs {
		defNodes[d.node] = true
	}
	var uses []*an.Node
	for _, n := range g.Nodes {
		if n.Kind == an.KStmt && n.Ast != nil && !defNodes[n] && c15UsesObj(info, n.Ast, v) {
			uses = append(uses, n)
		}
	}
	for _, d := range defs {
		if d.ok {
			continue
		}
		avoid := g.EdgesImplying(at, map[string]bool{"D": !d.val})
		for n := range defNodes {
			if n != d.node {
				avoid[n] = true
			}
		}
		reach := g.Reach(d.node.Succs, avoid)
		for _, u := range uses {
			if reach[u] {
				return false
			}
		}
	}
	return true
}

// flagWriteOK: the value is the constant false on a path where key ==
// defaultVoteKey is known, or the constant true where it is known to differ.
func (e *c15Env) flagWriteOK(f *an.Func, val ast.Expr, pos token.Pos) bool {
	info := f.Info()
	tv, ok := info.Types[val]
	if !ok || tv.Value == nil {
		return false
	}
	isTrue := tv.Value.String() == "true"
	defKey := e.p.LookupObj("contract/system", "defaultVoteKey")
	g := f.Graph()
	n := g.NodeContaining(pos)
	if n == nil || defKey == nil {
		return false
	}
	at := func(x ast.Expr) (string, bool, bool) {
		x = ast.Unparen(x)
		if id, isID := x.(*ast.Ident); isID {
			if v := c15ResolverOf(f).Resolve(id); v.Expr != nil && ast.Unparen(v.Expr) != x {
				x = ast.Unparen(v.Expr)
			}
		}
		if call, ok := x.(*ast.CallExpr); ok && c15CalleeName(info, call) == "bytes.Equal" && len(call.Args) == 2 {
			if an.ObjOf(info, call.Args[0]) == defKey || an.ObjOf(info, call.Args[1]) == defKey {
				return "D", false, true
			}
		}
		return "", false, false
	}
	okG, _ := g.GuardedAt(n, at, map[string]bool{"D": !isTrue})
	return okG
}

// ---------------------------------------------------------------------------

// c15NameFlowException: coin movements of package name that are not "the
// transaction amount", with the reason.
var c15NameFlowException = map[string]string{
	"contract/name.SetContractOwner": "one-time hand-over of the name contract's accumulated balance to its new owner (guarded by the owner-set check of ValidateNameTx)",
}

// nameFlow: a name is registered / re-targeted only after the price was paid:
// the coins moved are the transaction amount, paid by the sender, and every
// registry write of the function is dominated by the successful payment; the
// creator becomes the owner.
func (e *c15Env) nameFlow() {
	c, p := e.c, e.p
	cg := e.callGraph()
	set := p.Func("contract/name.setNameMap")
	if set == nil {
		c.Undecide("name-flow", "contract/name.setNameMap", "registry writer not found")
		return
	}
	writers := cg.MayReach(map[*an.Func]bool{set: true}, func(ed an.Edge) bool { return ed.Caller.Pkg == e.nm })
	n := 0
	for _, cs := range p.CallSitesOf(map[string]bool{c15SendBalance: true}) {
		if cs.Fn == nil || cs.Fn.Pkg != e.nm {
			continue
		}
		f := cs.Fn
		n++
		c.Fns[f.Name()] = true
		g := f.Graph()
		r := c15ResolverOf(f)
		key := f.Name()
		site := an.Site{Node: g.NodeContaining(cs.Call.Pos()), Call: cs.Call, Fn: cs.Obj}
		if site.Node == nil || len(cs.Call.Args) != 3 {
			c.Undecide("name-flow", key, "payment site not located")
			continue
		}
		if why, ex := c15NameFlowException[key]; ex {
			c.CheckTrivial("name-flow", key+"|amount", cs.Call.Pos(), true, "exception: "+why)
		} else {
			c.Check("name-flow", key+"|amount", cs.Call.Pos(), e.isTxAmount(f, cs.Call.Args[2], 0), "the coins paid for the name operation are the transaction amount")
		}
		edges := g.ErrNilEdges(site)
		nw := 0
		for _, s := range g.Calls(nil) {
			cf := p.FuncOf(s.Fn)
			if cf == nil || !writers[cf] {
				continue
			}
			nw++
			c.Check("name-flow", key+"|paid<"+cf.Name(), s.Call.Pos(), g.Dominated(s.Node, edges), "the registry is written only after the payment succeeded")
			// creator becomes owner: the owner argument is the ID of the paying account
			if cf.Name() == "contract/name.createName" {
				// the owner argument: the parameter of createName that ends up in NameMap.Owner
				oi, why := -1, "field contract/name.NameMap.Owner not found"
				if ownerF := p.LookupField("contract/name", "NameMap", "Owner"); ownerF != nil {
					oi, why = e.roleParam(cf.Name(), &c15Sink{id: "owner", field: ownerF})
				}
				if oi < 0 || oi >= len(s.Call.Args) || s.Call.Ellipsis.IsValid() {
					c.Undecide("name-flow", key+"|owner=payer", "the owner argument of createName cannot be identified: "+why)
					continue
				}
				ov := r.Resolve(s.Call.Args[oi])
				ok := ov.Call != nil && c15CalleeName(r.info, ov.Call) == "state.(*AccountState).ID" && r.SameValue(c15Recv(ov.Call), cs.Call.Args[0])
				c.Check("name-flow", key+"|owner=payer", s.Call.Pos(), ok, "the account that pays for a new name becomes its owner")
			}
		}
		if nw == 0 {
			c.Check("name-flow", key+"|registry", cs.Call.Pos(), false, "a payment without any registry write in the same function")
		}
	}
	c.Floor("name-flow", 6)
	if n < 3 {
		c.Undecide("name-flow", "sites", "fewer coin movements in contract/name than on the reference tree")
	}
}
