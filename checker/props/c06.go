package props

import (
	"go/ast"
	"go/types"

	"verif/checker/internal/an"
	"verif/checker/internal/rep"
)

// C06 — crash recovery: every crash point leaves a recoverable chain.
//
// Decided clauses: the ordering facts recovery relies on — state committed
// before the state root pointer and before the tip transaction (with C03/C05),
// the finalisation marker as the last write of the state bulk, the reorg
// bracket (marker written before, deleted after, never deleted on an error
// exit), the start-up sequence and the comparisons it accepts on.

func init() { register("C06", runC06) }

func runC06(c *rep.Ctx) {
	c.Explain = "Decides the durable-write orderings that crash recovery relies on, on all control-flow paths: the block executor commits the block state before it moves the state DB's root pointer (and C03/C05 put execution and receipts before the single tip transaction); StateDB.Commit stages storage tries and the account trie into one bulk, the state-root finalisation marker is the last write staged, the bulk is flushed only if all staging succeeded and discarded otherwise; reorganizer.swapChain writes the reorg marker before it deletes receipts, swaps the transaction and height mappings, and deletes the marker only after both swaps succeeded; at start-up the chain DB rolls the height mapping back to the marker's old branch before anything else uses it, Recover runs the normal check (state root equals the best block's root) when no marker exists and otherwise requires the best block to be the marker's old best before redoing the reorganisation with the non-executing recovery executor, which adopts a block's state only if its finalisation marker exists. Crash points themselves are not enumerable statically."
	c.NotDecided = []string{"consistency of every prefix of the write sequence (needs executions)", "partial flushes of a bulk inside the key-value store", "convergence after replaying the remaining blocks"}
	c.Assume = []string{"a committed db.Transaction / flushed db.Bulk is atomic and durable (aergo-lib/badger)"}
	c06StateCommit(c)
	c06ReorgBracket(c)
	c06Startup(c)
	c06RecoExecutor(c)
}

func c06StateCommit(c *rep.Ctx) {
	if f := c.Fn("state/statedb.(*StateDB).stage"); f != nil {
		g := f.Graph()
		marker := g.CallsTo("state/statedb.(*StateDB).setMarker")
		trieSt := g.CallsTo("pkg/trie.(*Trie).StageUpdates")
		bufSt := g.CallsTo("state/statedb.(*stateBuffer).stage")
		ok := len(marker) == 1 && len(trieSt) == 1 && len(bufSt) == 1
		if ok {
			ok = g.Dominated(marker[0].Node, nodesOf(trieSt)) && g.Dominated(marker[0].Node, g.ErrNilEdges(bufSt[0])) && len(g.ErrNilEdges(bufSt[0])) > 0
			// nothing is written to the transaction after the marker
			txn := f.ParamObj(0)
			after := g.Reach(marker[0].Node.Succs, nil)
			for _, s := range g.Calls(nil) {
				if !after[s.Node] || s.Node == marker[0].Node {
					continue
				}
				for _, a := range s.Call.Args {
					if mentions(f.Info(), a, txn) {
						ok = false
					}
				}
				if recvObj(f.Info(), s.Call) == txn {
					ok = false
				}
			}
			// same transaction everywhere
			ok = ok && argIs(f.Info(), marker[0].Call, 0, txn) && argIs(f.Info(), trieSt[0].Call, 0, txn) && argIs(f.Info(), bufSt[0].Call, 0, txn)
		}
		c.Check("state-commit", "state/statedb.(*StateDB).stage|marker-last", posOf(marker), ok, "the finalisation marker of the state root is staged after the trie nodes and the state data, on the same bulk, and nothing is staged after it")
	}
	if f := c.Fn("state/statedb.(*StateDB).setMarker"); f != nil {
		g := f.Graph()
		info := f.Info()
		sets := g.Calls(func(fn *types.Func, _ *ast.CallExpr) bool { return fn != nil && fn.Name() == "Set" })
		rootF := c.Prog.LookupField("pkg/trie", "Trie", "Root")
		ok := len(sets) == 1 && recvObj(info, sets[0].Call) == f.ParamObj(0) && rootF != nil && readsField(info, sets[0].Call.Args[0], rootF)
		c.Check("state-commit", "state/statedb.(*StateDB).setMarker|key", f.Pos(), ok, "the marker is keyed by the current trie root and written through the bulk it was handed")
	}
	if f := c.Fn("state/statedb.(*StateDB).HasMarker"); f != nil {
		info := f.Info()
		// reads under the same key derivation as setMarker: Hasher(root)
		ok := false
		ast.Inspect(f.Body, func(n ast.Node) bool {
			call, isCall := n.(*ast.CallExpr)
			if isCall && len(call.Args) == 1 && mentions(info, call.Args[0], f.ParamObj(0)) {
				if id, isSel := ast.Unparen(call.Fun).(*ast.SelectorExpr); isSel && id.Sel.Name == "Hasher" {
					ok = true
				}
			}
			return true
		})
		c.Check("state-commit", "state/statedb.(*StateDB).HasMarker|key", f.Pos(), ok, "the marker is looked up under the hash of the root asked about (same derivation as the writer)")
	}
	if f := c.Fn("state/statedb.(*StateDB).Commit"); f != nil {
		g := f.Graph()
		info := f.Info()
		bulk := g.CallsTo(c05NewBulk)
		flush := g.CallsTo(c05Flush)
		stage := g.CallsTo("state/statedb.(*StateDB).stage")
		sstage := g.CallsTo("state/statedb.(*bufferedStorage).stage")
		ok := len(bulk) == 1 && len(flush) == 1 && len(stage) == 1 && len(sstage) == 1
		if ok {
			b := g.ResultVarAt(bulk[0], 0)
			ok = recvObj(info, flush[0].Call) == b && argIs(info, stage[0].Call, 0, b) && argIs(info, sstage[0].Call, 0, b) &&
				g.Dominated(flush[0].Node, g.ErrNilEdges(stage[0])) && len(g.ErrNilEdges(stage[0])) > 0 &&
				g.Dominated(stage[0].Node, nodesOf(bulk))
			// a staging failure never reaches the flush
			if g.Reach(sstage[0].Node.Succs, g.ErrNilEdges(sstage[0]))[flush[0].Node] {
				ok = false
			}
			// every error exit discards
			disc := nodesOf(g.CallsTo("github.com/aergoio/aergo-lib/db.(Bulk).DiscardLast"))
			for _, r := range g.Returns() {
				rs := r.Ast.(*ast.ReturnStmt)
				if len(rs.Results) == 1 {
					if tv, has := info.Types[rs.Results[0]]; has && tv.IsNil() {
						if !g.Dominated(r, nodesOf(flush)) {
							ok = false
						}
						continue
					}
				}
				if !g.Dominated(r, disc) {
					ok = false
				}
			}
		}
		c.Check("state-commit", "state/statedb.(*StateDB).Commit|one-bulk", f.Pos(), ok, "storage tries and the account trie are staged into one bulk that is flushed only if all staging succeeded (success implies flushed, failure implies discarded)")
	}
	if f := c.Fn("chain.(*blockExecutor).commit"); f != nil {
		cm := errGate(c, f, "state/statedb.(*StateDB).Commit", "state.(*BlockState).Commit")
		mustPrecede(c, "state-commit", f, cm, sitesOf(f, "state.(*ChainStateDB).UpdateRoot"), nil, "the state DB's root pointer moves to the new root only after the block state (including its marker) was flushed")
	}
}

func c06ReorgBracket(c *rep.Ctx) {
	f := c.Fn("chain.(*reorganizer).swapChain")
	if f == nil {
		return
	}
	g := f.Graph()
	wr := errGate(c, f, "chain.(*ReorgMarker).write")
	steps := sitesOf(f, "chain.(*reorganizer).swapTxMapping", "chain.(*reorganizer).swapChainMapping")
	// the receipt deletion: any call of swapChain (other than the two swaps) from which the receipt deleter is reachable
	isDel := map[*ast.CallExpr]bool{}
	if delFn := c.Prog.Func("chain.(*ChainDB).deleteReceiptsAndOperations"); delFn != nil {
		cg := c.Prog.BuildCallGraphCached()
		reach := cg.MayReach(map[*an.Func]bool{delFn: true}, func(e an.Edge) bool { return an.Rel(e.Caller.Pkg.PkgPath) == "chain" })
		for _, s := range g.Calls(func(fn *types.Func, call *ast.CallExpr) bool {
			if fn == nil {
				return false
			}
			name := an.FuncName(fn)
			if name == "chain.(*reorganizer).swapTxMapping" || name == "chain.(*reorganizer).swapChainMapping" {
				return false
			}
			cf := c.Prog.Func(name)
			return cf != nil && reach[cf]
		}) {
			steps = append(steps, s)
			isDel[s.Call] = true
		}
	}
	if len(steps) != 3 {
		c.Undecide("reorg-bracket", "chain.(*reorganizer).swapChain", "the three destructive steps were not found")
	}
	mustPrecede(c, "reorg-bracket", f, wr, steps, nil, "the persisted reorg marker is written successfully before receipts are deleted or any mapping is swapped")
	del := sitesOf(f, "chain.(*ReorgMarker).delete")
	ok := len(del) == 1
	if ok {
		for _, s := range steps {
			switch {
			case isDel[s.Call]:
				ok = ok && g.Dominated(del[0].Node, an.SetOf(s.Node))
			default:
				e := g.ErrNilEdges(s)
				ok = ok && len(e) > 0 && g.Dominated(del[0].Node, e)
			}
		}
	}
	c.Check("reorg-bracket", "chain.(*reorganizer).swapChain|delete-last", posOf(del), ok, "the marker is deleted only after receipts were deleted and both mappings were swapped successfully; no error exit deletes it")
	// writeReorgMarker / deleteReorgMarker: one committed transaction each, under the ReOrg key
	for _, name := range []string{"chain.(*ChainDB).writeReorgMarker", "chain.(*ChainDB).deleteReorgMarker"} {
		mf := c.Fn(name)
		if mf == nil {
			continue
		}
		mg := mf.Graph()
		ops := mg.CallsTo(c05TxSet, c05TxDel)
		commit := mg.CallsTo(c05TxCommit)
		ok := len(ops) == 1 && len(commit) == 1 && mg.Dominated(commit[0].Node, nodesOf(ops)) && containsCallTo(mf.Info(), ops[0].Call.Args[0], "types/dbkey.ReOrg")
		c.Check("reorg-bracket", name+"|committed", mf.Pos(), ok, "the marker is written / removed under the ReOrg key in its own committed transaction")
	}
	// the marker records fork point, old best and new top
	if mf := c.Fn("chain.NewReorgMarker"); mf != nil {
		mg := mf.Graph()
		info := mf.Info()
		rst := c.Prog.LookupStruct("chain", "reorganizer")
		mst := c.Prog.LookupStruct("chain", "ReorgMarker")
		if rst == nil || mst == nil {
			c.Undecide("reorg-bracket", "chain.NewReorgMarker|fields", "struct reorganizer / ReorgMarker not found")
		} else {
			// every value stored in a marker field: key of a ReorgMarker literal or
			// assignment to the field (the role of each block is decided with the
			// once-defined locals resolved, so the spelling of the value is free)
			vals := c06MarkerFieldValues(info, mf.Body, mst)
			need := map[string]string{"BrStartHash": "brStartBlock", "BrBestHash": "bestBlock", "BrTopHash": "brTopBlock"}
			got := 0
			for dst, src := range need {
				ok := len(vals[dst]) > 0
				for _, v := range vals[dst] {
					from := c06GapFieldsOf(mg, info, v, rst)
					ok = ok && len(from) == 1 && from[0] == src && c06GapCalls(mg, info, v, "types.(*Block).BlockHash")
				}
				if ok {
					got++
				}
			}
			c.Check("reorg-bracket", "chain.NewReorgMarker|fields", mf.Pos(), got == 3, "the marker records the hashes of the fork point, the old best block and the new branch tip")
		}
	}
}

// c06MarkerFieldValues lists, per field name of struct st, the expressions
// stored in that field inside body: keyed elements of composite literals of the
// struct type and (parallel) assignments to the field.
func c06MarkerFieldValues(info *types.Info, body ast.Node, st *types.Struct) map[string][]ast.Expr {
	vals := map[string][]ast.Expr{}
	isField := func(v *types.Var) bool {
		for i := 0; v != nil && i < st.NumFields(); i++ {
			if st.Field(i) == v {
				return true
			}
		}
		return false
	}
	ast.Inspect(body, func(n ast.Node) bool {
		switch x := n.(type) {
		case *ast.CompositeLit:
			tv, ok := info.Types[x]
			if !ok {
				return true
			}
			t := tv.Type
			if p, isPtr := t.(*types.Pointer); isPtr {
				t = p.Elem()
			}
			if lst, _ := t.Underlying().(*types.Struct); lst != st {
				return true
			}
			for i, el := range x.Elts {
				if kv, isKV := el.(*ast.KeyValueExpr); isKV {
					if id, isID := kv.Key.(*ast.Ident); isID {
						if fv, _ := info.Uses[id].(*types.Var); isField(fv) {
							vals[fv.Name()] = append(vals[fv.Name()], kv.Value)
						}
					}
				} else if i < st.NumFields() {
					vals[st.Field(i).Name()] = append(vals[st.Field(i).Name()], el) // positional literal
				}
			}
		case *ast.AssignStmt:
			if len(x.Lhs) != len(x.Rhs) {
				return true
			}
			for i, l := range x.Lhs {
				if fv := an.FieldOf(info, l); isField(fv) {
					vals[fv.Name()] = append(vals[fv.Name()], x.Rhs[i])
				}
			}
		}
		return true
	})
	return vals
}

func c06Startup(c *rep.Ctx) {
	if f := c.Fn("chain.(*ChainDB).Init"); f != nil {
		load := errGate(c, f, "chain.(*ChainDB).loadChainData")
		rec := sitesOf(f, "chain.(*ChainDB).recover")
		mustPrecede(c, "startup", f, load, rec, nil, "the chain data is loaded before the interrupted-reorganisation recovery runs")
		g := f.Graph()
		recOK := errEdgesOf(g, rec)
		ok := len(rec) == 1 && len(recOK) > 0
		for _, r := range g.NilReturns() {
			ok = ok && g.Dominated(r, recOK)
		}
		c.Check("startup", "chain.(*ChainDB).Init|recover", posOf(rec), ok, "the chain DB reports successful initialisation only after the height mapping was recovered")
	}
	if f := c.Fn("chain.(*ChainDB).recover"); f != nil {
		g := f.Graph()
		gm := errGate(c, f, "chain.(*ChainDB).getReorgMarker")
		rcm := sitesOf(f, "chain.(*ReorgMarker).RecoverChainMapping")
		mustPrecede(c, "startup", f, gm, rcm, nil, "the marker is read before the mapping is rolled back")
		ok := len(rcm) == 1
		if ok {
			okEdges := g.ErrNilEdges(rcm[0])
			var marker types.Object
			for _, s := range gm.sites {
				marker = g.ResultVarAt(s, 0)
			}
			noMarker := g.EdgesImplying(an.NilAtom(f.Info(), marker), map[string]bool{"nil": true})
			for _, r := range g.NilReturns() {
				ok = ok && g.Dominated(r, okEdges.Union(noMarker))
			}
			ok = ok && marker != nil && recvObj(f.Info(), rcm[0].Call) == marker
		}
		c.Check("startup", "chain.(*ChainDB).recover|rollback-mapping", posOf(rcm), ok, "when a reorg marker exists the height mapping is rolled back to the old branch (or recovery fails); without a marker nothing is changed")
	}
	if f := c.Fn("chain.(*ReorgMarker).RecoverChainMapping"); f != nil {
		g := f.Graph()
		info := f.Info()
		flush := g.CallsTo(c05Flush)
		sl := g.CallsTo("chain.(*ChainDB).setLatest")
		ok := len(flush) == 1 && len(sl) == 1 && g.Dominated(sl[0].Node, nodesOf(flush))
		latest := false
		for _, s := range g.CallsTo(c05BulkSet) {
			if containsCallTo(info, s.Call.Args[0], "types/dbkey.LatestBlock") {
				latest = g.Dominated(flush[0].Node, an.SetOf(s.Node))
			}
		}
		c.Check("startup", "chain.(*ReorgMarker).RecoverChainMapping|one-bulk", f.Pos(), ok && latest, "the mapping of the old branch and the latest pointer are restored in one bulk before the in-memory tip is set")
		// nothing to do when the best block already is the old best
		var eq an.Set
		for _, s := range g.CallsTo("bytes.Equal") {
			eq = g.BoolEdges(s, false)
		}
		okSkip := len(eq) > 0
		for _, s := range g.CallsTo(c05BulkSet, c05BulkDel) {
			okSkip = okSkip && g.Dominated(s.Node, eq)
		}
		c.Check("startup", "chain.(*ReorgMarker).RecoverChainMapping|idempotent", f.Pos(), okSkip, "the mapping is rewritten only if the best block differs from the marker's old best (a repeated recovery changes nothing)")
	}
	if f := c.Fn("chain.(*ChainService).Recover"); f != nil {
		g := f.Graph()
		info := f.Info()
		gm := errGate(c, f, "chain.(*ChainDB).getReorgMarker")
		var marker types.Object
		for _, s := range gm.sites {
			marker = g.ResultVarAt(s, 0)
		}
		noMarker := g.EdgesImplying(an.NilAtom(info, marker), map[string]bool{"nil": true})
		hasMarker := g.EdgesImplying(an.NilAtom(info, marker), map[string]bool{"nil": false})
		rn := sitesOf(f, "chain.(*ChainService).recoverNormal")
		rr := sitesOf(f, "chain.(*ChainService).recoverReorg")
		ok := len(rn) == 1 && len(rr) == 1 && marker != nil && g.Dominated(rn[0].Node, noMarker) && g.Dominated(rr[0].Node, hasMarker) && argIs(info, rr[0].Call, 0, marker)
		c.Check("startup", "chain.(*ChainService).Recover|dispatch", f.Pos(), ok, "without a marker the normal consistency check runs, with a marker the reorganisation is redone from it")
		// best == marker.BrBestHash before redoing
		brBest := c.Prog.LookupField("chain", "ReorgMarker", "BrBestHash")
		var eq an.Set
		for _, s := range g.CallsTo("bytes.Equal") {
			if len(s.Call.Args) == 2 && brBest != nil && (readsField(info, s.Call.Args[0], brBest) || readsField(info, s.Call.Args[1], brBest)) {
				eq = g.BoolEdges(s, true)
			}
		}
		c.Check("startup", "chain.(*ChainService).Recover|old-best", posOf(rr), len(rr) == 1 && len(eq) > 0 && g.Dominated(rr[0].Node, eq), "the reorganisation is redone only if the (rolled back) best block is the marker's old best block")
		// every nil return went through one of the two recoveries successfully
		okRet := len(rn) == 1 && len(rr) == 1
		if okRet {
			gates := g.ErrNilEdges(rn[0]).Union(g.ErrNilEdges(rr[0]))
			for _, r := range g.NilReturns() {
				okRet = okRet && g.Dominated(r, gates)
			}
		}
		c.Check("startup", "chain.(*ChainService).Recover|result", f.Pos(), okRet, "Recover reports success only after one of the two recoveries succeeded")
	}
	if f := c.Fn("chain.(*ChainService).recoverNormal"); f != nil {
		g := f.Graph()
		info := f.Info()
		// one operand is the state DB's root, the other the state root of a block
		// header, in either order, directly or through once-defined locals
		rootF := c.Prog.LookupField("types", "BlockHeader", "BlocksRootHash")
		sdbRoot := func(e ast.Expr) bool {
			return c06GapCalls(g, info, e, "state/statedb.(*StateDB).GetRoot", "state.(*ChainStateDB).GetRoot")
		}
		hdrRoot := func(e ast.Expr) bool {
			return c06GapCalls(g, info, e, "types.(*BlockHeader).GetBlocksRootHash") || c06GapReads(g, info, e, rootF)
		}
		eq := an.Set{}
		for _, s := range g.CallsTo("bytes.Equal") {
			if len(s.Call.Args) != 2 {
				continue
			}
			a, b := s.Call.Args[0], s.Call.Args[1]
			if (sdbRoot(a) && hdrRoot(b)) || (sdbRoot(b) && hdrRoot(a)) {
				eq = eq.Union(g.BoolEdges(s, true))
			}
		}
		ok := len(eq) > 0
		for _, r := range g.NilReturns() {
			ok = ok && g.Dominated(r, eq)
		}
		c.Check("startup", "chain.(*ChainService).recoverNormal|root-equals-best", f.Pos(), ok, "normal recovery succeeds only if the state DB's root equals the state root of the best block")
	}
	// the service recovers before it handles its first message
	if f := c.Fn("chain.(*ChainService).Receive"); f != nil {
		g := f.Graph()
		rec := errGate(c, f, "chain.(*ChainService).Recover")
		done := boolGate(c, f, true, "chain.(*ChainService).isRecovered")
		var targets []an.Site
		for _, s := range g.Calls(nil) {
			if s.Fn == nil {
				continue
			}
			n := an.FuncName(s.Fn)
			if n == "github.com/aergoio/aergo-actor/actor.(Context).Message" || n == "github.com/aergoio/aergo-actor/actor.(*PID).Request" {
				targets = append(targets, s)
			}
		}
		ok := len(rec.sites) == 1 && len(targets) >= 1
		for _, t := range targets {
			ok = ok && g.Dominated(t.Node, rec.edges.Union(done.edges))
		}
		c.Check("startup", "chain.(*ChainService).Receive|recover-first", posOf(rec.sites), ok, "the chain service handles a message only after Recover succeeded once (a failure is fatal)")
	}
}

func c06RecoExecutor(c *rep.Ctx) {
	f := c.Fn("chain.(*ChainService).executeBlockReco")
	if f == nil {
		return
	}
	g := f.Graph()
	info := f.Info()
	has := boolGate(c, f, true, "state/statedb.(*StateDB).HasMarker")
	set := sitesOf(f, "state.(*ChainStateDB).SetRoot")
	mustPrecede(c, "reco-executor", f, has, set, nil, "during crash recovery a block's state is adopted without re-execution only if its finalisation marker exists")
	ok := len(has.sites) == 1 && len(set) == 1 && len(has.sites[0].Call.Args) == 1 && len(set[0].Call.Args) == 1
	if ok {
		// both arguments denote the state root of the header of the block handed
		// in (directly or through once-defined locals): then they are the same root
		blk := f.ParamObj(1)
		rootF := c.Prog.LookupField("types", "BlockHeader", "BlocksRootHash")
		ok = c06RootOfBlock(g, info, has.sites[0].Call.Args[0], blk, rootF) && c06RootOfBlock(g, info, set[0].Call.Args[0], blk, rootF)
	}
	c.Check("reco-executor", "chain.(*ChainService).executeBlockReco|same-root", posOf(set), ok, "the root whose marker is checked is the root that is adopted: the state root of the block's header")
}

// c06Peel strips parentheses and follows once-defined locals to the
// expression that defines them (x := e; y := x  =>  y denotes e).
func c06Peel(g *an.Graph, info *types.Info, e ast.Expr) ast.Expr {
	for i := 0; i < 4 && e != nil; i++ {
		e = ast.Unparen(e)
		id, isID := e.(*ast.Ident)
		if !isID {
			return e
		}
		v, isVar := info.Uses[id].(*types.Var)
		if !isVar {
			return e
		}
		rhs, _ := g.SingleDef(v)
		if rhs == nil {
			return e
		}
		if tv, has := info.Types[rhs]; has {
			if _, isTuple := tv.Type.(*types.Tuple); isTuple {
				return e // one of several results of a call: not an alias of the call
			}
		}
		e = rhs
	}
	return e
}

// c06RootOfBlock: e denotes (locals resolved) the BlocksRootHash of a header
// reached from block object blk: X.GetBlocksRootHash() or X.BlocksRootHash with
// blk mentioned in X.
func c06RootOfBlock(g *an.Graph, info *types.Info, e ast.Expr, blk types.Object, rootF *types.Var) bool {
	if blk == nil {
		return false
	}
	switch x := c06Peel(g, info, e).(type) {
	case *ast.CallExpr:
		fn := an.Callee(info, x)
		sel, isSel := ast.Unparen(x.Fun).(*ast.SelectorExpr)
		return fn != nil && isSel && an.FuncName(fn) == "types.(*BlockHeader).GetBlocksRootHash" && c06GapMentions(g, info, sel.X, blk)
	case *ast.SelectorExpr:
		fv := an.FieldOf(info, x)
		return fv != nil && fv == rootF && c06GapMentions(g, info, x.X, blk)
	}
	return false
}
