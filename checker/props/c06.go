package props

import (
	"go/ast"
	"go/types"

	"verif/checker/internal/an"
	"verif/checker/internal/rep"
)

// C06 — crash recovery: every crash point leaves a recoverable chain.
//
// Decided clauses: the ordering facts recovery relies on — state committed
// before the state root pointer and before the tip transaction (with C03/C05),
// the finalisation marker as the last write of the state bulk, the reorg
// bracket (marker written before, deleted after, never deleted on an error
// exit), the start-up sequence and the comparisons it accepts on.

func init() { register("C06", runC06) }

func runC06(c *rep.Ctx) {
	c.Explain = "Decides the durable-write orderings that crash recovery relies on, on all control-flow paths: the block executor commits the block state before it moves the state DB's root pointer (and C03/C05 put execution and receipts before the single tip transaction); StateDB.Commit stages storage tries and the account trie into one bulk, the state-root finalisation marker is the last write staged, the bulk is flushed only if all staging succeeded and discarded otherwise; reorganizer.swapChain writes the reorg marker before it deletes receipts, swaps the transaction and height mappings, and deletes the marker only after both swaps succeeded; at start-up the chain DB rolls the height mapping back to the marker's old branch before anything else uses it, Recover runs the normal check (state root equals the best block's root) when no marker exists and otherwise requires the best block to be the marker's old best before redoing the reorganisation with the non-executing recovery executor, which adopts a block's state only if its finalisation marker exists. Crash points themselves are not enumerable statically."
	c.NotDecided = []string{"consistency of every prefix of the write sequence (needs executions)", "partial flushes of a bulk inside the key-value store", "convergence after replaying the remaining blocks"}
	c.Assume = []string{"a committed db.Transaction / flushed db.Bulk is atomic and durable (aergo-lib/badger)"}
	c06StateCommit(c)
	c06ReorgBracket(c)
	c06Startup(c)
	c06RecoExecutor(c)
}

func c06StateCommit(c *rep.Ctx) {
	if f := c.Fn("state/statedb.(*StateDB).stage"); f != nil {
		g := f.Graph()
		marker := g.CallsTo("state/statedb.(*StateDB).setMarker")
		trieSt := g.CallsTo("pkg/trie.(*Trie).StageUpdates")
		bufSt := g.CallsTo("state/statedb.(*stateBuffer).stage")
		ok := len(marker) == 1 && len(trieSt) == 1 && len(bufSt) == 1
		if ok {
			ok = g.Dominated(marker[0].Node, nodesOf(trieSt)) && g.Dominated(marker[0].Node, g.ErrNilEdges(bufSt[0])) && len(g.ErrNilEdges(bufSt[0])) > 0
			// nothing is written to the transaction after the marker
			txn := f.ParamObj(0)
			after := g.Reach(marker[0].Node.Succs, nil)
			for _, s := range g.Calls(nil) {
				if !after[s.Node] || s.Node == marker[0].Node {
					continue
				}
				for _, a := range s.Call.Args {
					if mentions(f.Info(), a, txn) {
						ok = false
					}
				}
				if recvObj(f.Info(), s.Call) == txn {
					ok = false
				}
			}
			// same transaction everywhere
			ok = ok && argIs(f.Info(), marker[0].Call, 0, txn) && argIs(f.Info(), trieSt[0].Call, 0, txn) && argIs(f.Info(), bufSt[0].Call, 0, txn)
		}
		c.Check("state-commit", "state/statedb.(*StateDB).stage|marker-last", posOf(marker), ok, "the finalisation marker of the state root is staged after the trie nodes and the state data, on the same bulk, and nothing is staged after it")
	}
	if f := c.Fn("state/statedb.(*StateDB).setMarker"); f != nil {
		g := f.Graph()
		info := f.Info()
		sets := g.Calls(func(fn *types.Func, _ *ast.CallExpr) bool { return fn != nil && fn.Name() == "Set" })
		rootF := c.Prog.LookupField("pkg/trie", "Trie", "Root")
		ok := len(sets) == 1 && recvObj(info, sets[0].Call) == f.ParamObj(0) && rootF != nil && readsField(info, sets[0].Call.Args[0], rootF)
		c.Check("state-commit", "state/statedb.(*StateDB).setMarker|key", f.Pos(), ok, "the marker is keyed by the current trie root and written through the bulk it was handed")
	}
	if f := c.Fn("state/statedb.(*StateDB).HasMarker"); f != nil {
		info := f.Info()
		// reads under the same key derivation as setMarker: Hasher(root)
		ok := false
		ast.Inspect(f.Body, func(n ast.Node) bool {
			call, isCall := n.(*ast.CallExpr)
			if isCall && len(call.Args) == 1 && mentions(info, call.Args[0], f.ParamObj(0)) {
				if id, isSel := ast.Unparen(call.Fun).(*ast.SelectorExpr); isSel && id.Sel.Name == "Hasher" {
					ok = true
				}
			}
			return true
		})
		c.Check("state-commit", "state/statedb.(*StateDB).HasMarker|key", f.Pos(), ok, "the marker is looked up under the hash of the root asked about (same derivation as the writer)")
	}
	if f := c.Fn("state/statedb.(*StateDB).Commit"); f != nil {
		g := f.Graph()
		info := f.Info()
		bulk := g.CallsTo(c05NewBulk)
		flush := g.CallsTo(c05Flush)
		stage := g.CallsTo("state/statedb.(*StateDB).stage")
		sstage := g.CallsTo("state/statedb.(*bufferedStorage).stage")
		ok := len(bulk) == 1 && len(flush) == 1 && len(stage) == 1 && len(sstage) == 1
		if ok {
			b := g.ResultVarAt(bulk[0], 0)
			ok = recvObj(info, flush[0].Call) == b && argIs(info, stage[0].Call, 0, b) && argIs(info, sstage[0].Call, 0, b) &&
				g.Dominated(flush[0].Node, g.ErrNilEdges(stage[0])) && len(g.ErrNilEdges(stage[0])) > 0 &&
				g.Dominated(stage[0].Node, nodesOf(bulk))
			// a staging failure never reaches the flush
			if g.Reach(sstage[0].Node.Succs, g.ErrNilEdges(sstage[0]))[flush[0].Node] {
				ok = false
			}
			// every error exit discards
			disc := nodesOf(g.CallsTo("github.com/aergoio/aergo-lib/db.(Bulk).DiscardLast"))
			for _, r := range g.Returns() {
				rs := r.Ast.(*ast.ReturnStmt)
				if len(rs.Results) == 1 {
					if tv, has := info.Types[rs.Results[0]]; has && tv.IsNil() {
						if !g.Dominated(r, nodesOf(flush)) {
							ok = false
						}
						continue
					}
				}
				if !g.Dominated(r, disc) {
					ok = false
				}
			}
		}
		c.Check("state-commit", "state/statedb.(*StateDB).Commit|one-bulk", f.Pos(), ok, "storage tries and the account trie are staged into one bulk that is flushed only if all staging succeeded (success implies flushed, failure implies discarded)")
	}
	if f := c.Fn("chain.(*blockExecutor).commit"); f != nil {
		cm := errGate(c, f, "state/statedb.(*StateDB).Commit", "state.(*BlockState).Commit")
		mustPrecede(c, "state-commit", f, cm, sitesOf(f, "state.(*ChainStateDB).UpdateRoot"), nil, "the state DB's root pointer moves to the new root only after the block state (including its marker) was flushed")
	}
}

func c06ReorgBracket(c *rep.Ctx) {
	f := c.Fn("chain.(*reorganizer).swapChain")
	if f == nil {
		return
	}
	g := f.Graph()
	wr := errGate(c, f, "chain.(*ReorgMarker).write")
	steps := sitesOf(f, "chain.(*reorganizer).swapTxMapping", "chain.(*reorganizer).swapChainMapping")
	// the receipt deletion: any call of swapChain (other than the two swaps) from which the receipt deleter is reachable
	isDel := map[*ast.CallExpr]bool{}
	if delFn := c.Prog.Func("chain.(*ChainDB).deleteReceiptsAndOperations"); delFn != nil {
		cg := c.Prog.BuildCallGraphCached()
		reach := cg.MayReach(map[*an.Func]bool{delFn: true}, func(e an.Edge) bool { return an.Rel(e.Caller.Pkg.PkgPath) == "chain" })
		for _, s := range g.Calls(func(fn *types.Func, call *ast.CallExpr) bool {
			if fn == nil {
				return false
			}
			name := an.FuncName(fn)
			if name == "chain.(*reorganizer).swapTxMapping" || name == "chain.(*reorganizer).swapChainMapping" {
				return false
			}
			cf := c.Prog.Func(name)
			return cf != nil && reach[cf]
		}) {
			steps = append(steps, s)
			isDel[s.Call] = true
		}
	}
	if len(steps) != 3 {
		c.Undecide("reorg-bracket", "chain.(*reorganizer).swapChain", "the three destructive steps were not found")
	}
	mustPrecede(c, "reorg-bracket", f, wr, steps, nil, "the persisted reorg marker is written successfully before receipts are deleted or any mapping is swapped")
	del := sitesOf(f, "chain.(*ReorgMarker).delete")
	ok := len(del) == 1
	if ok {
		for _, s := range steps {
			switch {
			case isDel[s.Call]:
				ok = ok && g.Dominated(del[0].Node, an.SetOf(s.Node))
			default:
				e := g.ErrNilEdges(s)
				ok = ok && len(e) > 0 && g.Dominated(del[0].Node, e)
			}
		}
	}
	c.Check("reorg-bracket", "chain.(*reorganizer).swapChain|delete-last", posOf(del), ok, "the marker is deleted only after receipts were deleted and both mappings were swapped successfully; no error exit deletes it")
	// writeReorgMarker / deleteReorgMarker: one committed transaction each, under the ReOrg key
	for _, name := range []string{"chain.(*ChainDB).writeReorgMarker", "chain.(*ChainDB).deleteReorgMarker"} {
		mf := c.Fn(name)
		if mf == nil {
			continue
		}
		mg := mf.Graph()
		ops := mg.CallsTo(c05TxSet, c05TxDel)
		commit := mg.CallsTo(c05TxCommit)
		ok := len(ops) == 1 && len(commit) == 1 && mg.Dominated(commit[0].Node, nodesOf(ops)) && containsCallTo(mf.Info(), ops[0].Call.Args[0], "types/dbkey.ReOrg")
		c.Check("reorg-bracket", name+"|committed", mf.Pos(), ok, "the marker is written / removed under the ReOrg key in its own committed transaction")
	}
	// the marker records fork point, old best and new top
	if mf := c.Fn("chain.NewReorgMarker"); mf != nil {
		info := mf.Info()
		need := map[string]string{"BrStartHash": "brStartBlock", "BrBestHash": "bestBlock", "BrTopHash": "brTopBlock"}
		got := map[string]bool{}
		ast.Inspect(mf.Body, func(n ast.Node) bool {
			kv, ok := n.(*ast.KeyValueExpr)
			if !ok {
				return true
			}
			id, ok := kv.Key.(*ast.Ident)
			if !ok {
				return true
			}
			if src, want := need[id.Name]; want {
				if fld := c.Prog.LookupField("chain", "reorganizer", src); fld != nil && readsField(info, kv.Value, fld) && containsCallTo(info, kv.Value, "types.(*Block).BlockHash") {
					got[id.Name] = true
				}
			}
			return true
		})
		c.Check("reorg-bracket", "chain.NewReorgMarker|fields", mf.Pos(), len(got) == 3, "the marker records the hashes of the fork point, the old best block and the new branch tip")
	}
}

func c06Startup(c *rep.Ctx) {
	if f := c.Fn("chain.(*ChainDB).Init"); f != nil {
		load := errGate(c, f, "chain.(*ChainDB).loadChainData")
		rec := sitesOf(f, "chain.(*ChainDB).recover")
		mustPrecede(c, "startup", f, load, rec, nil, "the chain data is loaded before the interrupted-reorganisation recovery runs")
		g := f.Graph()
		recOK := errEdgesOf(g, rec)
		ok := len(rec) == 1 && len(recOK) > 0
		for _, r := range g.NilReturns() {
			ok = ok && g.Dominated(r, recOK)
		}
		c.Check("startup", "chain.(*ChainDB).Init|recover", posOf(rec), ok, "the chain DB reports successful initialisation only after the height mapping was recovered")
	}
	if f := c.Fn("chain.(*ChainDB).recover"); f != nil {
		g := f.Graph()
		gm := errGate(c, f, "chain.(*ChainDB).getReorgMarker")
		rcm := sitesOf(f, "chain.(*ReorgMarker).RecoverChainMapping")
		mustPrecede(c, "startup", f, gm, rcm, nil, "the marker is read before the mapping is rolled back")
		ok := len(rcm) == 1
		if ok {
			okEdges := g.ErrNilEdges(rcm[0])
			var marker types.Object
			for _, s := range gm.sites {
				marker = g.ResultVarAt(s, 0)
			}
			noMarker := g.EdgesImplying(an.NilAtom(f.Info(), marker), map[string]bool{"nil": true})
			for _, r := range g.NilReturns() {
				ok = ok && g.Dominated(r, okEdges.Union(noMarker))
			}
			ok = ok && marker != nil && recvObj(f.Info(), rcm[0].Call) == marker
		}
		c.Check("startup", "chain.(*ChainDB).recover|rollback-mapping", posOf(rcm), ok, "when a reorg marker exists the height mapping is rolled back to the old branch (or recovery fails); without a marker nothing is changed")
	}
	if f := c.Fn("chain.(*ReorgMarker).RecoverChainMapping"); f != nil {
		g := f.Graph()
		info := f.Info()
		flush := g.CallsTo(c05Flush)
		sl := g.CallsTo("chain.(*ChainDB).setLatest")
		ok := len(flush) == 1 && len(sl) == 1 && g.Dominated(sl[0].Node, nodesOf(flush))
		latest := false
		for _, s := range g.CallsTo(c05BulkSet) {
			if containsCallTo(info, s.Call.Args[0], "types/dbkey.LatestBlock") {
				latest = g.Dominated(flush[0].Node, an.SetOf(s.Node))
			}
		}
		c.Check("startup", "chain.(*ReorgMarker).RecoverChainMapping|one-bulk", f.Pos(), ok && latest, "the mapping of the old branch and the latest pointer are restored in one bulk before the in-memory tip is set")
		// nothing to do when the best block already is the old best
		var eq an.Set
		for _, s := range g.CallsTo("bytes.Equal") {
			eq = g.BoolEdges(s, false)
		}
		okSkip := len(eq) > 0
		for _, s := range g.CallsTo(c05BulkSet, c05BulkDel) {
			okSkip = okSkip && g.Dominated(s.Node, eq)
		}
		c.Check("startup", "chain.(*ReorgMarker).RecoverChainMapping|idempotent", f.Pos(), okSkip, "the mapping is rewritten only if the best block differs from the marker's old best (a repeated recovery changes nothing)")
	}
	if f := c.Fn("chain.(*ChainService).Recover"); f != nil {
		g := f.Graph()
		info := f.Info()
		gm := errGate(c, f, "chain.(*ChainDB).getReorgMarker")
		var marker types.Object
		for _, s := range gm.sites {
			marker = g.ResultVarAt(s, 0)
		}
		noMarker := g.EdgesImplying(an.NilAtom(info, marker), map[string]bool{"nil": true})
		hasMarker := g.EdgesImplying(an.NilAtom(info, marker), map[string]bool{"nil": false})
		rn := sitesOf(f, "chain.(*ChainService).recoverNormal")
		rr := sitesOf(f, "chain.(*ChainService).recoverReorg")
		ok := len(rn) == 1 && len(rr) == 1 && marker != nil && g.Dominated(rn[0].Node, noMarker) && g.Dominated(rr[0].Node, hasMarker) && argIs(info, rr[0].Call, 0, marker)
		c.Check("startup", "chain.(*ChainService).Recover|dispatch", f.Pos(), ok, "without a marker the normal consistency check runs, with a marker the reorganisation is redone from it")
		// best == marker.BrBestHash before redoing
		brBest := c.Prog.LookupField("chain", "ReorgMarker", "BrBestHash")
		var eq an.Set
		for _, s := range g.CallsTo("bytes.Equal") {
			if len(s.Call.Args) == 2 && brBest != nil && (readsField(info, s.Call.Args[0], brBest) || readsField(info, s.Call.Args[1], brBest)) {
				eq = g.BoolEdges(s, true)
			}
		}
		c.Check("startup", "chain.(*ChainService).Recover|old-best", posOf(rr), len(rr) == 1 && len(eq) > 0 && g.Dominated(rr[0].Node, eq), "the reorganisation is redone only if the (rolled back) best block is the marker's old best block")
		// every nil return went through one of the two recoveries successfully
		okRet := len(rn) == 1 && len(rr) == 1
		if okRet {
			gates := g.ErrNilEdges(rn[0]).Union(g.ErrNilEdges(rr[0]))
			for _, r := range g.NilReturns() {
				okRet = okRet && g.Dominated(r, gates)
			}
		}
		c.Check("startup", "chain.(*ChainService).Recover|result", f.Pos(), okRet, "Recover reports success only after one of the two recoveries succeeded")
	}
	if f := c.Fn("chain.(*ChainService).recoverNormal"); f != nil {
		g := f.Graph()
		info := f.Info()
		var eq an.Set
		for _, s := range g.CallsTo("bytes.Equal") {
			a := containsCallTo(info, s.Call, "state/statedb.(*StateDB).GetRoot")
			b := containsCallTo(info, s.Call, "types.(*BlockHeader).GetBlocksRootHash")
			if a && b {
				eq = g.BoolEdges(s, true)
			}
		}
		ok := len(eq) > 0
		for _, r := range g.NilReturns() {
			ok = ok && g.Dominated(r, eq)
		}
		c.Check("startup", "chain.(*ChainService).recoverNormal|root-equals-best", f.Pos(), ok, "normal recovery succeeds only if the state DB's root equals the state root of the best block")
	}
	// the service recovers before it handles its first message
	if f := c.Fn("chain.(*ChainService).Receive"); f != nil {
		g := f.Graph()
		rec := errGate(c, f, "chain.(*ChainService).Recover")
		done := boolGate(c, f, true, "chain.(*ChainService).isRecovered")
		var targets []an.Site
		for _, s := range g.Calls(nil) {
			if s.Fn == nil {
				continue
			}
			n := an.FuncName(s.Fn)
			if n == "github.com/aergoio/aergo-actor/actor.(Context).Message" || n == "github.com/aergoio/aergo-actor/actor.(*PID).Request" {
				targets = append(targets, s)
			}
		}
		ok := len(rec.sites) == 1 && len(targets) >= 1
		for _, t := range targets {
			ok = ok && g.Dominated(t.Node, rec.edges.Union(done.edges))
		}
		c.Check("startup", "chain.(*ChainService).Receive|recover-first", posOf(rec.sites), ok, "the chain service handles a message only after Recover succeeded once (a failure is fatal)")
	}
}

func c06RecoExecutor(c *rep.Ctx) {
	f := c.Fn("chain.(*ChainService).executeBlockReco")
	if f == nil {
		return
	}
	_ = f.Graph()
	info := f.Info()
	has := boolGate(c, f, true, "state/statedb.(*StateDB).HasMarker")
	set := sitesOf(f, "state.(*ChainStateDB).SetRoot")
	mustPrecede(c, "reco-executor", f, has, set, nil, "during crash recovery a block's state is adopted without re-execution only if its finalisation marker exists")
	ok := len(has.sites) == 1 && len(set) == 1
	if ok {
		a := an.ExprString(has.sites[0].Call.Args[0])
		b := an.ExprString(set[0].Call.Args[0])
		ok = a == b && mentions(info, has.sites[0].Call.Args[0], f.ParamObj(1)) && containsCallTo(info, set[0].Call.Args[0], "types.(*BlockHeader).GetBlocksRootHash")
	}
	c.Check("reco-executor", "chain.(*ChainService).executeBlockReco|same-root", posOf(set), ok, "the root whose marker is checked is the root that is adopted: the state root of the block's header")
}
