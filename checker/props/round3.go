package props

import (
	"go/ast"
	"go/types"
	"sort"
	"strings"

	"verif/checker/internal/an"
	"verif/checker/internal/rep"
)

// Rules added after the third round of independently seeded changes
// (DESIGN.md section 10).

func init() {
	// the persisted latest pointer is what a restart reads: C06 relies on it as much as C05
	extend("C06", c05BulkSwaps)
	// the LIB veto (asked about the fork point, before anything is rolled back) is C08's reorg gate
	extend("C08", c07Pipeline)
	extend("C02", r3ExecutorLast)
	extend("C03", r3ExecutorLast)
	extend("C03", r3ValidateReadonly)
	extend("C13", r3ValidateReadonly)
}

// --- C02/C03: in a composite per-candidate operation the executing member is the last one ---
//
// BlockGenerator.GatherTXs drops a candidate whose composite operation returns
// an error and relies on the failing member having left nothing behind.  The
// executor rolls itself back when it fails; a member that can fail *after* the
// executor succeeded (deadline check, size limit) would drop a transaction
// whose effects are already in the block state: the produced block's roots
// cover a transaction its body does not list, and validators compute different
// roots.
func r3ExecutorLast(c *rep.Ctx) {
	p := c.Prog
	cg := p.BuildCallGraphCached()
	execFn := p.Func("chain.executeTx")
	if execFn == nil {
		c.Undecide("executor-last", "chain.executeTx", "anchor not found")
		return
	}
	reach := cg.MayReach(map[*an.Func]bool{execFn: true}, nil)
	// an executing member: a type with an Apply method that holds the transaction executor
	// (a field of type chain.TxExecFn, the result type of chain.NewTxExecutor), or whose Apply
	// reaches chain.executeTx through resolvable calls
	execFnType, _ := p.LookupObj("chain", "TxExecFn").(*types.TypeName)
	if execFnType == nil {
		c.Undecide("executor-last", "chain.TxExecFn", "anchor not found")
		return
	}
	applyReaches := func(t types.Type) bool {
		if pt, ok := t.(*types.Pointer); ok {
			t = pt.Elem()
		}
		named, ok := t.(*types.Named)
		if !ok || named.Obj().Pkg() == nil {
			return false
		}
		hasApply := false
		for i := 0; i < named.NumMethods(); i++ {
			m := named.Method(i)
			if m.Name() != "Apply" {
				continue
			}
			hasApply = true
			if f := p.Func(an.FuncName(m)); f != nil && reach[f] {
				return true
			}
		}
		if st, ok := named.Underlying().(*types.Struct); ok && hasApply {
			for i := 0; i < st.NumFields(); i++ {
				if types.Identical(st.Field(i).Type(), execFnType.Type()) {
					return true
				}
			}
		}
		return false
	}
	var contains func(fn *an.Func, e ast.Expr, depth int) bool
	contains = func(fn *an.Func, e ast.Expr, depth int) bool {
		if depth > 5 || fn == nil {
			return false
		}
		info := fn.Info()
		e = ast.Unparen(e)
		if tv, ok := info.Types[e]; ok && tv.Type != nil && applyReaches(tv.Type) {
			return true
		}
		switch x := e.(type) {
		case *ast.CallExpr:
			if an.CalleeName(info, x) == "consensus/chain.NewCompTxOp" {
				for _, a := range x.Args {
					if contains(fn, a, depth+1) {
						return true
					}
				}
				return false
			}
			// a constructor declared to return the interface: look at what it returns
			if name := an.CalleeName(info, x); name != "" {
				if cf := p.Func(name); cf != nil && cf.Body != nil {
					found := false
					ast.Inspect(cf.Body, func(n ast.Node) bool {
						if _, isLit := n.(*ast.FuncLit); isLit {
							return false
						}
						if rs, ok := n.(*ast.ReturnStmt); ok && len(rs.Results) == 1 && contains(cf, rs.Results[0], depth+1) {
							found = true
						}
						return !found
					})
					return found
				}
			}
			return false
		case *ast.Ident:
			o := an.ObjOf(info, x)
			if o == nil {
				return false
			}
			if rhs, _ := fn.Graph().SingleDef(o); rhs != nil && rhs != e {
				return contains(fn, rhs, depth+1)
			}
			// a parameter: what do the callers pass?
			for i := 0; ; i++ {
				pr := fn.ParamObj(i)
				if pr == nil {
					break
				}
				if pr != o {
					continue
				}
				for _, s := range p.CallSitesOf(map[string]bool{fn.Name(): true}) {
					if s.Fn != nil && i < len(s.Call.Args) && contains(s.Fn, s.Call.Args[i], depth+1) {
						return true
					}
				}
			}
			return false
		case *ast.SelectorExpr:
			fld := an.FieldOf(info, x)
			if fld == nil {
				return false
			}
			for _, w := range r3FieldRhs(p, fld) {
				if w.fn != nil && contains(w.fn, w.rhs, depth+1) {
					return true
				}
			}
		}
		return false
	}
	sites := p.CallSitesOf(map[string]bool{"consensus/chain.NewCompTxOp": true})
	n, withExec := 0, 0
	seen := map[string]int{}
	for _, s := range sites {
		if s.Fn == nil {
			continue
		}
		n++
		name := s.Fn.TopDecl().Name()
		seen[name]++
		key := name
		if seen[name] > 1 {
			key += "#" + itoa(seen[name])
		}
		ok := true
		has := false
		for i, a := range s.Call.Args {
			if contains(s.Fn, a, 0) {
				has = true
				if i != len(s.Call.Args)-1 {
					ok = false
				}
			}
		}
		if has {
			withExec++
		}
		c.Check("executor-last", key+"|NewCompTxOp", s.Call.Pos(), ok, "a member of a composite candidate operation that executes the transaction is the last member: a later member failing would drop a candidate whose effects are already in the block state (header roots cover a transaction the body does not list)")
	}
	if n < 7 || withExec < 3 {
		c.Undecide("executor-last", "consensus/chain.NewCompTxOp", "fewer composite operations ("+itoa(n)+") or executor-carrying ones ("+itoa(withExec)+") than on the reference tree (7 / 3)")
	}
}

// --- C03/C13: validating a governance transaction writes nothing ---
//
// The stateful validators run (a) in the pool against the shared best state
// and (b) at the start of execution, before the command that may still be
// rejected.  A write during validation survives the rejection: executeTx keeps
// the block state for governance errors (error receipt), and the pool would
// modify the state it validates against.
func r3ValidateReadonly(c *rep.Ctx) {
	p := c.Prog
	cg := p.BuildCallGraphCached()
	writers := []string{
		"state/statedb.(*ContractState).SetData", "state/statedb.(*ContractState).DeleteData",
		"state/statedb.(*ContractState).SetRawKV", "state/statedb.(*ContractState).SetCode",
		"state/statedb.(*ContractState).SetMultiCallCode",
		"state/statedb.(*StateDB).PutState", "state/statedb.StageContractState",
		"state.(*AccountState).PutState", "state.(*AccountState).AddBalance", "state.(*AccountState).SubBalance",
		"state.(*AccountState).SetNonce",
	}
	seeds := map[*an.Func]bool{}
	for _, w := range writers {
		if f := p.Func(w); f != nil {
			seeds[f] = true
		}
	}
	if len(seeds) < 8 {
		c.Undecide("validate-readonly", "state writers", "fewer state-writing primitives found than on the reference tree")
		return
	}
	for _, v := range []string{"contract/system.ValidateSystemTx", "contract/name.ValidateNameTx", "contract/enterprise.ValidateEnterpriseTx"} {
		vf := c.Fn(v)
		if vf == nil {
			continue
		}
		pkg := vf.Pkg
		// only edges that stay in the validator's package or go straight to a primitive: the validators do not call out otherwise
		follow := func(e an.Edge) bool {
			return e.Callee != nil && (e.Callee.Pkg == pkg || seeds[e.Callee])
		}
		reachable := cg.ReachableFrom([]*an.Func{vf}, follow)
		var hits []string
		for f := range reachable {
			if seeds[f] {
				hits = append(hits, shortName(f.Name()))
			}
		}
		sort.Strings(hits)
		path := ""
		if len(hits) > 0 {
			path = strings.Join(cg.PathTo(vf, seeds, follow), " -> ")
		}
		c.Check("validate-readonly", v, vf.Pos(), len(hits) == 0, "the stateful validator of a governance transaction reaches no state-writing primitive (it runs in the pool on the shared state, and in execution before a command that can still be refused with an error receipt that keeps the block state); reaches: "+strings.Join(hits, ", ")+" via "+path)
	}
}

type r3Write struct {
	fn  *an.Func
	rhs ast.Expr
}

var r3FieldRhsCache = map[*types.Var][]r3Write{}

// r3FieldRhs: the right-hand sides of all plain assignments and literal
// initialisations of a struct field in the module.
func r3FieldRhs(p *an.Prog, fld *types.Var) []r3Write {
	if w, ok := r3FieldRhsCache[fld]; ok {
		return w
	}
	var out []r3Write
	for _, pk := range p.ModulePkgs() {
		info := pk.TypesInfo
		if info == nil {
			continue
		}
		for _, file := range pk.Syntax {
			ast.Inspect(file, func(n ast.Node) bool {
				switch x := n.(type) {
				case *ast.AssignStmt:
					if len(x.Lhs) == len(x.Rhs) {
						for i, l := range x.Lhs {
							if an.FieldOf(info, l) == fld {
								out = append(out, r3Write{p.EnclosingFunc(pk, x.Pos()), x.Rhs[i]})
							}
						}
					}
				case *ast.KeyValueExpr:
					if id, ok := x.Key.(*ast.Ident); ok && info.Uses[id] == fld {
						out = append(out, r3Write{p.EnclosingFunc(pk, x.Pos()), x.Value})
					}
				}
				return true
			})
		}
	}
	r3FieldRhsCache[fld] = out
	return out
}
