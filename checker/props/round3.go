package props

import (
	"go/ast"
	"go/types"
	"sort"
	"strings"

	"verif/checker/internal/an"
	"verif/checker/internal/rep"
)

// Rules added after the third round of independently seeded changes
// (DESIGN.md section 10).

func init() {
	// the persisted latest pointer is what a restart reads: C06 relies on it as much as C05
	extend("C06", c05BulkSwaps)
	// the LIB veto (asked about the fork point, before anything is rolled back) is C08's reorg gate
	extend("C08", c07Pipeline)
	extend("C02", r3ExecutorLast)
	extend("C03", r3ExecutorLast)
	extend("C03", r3ValidateReadonly)
	extend("C13", r3ValidateReadonly)
	// a negative governance parameter: memory keeps the sign, the state stores the absolute value
	extend("C02", c14GapParamSign)
	extend("C15", c14GapParamSign)
	// a veto that refuses unconditionally (or allows unconditionally) is a C08 matter as much as C07's
	extend("C08", c07GapVetoRefusal)
}

// --- C02/C03: in a composite per-candidate operation the executing member is the last one ---
//
// BlockGenerator.GatherTXs drops a candidate whose composite operation returns
// an error and relies on the failing member having left nothing behind.  The
// executor rolls itself back when it fails; a member that can fail *after* the
// executor succeeded (deadline check, size limit) would drop a transaction
// whose effects are already in the block state: the produced block's roots
// cover a transaction its body does not list, and validators compute different
// roots.
func r3ExecutorLast(c *rep.Ctx) {
	p := c.Prog
	cg := p.BuildCallGraphCached()
	execFn := p.Func("chain.executeTx")
	if execFn == nil {
		c.Undecide("executor-last", "chain.executeTx", "anchor not found")
		return
	}
	reach := cg.MayReach(map[*an.Func]bool{execFn: true}, nil)
	// an executing member: a type with an Apply method that holds the transaction executor
	// (a field of type chain.TxExecFn, the result type of chain.NewTxExecutor), or whose Apply
	// reaches chain.executeTx through resolvable calls
	execFnType, _ := p.LookupObj("chain", "TxExecFn").(*types.TypeName)
	if execFnType == nil {
		c.Undecide("executor-last", "chain.TxExecFn", "anchor not found")
		return
	}
	applyReaches := func(t types.Type) bool {
		if pt, ok := t.(*types.Pointer); ok {
			t = pt.Elem()
		}
		named, ok := t.(*types.Named)
		if !ok || named.Obj().Pkg() == nil {
			return false
		}
		hasApply := false
		for i := 0; i < named.NumMethods(); i++ {
			m := named.Method(i)
			if m.Name() != "Apply" {
				continue
			}
			hasApply = true
			if f := p.Func(an.FuncName(m)); f != nil && reach[f] {
				return true
			}
		}
		if st, ok := named.Underlying().(*types.Struct); ok && hasApply {
			for i := 0; i < st.NumFields(); i++ {
				if types.Identical(st.Field(i).Type(), execFnType.Type()) {
					return true
				}
			}
		}
		return false
	}
	var contains func(fn *an.Func, e ast.Expr, depth int) bool
	contains = func(fn *an.Func, e ast.Expr, depth int) bool {
		if depth > 5 || fn == nil {
			return false
		}
		info := fn.Info()
		e = ast.Unparen(e)
		if tv, ok := info.Types[e]; ok && tv.Type != nil && applyReaches(tv.Type) {
			return true
		}
		switch x := e.(type) {
		case *ast.CallExpr:
			if an.CalleeName(info, x) == "consensus/chain.NewCompTxOp" {
				for _, a := range x.Args {
					if contains(fn, a, depth+1) {
						return true
					}
				}
				return false
			}
			// a constructor declared to return the interface: look at what it returns
			if name := an.CalleeName(info, x); name != "" {
				if cf := p.Func(name); cf != nil && cf.Body != nil {
					found := false
					ast.Inspect(cf.Body, func(n ast.Node) bool {
						if _, isLit := n.(*ast.FuncLit); isLit {
							return false
						}
						if rs, ok := n.(*ast.ReturnStmt); ok && len(rs.Results) == 1 && contains(cf, rs.Results[0], depth+1) {
							found = true
						}
						return !found
					})
					return found
				}
			}
			return false
		case *ast.Ident:
			o := an.ObjOf(info, x)
			if o == nil {
				return false
			}
			if rhs, _ := fn.Graph().SingleDef(o); rhs != nil && rhs != e {
				return contains(fn, rhs, depth+1)
			}
			// a parameter: what do the callers pass?
			for i := 0; ; i++ {
				pr := fn.ParamObj(i)
				if pr == nil {
					break
				}
				if pr != o {
					continue
				}
				for _, s := range p.CallSitesOf(map[string]bool{fn.Name(): true}) {
					if s.Fn != nil && i < len(s.Call.Args) && contains(s.Fn, s.Call.Args[i], depth+1) {
						return true
					}
				}
			}
			return false
		case *ast.SelectorExpr:
			fld := an.FieldOf(info, x)
			if fld == nil {
				return false
			}
			for _, w := range r3FieldRhs(p, fld) {
				if w.fn != nil && contains(w.fn, w.rhs, depth+1) {
					return true
				}
			}
		}
		return false
	}
	sites := p.CallSitesOf(map[string]bool{"consensus/chain.NewCompTxOp": true})
	n, withExec := 0, 0
	seen := map[string]int{}
	for _, s := range sites {
		if s.Fn == nil {
			continue
		}
		n++
		name := s.Fn.TopDecl().Name()
		seen[name]++
		key := name
		if seen[name] > 1 {
			key += "#" + itoa(seen[name])
		}
		ok := true
		has := false
		args := s.Call.Args
		// NewCompTxOp(steps...) with a once-defined slice literal
		if s.Call.Ellipsis.IsValid() && len(args) == 1 {
			var lit *ast.CompositeLit
			e := ast.Unparen(args[0])
			if o := an.ObjOf(s.Fn.Info(), e); o != nil {
				if rhs, _ := s.Fn.Graph().SingleDef(o); rhs != nil {
					e = ast.Unparen(rhs)
				}
			}
			lit, _ = e.(*ast.CompositeLit)
			if lit == nil {
				c.Undecide("executor-last", key+"|NewCompTxOp", "the members are passed as a slice that is not a once-defined literal")
				continue
			}
			args = lit.Elts
		}
		for i, a := range args {
			if contains(s.Fn, a, 0) {
				has = true
				if i != len(args)-1 {
					ok = false
				}
			}
		}
		if has {
			withExec++
		}
		c.Check("executor-last", key+"|NewCompTxOp", s.Call.Pos(), ok, "a member of a composite candidate operation that executes the transaction is the last member: a later member failing would drop a candidate whose effects are already in the block state (header roots cover a transaction the body does not list)")
	}
	if n < 7 || withExec < 3 {
		c.Undecide("executor-last", "consensus/chain.NewCompTxOp", "fewer composite operations ("+itoa(n)+") or executor-carrying ones ("+itoa(withExec)+") than on the reference tree (7 / 3)")
	}
}

// --- C03/C13: validating a governance transaction writes nothing ---
//
// The stateful validators run (a) in the pool against the shared best state
// and (b) at the start of execution, before the command that may still be
// rejected.  A write during validation survives the rejection: executeTx keeps
// the block state for governance errors (error receipt), and the pool would
// modify the state it validates against.
func r3ValidateReadonly(c *rep.Ctx) {
	p := c.Prog
	cg := p.BuildCallGraphCached()
	writers := []string{
		"state/statedb.(*ContractState).SetData", "state/statedb.(*ContractState).DeleteData",
		"state/statedb.(*ContractState).SetRawKV", "state/statedb.(*ContractState).SetCode",
		"state/statedb.(*ContractState).SetMultiCallCode",
		"state/statedb.(*StateDB).PutState", "state/statedb.StageContractState",
		"state.(*AccountState).PutState", "state.(*AccountState).AddBalance", "state.(*AccountState).SubBalance",
		"state.(*AccountState).SetNonce",
	}
	seeds := map[*an.Func]bool{}
	for _, w := range writers {
		if f := p.Func(w); f != nil {
			seeds[f] = true
		}
	}
	if len(seeds) < 8 {
		c.Undecide("validate-readonly", "state writers", "fewer state-writing primitives found than on the reference tree")
		return
	}
	for _, v := range []string{"contract/system.ValidateSystemTx", "contract/name.ValidateNameTx", "contract/enterprise.ValidateEnterpriseTx"} {
		vf := c.Fn(v)
		if vf == nil {
			continue
		}
		pkg := vf.Pkg
		// only edges that stay in the validator's package or go straight to a primitive: the validators do not call out otherwise
		follow := func(e an.Edge) bool {
			return e.Callee != nil && (e.Callee.Pkg == pkg || seeds[e.Callee])
		}
		reachable := cg.ReachableFrom([]*an.Func{vf}, follow)
		var hits []string
		for f := range reachable {
			if seeds[f] {
				hits = append(hits, shortName(f.Name()))
			}
		}
		sort.Strings(hits)
		path := ""
		if len(hits) > 0 {
			path = strings.Join(cg.PathTo(vf, seeds, follow), " -> ")
		}
		c.Check("validate-readonly", v, vf.Pos(), len(hits) == 0, "the stateful validator of a governance transaction reaches no state-writing primitive (it runs in the pool on the shared state, and in execution before a command that can still be refused with an error receipt that keeps the block state); reaches: "+strings.Join(hits, ", ")+" via "+path)
	}
}

type r3Write struct {
	fn  *an.Func
	rhs ast.Expr
}

var r3FieldRhsCache = map[*types.Var][]r3Write{}

// r3FieldRhs: the right-hand sides of all plain assignments and literal
// initialisations of a struct field in the module.
func r3FieldRhs(p *an.Prog, fld *types.Var) []r3Write {
	if w, ok := r3FieldRhsCache[fld]; ok {
		return w
	}
	var out []r3Write
	for _, pk := range p.ModulePkgs() {
		info := pk.TypesInfo
		if info == nil {
			continue
		}
		for _, file := range pk.Syntax {
			ast.Inspect(file, func(n ast.Node) bool {
				switch x := n.(type) {
				case *ast.AssignStmt:
					if len(x.Lhs) == len(x.Rhs) {
						for i, l := range x.Lhs {
							if an.FieldOf(info, l) == fld {
								out = append(out, r3Write{p.EnclosingFunc(pk, x.Pos()), x.Rhs[i]})
							}
						}
					}
				case *ast.KeyValueExpr:
					if id, ok := x.Key.(*ast.Ident); ok && info.Uses[id] == fld {
						out = append(out, r3Write{p.EnclosingFunc(pk, x.Pos()), x.Value})
					}
				}
				return true
			})
		}
	}
	r3FieldRhsCache[fld] = out
	return out
}

// --- C20 (also C01, C12): a recovery point that records a transfer is taken after the transfer happened ---
//
// recoveryPoint.revertState moves `amount` back from receiver to sender without
// consulting isQuery / nestedView.  A recovery point created before the
// transfer is known to have happened (before the read-only refusal, before a
// failing sendBalance) stays on the list when the function leaves early; when
// an enclosing call fails later it "reverts" a transfer that never took place:
// coins move inside a read-only execution (and are created for the sender).
func init() {
	extend("C20", r3RecoveryAfterTransfer)
	extend("C01", r3RecoveryAfterTransfer)
}

func r3RecoveryAfterTransfer(c *rep.Ctx) {
	p := c.Prog
	zero := p.LookupObj("contract", "zeroBig")
	exempt := map[string]string{
		"contract.luaGovernance": "the amount was moved by the system contract (stake / unstake) executed successfully just before; the point is updated only when one exists",
	}
	sites := p.CallSitesOf(map[string]bool{"contract.createRecoveryPoint": true})
	n := 0
	seen := map[string]int{}
	for _, s := range sites {
		if s.Fn == nil || len(s.Call.Args) < 5 {
			continue
		}
		info := s.Fn.Info()
		amt := ast.Unparen(s.Call.Args[4])
		if zero != nil && an.ObjOf(info, amt) == zero {
			continue
		}
		if tv, ok := info.Types[s.Call.Args[2]]; ok && tv.IsNil() {
			continue
		}
		name := s.Fn.TopDecl().Name()
		seen[name]++
		key := name + "|createRecoveryPoint"
		if seen[name] > 1 {
			key += "#" + itoa(seen[name])
		}
		n++
		if _, ok := exempt[name]; ok {
			c.CheckTrivial("recovery-after-transfer", key, s.Call.Pos(), true, "table row: "+exempt[name])
			continue
		}
		g := s.Fn.Graph()
		node := g.NodeContaining(s.Call.Pos())
		gates := an.Set{}
		for _, sb := range g.CallsTo("contract.sendBalance") {
			for e := range g.ErrNilEdges(sb) {
				gates[e] = true
			}
		}
		amtObj := an.ObjOf(info, amt)
		for _, nd := range g.Nodes {
			if nd.Kind != an.KTrue && nd.Kind != an.KFalse {
				continue
			}
			be, ok := nd.Ast.(*ast.BinaryExpr)
			if !ok {
				continue
			}
			call, ok := ast.Unparen(be.X).(*ast.CallExpr)
			if !ok || an.CalleeName(info, call) != "math/big.(*Int).Cmp" || recvObj(info, call) != amtObj || amtObj == nil {
				continue
			}
			tv, has := info.Types[be.Y]
			if !has || tv.Value == nil || tv.Value.ExactString() != "0" {
				continue
			}
			// edges on which the amount is known not to be positive: nothing is transferred
			switch {
			case be.Op.String() == ">" && nd.Kind == an.KFalse, be.Op.String() == "<=" && nd.Kind == an.KTrue, be.Op.String() == "==" && nd.Kind == an.KTrue:
				gates[nd] = true
			}
		}
		ok := node != nil && len(gates) > 0 && g.Dominated(node, gates)
		c.Check("recovery-after-transfer", key, s.Call.Pos(), ok, "a recovery point that records a transfer amount is created only on paths where the transfer succeeded (or nothing is transferred): created earlier, it survives the read-only refusal / a failed transfer and its later revert moves coins that were never sent, also inside a query or view")
	}
	if n < 4 {
		c.Undecide("recovery-after-transfer", "contract.createRecoveryPoint", "fewer transfer-recording recovery points than on the reference tree")
	}
}

// --- C18: the frame header is rebuilt completely for every message ---
//
// V030ReadWriter keeps one header buffer per connection and reuses it for every
// message.  A header byte that is written only on some paths keeps the value of
// the previous message on the others: the message read back by the peer differs
// from the one written (e.g. a request carrying the previous response's
// original id).  Decided: in marshalHeader the byte ranges written on every
// path cover the whole header.
func init() { extend("C18", r3HeaderFullyWritten) }

func r3HeaderFullyWritten(c *rep.Ctx) {
	p := c.Prog
	f := c.Fn("p2p/v030.(*V030ReadWriter).marshalHeader")
	if f == nil {
		return
	}
	buf := p.LookupField("p2p/v030", "V030ReadWriter", "writeBuf")
	if buf == nil {
		c.Undecide("header-fully-written", "p2p/v030.V030ReadWriter.writeBuf", "field not found")
		return
	}
	arr, ok := buf.Type().Underlying().(*types.Array)
	if !ok {
		c.Undecide("header-fully-written", "p2p/v030.V030ReadWriter.writeBuf", "the header buffer is not a fixed-size array any more")
		return
	}
	size := arr.Len()
	info := f.Info()
	g := f.Graph()
	covered := make([]bool, size)
	constOf := func(e ast.Expr, def int64) (int64, bool) {
		if e == nil {
			return def, true
		}
		tv, ok := info.Types[e]
		if !ok || tv.Value == nil {
			return 0, false
		}
		var v int64
		for _, ch := range tv.Value.ExactString() {
			if ch < '0' || ch > '9' {
				return 0, false
			}
			v = v*10 + int64(ch-'0')
		}
		return v, true
	}
	nWrites, nCond := 0, 0
	type hdrWrite struct {
		lo, hi int64
		node   *an.Node
	}
	var writes []hdrWrite
	ast.Inspect(f.Body, func(n ast.Node) bool {
		call, ok := n.(*ast.CallExpr)
		if !ok || len(call.Args) == 0 {
			return true
		}
		// destination: first argument of copy / PutUintNN is a slice of the header buffer
		name := an.CalleeName(info, call)
		isWriter := an.IsBuiltin(info, call, "copy") || strings.Contains(name, "encoding/binary") && strings.Contains(name, "PutUint")
		if !isWriter {
			return true
		}
		se, ok := ast.Unparen(call.Args[0]).(*ast.SliceExpr)
		if !ok || an.FieldOf(info, se.X) != buf {
			return true
		}
		lo, ok1 := constOf(se.Low, 0)
		hi, ok2 := constOf(se.High, size)
		if !ok1 || !ok2 || lo < 0 || hi > size {
			c.Undecide("header-fully-written", f.Name(), "header write with non-constant bounds")
			return true
		}
		nWrites++
		node := g.NodeContaining(call.Pos())
		if node == nil {
			return true
		}
		if !g.Dominated(g.Exit, an.SetOf(node)) {
			nCond++
		}
		writes = append(writes, hdrWrite{lo, hi, node})
		return true
	})
	// a byte is always written when the nodes writing it cut every path from entry to exit
	for i := int64(0); i < size; i++ {
		set := an.Set{}
		for _, w := range writes {
			if w.lo <= i && i < w.hi {
				set[w.node] = true
			}
		}
		covered[i] = len(set) > 0 && g.Dominated(g.Exit, set)
	}
	missing := ""
	for i := int64(0); i < size; i++ {
		if !covered[i] {
			j := i
			for j+1 < size && !covered[j+1] {
				j++
			}
			missing += " [" + itoa(int(i)) + ":" + itoa(int(j+1)) + ")"
			i = j
		}
	}
	c.Check("header-fully-written", f.Name(), f.Pos(), missing == "" && nWrites > 0, "every byte of the reused "+itoa(int(size))+"-byte header buffer is written on every path ("+itoa(nWrites)+" writes, "+itoa(nCond)+" conditional); not always written:"+missing)
}
