package props

import (
	"go/ast"
	"go/constant"
	"go/token"
	"go/types"
	"sort"

	"verif/checker/internal/an"
	"verif/checker/internal/rep"
)

// C10 gap rules: the slot discipline of the 4-level node batches.
//
// A batch is a [][]byte of 31 slots: slot 0 is the shortcut flag of the batch
// root, slots 2i+1 / 2i+2 hold the children of the node at index i.  A node
// whose own slot is empty must not keep anything in its two child slots:
// Trie.update descends into an empty node through loadChildren, which hands
// out whatever the child slots contain - a stale hash there is followed again
// and deleted keys reappear.  The rules below decide, on all paths,
//
//	empty-clears-slots   whoever reports an empty subtree (mresult without a node)
//	                     has emptied both child slots of the node (or the node
//	                     is a batch root / a leaf, or the slots were seen empty)
//	moveup-vacates       a function that moves a shortcut from a child index to
//	                     its own index has written key and value into its own
//	                     slots and emptied the slots the shortcut came from (or
//	                     the child is the root of another batch)
//	root-stored          a node hash that is handed back for a batch root has
//	                     been stored (storeNode) under that hash
//	batch-flag           the shortcut flag written into slot 0 of a stored batch
//	                     is the flag byte appended to the hash it is stored under
//	leaf-site            a shortcut is written over a node only when both child
//	                     slots are known empty and exactly one key is left; the
//	                     leaf at height 0 gets a batch of its own
//	moveup-guard         a shortcut moves up only when it is one (flag byte 1)
//	                     and its sibling is empty
//	side                 left is slot 2i+1 and right is slot 2i+2 everywhere: the
//	                     value handed down/back for a child and the child index
//	                     passed with it agree; loadChildren returns the two
//	                     slots in that order
//	shortcut-kv          the two values loadChildren returns for a shortcut node
//	                     (key, value) are never used as child nodes
//	store-replace        storeNode removes the replaced node only when the hash
//	                     changed (otherwise it would remove what it just stored)
//	leaf-height          every leaf hash mixes in the height of the node whose
//	                     slots receive the key and the value
//	wire                 serializeBatch and parseBatch agree on slot range, bitmap
//	                     bit, shortcut bit and entry width
//	delete-sentinel      the value the state buffer exports for a deleted entry
//	                     is the trie's DefaultLeaf
//	one-result           every path through the update functions sends exactly
//	                     one result
//	bit-side             readers descend right exactly where the key bit at
//	                     TrieHeight-height is set, and the update splits its keys
//	                     on the same bit
//	merge-once           a key list built from a sorted key list is complete once
//	                     an open-ended tail of the input was appended: nothing of
//	                     the input is appended after that
//	root-assign          Trie.Update installs the new root on every successful
//	                     path, nil when the result carries no node
//
// Assumption shared by the slot rules: two slot expressions over different
// index variables of one function (2*iBatch+k, 2*iShortcut+k) do not alias.

var c10GapRules = []func(c *rep.Ctx){
	c10GapSlots,
	c10GapMoveUp,
	c10GapRootStored,
	c10GapBatchFlag,
	c10GapLeafSite,
	c10GapSide,
	c10GapStoreReplace,
	c10GapLeafHeight,
	c10GapWire,
	c10GapDeleteSentinel,
	c10GapOneResult,
	c10GapRootAssign,
	c10GapBitSide,
	c10GapMergeOnce,
}

func init() {
	for _, r := range c10GapRules {
		extend("C10", r)
	}
}

// ---------------------------------------------------------------------------
// model

// c10GapCoord: the variables of a function that denote "the node worked on":
// its batch, its index in the batch, its height (H may be nil).
type c10GapCoord struct{ B, I, H types.Object }

// c10GapLoad: one call of loadChildren with its bound results.
type c10GapLoad struct {
	site             an.Site
	resB, resI       types.Object // results 0, 1 (nil when blank)
	resL, resR, resS types.Object // results 2, 3, 4
	argRoot, argI    types.Object // plain identifiers or nil
	argB             types.Object
	argH             ast.Expr
}

type c10GapModel struct {
	c      *rep.Ctx
	p      *an.Prog
	info   *types.Info
	funcs  []*an.Func
	loadFn *an.Func
	mres   *types.Named
	iU     int
	iD     int
	iE     int
	hashLn types.Object

	coords map[*an.Func][]c10GapCoord
	loads  map[*an.Func][]c10GapLoad
	pairs  map[*an.Func][][2]int
	params map[*an.Func][]types.Object
	sumMem map[string]int // clears-on-exit summaries: 0 unknown, 1 computing, 2 yes, 3 no
}

// c10GapGet builds the model (cheap: one package); only the first rule reports lost anchors.
func c10GapGet(c *rep.Ctx) *c10GapModel {
	return c10GapBuild(c, false)
}

func c10GapBuild(c *rep.Ctx, report bool) *c10GapModel {
	und := func(rule, construct, msg string) {
		if report {
			c.Undecide(rule, construct, msg)
		}
	}
	p := c.Prog
	pk := p.Pkg(c10TriePkg)
	if pk == nil {
		und("gap-anchor", c10TriePkg, "package not loaded")
		return nil
	}
	m := &c10GapModel{c: c, p: p, info: pk.TypesInfo,
		coords: map[*an.Func][]c10GapCoord{}, loads: map[*an.Func][]c10GapLoad{},
		pairs: map[*an.Func][][2]int{}, params: map[*an.Func][]types.Object{}, sumMem: map[string]int{}}
	m.funcs = c10AllFuncs(p, c10TriePkg)
	m.loadFn = p.Func("pkg/trie.(*Trie).loadChildren")
	if m.loadFn == nil || m.loadFn.Body == nil {
		und("gap-anchor", "pkg/trie.(*Trie).loadChildren", "not found")
		return nil
	}
	if o, ok := p.LookupObj(c10TriePkg, "mresult").(*types.TypeName); ok {
		m.mres, _ = o.Type().(*types.Named)
	}
	var st *types.Struct
	if m.mres != nil {
		st, _ = m.mres.Underlying().(*types.Struct)
	}
	m.iU, m.iD, m.iE = -1, -1, -1
	if st != nil {
		for i := 0; i < st.NumFields(); i++ {
			switch st.Field(i).Name() {
			case "update":
				m.iU = i
			case "deleted":
				m.iD = i
			case "err":
				m.iE = i
			}
		}
	}
	if st == nil || st.NumFields() != 3 || m.iU < 0 || m.iD < 0 || m.iE < 0 {
		und("gap-anchor", "pkg/trie.mresult", "result type not found or its fields changed")
		return nil
	}
	m.hashLn = p.LookupObj(c10TriePkg, "HashLength")
	for _, f := range m.funcs {
		for i := 0; ; i++ {
			o := f.ParamObj(i)
			if o == nil {
				break
			}
			m.params[f] = append(m.params[f], o)
		}
	}
	// loadChildren calls
	for _, f := range m.funcs {
		g := f.Graph()
		if g == nil {
			continue
		}
		for _, s := range g.CallsTo("pkg/trie.(*Trie).loadChildren") {
			if len(s.Call.Args) != 4 {
				continue
			}
			ld := c10GapLoad{site: s, argH: s.Call.Args[1]}
			ld.resB, ld.resI = g.ResultVarAt(s, 0), g.ResultVarAt(s, 1)
			ld.resL, ld.resR, ld.resS = g.ResultVarAt(s, 2), g.ResultVarAt(s, 3), g.ResultVarAt(s, 4)
			ld.argRoot = an.ObjOf(m.info, s.Call.Args[0])
			ld.argI = an.ObjOf(m.info, s.Call.Args[2])
			ld.argB = an.ObjOf(m.info, s.Call.Args[3])
			m.loads[f] = append(m.loads[f], ld)
			if ld.resB != nil && ld.resI != nil {
				m.addCoord(f, c10GapCoord{ld.resB, ld.resI, an.ObjOf(m.info, ld.argH)})
			}
		}
	}
	// coordinates flow into callees that receive (B, I) unchanged
	for changed := true; changed; {
		changed = false
		for _, f := range m.funcs {
			for _, co := range m.coords[f] {
				for _, call := range m.callsOf(f) {
					gf := m.calleeOf(call)
					if gf == nil || gf == m.loadFn {
						continue
					}
					pb, pi, ph := -1, -1, -1
					for i, a := range call.Args {
						switch o := an.ObjOf(m.info, a); {
						case o == nil:
						case o == co.B:
							pb = i
						case o == co.I:
							pi = i
						case o == co.H:
							ph = i
						}
					}
					if ph < 0 && co.H != nil {
						// the height handed on with an offset: still the callee's height
						// parameter (leaf-height reports the offset at the call site)
						for i, a := range call.Args {
							if l, ok := m.lin(f, a, 0); ok && len(l.co) == 1 && l.co[co.H] == 1 {
								ph = i
							}
						}
					}
					if pb < 0 || pi < 0 || pb >= len(m.params[gf]) || pi >= len(m.params[gf]) {
						continue
					}
					nc := c10GapCoord{B: m.params[gf][pb], I: m.params[gf][pi]}
					if ph >= 0 && ph < len(m.params[gf]) {
						nc.H = m.params[gf][ph]
					}
					if m.addCoord(gf, nc) {
						changed = true
					}
				}
			}
		}
	}
	// (node, index) parameter pairs: loadChildren(root, _, iBatch, _) and every
	// function that hands two of its parameters on as such a pair
	m.pairs[m.loadFn] = [][2]int{{0, 2}}
	for changed := true; changed; {
		changed = false
		for _, f := range m.funcs {
			for _, call := range m.callsOf(f) {
				gf := m.calleeOf(call)
				if gf == nil {
					continue
				}
				for _, pr := range m.pairs[gf] {
					if pr[0] >= len(call.Args) || pr[1] >= len(call.Args) {
						continue
					}
					a := m.paramIndex(f, an.ObjOf(m.info, call.Args[pr[0]]))
					b := m.paramIndex(f, an.ObjOf(m.info, call.Args[pr[1]]))
					if a < 0 || b < 0 {
						continue
					}
					dup := false
					for _, q := range m.pairs[f] {
						if q == [2]int{a, b} {
							dup = true
						}
					}
					if !dup {
						m.pairs[f] = append(m.pairs[f], [2]int{a, b})
						changed = true
					}
				}
			}
		}
	}
	return m
}

func (m *c10GapModel) addCoord(f *an.Func, co c10GapCoord) bool {
	for i, x := range m.coords[f] {
		if x.B == co.B && x.I == co.I {
			if x.H == nil && co.H != nil {
				m.coords[f][i].H = co.H
				return true
			}
			return false
		}
	}
	m.coords[f] = append(m.coords[f], co)
	return true
}

func (m *c10GapModel) paramIndex(f *an.Func, o types.Object) int {
	if o == nil {
		return -1
	}
	for i, p := range m.params[f] {
		if p == o {
			return i
		}
	}
	return -1
}

// callsOf: every call expression of f (go statements included, nested literals not).
func (m *c10GapModel) callsOf(f *an.Func) []*ast.CallExpr {
	var out []*ast.CallExpr
	if f.Body == nil {
		return nil
	}
	an.InspectShallow(f.Body, func(n ast.Node) bool {
		if c, ok := n.(*ast.CallExpr); ok {
			out = append(out, c)
		}
		return true
	})
	return out
}

func (m *c10GapModel) calleeOf(call *ast.CallExpr) *an.Func {
	fn := an.Callee(m.info, call)
	if fn == nil {
		return nil
	}
	gf := m.p.FuncOf(fn)
	if gf == nil || gf.Body == nil || gf.Pkg == nil || gf.Pkg.TypesInfo != m.info {
		return nil
	}
	return gf
}

// the one coordinate pair of f, or nil
func (m *c10GapModel) coordOf(f *an.Func) *c10GapCoord {
	if len(m.coords[f]) != 1 {
		return nil
	}
	return &m.coords[f][0]
}

// ---------------------------------------------------------------------------
// index arithmetic

type c10GapLin struct {
	co map[types.Object]int64
	k  int64
}

func (a c10GapLin) equal(b c10GapLin) bool {
	if a.k != b.k || len(a.co) != len(b.co) {
		return false
	}
	for o, v := range a.co {
		if b.co[o] != v {
			return false
		}
	}
	return true
}

func c10GapConst(info *types.Info, e ast.Expr) (int64, bool) {
	if tv, ok := info.Types[e]; ok && tv.Value != nil && tv.Value.Kind() == constant.Int {
		return constant.Int64Val(tv.Value)
	}
	return 0, false
}

// lin decodes an integer expression into sum(coef*var)+k; once-defined locals
// with an arithmetic definition are resolved.
func (m *c10GapModel) lin(f *an.Func, e ast.Expr, depth int) (c10GapLin, bool) {
	e = ast.Unparen(e)
	if v, ok := c10GapConst(m.info, e); ok {
		return c10GapLin{co: map[types.Object]int64{}, k: v}, true
	}
	switch x := e.(type) {
	case *ast.Ident:
		o := an.ObjOf(m.info, x)
		v, isVar := o.(*types.Var)
		if !isVar {
			return c10GapLin{}, false
		}
		if depth < 3 && m.paramIndex(f, o) < 0 && f.Graph() != nil && v.Parent() != nil && v.Parent() != v.Pkg().Scope() {
			if rhs, idx := f.Graph().SingleDef(o); rhs != nil && idx == 0 {
				if _, isCall := ast.Unparen(rhs).(*ast.CallExpr); !isCall {
					if l, ok := m.lin(f, rhs, depth+1); ok {
						return l, true
					}
				}
			}
		}
		return c10GapLin{co: map[types.Object]int64{o: 1}}, true
	case *ast.BinaryExpr:
		switch x.Op {
		case token.ADD, token.SUB:
			a, ok1 := m.lin(f, x.X, depth)
			b, ok2 := m.lin(f, x.Y, depth)
			if !ok1 || !ok2 {
				return c10GapLin{}, false
			}
			s := int64(1)
			if x.Op == token.SUB {
				s = -1
			}
			out := c10GapLin{co: map[types.Object]int64{}, k: a.k + s*b.k}
			for o, v := range a.co {
				out.co[o] += v
			}
			for o, v := range b.co {
				out.co[o] += s * v
			}
			for o, v := range out.co {
				if v == 0 {
					delete(out.co, o)
				}
			}
			return out, true
		case token.MUL:
			a, ok1 := m.lin(f, x.X, depth)
			b, ok2 := m.lin(f, x.Y, depth)
			if !ok1 || !ok2 {
				return c10GapLin{}, false
			}
			if len(a.co) != 0 && len(b.co) != 0 {
				return c10GapLin{}, false
			}
			if len(a.co) != 0 {
				a, b = b, a
			}
			out := c10GapLin{co: map[types.Object]int64{}, k: a.k * b.k}
			for o, v := range b.co {
				if a.k*v != 0 {
					out.co[o] = a.k * v
				}
			}
			return out, true
		case token.SHL:
			if s, ok := c10GapConst(m.info, x.Y); ok && s >= 0 && s < 8 {
				a, ok1 := m.lin(f, x.X, depth)
				if ok1 {
					out := c10GapLin{co: map[types.Object]int64{}, k: a.k << uint(s)}
					for o, v := range a.co {
						out.co[o] = v << uint(s)
					}
					return out, true
				}
			}
		}
	case *ast.CallExpr:
		if tv, ok := m.info.Types[x.Fun]; ok && tv.IsType() && len(x.Args) == 1 {
			return m.lin(f, x.Args[0], depth)
		}
	case *ast.SelectorExpr:
		// a field read of a plain variable (s.TrieHeight): the field is the operand
		if fv := an.FieldOf(m.info, x); fv != nil && an.ObjOf(m.info, x.X) != nil {
			return c10GapLin{co: map[types.Object]int64{fv: 1}}, true
		}
	}
	return c10GapLin{}, false
}

// childIndex: e == 2*I + k with k in {1,2}; returns (I, k).
func (m *c10GapModel) childIndex(f *an.Func, e ast.Expr) (types.Object, int, bool) {
	l, ok := m.lin(f, e, 0)
	if !ok || len(l.co) != 1 || (l.k != 1 && l.k != 2) {
		return nil, 0, false
	}
	for o, v := range l.co {
		if v == 2 {
			return o, int(l.k), true
		}
	}
	return nil, 0, false
}

const (
	c10GapSlotNone  = iota // not an element of the batch
	c10GapSlotChild        // B[2*I+k]
	c10GapSlotOwn          // B[I]
	c10GapSlotFlag         // B[0]
	c10GapSlotOther        // B[2*J+k], J another variable
	c10GapSlotUnrec        // B[?]
)

func (m *c10GapModel) slot(f *an.Func, B, I types.Object, e ast.Expr) (kind, k int) {
	ix, ok := ast.Unparen(e).(*ast.IndexExpr)
	if !ok || B == nil || an.ObjOf(m.info, ix.X) != B {
		return c10GapSlotNone, 0
	}
	l, ok := m.lin(f, ix.Index, 0)
	if !ok {
		return c10GapSlotUnrec, 0
	}
	switch {
	case len(l.co) == 0 && l.k == 0:
		return c10GapSlotFlag, 0
	case len(l.co) == 1 && l.co[I] == 2 && (l.k == 1 || l.k == 2):
		return c10GapSlotChild, int(l.k)
	case len(l.co) == 1 && l.co[I] == 1 && l.k == 0:
		return c10GapSlotOwn, 0
	case len(l.co) == 1 && l.co[I] == 0:
		return c10GapSlotOther, 0
	}
	return c10GapSlotUnrec, 0
}

func (m *c10GapModel) isNil(e ast.Expr) bool {
	tv, ok := m.info.Types[e]
	return ok && tv.IsNil()
}

// equalsEdge: the condition e compares `operand` with the constant c; returns
// the kind of edge (KTrue / KFalse) on which operand == c is known.  Operands
// are non-negative (lengths, heights, indexes): x < 1 means x == 0.
func (m *c10GapModel) equalsEdge(e ast.Expr, isOperand func(ast.Expr) bool, c int64) (an.NodeKind, bool) {
	be, ok := ast.Unparen(e).(*ast.BinaryExpr)
	if !ok {
		return 0, false
	}
	x, y, op := be.X, be.Y, be.Op
	if isOperand(ast.Unparen(y)) {
		x, y = y, x
		switch op {
		case token.LSS:
			op = token.GTR
		case token.GTR:
			op = token.LSS
		case token.LEQ:
			op = token.GEQ
		case token.GEQ:
			op = token.LEQ
		}
	}
	if !isOperand(ast.Unparen(x)) {
		return 0, false
	}
	v, isC := c10GapConst(m.info, y)
	if !isC {
		return 0, false
	}
	switch {
	case op == token.EQL && v == c:
		return an.KTrue, true
	case op == token.NEQ && v == c:
		return an.KFalse, true
	case c == 0 && ((op == token.LSS && v == 1) || (op == token.LEQ && v == 0)):
		return an.KTrue, true
	case c == 0 && ((op == token.GTR && v == 0) || (op == token.GEQ && v == 1)):
		return an.KFalse, true
	}
	return 0, false
}

// edgeFact: the branch edge n (KTrue / KFalse of a possibly compound condition)
// implies that the fact recognised by leaf has the value want.  leaf tells, for
// an atomic comparison, on which kind of edge the fact holds.
func (m *c10GapModel) edgeFact(n *an.Node, leaf func(e ast.Expr) (an.NodeKind, bool), want bool) bool {
	if n.Kind != an.KTrue && n.Kind != an.KFalse {
		return false
	}
	cond, ok := n.Ast.(ast.Expr)
	if !ok || cond == nil {
		return false
	}
	if tv, ok := m.info.Types[cond]; !ok || tv.Type == nil {
		return false
	} else if b, isB := tv.Type.Underlying().(*types.Basic); !isB || b.Info()&types.IsBoolean == 0 {
		return false
	}
	at := func(e ast.Expr) (string, bool, bool) {
		if k, ok := leaf(e); ok {
			return "fact", k == an.KFalse, true
		}
		// a once-defined boolean local standing for the comparison
		if id, isId := e.(*ast.Ident); isId && n.Block != nil {
			if o, isVar := an.ObjOf(m.info, id).(*types.Var); isVar && o.Parent() != nil && o.Pkg() != nil && o.Parent() != o.Pkg().Scope() {
				if f := m.p.EnclosingFunc(m.p.Pkg(c10TriePkg), id.Pos()); f != nil && f.Graph() != nil && m.paramIndex(f.TopDecl(), o) < 0 {
					if rhs, idx := f.Graph().SingleDef(o); rhs != nil && idx == 0 && m.stableOperands(f, rhs) {
						if k, ok := leaf(ast.Unparen(rhs)); ok {
							return "fact", k == an.KFalse, true
						}
					}
				}
			}
		}
		return "", false, false
	}
	return an.CondImplies(m.info, cond, n.Kind == an.KTrue, at, map[string]bool{"fact": want})
}

// stableOperands: every variable read in e is assigned at most once in f
// (parameters: never), so e means the same wherever it is evaluated.
func (m *c10GapModel) stableOperands(f *an.Func, e ast.Expr) bool {
	ok := true
	g := f.Graph()
	ast.Inspect(e, func(n ast.Node) bool {
		id, isId := n.(*ast.Ident)
		if !isId {
			return true
		}
		if v, isVar := an.ObjOf(m.info, id).(*types.Var); isVar && !v.IsField() {
			if !g.SingleDefOrParam(v) {
				ok = false
			}
		}
		return true
	})
	return ok
}

func (m *c10GapModel) isObj(o types.Object) func(ast.Expr) bool {
	return func(e ast.Expr) bool { return o != nil && an.ObjOf(m.info, e) == o }
}

func (m *c10GapModel) isLenOf(o types.Object) func(ast.Expr) bool {
	return func(e ast.Expr) bool {
		call, ok := e.(*ast.CallExpr)
		return ok && o != nil && an.IsBuiltin(m.info, call, "len") && len(call.Args) == 1 && an.ObjOf(m.info, call.Args[0]) == o
	}
}

// emptyEdges: the branch edges of g on which len(o) == 0 (or o == nil) is known.
func (m *c10GapModel) emptyEdges(g *an.Graph, o types.Object) an.Set {
	out := an.Set{}
	for _, n := range g.Nodes {
		if m.edgeFact(n, func(e ast.Expr) (an.NodeKind, bool) {
			if kd, ok := m.equalsEdge(e, m.isLenOf(o), 0); ok {
				return kd, true
			}
			return m.nilEdge(e, o)
		}, true) {
			out[n] = true
		}
	}
	return out
}

func (m *c10GapModel) nilEdge(e ast.Expr, o types.Object) (an.NodeKind, bool) {
	be, ok := ast.Unparen(e).(*ast.BinaryExpr)
	if !ok || (be.Op != token.EQL && be.Op != token.NEQ) || o == nil {
		return 0, false
	}
	if (an.ObjOf(m.info, be.X) == o && m.isNil(be.Y)) || (an.ObjOf(m.info, be.Y) == o && m.isNil(be.X)) {
		if be.Op == token.EQL {
			return an.KTrue, true
		}
		return an.KFalse, true
	}
	return 0, false
}

// modEdge: cond is (E) % 4 == 0 (or != 0); returns E and the edge kind on which
// the remainder is zero.
func (m *c10GapModel) modEdge(e ast.Expr) (ast.Expr, an.NodeKind, bool) {
	be, ok := ast.Unparen(e).(*ast.BinaryExpr)
	if !ok || (be.Op != token.EQL && be.Op != token.NEQ) {
		return nil, 0, false
	}
	x, y := be.X, be.Y
	if v, isC := c10GapConst(m.info, x); isC && v == 0 {
		x, y = y, x
	}
	if v, isC := c10GapConst(m.info, y); !isC || v != 0 {
		return nil, 0, false
	}
	rem, ok := ast.Unparen(x).(*ast.BinaryExpr)
	if !ok || rem.Op != token.REM {
		return nil, 0, false
	}
	if v, isC := c10GapConst(m.info, rem.Y); !isC || v != 4 {
		return nil, 0, false
	}
	if be.Op == token.EQL {
		return rem.X, an.KTrue, true
	}
	return rem.X, an.KFalse, true
}

// ---------------------------------------------------------------------------
// the slot data flow: for the node (B, I) of a function, which of its two child
// slots are known to be empty at a program point (must analysis)

type c10GapSt struct {
	top   bool
	clear [3]bool // slot k of the node is empty
	rel   [3]bool // "mirror k is empty => slot k is empty" holds
	over  [3]bool // slot k may be overwritten: it is empty or holds key/value of the shortcut that was loaded
	orel  [3]bool // "mirror k is empty => slot k may be overwritten" holds
}

func c10GapMeet(a, b c10GapSt) c10GapSt {
	if a.top {
		return b
	}
	if b.top {
		return a
	}
	var r c10GapSt
	for k := 1; k <= 2; k++ {
		r.clear[k] = a.clear[k] && b.clear[k]
		r.rel[k] = a.rel[k] && b.rel[k]
		r.over[k] = a.over[k] && b.over[k]
		r.orel[k] = a.orel[k] && b.orel[k]
	}
	return r
}

type c10GapFlowOpt struct {
	B, I, H  types.Object
	mirror   [3]types.Object   // the locals bound to the two slots by loadChildren
	shortcut types.Object      // the local bound to the shortcut flag by loadChildren
	loadStmt map[*an.Node]bool // the loadChildren statements that bind B, I and the mirrors
	childLin *c10GapLin        // edge (E)%4 == 0 with E of this form: the slots live in another batch
}

type c10GapFlow struct {
	in    map[*an.Node]c10GapSt
	unrec bool // a write into the batch through an index that could not be decoded
}

func (m *c10GapModel) flow(f *an.Func, opt c10GapFlowOpt) *c10GapFlow {
	g := f.Graph()
	res := &c10GapFlow{in: map[*an.Node]c10GapSt{}}
	out := map[*an.Node]c10GapSt{}
	for _, n := range g.Nodes {
		res.in[n] = c10GapSt{top: true}
		out[n] = c10GapSt{top: true}
	}
	transfer := func(n *an.Node, s c10GapSt) c10GapSt {
		if s.top {
			return s
		}
		switch n.Kind {
		case an.KTrue, an.KFalse:
			all := func() { s.clear[1], s.clear[2], s.rel[1], s.rel[2] = true, true, true, true }
			if opt.shortcut != nil && m.edgeFact(n, func(e ast.Expr) (an.NodeKind, bool) {
				if an.ObjOf(m.info, e) == opt.shortcut {
					return an.KTrue, true
				}
				return 0, false
			}, true) {
				s.over[1], s.over[2] = true, true
			}
			if m.edgeFact(n, func(e ast.Expr) (an.NodeKind, bool) { return m.equalsEdge(e, m.isObj(opt.I), 0) }, true) {
				all()
			}
			if opt.H != nil && m.edgeFact(n, func(e ast.Expr) (an.NodeKind, bool) { return m.equalsEdge(e, m.isObj(opt.H), 0) }, true) {
				all()
			}
			if opt.childLin != nil && m.edgeFact(n, func(e ast.Expr) (an.NodeKind, bool) {
				x, k, ok := m.modEdge(e)
				if !ok {
					return 0, false
				}
				if l, ok := m.lin(f, x, 0); !ok || !l.equal(*opt.childLin) {
					return 0, false
				}
				return k, true
			}, true) {
				all()
			}
			for k := 1; k <= 2; k++ {
				if opt.mirror[k] == nil || !s.rel[k] {
					continue
				}
				mk := opt.mirror[k]
				if m.edgeFact(n, func(e ast.Expr) (an.NodeKind, bool) {
					if kd, ok := m.equalsEdge(e, m.isLenOf(mk), 0); ok {
						return kd, true
					}
					return m.nilEdge(e, mk)
				}, true) {
					s.clear[k] = true
				}
			}
			for k := 1; k <= 2; k++ {
				if opt.mirror[k] != nil && (s.orel[k] || s.over[k]) {
					mk := opt.mirror[k]
					if m.edgeFact(n, func(e ast.Expr) (an.NodeKind, bool) {
						if kd, ok := m.equalsEdge(e, m.isLenOf(mk), 0); ok {
							return kd, true
						}
						return m.nilEdge(e, mk)
					}, true) {
						s.over[k] = true
					}
				}
				s.over[k] = s.over[k] || s.clear[k]
				s.orel[k] = s.orel[k] || s.over[k] || s.rel[k]
			}
			return s
		case an.KStmt:
		default:
			return s
		}
		// calls that receive the batch
		for _, call := range an.CallsIn(n.Ast) {
			pb, pi := -1, -1
			for i, a := range call.Args {
				switch o := an.ObjOf(m.info, a); {
				case o == nil:
				case o == opt.B:
					pb = i
				case o == opt.I:
					pi = i
				}
			}
			if pb < 0 {
				continue
			}
			gf := m.calleeOf(call)
			if gf != nil && pi >= 0 && m.clearsOnExit(gf, pb, pi) {
				s.clear[1], s.clear[2], s.rel[1], s.rel[2] = true, true, true, true
				continue
			}
			if gf != nil && !m.writesBatch(gf, pb) {
				continue
			}
			s.clear[1], s.clear[2], s.rel[1], s.rel[2] = false, false, false, false
			s.over[1], s.over[2], s.orel[1], s.orel[2] = false, false, false, false
		}
		var lhs, rhs []ast.Expr
		switch a := n.Ast.(type) {
		case *ast.AssignStmt:
			lhs, rhs = a.Lhs, a.Rhs
		case *ast.ValueSpec:
			for _, nm := range a.Names {
				lhs = append(lhs, nm)
			}
			rhs = a.Values
		case *ast.IncDecStmt:
			lhs = []ast.Expr{a.X}
		case *ast.RangeStmt:
			if a.Key != nil {
				lhs = append(lhs, a.Key)
			}
			if a.Value != nil {
				lhs = append(lhs, a.Value)
			}
		}
		for i, l := range lhs {
			var r ast.Expr
			if len(rhs) == len(lhs) {
				r = rhs[i]
			}
			switch kind, k := m.slot(f, opt.B, opt.I, l); kind {
			case c10GapSlotChild:
				if r != nil && m.isNil(r) {
					s.clear[k], s.rel[k] = true, true
				} else {
					s.clear[k], s.rel[k], s.over[k], s.orel[k] = false, false, false, false
				}
			case c10GapSlotUnrec:
				res.unrec = true
				s.clear[1], s.clear[2], s.rel[1], s.rel[2] = false, false, false, false
				s.over[1], s.over[2], s.orel[1], s.orel[2] = false, false, false, false
			}
			o := an.ObjOf(m.info, l)
			if o == nil {
				continue
			}
			if o == opt.B || o == opt.I {
				s.clear[1], s.clear[2] = false, false
				s.rel[1], s.rel[2] = false, false
				s.over[1], s.over[2], s.orel[1], s.orel[2] = false, false, false, false
			}
			for k := 1; k <= 2; k++ {
				if o == opt.mirror[k] {
					s.rel[k] = s.clear[k]
					s.orel[k] = s.over[k] || s.clear[k]
				}
			}
		}
		if opt.loadStmt[n] {
			s.clear[1], s.clear[2] = false, false
			s.rel[1], s.rel[2] = opt.mirror[1] != nil, opt.mirror[2] != nil
			s.over[1], s.over[2], s.orel[1], s.orel[2] = false, false, false, false
		}
		if opt.loadStmt[n] {
			s.orel[1], s.orel[2] = opt.mirror[1] != nil, opt.mirror[2] != nil
		}
		for k := 1; k <= 2; k++ {
			if s.clear[k] {
				s.over[k] = true
			}
			if s.over[k] || s.rel[k] {
				s.orel[k] = true
			}
		}
		return s
	}
	if g.Entry != nil {
		res.in[g.Entry] = c10GapSt{}
	}
	for changed := true; changed; {
		changed = false
		for _, n := range g.Nodes {
			in := res.in[n]
			if n != g.Entry {
				in = c10GapSt{top: true}
				for _, p := range n.Preds {
					in = c10GapMeet(in, out[p])
				}
			}
			o := transfer(n, in)
			if in != res.in[n] || o != out[n] {
				res.in[n], out[n] = in, o
				changed = true
			}
		}
	}
	return res
}

// clearsOnExit: gf empties both child slots of (param pb, param pi) on every
// path to its normal exit (a helper extracted from a clearing site).
func (m *c10GapModel) clearsOnExit(gf *an.Func, pb, pi int) bool {
	if pb >= len(m.params[gf]) || pi >= len(m.params[gf]) || gf.Graph() == nil {
		return false
	}
	key := gf.Name() + "|" + itoa(pb) + "|" + itoa(pi)
	switch m.sumMem[key] {
	case 1, 3:
		return false
	case 2:
		return true
	}
	m.sumMem[key] = 1
	fl := m.flow(gf, c10GapFlowOpt{B: m.params[gf][pb], I: m.params[gf][pi]})
	st := fl.in[gf.Graph().Exit]
	ok := !st.top && st.clear[1] && st.clear[2]
	if ok {
		m.sumMem[key] = 2
	} else {
		m.sumMem[key] = 3
	}
	return ok
}

// writesBatch: gf (or a function it hands the parameter to) assigns an element
// of its parameter pb.
func (m *c10GapModel) writesBatch(gf *an.Func, pb int) bool {
	if pb >= len(m.params[gf]) || gf.Body == nil {
		return true
	}
	key := "w|" + gf.Name() + "|" + itoa(pb)
	switch m.sumMem[key] {
	case 1, 3:
		return false
	case 2:
		return true
	}
	m.sumMem[key] = 1
	po := m.params[gf][pb]
	w := false
	an.InspectShallow(gf.Body, func(n ast.Node) bool {
		switch x := n.(type) {
		case *ast.AssignStmt:
			for _, l := range x.Lhs {
				if ix, ok := ast.Unparen(l).(*ast.IndexExpr); ok && an.ObjOf(m.info, ix.X) == po {
					w = true
				}
			}
		case *ast.CallExpr:
			for i, a := range x.Args {
				if an.ObjOf(m.info, a) != po {
					continue
				}
				if g2 := m.calleeOf(x); g2 != nil {
					if m.writesBatch(g2, i) {
						w = true
					}
				} else if an.IsBuiltin(m.info, x, "copy") && i == 0 {
					w = true
				} else if an.Callee(m.info, x) == nil && !an.IsBuiltin(m.info, x, "len") && !an.IsBuiltin(m.info, x, "cap") {
					w = true // a call through a function value: unknown
				}
			}
		}
		return true
	})
	if w {
		m.sumMem[key] = 2
	} else {
		m.sumMem[key] = 3
	}
	return w
}

// flowFor: the data flow of f for its own node.
func (m *c10GapModel) flowFor(f *an.Func, co *c10GapCoord) *c10GapFlow {
	opt := c10GapFlowOpt{B: co.B, I: co.I, H: co.H, loadStmt: map[*an.Node]bool{}}
	for _, ld := range m.loads[f] {
		if ld.resB == co.B && ld.resI == co.I {
			opt.mirror[1], opt.mirror[2] = ld.resL, ld.resR
			opt.shortcut = ld.resS
			opt.loadStmt[ld.site.Node] = true
		}
	}
	return m.flow(f, opt)
}

// ---------------------------------------------------------------------------
// results sent on the channel

type c10GapSend struct {
	node   *an.Node
	stmt   *ast.SendStmt
	fields [3]ast.Expr // by field index of mresult; nil = omitted
	lit    bool
}

func (m *c10GapModel) sends(f *an.Func) []c10GapSend {
	var out []c10GapSend
	g := f.Graph()
	if g == nil {
		return nil
	}
	for _, n := range g.Nodes {
		ss, ok := n.Ast.(*ast.SendStmt)
		if n.Kind != an.KStmt || !ok {
			continue
		}
		tv, ok := m.info.Types[ss.Value]
		if !ok || !types.Identical(tv.Type, m.mres) {
			continue
		}
		s := c10GapSend{node: n, stmt: ss}
		if cl, isLit := ast.Unparen(ss.Value).(*ast.CompositeLit); isLit {
			s.lit = true
			st := m.mres.Underlying().(*types.Struct)
			for i, el := range cl.Elts {
				if kv, isKV := el.(*ast.KeyValueExpr); isKV {
					if id, isId := kv.Key.(*ast.Ident); isId {
						for j := 0; j < st.NumFields(); j++ {
							if st.Field(j).Name() == id.Name {
								s.fields[j] = kv.Value
							}
						}
					}
				} else if i < 3 {
					s.fields[i] = el
				}
			}
		}
		out = append(out, s)
	}
	return out
}

func (m *c10GapModel) nilField(e ast.Expr) bool { return e == nil || m.isNil(e) }

// ---------------------------------------------------------------------------
// empty-clears-slots

func c10GapSlots(c *rep.Ctx) {
	m := c10GapBuild(c, true)
	if m == nil {
		return
	}
	const rule = "empty-clears-slots"
	c.Note("gap rules (c10_gap.go) decide the slot discipline of the node batches; still not decided: that keys and values are split at the same index and travel together (updateParallel), the order of the two results of splitKeys, which keys maybeAddShortcutToKV merges beyond merge-once, and the removal of replaced batches from updatedNodes/liveCache (deleteOldNode sites: with one Update per commit and the live cache off they only decide what garbage is written)")
	for _, f := range m.funcs {
		ord := 0
		var fl *c10GapFlow
		for _, s := range m.sends(f) {
			if !s.lit {
				c.Undecide(rule, f.Name(), "a result is sent that is not a composite literal: cannot tell whether it reports an empty subtree")
				continue
			}
			if !m.nilField(s.fields[m.iU]) || !m.nilField(s.fields[m.iE]) {
				continue
			}
			ord++
			key := f.Name() + "|empty#" + itoa(ord)
			co := m.coordOf(f)
			if co == nil {
				c.Undecide(rule, key, "cannot identify the batch and index variables of the node this function works on")
				continue
			}
			if fl == nil {
				fl = m.flowFor(f, co)
			}
			st := fl.in[s.node]
			ok := st.top || (st.clear[1] && st.clear[2])
			if !ok && fl.unrec {
				c.Undecide(rule, key, "the batch is written through an index expression that is not of the form 2*i+k")
				continue
			}
			c.Check(rule, key, s.stmt.Pos(), ok, "on every path to a result that reports the subtree empty, both child slots of the node are empty: set to nil (directly or by a helper), seen empty through the values loadChildren returned, or the node is a batch root / a leaf; a slot left filled below an empty node is followed by the next update that enters the node and deleted keys reappear")
		}
	}
	c.Floor(rule, 3)
}

// ---------------------------------------------------------------------------
// moveup-vacates

// c10GapMovers: functions that load a shortcut from a child index J (a
// parameter other than the own index) of their own batch.
type c10GapMover struct {
	f  *an.Func
	co *c10GapCoord
	ld c10GapLoad
}

func (m *c10GapModel) movers() []c10GapMover {
	var out []c10GapMover
	for _, f := range m.funcs {
		co := m.coordOf(f)
		if co == nil {
			continue
		}
		for _, ld := range m.loads[f] {
			if ld.argB == co.B && ld.argI != nil && ld.argI != co.I && m.paramIndex(f, ld.argI) >= 0 && ld.resB == nil && ld.resI == nil {
				out = append(out, c10GapMover{f, co, ld})
			}
		}
	}
	return out
}

func c10GapMoveUp(c *rep.Ctx) {
	m := c10GapGet(c)
	if m == nil {
		return
	}
	const rule = "moveup-vacates"
	for _, mv := range m.movers() {
		f, g := mv.f, mv.f.Graph()
		hl, okH := m.lin(f, mv.ld.argH, 0)
		opt := c10GapFlowOpt{B: mv.co.B, I: mv.ld.argI}
		if okH {
			opt.childLin = &hl
		}
		fl := m.flow(f, opt)
		ord := 0
		for _, s := range m.sends(f) {
			if !s.lit || m.nilField(s.fields[m.iU]) || !m.nilField(s.fields[m.iE]) {
				continue
			}
			ord++
			key := f.Name() + "|moved#" + itoa(ord)
			st := fl.in[s.node]
			ok := st.top || (st.clear[1] && st.clear[2])
			if !ok && fl.unrec {
				c.Undecide(rule, key+"|old-slots", "the batch is written through an index expression that is not of the form 2*i+k")
			} else {
				c.Check(rule, key+"|old-slots", s.stmt.Pos(), ok, "on every path to the result of a shortcut move, the two slots the shortcut occupied below its old index are set to nil, or the old position is the root of another batch (the height handed to loadChildren is a multiple of 4): otherwise key and value stay behind below an empty node and are taken for child hashes by the next update")
			}
			// new location: key into slot 1, value into slot 2 of the own node
			good := true
			for k, src := range map[int]types.Object{1: mv.ld.resL, 2: mv.ld.resR} {
				gates := an.Set{}
				for _, n := range g.Nodes {
					as, isAs := n.Ast.(*ast.AssignStmt)
					if n.Kind != an.KStmt || !isAs || len(as.Lhs) != len(as.Rhs) {
						continue
					}
					for i, l := range as.Lhs {
						if kind, kk := m.slot(f, mv.co.B, mv.co.I, l); kind == c10GapSlotChild && kk == k {
							if src != nil && an.ObjOf(m.info, as.Rhs[i]) == src {
								gates[n] = true
							} else {
								good = false
							}
						}
					}
				}
				if len(gates) == 0 || !g.Dominated(s.node, gates) {
					good = false
				}
			}
			c.Check(rule, key+"|new-slots", s.stmt.Pos(), good, "on every path to the result of a shortcut move, slot 2i+1 of the node received the key and slot 2i+2 the value that loadChildren returned for the shortcut (and nothing else is written there)")
		}
	}
	c.Floor(rule, 2)
}

// ---------------------------------------------------------------------------
// root-stored

func c10GapRootStored(c *rep.Ctx) {
	m := c10GapGet(c)
	if m == nil {
		return
	}
	const rule = "root-stored"
	hashField := m.p.LookupField(c10TriePkg, "Trie", "hash")
	if hashField == nil {
		c.Undecide(rule, "pkg/trie.Trie.hash", "field not found")
		return
	}
	for _, f := range m.funcs {
		co := m.coordOf(f)
		g := f.Graph()
		if co == nil || g == nil {
			continue
		}
		// variables holding a freshly computed node hash
		hv := map[types.Object]bool{}
		for _, s := range g.Calls(func(_ *types.Func, call *ast.CallExpr) bool { return c10HashCall(m.info, call, hashField) }) {
			if o := g.ResultVarAt(s, 0); o != nil {
				hv[o] = true
			}
		}
		if len(hv) == 0 {
			continue
		}
		// edges on which the node is known not to be a batch root, and the stores
		notRoot := an.Set{}
		for _, n := range g.Nodes {
			if m.edgeFact(n, func(e ast.Expr) (an.NodeKind, bool) { return m.equalsEdge(e, m.isObj(co.I), 0) }, false) {
				notRoot[n] = true
			}
			if co.H != nil && m.edgeFact(n, func(e ast.Expr) (an.NodeKind, bool) {
				x, k, ok := m.modEdge(e)
				if !ok || an.ObjOf(m.info, x) != co.H {
					return 0, false
				}
				return k, true
			}, false) {
				notRoot[n] = true
			}
		}
		type exit struct {
			node *an.Node
			h    types.Object
			pos  token.Pos
		}
		var exits []exit
		for _, r := range g.Returns() {
			for _, e := range r.Ast.(*ast.ReturnStmt).Results {
				if o := c10RootObj(m.info, e); o != nil && hv[o] {
					exits = append(exits, exit{r, o, r.Ast.Pos()})
				}
			}
		}
		for _, s := range m.sends(f) {
			if s.lit && s.fields[m.iU] != nil {
				if o := c10RootObj(m.info, s.fields[m.iU]); o != nil && hv[o] {
					exits = append(exits, exit{s.node, o, s.stmt.Pos()})
				}
			}
		}
		for i, x := range exits {
			gates := an.Set{}
			for n := range notRoot {
				gates[n] = true
			}
			for _, s := range g.CallsTo("pkg/trie.(*Trie).storeNode") {
				if len(s.Call.Args) >= 2 && an.ObjOf(m.info, s.Call.Args[0]) == co.B && an.ObjOf(m.info, s.Call.Args[1]) == x.h {
					gates[s.Node] = true
				}
			}
			key := f.Name() + "|" + x.h.Name()
			if i > 0 {
				key = f.Name() + "|hash#" + itoa(i+1)
			} else {
				key = f.Name() + "|hash"
			}
			c.Check(rule, key, x.pos, g.Dominated(x.node, gates), "a freshly computed node hash is handed back only after the batch was stored under it (storeNode with the node's batch and that hash), unless the node is known not to be a batch root (index != 0 / height%4 != 0): a batch root that is not stored cannot be loaded by the parent batch, by Get, or after a commit")
		}
	}
	c.Floor(rule, 3)
}

// ---------------------------------------------------------------------------
// batch-flag

func c10GapBatchFlag(c *rep.Ctx) {
	m := c10GapGet(c)
	if m == nil {
		return
	}
	const rule = "batch-flag"
	for _, f := range m.funcs {
		g := f.Graph()
		if g == nil {
			continue
		}
		for i, s := range g.CallsTo("pkg/trie.(*Trie).storeNode") {
			key := f.Name() + "|storeNode"
			if i > 0 {
				key += "#" + itoa(i+1)
			}
			if len(s.Call.Args) < 2 {
				continue
			}
			bobj := an.ObjOf(m.info, s.Call.Args[0])
			hobj := an.ObjOf(m.info, s.Call.Args[1])
			if bobj == nil || hobj == nil {
				c.Undecide(rule, key, "storeNode is not called with plain variables")
				continue
			}
			// flag appended to the hash: h = append(h, byte(K)), one constant
			flag, nFlag := int64(-1), 0
			flagOK := true
			an.InspectShallow(f.Body, func(n ast.Node) bool {
				as, ok := n.(*ast.AssignStmt)
				if !ok || len(as.Lhs) != len(as.Rhs) {
					return true
				}
				for j, l := range as.Lhs {
					if an.ObjOf(m.info, l) != hobj {
						continue
					}
					call, isCall := ast.Unparen(as.Rhs[j]).(*ast.CallExpr)
					if !isCall || !an.IsBuiltin(m.info, call, "append") || len(call.Args) != 2 || an.ObjOf(m.info, call.Args[0]) != hobj {
						continue
					}
					v, isC := c10GapConst(m.info, call.Args[1])
					if !isC {
						flagOK = false
						continue
					}
					if nFlag > 0 && v != flag {
						flagOK = false
					}
					flag = v
					nFlag++
				}
				return true
			})
			if nFlag == 0 || !flagOK {
				c.Undecide(rule, key, "cannot find the constant flag byte appended to the stored hash")
				continue
			}
			gates := an.Set{}
			allSame := true
			for _, n := range g.Nodes {
				as, ok := n.Ast.(*ast.AssignStmt)
				if n.Kind != an.KStmt || !ok || len(as.Lhs) != len(as.Rhs) {
					continue
				}
				for j, l := range as.Lhs {
					ix, isIx := ast.Unparen(l).(*ast.IndexExpr)
					if !isIx || an.ObjOf(m.info, ix.X) != bobj {
						continue
					}
					if v, isC := c10GapConst(m.info, ix.Index); !isC || v != 0 {
						continue
					}
					rhs := ast.Unparen(as.Rhs[j])
					if o := an.ObjOf(m.info, rhs); o != nil && m.paramIndex(f, o) < 0 {
						if d, idx := g.SingleDef(o); d != nil && idx == 0 {
							rhs = ast.Unparen(d)
						}
					}
					cl, isLit := rhs.(*ast.CompositeLit)
					if !isLit || len(cl.Elts) != 1 {
						allSame = false
						continue
					}
					if v, isC := c10GapConst(m.info, cl.Elts[0]); isC && v == flag {
						gates[n] = true
					} else {
						allSame = false
					}
				}
			}
			ok := allSame && len(gates) > 0 && g.Dominated(s.Node, gates)
			c.Check(rule, key, s.Call.Pos(), ok, "slot 0 of the stored batch is set, on every path to storeNode, to the same flag ("+itoa(int(flag))+") that is appended to the hash it is stored under: loadChildren, serializeBatch and the parent batch must agree on whether the batch root is a shortcut, otherwise key and value are read as child hashes (or children as key and value) after the next load")
		}
	}
	c.Floor(rule, 2)
}

// ---------------------------------------------------------------------------
// leaf-site

func c10GapLeafSite(c *rep.Ctx) {
	m := c10GapGet(c)
	if m == nil {
		return
	}
	const rule = "leaf-site"
	leaf := m.p.Func("pkg/trie.(*Trie).leafHash")
	if leaf == nil || m.coordOf(leaf) == nil {
		c.Undecide(rule, "pkg/trie.(*Trie).leafHash", "function or its batch/index parameters not found")
		return
	}
	lc := m.coordOf(leaf)
	pb, pi := m.paramIndex(leaf, lc.B), m.paramIndex(leaf, lc.I)
	for _, f := range m.funcs {
		g := f.Graph()
		if g == nil {
			continue
		}
		var fl *c10GapFlow
		for n, s := range g.CallsTo("pkg/trie.(*Trie).leafHash") {
			key := f.Name() + "|leafHash#" + itoa(n+1)
			if pb >= len(s.Call.Args) || pi >= len(s.Call.Args) {
				continue
			}
			bo := an.ObjOf(m.info, s.Call.Args[pb])
			co := m.coordOf(f)
			iv, iConst := c10GapConst(m.info, s.Call.Args[pi])
			switch {
			case bo != nil && co != nil && bo == co.B && an.ObjOf(m.info, s.Call.Args[pi]) == co.I:
				if fl == nil {
					fl = m.flowFor(f, co)
				}
				st := fl.in[s.Node]
				ok := st.top || (st.over[1] && st.over[2])
				if !ok && fl.unrec {
					c.Undecide(rule, key, "the batch is written through an index expression that is not of the form 2*i+k")
					break
				}
				c.Check(rule, key+"|empty-node", s.Call.Pos(), ok, "a shortcut is written over the node only on paths where each of its child slots is known to be empty (cleared, or seen empty through the values loadChildren returned) or to hold key and value of the shortcut that loadChildren reported: otherwise the subtree below is dropped from the trie")
				// exactly one key left
				var keys types.Object
				for _, a := range s.Call.Args {
					if ix, isIx := ast.Unparen(a).(*ast.IndexExpr); isIx {
						if v, isC := c10GapConst(m.info, ix.Index); isC && v == 0 {
							keys = an.ObjOf(m.info, ix.X)
							break
						}
					}
				}
				if keys == nil {
					c.Undecide(rule, key+"|one-key", "the key handed to leafHash is not the first element of a key list")
					break
				}
				one := an.Set{}
				for _, nd := range g.Nodes {
					if m.edgeFact(nd, func(e ast.Expr) (an.NodeKind, bool) { return m.equalsEdge(e, m.isLenOf(keys), 1) }, true) {
						one[nd] = true
					}
				}
				c.Check(rule, key+"|one-key", s.Call.Pos(), len(one) > 0 && g.Dominated(s.Node, one), "the shortcut is written for the first key only where the key list is known to have exactly one element: otherwise the other keys of the batch are lost")
			case bo != nil && iConst && iv == 0:
				// a batch of its own: made in this function, untouched until the call
				gates := an.Set{}
				for _, nd := range g.Nodes {
					as, isAs := nd.Ast.(*ast.AssignStmt)
					if nd.Kind != an.KStmt || !isAs || len(as.Lhs) != len(as.Rhs) {
						continue
					}
					for j, l := range as.Lhs {
						if an.ObjOf(m.info, l) != bo {
							continue
						}
						if mk, isCall := ast.Unparen(as.Rhs[j]).(*ast.CallExpr); isCall && an.IsBuiltin(m.info, mk, "make") {
							gates[nd] = true
						}
					}
				}
				ok := len(gates) > 0 && g.Dominated(s.Node, gates)
				for gn := range gates {
					for nd := range g.Between(gn, s.Node) {
						if nd.Kind == an.KStmt && nd.Ast != nil && m.touchesBatch(nd.Ast, bo) {
							ok = false
						}
					}
				}
				c.Check(rule, key+"|own-batch", s.Call.Pos(), ok, "a leaf written at index 0 gets a batch made for it in the same function (make, nothing written in between): index 0 of the batch handed in by the caller is the root of the parent's batch")
			default:
				c.Undecide(rule, key, "leafHash is called neither for the node of the function nor for index 0 of a new batch")
			}
		}
	}
	c.Floor(rule, 2)
}

// touchesBatch: the statement assigns bo, one of its elements, or hands it to a call.
func (m *c10GapModel) touchesBatch(a ast.Node, bo types.Object) bool {
	hit := false
	an.InspectShallow(a, func(n ast.Node) bool {
		switch x := n.(type) {
		case *ast.AssignStmt:
			for _, l := range x.Lhs {
				if an.ObjOf(m.info, l) == bo {
					hit = true
				}
				if ix, ok := ast.Unparen(l).(*ast.IndexExpr); ok && an.ObjOf(m.info, ix.X) == bo {
					hit = true
				}
			}
		case *ast.CallExpr:
			for _, arg := range x.Args {
				if an.ObjOf(m.info, arg) == bo {
					hit = true
				}
			}
		}
		return true
	})
	return hit
}

// ---------------------------------------------------------------------------
// side / shortcut-kv / moveup-guard

type c10GapRoles struct {
	m       *c10GapModel
	src     map[*an.Func]map[types.Object]int // locals bound to a child slot (loadChildren results 2, 3)
	res     map[*an.Func]map[types.Object]int // locals received from the channel of a child update
	param   map[*an.Func]map[int]int          // parameter position -> side
	clash   map[*an.Func]map[int]bool
	updateF *types.Var
}

// aliasParam: e is a parameter of f, or a once-defined local that stands for one.
func (m *c10GapModel) aliasParam(f *an.Func, e ast.Expr, depth int) int {
	o := an.ObjOf(m.info, ast.Unparen(e))
	if o == nil {
		return -1
	}
	if i := m.paramIndex(f, o); i >= 0 {
		return i
	}
	if g := f.Graph(); g != nil && depth < 3 {
		if rhs, idx := g.SingleDef(o); rhs != nil && idx == 0 {
			if _, isId := ast.Unparen(rhs).(*ast.Ident); isId {
				return m.aliasParam(f, rhs, depth+1)
			}
		}
	}
	return -1
}

// childOf: e is 2*I+k for an index variable I of a node of f.
func (m *c10GapModel) childOf(f *an.Func, e ast.Expr) (int, bool) {
	o, k, ok := m.childIndex(f, e)
	if !ok {
		return 0, false
	}
	for _, co := range m.coords[f] {
		if co.I == o {
			return k, true
		}
	}
	return 0, false
}

func (r *c10GapRoles) roleOf(f *an.Func, e ast.Expr) int {
	m := r.m
	e = ast.Unparen(e)
	if o := an.ObjOf(m.info, e); o != nil {
		if k := r.src[f][o]; k != 0 {
			return k
		}
		if i := m.paramIndex(f, o); i >= 0 {
			if r.clash[f][i] {
				return 0
			}
			return r.param[f][i]
		}
		// a once-defined local standing for another value
		if g := f.Graph(); g != nil {
			if rhs, idx := g.SingleDef(o); rhs != nil && idx == 0 && ast.Unparen(rhs) != e {
				if _, isId := ast.Unparen(rhs).(*ast.Ident); isId {
					return r.roleOf(f, rhs)
				}
				if _, isSel := ast.Unparen(rhs).(*ast.SelectorExpr); isSel {
					return r.roleOf(f, rhs)
				}
			}
		}
		return 0
	}
	if sel, ok := e.(*ast.SelectorExpr); ok && an.FieldOf(m.info, sel) == r.updateF && r.updateF != nil {
		if o := an.ObjOf(m.info, sel.X); o != nil {
			return r.res[f][o]
		}
	}
	return 0
}

func (m *c10GapModel) roles() *c10GapRoles {
	r := &c10GapRoles{m: m, src: map[*an.Func]map[types.Object]int{}, res: map[*an.Func]map[types.Object]int{},
		param: map[*an.Func]map[int]int{}, clash: map[*an.Func]map[int]bool{}}
	r.updateF = m.mres.Underlying().(*types.Struct).Field(m.iU)
	for _, f := range m.funcs {
		r.src[f], r.res[f], r.param[f], r.clash[f] = map[types.Object]int{}, map[types.Object]int{}, map[int]int{}, map[int]bool{}
		for _, ld := range m.loads[f] {
			if ld.resL != nil {
				r.src[f][ld.resL] = 1
			}
			if ld.resR != nil {
				r.src[f][ld.resR] = 2
			}
		}
		// channels handed to a child update, and the locals that receive from them
		chanSide := map[types.Object]int{}
		for _, call := range m.callsOf(f) {
			gf := m.calleeOf(call)
			if gf == nil {
				continue
			}
			for _, pr := range m.pairs[gf] {
				if pr[1] >= len(call.Args) {
					continue
				}
				k, ok := m.childOf(f, call.Args[pr[1]])
				if !ok {
					continue
				}
				for _, a := range call.Args {
					if o := an.ObjOf(m.info, a); o != nil {
						if _, isChan := o.Type().Underlying().(*types.Chan); isChan {
							if old := chanSide[o]; old != 0 && old != k {
								chanSide[o] = -1
							} else {
								chanSide[o] = k
							}
						}
					}
				}
			}
		}
		if f.Body != nil {
			an.InspectShallow(f.Body, func(n ast.Node) bool {
				as, ok := n.(*ast.AssignStmt)
				if !ok || len(as.Lhs) != len(as.Rhs) {
					return true
				}
				for i, rh := range as.Rhs {
					u, isU := ast.Unparen(rh).(*ast.UnaryExpr)
					if !isU || u.Op != token.ARROW {
						continue
					}
					if k := chanSide[an.ObjOf(m.info, u.X)]; k > 0 {
						if o := an.ObjOf(m.info, as.Lhs[i]); o != nil {
							r.res[f][o] = k
						}
					}
				}
				return true
			})
		}
	}
	// parameter sides from what the body does with the parameter
	note := func(f *an.Func, e ast.Expr, k int) bool {
		i := m.aliasParam(f, e, 0)
		if i < 0 || k == 0 {
			return false
		}
		if old := r.param[f][i]; old != 0 && old != k {
			if !r.clash[f][i] {
				r.clash[f][i] = true
				return true
			}
			return false
		} else if old == 0 {
			r.param[f][i] = k
			return true
		}
		return false
	}
	for changed := true; changed; {
		changed = false
		for _, f := range m.funcs {
			if f.Body == nil {
				continue
			}
			an.InspectShallow(f.Body, func(n ast.Node) bool {
				switch x := n.(type) {
				case *ast.AssignStmt:
					if len(x.Lhs) != len(x.Rhs) {
						return true
					}
					for i, l := range x.Lhs {
						for _, co := range m.coords[f] {
							if kind, k := m.slot(f, co.B, co.I, l); kind == c10GapSlotChild && note(f, x.Rhs[i], k) {
								changed = true
							}
						}
					}
				case *ast.CallExpr:
					gf := m.calleeOf(x)
					if gf == nil {
						return true
					}
					for pos, k := range r.param[gf] {
						if pos < len(x.Args) && !r.clash[gf][pos] && note(f, x.Args[pos], k) {
							changed = true
						}
					}
					for _, pr := range m.pairs[gf] {
						if pr[0] < len(x.Args) && pr[1] < len(x.Args) {
							if k, ok := m.childOf(f, x.Args[pr[1]]); ok && note(f, x.Args[pr[0]], k) {
								changed = true
							}
						}
					}
				}
				return true
			})
		}
	}
	return r
}

func c10GapSide(c *rep.Ctx) {
	m := c10GapGet(c)
	if m == nil {
		return
	}
	const rule = "side"
	r := m.roles()
	const why = "left is slot 2i+1 and right is slot 2i+2 of the node, for the value read from the slot, the index handed to the child update, the result received from it and the position it is hashed and stored at: a value that changes sides is hashed on the wrong side or overwrites its sibling"
	// loadChildren returns (batch, i, batch[2i+1], batch[2i+2], ...)
	{
		f, g := m.loadFn, m.loadFn.Graph()
		n := 0
		for _, rt := range g.Returns() {
			rs := rt.Ast.(*ast.ReturnStmt)
			if len(rs.Results) != 6 || !m.isNil(rs.Results[5]) {
				continue
			}
			n++
			B, I := an.ObjOf(m.info, rs.Results[0]), an.ObjOf(m.info, rs.Results[1])
			k1, s1 := m.slot(f, B, I, rs.Results[2])
			k2, s2 := m.slot(f, B, I, rs.Results[3])
			ok := B != nil && I != nil && k1 == c10GapSlotChild && s1 == 1 && k2 == c10GapSlotChild && s2 == 2
			c.Check(rule, f.Name()+"|results", rs.Pos(), ok, "loadChildren returns slot 2i+1 as the left and slot 2i+2 as the right child of the batch and index it returns")
		}
		if n == 0 {
			c.Undecide(rule, f.Name(), "no successful return found")
		}
	}
	var fnames []*an.Func
	fnames = append(fnames, m.funcs...)
	sort.Slice(fnames, func(i, j int) bool { return fnames[i].Name() < fnames[j].Name() })
	for _, f := range fnames {
		g := f.Graph()
		if g == nil {
			continue
		}
		for i := range r.clash[f] {
			c.Check(rule, f.Name()+"|param#"+itoa(i), f.Pos(), false, "a parameter is used as the left child in one place and as the right child in another; "+why)
		}
		nCall := map[string]int{}
		for _, call := range m.callsOf(f) {
			gf := m.calleeOf(call)
			if gf == nil {
				continue
			}
			good, checked, undec := true, false, false
			for pos, k := range r.param[gf] {
				if pos >= len(call.Args) || r.clash[gf][pos] {
					continue
				}
				if have := r.roleOf(f, call.Args[pos]); have != 0 {
					checked = true
					if have != k {
						good = false
					}
				}
			}
			for _, pr := range m.pairs[gf] {
				if pr[0] >= len(call.Args) || pr[1] >= len(call.Args) {
					continue
				}
				k, ok := m.childOf(f, call.Args[pr[1]])
				if !ok {
					continue
				}
				checked = true
				have := r.roleOf(f, call.Args[pr[0]])
				switch {
				case have == 0 && m.isNil(call.Args[pr[0]]):
				case have == 0 && r.clash[f][m.paramIndex(f, an.ObjOf(m.info, call.Args[pr[0]]))]:
					good = false
				case have == 0:
					undec = true
				case have != k:
					good = false
				}
			}
			if !checked {
				continue
			}
			nCall[gf.Name()]++
			key := f.Name() + "|" + shortName(gf.Name())
			if nCall[gf.Name()] > 1 {
				key += "#" + itoa(nCall[gf.Name()])
			}
			if undec && good {
				c.Undecide(rule, key, "a child index 2*i+k is handed on with a node value whose origin (which slot it was read from) is not recognised")
				continue
			}
			c.Check(rule, key, call.Pos(), good, why)
		}
		// values of known side written into a slot of the own node
		for _, nd := range g.Nodes {
			as, ok := nd.Ast.(*ast.AssignStmt)
			if nd.Kind != an.KStmt || !ok || len(as.Lhs) != len(as.Rhs) {
				continue
			}
			for i, l := range as.Lhs {
				for _, co := range m.coords[f] {
					if kind, k := m.slot(f, co.B, co.I, l); kind == c10GapSlotChild {
						if o := an.ObjOf(m.info, as.Rhs[i]); o != nil && m.paramIndex(f, o) < 0 {
							if have := r.roleOf(f, as.Rhs[i]); have != 0 {
								c.Check(rule, f.Name()+"|slot-write:"+[]string{"", "left", "right"}[k], as.Pos(), have == k, why)
							}
						}
					}
				}
			}
		}
	}
	c.Floor(rule, 10)

	// shortcut-kv: on the shortcut edge the two returned values are key and value
	const rule2 = "shortcut-kv"
	for _, f := range fnames {
		g := f.Graph()
		if g == nil {
			continue
		}
		for li, ld := range m.loads[f] {
			if ld.resS == nil || (ld.resL == nil && ld.resR == nil) || ld.resB == nil {
				continue
			}
			// edges on which the shortcut flag is known true
			isS := an.Set{}
			for _, nd := range g.Nodes {
				if m.edgeFact(nd, func(e ast.Expr) (an.NodeKind, bool) {
					if an.ObjOf(m.info, e) == ld.resS {
						return an.KTrue, true
					}
					return 0, false
				}, true) {
					isS[nd] = true
				}
			}
			key := f.Name() + "|load#" + itoa(li+1)
			if len(isS) == 0 {
				// the flag is never tested on its own: nothing to decide here
				continue
			}
			bad := false
			var badPos token.Pos
			for _, v := range []types.Object{ld.resL, ld.resR} {
				if v == nil {
					continue
				}
				avoid := an.Set{}
				for _, nd := range g.Nodes {
					if nd.Kind == an.KStmt && nd.Ast != nil && an.Assigns(m.info, nd.Ast, v) {
						avoid[nd] = true
					}
				}
				var from []*an.Node
				for nd := range isS {
					from = append(from, nd)
				}
				for nd := range g.Reach(from, avoid) {
					if nd.Kind != an.KStmt || nd.Ast == nil {
						continue
					}
					if m.usesAsNode(f, r, nd.Ast, v) {
						bad = true
						badPos = nd.Ast.Pos()
					}
				}
			}
			pos := ld.site.Call.Pos()
			if bad {
				pos = badPos
			}
			c.Check(rule2, key, pos, !bad, "on the edge where loadChildren reported a shortcut, the two values it returned are the key and the value of the shortcut: before they are reassigned they are not handed to a child update, a hash of two children or a slot as if they were child nodes")
		}
	}
	c.Floor(rule2, 3)

	// moveup-guard
	const rule3 = "moveup-guard"
	for _, mv := range m.movers() {
		ps, pj := m.paramIndex(mv.f, mv.ld.argRoot), m.paramIndex(mv.f, mv.ld.argI)
		if ps < 0 || pj < 0 {
			c.Undecide(rule3, mv.f.Name(), "the shortcut and its index are not parameters of the moving function")
			continue
		}
		for _, f := range fnames {
			g := f.Graph()
			if g == nil {
				continue
			}
			for n, s := range g.CallsTo(mv.f.Name()) {
				key := f.Name() + "|" + shortName(mv.f.Name()) + "#" + itoa(n+1)
				if ps >= len(s.Call.Args) || pj >= len(s.Call.Args) {
					continue
				}
				so := an.ObjOf(m.info, s.Call.Args[ps])
				k, ok := m.childOf(f, s.Call.Args[pj])
				if so == nil || !ok {
					c.Undecide(rule3, key, "the moved node is not a plain variable or its index is not 2*i+k of the own node")
					continue
				}
				// flag byte 1
				flag := an.Set{}
				for _, nd := range g.Nodes {
					if m.edgeFact(nd, func(e ast.Expr) (an.NodeKind, bool) {
						return m.equalsEdge(e, func(x ast.Expr) bool {
							ix, isIx := x.(*ast.IndexExpr)
							if !isIx || an.ObjOf(m.info, ix.X) != so {
								return false
							}
							v, isC := c10GapConst(m.info, ix.Index)
							return isC && v == 32
						}, 1)
					}, true) {
						flag[nd] = true
					}
				}
				c.Check(rule3, key+"|is-shortcut", s.Call.Pos(), len(flag) > 0 && g.Dominated(s.Node, flag), "a node is moved up only where its flag byte (index HashLength) is known to be 1: an interior node is not a key/value pair")
				// sibling empty
				sib := an.Set{}
				nSib := 0
				cands := map[types.Object]bool{}
				for o, kk := range r.src[f] {
					if kk == 3-k {
						cands[o] = true
					}
				}
				for i, kk := range r.param[f] {
					if kk == 3-k && !r.clash[f][i] {
						cands[m.params[f][i]] = true
					}
				}
				for o := range cands {
					nSib++
					for nd := range m.emptyEdges(g, o) {
						sib[nd] = true
					}
				}
				if nSib == 0 {
					c.Undecide(rule3, key+"|sibling-empty", "the sibling of the moved node is not identified")
					continue
				}
				c.Check(rule3, key+"|sibling-empty", s.Call.Pos(), len(sib) > 0 && g.Dominated(s.Node, sib), "a shortcut is moved up only where the other child of the node is known to be empty: otherwise the sibling subtree is overwritten by key and value")
			}
		}
	}
	c.Floor(rule3, 2)
}

// usesAsNode: the statement hands v on as a child node (child update, a
// parameter with a side, a child slot of the own node).
func (m *c10GapModel) usesAsNode(f *an.Func, r *c10GapRoles, a ast.Node, v types.Object) bool {
	hit := false
	an.InspectShallow(a, func(n ast.Node) bool {
		switch x := n.(type) {
		case *ast.AssignStmt:
			if len(x.Lhs) != len(x.Rhs) {
				return true
			}
			for i, l := range x.Lhs {
				for _, co := range m.coords[f] {
					if kind, _ := m.slot(f, co.B, co.I, l); kind == c10GapSlotChild && an.ObjOf(m.info, x.Rhs[i]) == v {
						hit = true
					}
				}
			}
		case *ast.CallExpr:
			gf := m.calleeOf(x)
			if gf == nil {
				return true
			}
			for pos := range r.param[gf] {
				if pos < len(x.Args) && an.ObjOf(m.info, x.Args[pos]) == v {
					hit = true
				}
			}
			for _, pr := range m.pairs[gf] {
				if pr[0] < len(x.Args) && pr[1] < len(x.Args) && an.ObjOf(m.info, x.Args[pr[0]]) == v {
					if _, ok := m.childOf(f, x.Args[pr[1]]); ok {
						hit = true
					}
				}
			}
		}
		return true
	})
	return hit
}

// ---------------------------------------------------------------------------
// store-replace

func c10GapStoreReplace(c *rep.Ctx) {
	m := c10GapGet(c)
	if m == nil {
		return
	}
	const rule = "store-replace"
	upd := m.p.LookupField(c10TriePkg, "CacheDB", "updatedNodes")
	if upd == nil {
		c.Undecide(rule, "pkg/trie.CacheDB.updatedNodes", "field not found")
		return
	}
	for _, f := range m.funcs {
		g := f.Graph()
		if g == nil {
			continue
		}
		// insertions into updatedNodes, with the hash parameter the key is copied from
		var ins []*an.Node
		for _, n := range g.Nodes {
			as, ok := n.Ast.(*ast.AssignStmt)
			if n.Kind != an.KStmt || !ok {
				continue
			}
			for _, l := range as.Lhs {
				if ix, isIx := ast.Unparen(l).(*ast.IndexExpr); isIx && an.FieldOf(m.info, ix.X) == upd {
					ins = append(ins, n)
				}
			}
		}
		dels := g.CallsTo("pkg/trie.(*Trie).deleteOldNode")
		if len(ins) == 0 || len(dels) == 0 {
			continue
		}
		for i, d := range dels {
			key := f.Name() + "|deleteOldNode"
			if i > 0 {
				key += "#" + itoa(i+1)
			}
			var old types.Object
			if len(d.Call.Args) > 0 {
				old = an.ObjOf(m.info, d.Call.Args[0])
			}
			if old == nil || m.paramIndex(f, old) < 0 {
				c.Undecide(rule, key, "the replaced node is not a parameter")
				continue
			}
			// edges on which the new hash differs from the old one
			differ := an.Set{}
			for _, eq := range g.CallsTo("bytes.Equal") {
				if len(eq.Call.Args) != 2 {
					continue
				}
				a, b := c10RootObj(m.info, eq.Call.Args[0]), c10RootObj(m.info, eq.Call.Args[1])
				other := a
				if a == old {
					other = b
				} else if b != old {
					continue
				}
				if other == nil || other == old || m.paramIndex(f, other) < 0 {
					continue
				}
				for e := range g.BoolEdges(eq, false) {
					differ[e] = true
				}
			}
			ok := len(differ) > 0 && g.Dominated(d.Node, differ)
			if !ok {
				// or: the node is stored again after the removal on every path
				ok = g.PostDominated(d.Node, an.SetOf(ins...)) && !an.SetOf(ins...)[d.Node]
			}
			c.Check(rule, key, d.Call.Pos(), ok, "a function that records a batch under its hash removes the replaced node only where the new hash is known to differ from the old one (or records the batch after the removal): updating a key to the value it already has yields the same hash, and removing it would drop the node from the set that the commit writes")
		}
	}
	c.Floor(rule, 1)
}

// ---------------------------------------------------------------------------
// leaf-height

func c10GapLeafHeight(c *rep.Ctx) {
	m := c10GapGet(c)
	if m == nil {
		return
	}
	const rule = "leaf-height"
	hashField := m.p.LookupField(c10TriePkg, "Trie", "hash")
	if hashField == nil {
		c.Undecide(rule, "pkg/trie.Trie.hash", "field not found")
		return
	}
	// the byte mixed into a leaf hash: s.hash(k, v, []byte{byte(E)})
	heightOperand := func(call *ast.CallExpr) ast.Expr {
		if len(call.Args) != 3 {
			return nil
		}
		cl, ok := ast.Unparen(call.Args[2]).(*ast.CompositeLit)
		if !ok || len(cl.Elts) != 1 {
			return nil
		}
		return cl.Elts[0]
	}
	leafFns := map[*an.Func]bool{}
	for _, f := range m.funcs {
		g := f.Graph()
		if g == nil || len(m.coords[f]) == 0 {
			continue // the proof verifiers hash without a batch: C11
		}
		for i, s := range g.Calls(func(_ *types.Func, call *ast.CallExpr) bool {
			return c10HashCall(m.info, call, hashField) && len(call.Args) == 3
		}) {
			key := f.Name() + "|hash"
			if i > 0 {
				key += "#" + itoa(i+1)
			}
			e := heightOperand(s.Call)
			co := m.coordOf(f)
			if e == nil || co == nil || co.H == nil {
				c.Undecide(rule, key, "a three-operand hash whose third operand is not []byte{byte(height)} of the node's height variable")
				continue
			}
			leafFns[f] = true
			l, ok := m.lin(f, e, 0)
			c.Check(rule, key, s.Call.Pos(), ok && l.k == 0 && len(l.co) == 1 && l.co[co.H] == 1, "the byte mixed into a leaf hash is the height of the node whose two slots receive the key and the value (the height variable that travels with the batch and index of the node): a shortcut hashed with another height gives the same content a different root depending on how it got there")
		}
	}
	// the height handed to a function that hashes leaves is the caller's own
	// height, except where a leaf is created at index 0 of a new batch for the
	// height the caller is at (checked by leaf-site)
	for _, f := range m.funcs {
		g := f.Graph()
		if g == nil {
			continue
		}
		for lf := range leafFns {
			lc := m.coordOf(lf)
			ph := m.paramIndex(lf, lc.H)
			for i, s := range g.CallsTo(lf.Name()) {
				key := f.Name() + "|" + shortName(lf.Name())
				if i > 0 {
					key += "#" + itoa(i+1)
				}
				if ph < 0 || ph >= len(s.Call.Args) {
					continue
				}
				ho := an.ObjOf(m.info, s.Call.Args[ph])
				ok := false
				for _, co := range m.coords[f] {
					if co.H != nil && co.H == ho {
						ok = true
					}
				}
				c.Check(rule, key, s.Call.Pos(), ok, "the height handed to a function that hashes a leaf is the height variable of the caller's node, unchanged")
			}
		}
	}
	c.Floor(rule, 4)
}

// ---------------------------------------------------------------------------
// wire: serializeBatch / parseBatch

type c10GapLoop struct {
	lo, hi int64 // slots lo .. hi inclusive
	v      types.Object
	body   *ast.BlockStmt
}

func (m *c10GapModel) slotLoop(f *an.Func) *c10GapLoop {
	var out *c10GapLoop
	n := 0
	an.InspectShallow(f.Body, func(nd ast.Node) bool {
		fs, ok := nd.(*ast.ForStmt)
		if !ok || fs.Init == nil || fs.Cond == nil || fs.Post == nil {
			return true
		}
		as, ok := fs.Init.(*ast.AssignStmt)
		if !ok || len(as.Lhs) != 1 || len(as.Rhs) != 1 {
			return true
		}
		v := an.ObjOf(m.info, as.Lhs[0])
		lo, isC := c10GapConst(m.info, as.Rhs[0])
		inc, isInc := fs.Post.(*ast.IncDecStmt)
		be, isBin := ast.Unparen(fs.Cond).(*ast.BinaryExpr)
		if v == nil || !isC || !isInc || inc.Tok != token.INC || an.ObjOf(m.info, inc.X) != v || !isBin || an.ObjOf(m.info, be.X) != v {
			return true
		}
		bound, isC2 := c10GapConst(m.info, be.Y)
		if !isC2 {
			return true
		}
		hi := bound
		switch be.Op {
		case token.LSS:
			hi = bound - 1
		case token.LEQ:
		default:
			return true
		}
		n++
		out = &c10GapLoop{lo: lo, hi: hi, v: v, body: fs.Body}
		return true
	})
	if n != 1 {
		return nil
	}
	return out
}

func c10GapWire(c *rep.Ctx) {
	m := c10GapGet(c)
	if m == nil {
		return
	}
	const rule = "wire"
	ser := m.p.Func("pkg/trie.(*CacheDB).serializeBatch")
	par := m.p.Func("pkg/trie.(*Trie).parseBatch")
	if ser == nil || par == nil || ser.Body == nil || par.Body == nil {
		c.Undecide(rule, "pkg/trie serializeBatch/parseBatch", "functions not found")
		return
	}
	ls, lp := m.slotLoop(ser), m.slotLoop(par)
	if ls == nil || lp == nil {
		c.Undecide(rule, "pkg/trie serializeBatch/parseBatch", "the loop over the slots (for i := a; i < b; i++) is not recognised")
		return
	}
	c.Check(rule, "slot-range", ser.Pos(), ls.lo == lp.lo && ls.hi == lp.hi, "serializeBatch writes slots "+itoa(int(ls.lo))+".."+itoa(int(ls.hi))+" and parseBatch reads slots "+itoa(int(lp.lo))+".."+itoa(int(lp.hi))+": the two ranges are the same, otherwise a child of the last row is lost or misplaced after a reload")
	// bit calls: inside the loop the bit index as a form of the loop variable, outside constants
	type bits struct {
		loop  []c10GapLin
		outer []int64
		ok    bool
	}
	collect := func(f *an.Func, lp *c10GapLoop, names ...string) bits {
		b := bits{ok: true}
		an.InspectShallow(f.Body, func(nd ast.Node) bool {
			call, isCall := nd.(*ast.CallExpr)
			if !isCall || len(call.Args) != 2 {
				return true
			}
			nm := an.CalleeName(m.info, call)
			hit := false
			for _, x := range names {
				if nm == x {
					hit = true
				}
			}
			if !hit {
				return true
			}
			l, ok := m.lin(f, call.Args[1], 0)
			if !ok {
				b.ok = false
				return true
			}
			if lp.body.Pos() <= call.Pos() && call.Pos() < lp.body.End() {
				b.loop = append(b.loop, l)
			} else if len(l.co) == 0 {
				b.outer = append(b.outer, l.k)
			} else {
				b.ok = false
			}
			return true
		})
		return b
	}
	bs := collect(ser, ls, "pkg/trie.bitSet")
	bp := collect(par, lp, "pkg/trie.bitIsSet")
	okBits := bs.ok && bp.ok && len(bs.loop) == 1 && len(bp.loop) == 1
	if okBits {
		a, b := bs.loop[0], bp.loop[0]
		okBits = a.k == b.k && len(a.co) == 1 && len(b.co) == 1 && a.co[ls.v] == 1 && b.co[lp.v] == 1
	}
	c.Check(rule, "slot-bit", ser.Pos(), okBits, "the bitmap bit that serializeBatch sets for slot i is the bit that parseBatch tests for slot i (same offset from the loop variable)")
	okFlag := bs.ok && bp.ok && len(bs.outer) == 1 && len(bp.outer) == 1 && bs.outer[0] == bp.outer[0]
	if okFlag {
		// the flag bit is none of the slot bits
		fb := bs.outer[0]
		okFlag = len(bs.loop) == 1 && (fb < ls.lo+bs.loop[0].k || fb > ls.hi+bs.loop[0].k)
	}
	c.Check(rule, "shortcut-bit", ser.Pos(), okFlag, "the bit that marks a shortcut batch is the same constant in serializeBatch and parseBatch and is not one of the slot bits")
	// header size and entry width in parseBatch: val[h+w*j : h+w*(j+1)], make([]byte, h) in serializeBatch
	var hdr int64 = -1
	an.InspectShallow(ser.Body, func(nd ast.Node) bool {
		if call, ok := nd.(*ast.CallExpr); ok && an.IsBuiltin(m.info, call, "make") && len(call.Args) >= 2 {
			if v, isC := c10GapConst(m.info, call.Args[1]); isC && hdr < 0 {
				hdr = v
			}
		}
		return true
	})
	okW, nSl := hdr >= 0, 0
	an.InspectShallow(par.Body, func(nd ast.Node) bool {
		sl, ok := nd.(*ast.SliceExpr)
		if !ok || sl.High == nil {
			return true
		}
		if sl.Low == nil {
			// the bitmap: val[:h]
			if v, isC := c10GapConst(m.info, sl.High); !isC || v != hdr {
				okW = false
			}
			return true
		}
		lo, ok1 := m.lin(par, sl.Low, 0)
		hi, ok2 := m.lin(par, sl.High, 0)
		if !ok1 || !ok2 {
			okW = false
			return true
		}
		nSl++
		// hi - lo == HashLength+1, lo == hdr + (HashLength+1)*j
		if hi.k-lo.k != 33 || len(hi.co) != len(lo.co) {
			okW = false
		}
		for o, v := range lo.co {
			if v != 33 || hi.co[o] != 33 {
				okW = false
			}
		}
		if (lo.k-hdr)%33 != 0 || lo.k < hdr {
			okW = false
		}
		return true
	})
	hl, _ := c10GapConstObj(m.hashLn)
	c.Check(rule, "entry-width", par.Pos(), okW && nSl >= 3 && hl == 32, "parseBatch cuts the stored value into entries of HashLength+1 bytes after a header of the size serializeBatch allocates; every entry written by the update functions is a 32-byte hash, key or value plus one flag byte")
	c.Floor(rule, 4)
}

func c10GapConstObj(o types.Object) (int64, bool) {
	if cst, ok := o.(*types.Const); ok && cst.Val().Kind() == constant.Int {
		return constant.Int64Val(cst.Val())
	}
	return 0, false
}

// ---------------------------------------------------------------------------
// delete-sentinel

func c10GapDeleteSentinel(c *rep.Ctx) {
	m := c10GapGet(c)
	if m == nil {
		return
	}
	const rule = "delete-sentinel"
	def := m.p.LookupObj(c10TriePkg, "DefaultLeaf")
	f := m.p.Func("state/statedb.(*valueEntry).Hash")
	pk := m.p.Pkg(c10TriePkg)
	if def == nil || f == nil || f.Body == nil || pk == nil {
		c.Undecide(rule, "trie.DefaultLeaf / statedb.(*valueEntry).Hash", "not found")
		return
	}
	bytesOf := func(info *types.Info, e ast.Expr) ([]int64, bool) {
		cl, ok := ast.Unparen(e).(*ast.CompositeLit)
		if !ok {
			return nil, false
		}
		var out []int64
		for _, el := range cl.Elts {
			v, isC := c10GapConst(info, el)
			if !isC {
				return nil, false
			}
			out = append(out, v)
		}
		return out, true
	}
	var want []int64
	found := false
	for _, file := range pk.Syntax {
		for _, d := range file.Decls {
			gd, ok := d.(*ast.GenDecl)
			if !ok {
				continue
			}
			for _, sp := range gd.Specs {
				vs, ok := sp.(*ast.ValueSpec)
				if !ok || len(vs.Names) != len(vs.Values) {
					continue
				}
				for i, nm := range vs.Names {
					if pk.TypesInfo.Defs[nm] == def {
						want, found = bytesOf(pk.TypesInfo, vs.Values[i])
					}
				}
			}
		}
	}
	if !found {
		c.Undecide(rule, "trie.DefaultLeaf", "initialiser is not a literal byte slice")
		return
	}
	info := f.Info()
	g := f.Graph()
	n := 0
	for _, rt := range g.Returns() {
		rs := rt.Ast.(*ast.ReturnStmt)
		if len(rs.Results) != 1 {
			continue
		}
		e := ast.Unparen(rs.Results[0])
		if o := an.ObjOf(info, e); o != nil {
			if o == def {
				n++
				c.CheckTrivial(rule, f.Name()+"|fallback", rs.Pos(), true, "a deleted entry exports trie.DefaultLeaf")
			}
			continue // the hash of a present value
		}
		if sel, ok := e.(*ast.SelectorExpr); ok && info.Uses[sel.Sel] == def {
			n++
			c.CheckTrivial(rule, f.Name()+"|fallback", rs.Pos(), true, "a deleted entry exports trie.DefaultLeaf")
			continue
		}
		got, ok := bytesOf(info, e)
		if !ok {
			continue
		}
		n++
		same := len(got) == len(want)
		for i := range got {
			if same && got[i] != want[i] {
				same = false
			}
		}
		c.Check(rule, f.Name()+"|fallback", rs.Pos(), same, "the value a state-buffer entry without data exports to Trie.Update is byte for byte trie.DefaultLeaf, the only value Trie.update treats as a deletion: anything else is stored as the value of the key")
	}
	if n == 0 {
		c.Undecide(rule, f.Name(), "no literal fallback return found")
	}
}

// ---------------------------------------------------------------------------
// one-result

func c10GapOneResult(c *rep.Ctx) {
	m := c10GapGet(c)
	if m == nil {
		return
	}
	const rule = "one-result"
	// the result channel parameter of a function
	chanParam := func(f *an.Func) (types.Object, int) {
		for i, o := range m.params[f] {
			if ch, ok := o.Type().Underlying().(*types.Chan); ok && types.Identical(ch.Elem(), m.mres) {
				return o, i
			}
		}
		return nil, -1
	}
	isBoolFn := func(f *an.Func) bool {
		sig, ok := f.Type, true
		if !ok || sig == nil || sig.Results == nil || len(sig.Results.List) != 1 {
			return false
		}
		tv, ok := m.info.Types[sig.Results.List[0].Type]
		if !ok {
			return false
		}
		b, isB := tv.Type.Underlying().(*types.Basic)
		return isB && b.Info()&types.IsBoolean != 0
	}
	hasResults := func(f *an.Func) bool { return f.Type != nil && f.Type.Results != nil && len(f.Type.Results.List) > 0 }
	n := 0
	for _, f := range m.funcs {
		C, _ := chanParam(f)
		g := f.Graph()
		if C == nil || g == nil {
			continue
		}
		if hasResults(f) && !isBoolFn(f) {
			c.Undecide(rule, f.Name(), "a function with a result channel returns something other than a bool")
			continue
		}
		// events per vertex: lo/hi number of results sent when passing it
		evLo, evHi := map[*an.Node]int{}, map[*an.Node]int{}
		undecided := ""
		for _, nd := range g.Nodes {
			if nd.Kind != an.KStmt || nd.Ast == nil {
				continue
			}
			if _, isGo := nd.Ast.(*ast.GoStmt); isGo {
				for _, call := range an.CallsIn(nd.Ast) {
					for _, a := range call.Args {
						if an.ObjOf(m.info, a) == C {
							undecided = "the result channel is handed to a goroutine"
						}
					}
				}
				continue
			}
			if ss, isSend := nd.Ast.(*ast.SendStmt); isSend && an.ObjOf(m.info, ss.Chan) == C {
				evLo[nd]++
				evHi[nd]++
			}
			for _, call := range an.CallsIn(nd.Ast) {
				passes := false
				for _, a := range call.Args {
					if an.ObjOf(m.info, a) == C {
						passes = true
					}
				}
				if !passes {
					continue
				}
				gf := m.calleeOf(call)
				if gf == nil {
					undecided = "the result channel is handed to a function outside the package"
					continue
				}
				if c2, _ := chanParam(gf); c2 == nil {
					undecided = "the result channel is handed to a function that does not take it as a result channel"
					continue
				}
				if !isBoolFn(gf) {
					evLo[nd]++
					evHi[nd]++
					continue
				}
				site := an.Site{Node: nd, Call: call, Fn: an.Callee(m.info, call)}
				tr, fa := g.BoolEdges(site, true), g.BoolEdges(site, false)
				if len(tr) == 0 || len(fa) == 0 {
					evHi[nd]++ // result not tested: it may or may not have sent
					continue
				}
				for e := range tr {
					evLo[e]++
					evHi[e]++
				}
			}
		}
		if undecided != "" {
			c.Undecide(rule, f.Name(), undecided)
			continue
		}
		lo, hi := map[*an.Node]int{}, map[*an.Node]int{}
		seen := map[*an.Node]bool{}
		if g.Entry != nil {
			seen[g.Entry] = true
			lo[g.Entry], hi[g.Entry] = evLo[g.Entry], evHi[g.Entry]
		}
		cap2 := func(x int) int {
			if x > 2 {
				return 2
			}
			return x
		}
		for changed := true; changed; {
			changed = false
			for _, nd := range g.Nodes {
				if nd == g.Entry {
					continue
				}
				first := true
				l, h := 0, 0
				for _, p := range nd.Preds {
					if !seen[p] {
						continue
					}
					if first || lo[p] < l {
						l = lo[p]
					}
					if first || hi[p] > h {
						h = hi[p]
					}
					first = false
				}
				if first {
					continue
				}
				l, h = cap2(l+evLo[nd]), cap2(h+evHi[nd])
				if !seen[nd] || l != lo[nd] || h != hi[nd] {
					seen[nd], lo[nd], hi[nd] = true, l, h
					changed = true
				}
			}
		}
		n++
		if !isBoolFn(f) {
			ok := seen[g.Exit] && lo[g.Exit] == 1 && hi[g.Exit] == 1
			c.Check(rule, f.Name(), f.Pos(), ok, "every path through the function to a normal return sends exactly one result on its result channel (directly or through a callee that does): the caller receives exactly once from a channel of capacity one - no result blocks the update for ever, a second one blocks the sender")
			continue
		}
		ok := true
		nRet := 0
		for _, val := range []bool{true, false} {
			for _, rt := range g.BoolReturns(val) {
				nRet++
				want := 0
				if val {
					want = 1
				}
				if !seen[rt] || lo[rt] != want || hi[rt] != want {
					ok = false
				}
			}
		}
		if nRet != len(g.Returns()) {
			c.Undecide(rule, f.Name(), "a return value that is not a boolean constant")
			continue
		}
		c.Check(rule, f.Name(), f.Pos(), ok, "the function returns true exactly on the paths on which it sent one result on the result channel, and false on the paths on which it sent none: the caller sends its own result only after false")
	}
	c.Floor(rule, 5)
}

// ---------------------------------------------------------------------------
// root-assign

func c10GapRootAssign(c *rep.Ctx) {
	m := c10GapGet(c)
	if m == nil {
		return
	}
	const rule = "root-assign"
	rootF := m.p.LookupField(c10TriePkg, "Trie", "Root")
	upd := m.p.Func("pkg/trie.(*Trie).update")
	if rootF == nil || upd == nil {
		c.Undecide(rule, "pkg/trie.Trie.Root / update", "not found")
		return
	}
	r := m.roles()
	for _, f := range m.funcs {
		g := f.Graph()
		if g == nil || f == upd {
			continue
		}
		// the top-level callers: update(s.Root, ...) with a channel that is received from
		var site *an.Site
		for _, s := range g.CallsTo(upd.Name()) {
			if len(s.Call.Args) > 0 && an.FieldOf(m.info, s.Call.Args[0]) == rootF {
				s := s
				site = &s
			}
		}
		if site == nil {
			continue
		}
		var ch types.Object
		for _, a := range site.Call.Args {
			if o := an.ObjOf(m.info, a); o != nil {
				if _, isChan := o.Type().Underlying().(*types.Chan); isChan {
					ch = o
				}
			}
		}
		var res types.Object
		var recv *an.Node
		for _, n := range g.Nodes {
			as, ok := n.Ast.(*ast.AssignStmt)
			if n.Kind != an.KStmt || !ok || len(as.Lhs) != len(as.Rhs) {
				continue
			}
			for i, rh := range as.Rhs {
				if u, isU := ast.Unparen(rh).(*ast.UnaryExpr); isU && u.Op == token.ARROW && ch != nil && an.ObjOf(m.info, u.X) == ch {
					res, recv = an.ObjOf(m.info, as.Lhs[i]), n
				}
			}
		}
		if res == nil || recv == nil {
			c.Undecide(rule, f.Name(), "the result of the top-level update is not received into a variable")
			continue
		}
		// writes of Root after the receive
		fromRes, toNil := an.Set{}, an.Set{}
		bad := false
		for _, n := range g.Nodes {
			as, ok := n.Ast.(*ast.AssignStmt)
			if n.Kind != an.KStmt || !ok || len(as.Lhs) != len(as.Rhs) || !g.Reachable(recv, n) {
				continue
			}
			for i, l := range as.Lhs {
				if an.FieldOf(m.info, l) != rootF {
					continue
				}
				switch rh := ast.Unparen(as.Rhs[i]); {
				case m.isNil(rh):
					toNil[n] = true
				default:
					// result.update[:HashLength]
					sl, isSl := rh.(*ast.SliceExpr)
					okW := false
					if isSl && sl.Low == nil && sl.High != nil {
						if v, isC := c10GapConst(m.info, sl.High); isC && v == 32 {
							if sel, isSel := ast.Unparen(sl.X).(*ast.SelectorExpr); isSel && an.FieldOf(m.info, sel) == r.updateF && an.ObjOf(m.info, sel.X) == res {
								okW = true
							}
						}
					}
					if okW {
						fromRes[n] = true
					} else {
						bad = true
					}
				}
			}
		}
		// a successful return: every path from the receive passes one of the writes;
		// the nil write only where the result is known to carry no node, the other one only where it does
		all := fromRes.Union(toNil)
		ok := !bad && len(fromRes) > 0 && len(toNil) > 0
		nRet := 0
		var rets []*an.Node
		for _, rt := range g.Returns() {
			if g.Reachable(recv, rt) {
				rets = append(rets, rt)
			}
		}
		isUpd := func(e ast.Expr) bool {
			call, isCall := e.(*ast.CallExpr)
			if !isCall || !an.IsBuiltin(m.info, call, "len") || len(call.Args) != 1 {
				return false
			}
			sel, isSel := ast.Unparen(call.Args[0]).(*ast.SelectorExpr)
			return isSel && an.FieldOf(m.info, sel) == r.updateF && an.ObjOf(m.info, sel.X) == res
		}
		empty, nonEmpty := an.Set{}, an.Set{}
		for _, n := range g.Nodes {
			if m.edgeFact(n, func(e ast.Expr) (an.NodeKind, bool) { return m.equalsEdge(e, isUpd, 0) }, true) {
				empty[n] = true
			}
			if m.edgeFact(n, func(e ast.Expr) (an.NodeKind, bool) { return m.equalsEdge(e, isUpd, 0) }, false) {
				nonEmpty[n] = true
			}
		}
		errField := m.mres.Underlying().(*types.Struct).Field(m.iE)
		noErr := an.Set{}
		for _, n := range g.Nodes {
			if m.edgeFact(n, func(e ast.Expr) (an.NodeKind, bool) {
				be, isB := e.(*ast.BinaryExpr)
				if !isB || (be.Op != token.EQL && be.Op != token.NEQ) {
					return 0, false
				}
				for _, pr := range [][2]ast.Expr{{be.X, be.Y}, {be.Y, be.X}} {
					sel, isSel := ast.Unparen(pr[0]).(*ast.SelectorExpr)
					if isSel && an.FieldOf(m.info, sel) == errField && an.ObjOf(m.info, sel.X) == res && m.isNil(pr[1]) {
						if be.Op == token.EQL {
							return an.KTrue, true
						}
						return an.KFalse, true
					}
				}
				return 0, false
			}, true) {
				noErr[n] = true
			}
		}
		for n := range all {
			if !g.Dominated(n, noErr) {
				ok = false
			}
		}
		hasErr := an.Set{}
		for _, n := range g.Nodes {
			if (n.Kind == an.KTrue || n.Kind == an.KFalse) && !noErr[n] {
				if sib := c10Sibling(n); sib != nil && noErr[sib] {
					hasErr[n] = true
				}
			}
		}
		for _, rt := range rets {
			if len(hasErr) > 0 && g.DominatedFrom(recv, rt, hasErr) {
				continue // the error exit
			}
			nRet++
			if !g.DominatedFrom(recv, rt, all) {
				ok = false
			}
		}
		for n := range toNil {
			if !g.Dominated(n, empty) {
				ok = false
			}
		}
		for n := range fromRes {
			if !g.Dominated(n, nonEmpty) {
				ok = false
			}
		}
		if nRet == 0 {
			c.Undecide(rule, f.Name(), "no successful return after the top-level update")
			continue
		}
		c.Check(rule, f.Name(), site.Call.Pos(), ok, "after the top-level update the root is replaced only where the result is known to carry no error, and every successful return has installed the new root: the first HashLength bytes of the returned node where the result carries one, nil where it carries none (the trie is empty now) - and nothing else; a root that is kept after the last key was deleted still answers for the deleted keys")
	}
	c.Floor(rule, 1)
}

// ---------------------------------------------------------------------------
// bit-side

func c10GapBitSide(c *rep.Ctx) {
	m := c10GapGet(c)
	if m == nil {
		return
	}
	const rule = "bit-side"
	th := m.p.LookupField(c10TriePkg, "Trie", "TrieHeight")
	if th == nil {
		c.Undecide(rule, "pkg/trie.Trie.TrieHeight", "field not found")
		return
	}
	// the bit that decides the side at a node of height H: TrieHeight - H
	depthForm := func(f *an.Func, e ast.Expr, H types.Object) bool {
		l, ok := m.lin(f, e, 0)
		return ok && H != nil && l.k == 0 && len(l.co) == 2 && l.co[th] == 1 && l.co[H] == -1
	}
	const why = "the side of a key below a node of height h is decided by bit TrieHeight-h of the key, set = right (slot 2i+2), in the readers as in the update: otherwise a key is looked up on a path other than the one it was stored on"
	n := 0
	for _, f := range m.funcs {
		g := f.Graph()
		co := m.coordOf(f)
		if g == nil || co == nil || co.H == nil {
			continue
		}
		bits := g.CallsTo("pkg/trie.bitIsSet")
		if len(bits) == 0 {
			continue
		}
		// descents into a child of the own node
		type desc struct {
			node *an.Node
			k    int
			pos  token.Pos
		}
		var ds []desc
		for _, nd := range g.Nodes {
			if nd.Kind != an.KStmt || nd.Ast == nil {
				continue
			}
			for _, call := range an.CallsIn(nd.Ast) {
				gf := m.calleeOf(call)
				if gf == nil {
					continue
				}
				for _, pr := range m.pairs[gf] {
					if pr[1] < len(call.Args) {
						if k, ok := m.childOf(f, call.Args[pr[1]]); ok {
							ds = append(ds, desc{nd, k, call.Pos()})
						}
					}
				}
			}
		}
		if len(ds) == 0 {
			continue
		}
		if len(bits) != 1 || len(bits[0].Call.Args) != 2 {
			c.Undecide(rule, f.Name(), "more than one bit test in a function that descends into a child")
			continue
		}
		n++
		ok := depthForm(f, bits[0].Call.Args[1], co.H)
		set, unset := g.BoolEdges(bits[0], true), g.BoolEdges(bits[0], false)
		for _, d := range ds {
			switch d.k {
			case 2:
				ok = ok && len(set) > 0 && g.Dominated(d.node, set)
			case 1:
				ok = ok && len(unset) > 0 && g.Dominated(d.node, unset)
			}
		}
		c.Check(rule, f.Name(), bits[0].Call.Pos(), ok, why)
	}
	// the update: splitKeys(keys, TrieHeight - H), and splitKeys tests exactly that bit
	split := m.p.Func("pkg/trie.(*Trie).splitKeys")
	if split == nil || split.Graph() == nil {
		c.Undecide(rule, "pkg/trie.(*Trie).splitKeys", "not found")
		return
	}
	for _, f := range m.funcs {
		g := f.Graph()
		if g == nil {
			continue
		}
		for _, s := range g.CallsTo(split.Name()) {
			co := m.coordOf(f)
			ok := co != nil && len(s.Call.Args) == 2 && depthForm(f, s.Call.Args[1], co.H)
			n++
			c.Check(rule, f.Name()+"|splitKeys", s.Call.Pos(), ok, why)
		}
	}
	bs := split.Graph().CallsTo("pkg/trie.bitIsSet")
	okS := len(bs) == 1 && len(bs[0].Call.Args) == 2 && len(m.params[split]) == 2 && an.ObjOf(m.info, bs[0].Call.Args[1]) == m.params[split][1]
	c.Check(rule, split.Name(), split.Pos(), okS, "splitKeys tests, for every key, the bit whose index it was handed")
	c.Floor(rule, 3)
}

// ---------------------------------------------------------------------------
// merge-once

// c10GapMergeOnce: functions that build their [][]byte results by appending
// pieces of a [][]byte parameter (maybeAddShortcutToKV).  Trie.update splits
// its key list with splitKeys, which needs the list sorted and free of
// duplicates.  Once an open-ended tail P[e:] (or all of P) was appended to a
// result list, the largest key of P is in the list: any later append of a
// piece of P to the same list breaks the order or repeats keys.
func c10GapMergeOnce(c *rep.Ctx) {
	m := c10GapGet(c)
	if m == nil {
		return
	}
	const rule = "merge-once"
	isLists := func(t types.Type) bool {
		sl, ok := t.Underlying().(*types.Slice)
		if !ok {
			return false
		}
		in, ok := sl.Elem().Underlying().(*types.Slice)
		if !ok {
			return false
		}
		b, ok := in.Elem().Underlying().(*types.Basic)
		return ok && b.Kind() == types.Byte
	}
	n := 0
	for _, f := range m.funcs {
		g := f.Graph()
		if g == nil || f.Type == nil || f.Type.Results == nil {
			continue
		}
		// piece of a list parameter: P..., P[a:b]..., P[i]
		pieceOf := func(e ast.Expr) (types.Object, bool) {
			e = ast.Unparen(e)
			open := false
			switch x := e.(type) {
			case *ast.SliceExpr:
				open = x.High == nil
				e = x.X
			case *ast.IndexExpr:
				e = x.X
			default:
				open = true
			}
			o := an.ObjOf(m.info, e)
			if o == nil || m.paramIndex(f, o) < 0 || !isLists(o.Type()) {
				return nil, false
			}
			return o, open
		}
		type app struct {
			node *an.Node
			dst  types.Object
			src  types.Object
			open bool
		}
		var apps []app
		for _, nd := range g.Nodes {
			as, ok := nd.Ast.(*ast.AssignStmt)
			if nd.Kind != an.KStmt || !ok || len(as.Lhs) != len(as.Rhs) {
				continue
			}
			for i, rh := range as.Rhs {
				call, isCall := ast.Unparen(rh).(*ast.CallExpr)
				dst := an.ObjOf(m.info, as.Lhs[i])
				if !isCall || !an.IsBuiltin(m.info, call, "append") || len(call.Args) < 2 || dst == nil || !isLists(dst.Type()) || an.ObjOf(m.info, call.Args[0]) != dst {
					continue
				}
				for _, a := range call.Args[1:] {
					if src, open := pieceOf(a); src != nil {
						// P... / P[e:]... only count as a tail when spread
						apps = append(apps, app{nd, dst, src, open && call.Ellipsis.IsValid()})
					}
				}
			}
		}
		if len(apps) == 0 {
			continue
		}
		// result positions of the lists
		pos := map[types.Object]int{}
		for _, rt := range g.Returns() {
			for j, e := range rt.Ast.(*ast.ReturnStmt).Results {
				if o := an.ObjOf(m.info, e); o != nil {
					if _, has := pos[o]; !has {
						pos[o] = j
					}
				}
			}
		}
		done := map[types.Object]bool{}
		for _, a := range apps {
			if done[a.dst] {
				continue
			}
			j, isRes := pos[a.dst]
			if !isRes {
				continue
			}
			done[a.dst] = true
			ok := true
			var at token.Pos = f.Pos()
			for _, t := range apps {
				if t.dst != a.dst || !t.open {
					continue
				}
				for _, u := range apps {
					if u.dst == a.dst && u.src == t.src && g.Reachable(t.node, u.node) {
						ok = false
						at = u.node.Ast.Pos()
					}
				}
			}
			n++
			c.Check(rule, f.Name()+"|result#"+itoa(j), at, ok, "after an open-ended tail of a sorted input list was appended to a result list no further piece of that input is appended to it on any path (loop iterations included): the result is handed to splitKeys, which needs it sorted and free of duplicates - a key that appears twice is stored below the wrong branch and the root no longer depends on the contents alone")
		}
	}
	if n == 0 {
		c.Undecide(rule, "pkg/trie", "no function that merges key lists found")
	}
	c.Floor(rule, 2)
}
