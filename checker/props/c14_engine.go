package props

import (
	"go/ast"
	"go/constant"
	"go/token"
	"go/types"
	"sort"
	"strconv"
	"strings"

	"verif/checker/internal/an"
)

// C14 engine: a small abstract interpreter over the fine-grained control-flow
// graphs of package an.  It tracks, for "the transaction a function works on",
// what is known about the argument list of its governance payload
// (types.CallInfo.Args decoded from TxBody.Payload):
//
//	len(Args) >= k, Args[i] has dynamic type T, every element has type T
//
// separately for every combination ("arm") of the four discriminants the code
// dispatches on: transaction type, recipient, command name and system
// operation.  Facts come only from guards the code itself executes (length
// comparisons that leave the function, comma-ok assertions, range loops whose
// body checks every element, an index / assertion that was already survived)
// and flow between functions as entry facts (meet over all call sites) and
// exit facts (state at the returns on which the error result may be nil).

// ---------------------------------------------------------------------------
// discriminant dimensions

const (
	c14DimType = iota // TxBody.Type
	c14DimRcpt        // string(TxBody.Recipient)
	c14DimName        // CallInfo.Name
	c14DimOp          // types.GetOpSysTx(CallInfo.Name)
	c14NDim
)

var c14DimLabel = [c14NDim]string{"type", "recipient", "name", "op"}

type c14Dim struct {
	vals []string // vals[0] == "*": any value not listed
	idx  map[string]int
	show map[string]string
}

func (d *c14Dim) add(v, show string) {
	if _, ok := d.idx[v]; ok {
		return
	}
	d.idx[v] = len(d.vals)
	d.vals = append(d.vals, v)
	d.show[v] = show
}

const c14Top = "\x00top" // range loop: no element visited yet

// ---------------------------------------------------------------------------
// facts about the argument list in one arm (immutable, interned)

type c14Facts struct {
	min  map[string]int // tracked slice ("Args", "Payload", ...) -> known lower bound of its length
	elem map[int]string // Args[i] has this dynamic type
	all  string         // every element of Args has this dynamic type
	key  string
}

type c14Eng struct {
	p  *an.Prog
	cg *an.CallGraph

	tCallInfo, tTxBody, tTx, tTxWrap, tTxIface, tOp, tTxType *types.Named
	fArgs, fName, fPayload, fRecipient, fType                *types.Var
	byteFields                                               map[*types.Var]string
	fnGetOp                                                  *types.Func
	wrappers                                                 map[*types.Named]bool
	opFields                                                 map[*types.Var]bool // verified: only ever written as GetOpSysTx(<CallInfo>.Name)
	witness                                                  map[*types.Var][]bool
	witnessUsed                                              map[*types.Var]bool
	getters                                                  map[*types.Func]*types.Var

	dims   [c14NDim]c14Dim
	stride [c14NDim]int
	K      int
	maskEq [c14NDim][][]bool

	interned map[string]*c14Facts
	empty    *c14Facts
	bottom   []*c14Facts // every arm possible, nothing known

	fns       map[*an.Func]*c14Fn
	order     []*c14Fn
	callees   map[*ast.CallExpr][]*an.Func
	dispatch  map[*ast.CallExpr]*c14Dispatch
	dispOf    map[*an.Func][]*c14Dispatch // function -> dispatch tables it is an entry of
	refCount  map[*an.Func]int            // references as a value
	refNodes  map[*ast.Ident]*an.Func     // references as a value that a dispatch table accounts for
	skipSites map[string]string           // caller function name -> reason (entry-exception table)
	accessors map[*an.Func]*c14Accessor   // memo of accessorOf (nil entry: not an accessor)
	relevant  map[*an.Func]bool
	changed   bool
	debug     bool
}

func (e *c14Eng) mk(min map[string]int, elem map[int]string, all string) *c14Facts {
	var sb strings.Builder
	mk := make([]string, 0, len(min))
	for k, v := range min {
		if v > 0 {
			mk = append(mk, k)
		}
	}
	sort.Strings(mk)
	for _, k := range mk {
		sb.WriteString(k)
		sb.WriteByte('>')
		sb.WriteString(strconv.Itoa(min[k]))
		sb.WriteByte(';')
	}
	ek := make([]int, 0, len(elem))
	for k, v := range elem {
		if v != "" && v != all {
			ek = append(ek, k)
		}
	}
	sort.Ints(ek)
	for _, k := range ek {
		sb.WriteString(strconv.Itoa(k))
		sb.WriteByte(':')
		sb.WriteString(elem[k])
		sb.WriteByte(';')
	}
	sb.WriteString("all=")
	sb.WriteString(all)
	key := sb.String()
	if f := e.interned[key]; f != nil {
		return f
	}
	f := &c14Facts{min: map[string]int{}, elem: map[int]string{}, all: all, key: key}
	for _, k := range mk {
		f.min[k] = min[k]
	}
	for _, k := range ek {
		f.elem[k] = elem[k]
	}
	e.interned[key] = f
	return f
}

func (f *c14Facts) typeAt(i int) string {
	if t := f.elem[i]; t != "" {
		return t
	}
	return f.all
}

// meet: what is known on both (nil = impossible arm = identity)
func (e *c14Eng) meet(a, b *c14Facts) *c14Facts {
	if a == nil {
		return b
	}
	if b == nil || a == b {
		return a
	}
	min := map[string]int{}
	for k, v := range a.min {
		if w := b.min[k]; w < v {
			v = w
		}
		min[k] = v
	}
	elem := map[int]string{}
	for i := range a.elem {
		if t := a.typeAt(i); t == b.typeAt(i) {
			elem[i] = t
		}
	}
	for i := range b.elem {
		if t := a.typeAt(i); t == b.typeAt(i) {
			elem[i] = t
		}
	}
	all := ""
	if a.all == b.all {
		all = a.all
	}
	return e.mk(min, elem, all)
}

// join: what is known by either (both hold)
func (e *c14Eng) join(a, b *c14Facts) *c14Facts {
	if a == nil || b == nil {
		return nil
	}
	if a == b || b == e.empty {
		return a
	}
	if a == e.empty {
		return b
	}
	min := map[string]int{}
	for k, v := range a.min {
		min[k] = v
	}
	for k, v := range b.min {
		if v > min[k] {
			min[k] = v
		}
	}
	elem := map[int]string{}
	for i, t := range a.elem {
		elem[i] = t
	}
	for i, t := range b.elem {
		elem[i] = t
	}
	all := a.all
	if all == "" {
		all = b.all
	}
	return e.mk(min, elem, all)
}

func (e *c14Eng) withMin(f *c14Facts, key string, n int) *c14Facts {
	if f == nil || f.min[key] >= n {
		return f
	}
	min := map[string]int{}
	for k, v := range f.min {
		min[k] = v
	}
	min[key] = n
	return e.mk(min, f.elem, f.all)
}

func (e *c14Eng) withElem(f *c14Facts, i int, t string) *c14Facts {
	if f == nil || f.typeAt(i) == t {
		return f
	}
	elem := map[int]string{}
	for k, v := range f.elem {
		elem[k] = v
	}
	elem[i] = t
	return e.mk(f.min, elem, f.all)
}

func (e *c14Eng) withAll(f *c14Facts, t string) *c14Facts {
	if f == nil || f.all == t {
		return f
	}
	return e.mk(f.min, f.elem, t)
}

// ---------------------------------------------------------------------------
// keys

func (e *c14Eng) initKeys() {
	e.K = 1
	for d := c14NDim - 1; d >= 0; d-- {
		e.stride[d] = e.K
		e.K *= len(e.dims[d].vals)
	}
	for d := 0; d < c14NDim; d++ {
		e.maskEq[d] = make([][]bool, len(e.dims[d].vals))
		for i := range e.dims[d].vals {
			m := make([]bool, e.K)
			for k := 0; k < e.K; k++ {
				m[k] = e.comp(k, d) == i
			}
			e.maskEq[d][i] = m
		}
	}
	e.bottom = make([]*c14Facts, e.K)
	for k := range e.bottom {
		e.bottom[k] = e.empty
	}
}

func (e *c14Eng) comp(k, d int) int { return (k / e.stride[d]) % len(e.dims[d].vals) }

// describe a set of keys by the dimensions in which it is restricted
func (e *c14Eng) describe(keys []bool) string {
	var parts []string
	if !c14Any(keys) {
		return "no transaction"
	}
	for d := 0; d < c14NDim; d++ {
		seen := map[int]bool{}
		for k, on := range keys {
			if on {
				seen[e.comp(k, d)] = true
			}
		}
		if len(seen) == len(e.dims[d].vals) || len(seen) == 0 {
			continue
		}
		var vs []string
		for i := range e.dims[d].vals {
			if seen[i] {
				v := e.dims[d].vals[i]
				if s := e.dims[d].show[v]; s != "" {
					v = s
				}
				vs = append(vs, v)
			}
		}
		parts = append(parts, c14DimLabel[d]+"∈{"+strings.Join(vs, ",")+"}")
	}
	if len(parts) == 0 {
		return "any transaction"
	}
	return strings.Join(parts, " ")
}

// ---------------------------------------------------------------------------
// per-path local knowledge (about variables of the function)

type c14Ref struct {
	kind int // 1: Args[idx]   2: some element (range value variable v, or a non-constant index)
	idx  int
	v    *types.Var
}

type c14Bind struct {
	ref c14Ref
	typ string
}

type c14Loc struct {
	cur   map[*types.Var]bool          // variables that denote the current transaction
	ok    map[*types.Var]c14Bind       // boolean variable: true => ref has dynamic type typ
	el    map[*types.Var]string        // range value variable over Args: dynamic type known for the current element
	vis   map[*ast.RangeStmt]string    // range over Args: type of every element visited so far
	errOf map[*types.Var]*ast.CallExpr // error variable holds the error result of this call
	nn    map[*types.Var]bool          // error variable known non-nil
	key   string
}

func c14NewLoc() *c14Loc {
	return &c14Loc{cur: map[*types.Var]bool{}, ok: map[*types.Var]c14Bind{}, el: map[*types.Var]string{}, vis: map[*ast.RangeStmt]string{}, errOf: map[*types.Var]*ast.CallExpr{}, nn: map[*types.Var]bool{}}
}

func (l *c14Loc) clone() *c14Loc {
	n := c14NewLoc()
	for k, v := range l.cur {
		n.cur[k] = v
	}
	for k, v := range l.ok {
		n.ok[k] = v
	}
	for k, v := range l.el {
		n.el[k] = v
	}
	for k, v := range l.vis {
		n.vis[k] = v
	}
	for k, v := range l.errOf {
		n.errOf[k] = v
	}
	for k, v := range l.nn {
		n.nn[k] = v
	}
	return n
}

func (l *c14Loc) id() string {
	if l.key != "" {
		return l.key
	}
	var parts []string
	for v := range l.cur {
		parts = append(parts, "c"+strconv.Itoa(int(v.Pos())))
	}
	for v, b := range l.ok {
		bv := 0
		if b.ref.v != nil {
			bv = int(b.ref.v.Pos())
		}
		parts = append(parts, "o"+strconv.Itoa(int(v.Pos()))+"="+strconv.Itoa(b.ref.kind)+"/"+strconv.Itoa(b.ref.idx)+"/"+strconv.Itoa(bv)+"/"+b.typ)
	}
	for v, t := range l.el {
		parts = append(parts, "e"+strconv.Itoa(int(v.Pos()))+"="+t)
	}
	for r, t := range l.vis {
		parts = append(parts, "v"+strconv.Itoa(int(r.Pos()))+"="+t)
	}
	for v, c := range l.errOf {
		parts = append(parts, "r"+strconv.Itoa(int(v.Pos()))+"="+strconv.Itoa(int(c.Pos())))
	}
	for v := range l.nn {
		parts = append(parts, "n"+strconv.Itoa(int(v.Pos())))
	}
	sort.Strings(parts)
	l.key = strings.Join(parts, ",") + "."
	return l.key
}

func c14MeetType(a, b string) string {
	if a == c14Top {
		return b
	}
	if b == c14Top || a == b {
		return a
	}
	return ""
}

func c14MeetLoc(a, b *c14Loc) *c14Loc {
	if a == b || a.id() == b.id() {
		return a
	}
	n := c14NewLoc()
	for v := range a.cur {
		if b.cur[v] {
			n.cur[v] = true
		}
	}
	for v, x := range a.ok {
		if y, ok := b.ok[v]; ok && x == y {
			n.ok[v] = x
		}
	}
	for v, x := range a.el {
		if y, ok := b.el[v]; ok {
			if x == y {
				n.el[v] = x
			} else {
				n.el[v] = ""
			}
		}
	}
	for r, x := range a.vis {
		if y, ok := b.vis[r]; ok {
			n.vis[r] = c14MeetType(x, y)
		}
	}
	for v, x := range a.errOf {
		if b.errOf[v] == x {
			n.errOf[v] = x
		}
	}
	for v := range a.nn {
		if b.nn[v] {
			n.nn[v] = true
		}
	}
	return n
}

// ---------------------------------------------------------------------------
// state

type c14State struct {
	arms []*c14Facts // per key; nil = this arm cannot be here
	loc  *c14Loc
}

func (e *c14Eng) meetState(a, b *c14State) *c14State {
	if a == nil {
		return b
	}
	if b == nil {
		return a
	}
	arms := make([]*c14Facts, e.K)
	for k := range arms {
		arms[k] = e.meet(a.arms[k], b.arms[k])
	}
	return &c14State{arms: arms, loc: c14MeetLoc(a.loc, b.loc)}
}

func c14SameState(a, b *c14State) bool {
	if a == nil || b == nil {
		return a == b
	}
	for k := range a.arms {
		if a.arms[k] != b.arms[k] {
			return false
		}
	}
	return a.loc.id() == b.loc.id()
}

func (e *c14Eng) mapArms(s *c14State, fn func(*c14Facts) *c14Facts) *c14State {
	arms := make([]*c14Facts, e.K)
	cache := map[*c14Facts]*c14Facts{}
	for k, f := range s.arms {
		if f == nil {
			continue
		}
		n, ok := cache[f]
		if !ok {
			n = fn(f)
			cache[f] = n
		}
		arms[k] = n
	}
	return &c14State{arms: arms, loc: s.loc}
}

func (e *c14Eng) restrict(s *c14State, mask []bool, keep bool) *c14State {
	arms := make([]*c14Facts, e.K)
	for k, f := range s.arms {
		if mask[k] == keep {
			arms[k] = f
		}
	}
	return &c14State{arms: arms, loc: s.loc}
}

func c14Possible(s *c14State) []bool {
	out := make([]bool, len(s.arms))
	for k, f := range s.arms {
		out[k] = f != nil
	}
	return out
}

func c14Any(m []bool) bool {
	for _, b := range m {
		if b {
			return true
		}
	}
	return false
}

func (s *c14State) withLoc(fn func(l *c14Loc)) *c14State {
	l := s.loc.clone()
	fn(l)
	return &c14State{arms: s.arms, loc: l}
}

// kill: a different transaction becomes the current one; nothing is known.
func (e *c14Eng) kill(s *c14State, v *types.Var) *c14State {
	l := c14NewLoc()
	if v != nil {
		l.cur[v] = true
	}
	if s != nil && !c14Any(c14Possible(s)) {
		return &c14State{arms: s.arms, loc: l} // nothing reaches this point
	}
	return &c14State{arms: e.bottom, loc: l}
}

// ---------------------------------------------------------------------------
// types

func c14Named(t types.Type) *types.Named {
	for {
		switch x := t.(type) {
		case *types.Pointer:
			t = x.Elem()
			continue
		case *types.Alias:
			t = types.Unalias(x)
			continue
		case *types.Named:
			return x
		}
		return nil
	}
}

// carrierClass: 1 transaction level (TxBody, Tx, Transaction, transaction),
// 2 call info, 3 wrapper struct of the governance packages, 0 none.
func (e *c14Eng) carrierClass(t types.Type) int {
	if t == nil {
		return 0
	}
	n := c14Named(t)
	if n == nil {
		return 0
	}
	n = n.Origin()
	switch n {
	case e.tTxBody, e.tTx, e.tTxWrap, e.tTxIface:
		return 1
	case e.tCallInfo:
		return 2
	}
	if e.wrappers[n] {
		return 3
	}
	return 0
}

func c14TypeString(t types.Type) string {
	return types.TypeString(t, func(p *types.Package) string { return p.Path() })
}

func c14ConstInt(info *types.Info, x ast.Expr) (int, bool) {
	if x == nil {
		return 0, false
	}
	tv, ok := info.Types[x]
	if !ok || tv.Value == nil || tv.Value.Kind() != constant.Int {
		return 0, false
	}
	v, exact := constant.Int64Val(tv.Value)
	if !exact || v < 0 || v > 1<<20 {
		return 0, false
	}
	return int(v), true
}

// constant value of a discriminant comparison operand, normalised
func c14ConstVal(info *types.Info, x ast.Expr) (string, bool) {
	tv, ok := info.Types[x]
	if !ok || tv.Value == nil {
		return "", false
	}
	switch tv.Value.Kind() {
	case constant.String:
		return constant.StringVal(tv.Value), true
	case constant.Int:
		return tv.Value.ExactString(), true
	}
	return "", false
}

// getterField: fn is a parameterless method that returns a field of its
// receiver (protobuf style: if m != nil { return m.F }; return <zero>).
func (e *c14Eng) getterField(fn *types.Func) *types.Var {
	if fn == nil {
		return nil
	}
	if v, ok := e.getters[fn]; ok {
		return v
	}
	e.getters[fn] = nil
	f := e.p.FuncOf(fn)
	if f == nil || f.Decl == nil || f.Decl.Recv == nil || f.Body == nil {
		return nil
	}
	if f.Type.Params != nil && len(f.Type.Params.List) > 0 {
		return nil
	}
	if f.Type.Results == nil || len(f.Type.Results.List) != 1 {
		return nil
	}
	if len(f.Decl.Recv.List) != 1 || len(f.Decl.Recv.List[0].Names) != 1 {
		return nil
	}
	info := f.Info()
	recv := info.Defs[f.Decl.Recv.List[0].Names[0]]
	var field *types.Var
	ok := true
	ast.Inspect(f.Body, func(n ast.Node) bool {
		switch s := n.(type) {
		case *ast.ReturnStmt:
			if len(s.Results) != 1 {
				ok = false
				return false
			}
			r := ast.Unparen(s.Results[0])
			if tv, has := info.Types[r]; has && (tv.IsNil() || tv.Value != nil) {
				return false
			}
			if fv := an.FieldOf(info, r); fv != nil {
				sel := r.(*ast.SelectorExpr)
				// receiver, or a field chain of the receiver (tx.Tx.Body)
				base := sel.X
				for {
					if s2, isSel := ast.Unparen(base).(*ast.SelectorExpr); isSel && an.FieldOf(info, s2) != nil {
						base = s2.X
						continue
					}
					break
				}
				if an.ObjOf(info, base) == recv {
					if field == nil || field == fv {
						field = fv
						return false
					}
				}
			}
			ok = false
			return false
		case *ast.AssignStmt, *ast.IncDecStmt, *ast.GoStmt, *ast.DeferStmt, *ast.RangeStmt, *ast.ForStmt:
			ok = false
			return false
		case *ast.CallExpr:
			ok = false
			return false
		}
		return true
	})
	if !ok {
		return nil
	}
	e.getters[fn] = field
	return field
}

// ---------------------------------------------------------------------------
// per-function tables

type c14Fn struct {
	e    *c14Eng
	f    *an.Func
	g    *an.Graph
	info *types.Info

	carr   []*types.Var
	multi  bool
	errIdx int
	root   int // 0 ordinary, 1 unknown callers (nothing known at entry), 2 no caller at all

	entry   []*c14Facts
	post    []*c14Facts
	retSame bool

	caseOf   map[ast.Expr]*ast.SwitchStmt
	commaOk  map[*ast.TypeAssertExpr]bool
	rangeByX map[ast.Expr]*ast.RangeStmt
	rangeVal map[*types.Var]*ast.RangeStmt
	rangeKey map[*types.Var]*ast.RangeStmt
	single   map[*types.Var]ast.Expr
	singleOK map[*types.Var]bool

	in, out     []*c14State
	usersDone   bool
	usesWitness bool

	// emitted during the last analysis
	contrib []c14Contrib
	sites   []*c14Site
	siteAt  map[ast.Node]*c14Site
	keysAt  map[*an.Node][]bool
}

type c14Contrib struct {
	callee *an.Func
	arms   []*c14Facts
	call   *ast.CallExpr // the call site (in the contributing function)
}

type c14Site struct {
	pos   token.Pos
	shape string
	ok    bool
	reach bool
	msg   string
	byPar *c14ParamIndex // index by a never-assigned parameter: decided per call site at report time
}

// c14ParamIndex: S[off+p] where p is the pos-th parameter of the function and is
// never assigned in it (an accessor such as  func (c *Ctx) arg(i int) interface{}
// { return c.Call.Args[i] }).  The operation is safe when every call site of
// the function passes a constant c for p and, at that call site, len(S) > off+c
// is established in every arm that reaches it.  This cannot be expressed in the
// entry facts (their meet over the call sites forgets which constant goes with
// which length), so the obligation is discharged per call site from the
// contributions the callers emit (c14Report -> paramIndexOK).
type c14ParamIndex struct {
	key  string
	off  int
	pos  int    // position among the (flattened) parameters
	name string // parameter name, for messages
	den  bool   // the indexed slice belongs to the function's own transaction
}

func (e *c14Eng) fnOf(f *an.Func) *c14Fn {
	if a := e.fns[f]; a != nil {
		return a
	}
	if f == nil || f.Body == nil {
		return nil
	}
	a := &c14Fn{e: e, f: f, info: f.Info(), errIdx: -1, retSame: true,
		caseOf: map[ast.Expr]*ast.SwitchStmt{}, commaOk: map[*ast.TypeAssertExpr]bool{}, rangeByX: map[ast.Expr]*ast.RangeStmt{},
		rangeVal: map[*types.Var]*ast.RangeStmt{}, rangeKey: map[*types.Var]*ast.RangeStmt{}, single: map[*types.Var]ast.Expr{}, singleOK: map[*types.Var]bool{}}
	a.g = f.Graph()
	if a.g == nil {
		return nil
	}
	e.fns[f] = a
	e.order = append(e.order, a)
	e.changed = true
	if e.K > 0 {
		a.post = make([]*c14Facts, e.K)
		a.entry = make([]*c14Facts, e.K)
	}
	// parameters
	perClass := map[int]int{}
	addParam := func(fl *ast.FieldList) {
		if fl == nil {
			return
		}
		for _, fld := range fl.List {
			for _, nm := range fld.Names {
				v, _ := a.info.Defs[nm].(*types.Var)
				if v == nil {
					continue
				}
				if cl := e.carrierClass(v.Type()); cl != 0 {
					a.carr = append(a.carr, v)
					perClass[cl]++
				}
			}
		}
	}
	if f.Decl != nil {
		addParam(f.Decl.Recv)
	}
	addParam(f.Type.Params)
	for _, n := range perClass {
		if n > 1 {
			a.multi = true
		}
	}
	if f.Type.Results != nil {
		i := 0
		for _, fld := range f.Type.Results.List {
			n := len(fld.Names)
			if n == 0 {
				n = 1
			}
			for j := 0; j < n; j++ {
				if t := a.info.TypeOf(fld.Type); t != nil && types.Identical(t, types.Universe.Lookup("error").Type()) {
					a.errIdx = i
				}
				i++
			}
		}
	}
	// syntax tables
	an.InspectShallow(f.Body, func(n ast.Node) bool {
		switch s := n.(type) {
		case *ast.SwitchStmt:
			if s.Tag != nil {
				for _, cl := range s.Body.List {
					for _, x := range cl.(*ast.CaseClause).List {
						a.caseOf[x] = s
					}
				}
			}
		case *ast.AssignStmt:
			if len(s.Lhs) == 2 && len(s.Rhs) == 1 {
				if ta, ok := ast.Unparen(s.Rhs[0]).(*ast.TypeAssertExpr); ok {
					a.commaOk[ta] = true
				}
			}
		case *ast.ValueSpec:
			if len(s.Names) == 2 && len(s.Values) == 1 {
				if ta, ok := ast.Unparen(s.Values[0]).(*ast.TypeAssertExpr); ok {
					a.commaOk[ta] = true
				}
			}
		case *ast.RangeStmt:
			a.rangeByX[s.X] = s
			if id, ok := s.Value.(*ast.Ident); ok {
				if v, ok := a.objOf(id).(*types.Var); ok {
					a.rangeVal[v] = s
				}
			}
			if id, ok := s.Key.(*ast.Ident); ok {
				if v, ok := a.objOf(id).(*types.Var); ok {
					a.rangeKey[v] = s
				}
			}
		}
		return true
	})
	return a
}

func (a *c14Fn) objOf(id *ast.Ident) types.Object {
	if o := a.info.Defs[id]; o != nil {
		return o
	}
	return a.info.Uses[id]
}

func (a *c14Fn) varOf(x ast.Expr) *types.Var {
	id, ok := ast.Unparen(x).(*ast.Ident)
	if !ok {
		return nil
	}
	v, _ := a.objOf(id).(*types.Var)
	return v
}

// singleDef: right-hand side of the only assignment of a local variable
// (1:1 assignments only), nil otherwise.
func (a *c14Fn) singleDef(v *types.Var) ast.Expr {
	if v == nil || v.IsField() || v.Pkg() == nil || v.Parent() == v.Pkg().Scope() {
		return nil
	}
	if done := a.singleOK[v]; done {
		return a.single[v]
	}
	a.singleOK[v] = true
	rhs, idx := a.g.SingleDef(v)
	if rhs == nil || idx != 0 {
		return nil
	}
	// SingleDef returns rs[0] for tuple assignments too: keep only 1:1
	ok := false
	for _, n := range a.g.Nodes {
		if n.Kind != an.KStmt {
			continue
		}
		switch s := n.Ast.(type) {
		case *ast.AssignStmt:
			if len(s.Lhs) == len(s.Rhs) {
				for i, l := range s.Lhs {
					if a.varOf(l) == v && s.Rhs[i] == rhs && (s.Tok == token.DEFINE || s.Tok == token.ASSIGN) {
						ok = true
					}
				}
			}
		case *ast.ValueSpec:
			if len(s.Names) == len(s.Values) {
				for i, nm := range s.Names {
					if a.info.Defs[nm] == v && s.Values[i] == rhs {
						ok = true
					}
				}
			}
		}
	}
	if !ok {
		return nil
	}
	a.single[v] = rhs
	return rhs
}

// slice resolves an expression to a tracked slice: Args of a call info (with a
// constant offset for x[k:] forms and single-assignment locals) or a byte field
// of a transaction body.  base is the carrier expression it is read from.
func (a *c14Fn) slice(x ast.Expr, depth int) (key string, off int, base ast.Expr, ok bool) {
	if depth > 6 {
		return
	}
	x = ast.Unparen(x)
	switch s := x.(type) {
	case *ast.SelectorExpr:
		if fv := an.FieldOf(a.info, s); fv != nil {
			if fv == a.e.fArgs {
				return "Args", 0, s.X, true
			}
			if nm, has := a.e.byteFields[fv]; has {
				return nm, 0, s.X, true
			}
		}
	case *ast.CallExpr:
		if fn := an.Callee(a.info, s); fn != nil {
			if fv := a.e.getterField(fn); fv != nil {
				if nm, has := a.e.byteFields[fv]; has {
					if sel, isSel := ast.Unparen(s.Fun).(*ast.SelectorExpr); isSel {
						return nm, 0, sel.X, true
					}
				}
			}
		}
	case *ast.SliceExpr:
		if s.High == nil && !s.Slice3 {
			k, o, b, has := a.slice(s.X, depth+1)
			if !has {
				return
			}
			if s.Low == nil {
				return k, o, b, true
			}
			if l, isC := c14ConstInt(a.info, s.Low); isC {
				return k, o + l, b, true
			}
		}
	case *ast.Ident:
		if rhs := a.singleDef(a.varOf(s)); rhs != nil {
			return a.slice(rhs, depth+1)
		}
	}
	return
}

// elem resolves an expression to an element of Args.
func (a *c14Fn) elem(x ast.Expr, depth int) (ref c14Ref, base ast.Expr, ok bool) {
	if depth > 6 {
		return
	}
	x = ast.Unparen(x)
	switch s := x.(type) {
	case *ast.IndexExpr:
		k, off, b, has := a.slice(s.X, 0)
		if !has || k != "Args" {
			return
		}
		if c, isC := c14ConstInt(a.info, s.Index); isC {
			return c14Ref{kind: 1, idx: off + c}, b, true
		}
		return c14Ref{kind: 2}, b, true
	case *ast.Ident:
		v := a.varOf(s)
		if v == nil {
			return
		}
		if r := a.rangeVal[v]; r != nil {
			if k, _, b, has := a.slice(r.X, 0); has && k == "Args" {
				return c14Ref{kind: 2, v: v}, b, true
			}
			return
		}
		if rhs := a.singleDef(v); rhs != nil {
			return a.elem(rhs, depth+1)
		}
	case *ast.CallExpr:
		// an element accessor called with a constant:  ctx.arg(1)  is  ctx.Call.Args[1]
		fs, known := a.calleesOf(s)
		if !known || len(fs) == 0 || s.Ellipsis.IsValid() {
			return
		}
		var acc *c14Accessor
		for _, f := range fs {
			x := a.e.accessorOf(f)
			if x == nil || (acc != nil && *x != *acc) {
				return
			}
			acc = x
		}
		if acc.pos >= len(s.Args) {
			return
		}
		c, isC := c14ConstInt(a.info, s.Args[acc.pos])
		if !isC {
			return
		}
		// the carrier operand the element is read from: the receiver or the only carrier argument
		var carrier ast.Expr
		n := 0
		if sel, isSel := ast.Unparen(s.Fun).(*ast.SelectorExpr); isSel {
			if sl := a.info.Selections[sel]; sl != nil && sl.Kind() == types.MethodVal && a.e.carrierClass(a.info.TypeOf(sel.X)) != 0 {
				carrier = sel.X
				n++
			}
		}
		for _, arg := range s.Args {
			if a.e.carrierClass(a.info.TypeOf(arg)) != 0 {
				carrier = arg
				n++
			}
		}
		if n != 1 {
			return
		}
		return c14Ref{kind: 1, idx: acc.off + c}, carrier, true
	}
	return
}

// c14Accessor: the function returns <its transaction>.Args[off+p] on every
// return, p being its pos-th parameter (an integer that is never assigned).
type c14Accessor struct{ pos, off int }

func (e *c14Eng) accessorOf(f *an.Func) *c14Accessor {
	if acc, done := e.accessors[f]; done {
		return acc
	}
	if e.accessors == nil {
		e.accessors = map[*an.Func]*c14Accessor{}
	}
	e.accessors[f] = nil
	if f == nil || f.Body == nil || f.Type == nil || f.Type.Results == nil || len(f.Type.Results.List) != 1 || len(f.Type.Results.List[0].Names) > 1 {
		return nil
	}
	a := e.newFn(f)
	if a == nil || a.multi || len(a.carr) != 1 {
		return nil
	}
	own := c14NewLoc()
	own.cur[a.carr[0]] = true
	var acc *c14Accessor
	ok, nret := true, 0
	an.InspectShallow(f.Body, func(n ast.Node) bool {
		rs, isRet := n.(*ast.ReturnStmt)
		if !isRet {
			return true
		}
		nret++
		if len(rs.Results) != 1 {
			ok = false
			return false
		}
		ix, isIx := ast.Unparen(rs.Results[0]).(*ast.IndexExpr)
		if !isIx {
			ok = false
			return false
		}
		k, off, base, has := a.slice(ix.X, 0)
		pos := a.paramPos(a.varOf(ix.Index))
		if !has || k != "Args" || pos < 0 || !a.denotes(base, own, 0) || (acc != nil && (acc.pos != pos || acc.off != off)) {
			ok = false
			return false
		}
		acc = &c14Accessor{pos: pos, off: off}
		return true
	})
	if !ok || nret == 0 || acc == nil {
		return nil
	}
	// the carrier parameter must still denote the function's transaction at the returns: never assigned
	for _, nd := range a.g.Nodes {
		if nd.Kind == an.KStmt && an.Assigns(a.info, nd.Ast, a.carr[0]) {
			return nil
		}
	}
	e.accessors[f] = acc
	return acc
}

// disc recognises a discriminant expression (by shape and type).
func (a *c14Fn) disc(x ast.Expr, depth int) (dim int, base ast.Expr, ok bool) {
	if depth > 4 {
		return
	}
	e := a.e
	x = ast.Unparen(x)
	switch s := x.(type) {
	case *ast.SelectorExpr:
		if fv := an.FieldOf(a.info, s); fv != nil {
			switch {
			case fv == e.fType:
				return c14DimType, s.X, true
			case fv == e.fName:
				return c14DimName, s.X, true
			case e.opFields[fv]:
				return c14DimOp, s.X, true
			}
		}
	case *ast.CallExpr:
		// conversion string(<recipient>)
		if tv, has := a.info.Types[s.Fun]; has && tv.IsType() && len(s.Args) == 1 {
			if b, isB := tv.Type.Underlying().(*types.Basic); isB && b.Kind() == types.String {
				if k, off, base, has := a.slice(s.Args[0], 0); has && k == "Recipient" && off == 0 {
					return c14DimRcpt, base, true
				}
			}
			return
		}
		fn := an.Callee(a.info, s)
		if fn == nil {
			return
		}
		if fn == e.fnGetOp && len(s.Args) == 1 {
			if d, b, has := a.disc(s.Args[0], depth+1); has && d == c14DimName {
				return c14DimOp, b, true
			}
			return
		}
		if fv := e.getterField(fn); fv != nil && fv == e.fType {
			if sel, isSel := ast.Unparen(s.Fun).(*ast.SelectorExpr); isSel {
				return c14DimType, sel.X, true
			}
		}
	case *ast.Ident:
		if rhs := a.singleDef(a.varOf(s)); rhs != nil {
			return a.disc(rhs, depth+1)
		}
	}
	return
}

// ---------------------------------------------------------------------------
// dispatch through constant-keyed function tables:  f := M[key]; f(tx)

type c14Dispatch struct {
	dim    int
	byVal  map[string][]*an.Func
	all    []*an.Func
	mapVar *types.Var
	caller *an.Func
	why    string // non-empty: not resolved
}

// mapTables caches, per map variable, the functions stored under each constant key.
type c14MapTable struct {
	byVal map[string][]*an.Func
	why   string
}

func (e *c14Eng) resolveDispatch(a *c14Fn, call *ast.CallExpr, tables map[*types.Var]*c14MapTable) *c14Dispatch {
	id, ok := ast.Unparen(call.Fun).(*ast.Ident)
	if !ok {
		return nil
	}
	v, _ := a.info.Uses[id].(*types.Var)
	if v == nil || v.IsField() {
		return nil
	}
	if _, isSig := v.Type().Underlying().(*types.Signature); !isSig {
		return nil
	}
	rhs, _ := a.g.SingleDef(v)
	ix, ok := ast.Unparen(c14RhsOrNil(rhs)).(*ast.IndexExpr)
	if !ok {
		return nil
	}
	mid, ok := ast.Unparen(ix.X).(*ast.Ident)
	if !ok {
		return nil
	}
	mv, _ := a.info.Uses[mid].(*types.Var)
	if mv == nil {
		return nil
	}
	if _, isMap := mv.Type().Underlying().(*types.Map); !isMap {
		return nil
	}
	d := &c14Dispatch{mapVar: mv, byVal: map[string][]*an.Func{}}
	dim, _, has := a.disc(ix.Index, 0)
	if !has {
		d.why = "the lookup key is not a recognised discriminant"
		return d
	}
	d.dim = dim
	t := tables[mv]
	if t == nil {
		t = e.mapTable(a, mv)
		tables[mv] = t
	}
	if t.why != "" {
		d.why = t.why
		return d
	}
	d.byVal = t.byVal
	seen := map[*an.Func]bool{}
	for _, fs := range t.byVal {
		for _, f := range fs {
			if !seen[f] {
				seen[f] = true
				d.all = append(d.all, f)
			}
		}
	}
	sort.Slice(d.all, func(i, j int) bool { return d.all[i].Pos() < d.all[j].Pos() })
	return d
}

func c14RhsOrNil(x ast.Expr) ast.Expr {
	if x == nil {
		return &ast.BadExpr{}
	}
	return x
}

func (e *c14Eng) mapTable(a *c14Fn, mv *types.Var) *c14MapTable {
	t := &c14MapTable{byVal: map[string][]*an.Func{}}
	// every use of the map variable in its package
	var files []*ast.File
	info := a.info
	for _, pk := range e.p.ModulePkgs() {
		if pk.Types == mv.Pkg() {
			files = pk.Syntax
			info = pk.TypesInfo
		}
	}
	var lits []*ast.CompositeLit
	var litFile []*ast.File
	// an exported package-level table can be written from other packages
	if mv.Exported() && mv.Pkg() != nil && mv.Parent() == mv.Pkg().Scope() {
		for _, pk := range e.p.ModulePkgs() {
			if pk.Types == mv.Pkg() || pk.TypesInfo == nil {
				continue
			}
			for id, o := range pk.TypesInfo.Uses {
				if o == mv {
					_ = id
					t.why = "the exported table " + mv.Name() + " is used outside its package"
				}
			}
		}
	}
	for _, file := range files {
		var stack []ast.Node
		ast.Inspect(file, func(n ast.Node) bool {
			if n == nil {
				stack = stack[:len(stack)-1]
				return true
			}
			stack = append(stack, n)
			id, ok := n.(*ast.Ident)
			if !ok || (info.Uses[id] != mv && info.Defs[id] != mv) {
				return true
			}
			var parent ast.Node
			if len(stack) >= 2 {
				parent = stack[len(stack)-2]
			}
			switch p := parent.(type) {
			case *ast.AssignStmt:
				for i, l := range p.Lhs {
					if l == ast.Expr(id) {
						if len(p.Lhs) == len(p.Rhs) {
							if cl, isLit := ast.Unparen(p.Rhs[i]).(*ast.CompositeLit); isLit {
								lits = append(lits, cl)
								litFile = append(litFile, file)
								return true
							}
						}
						t.why = "the table " + mv.Name() + " is assigned something that is not a map literal"
					}
				}
				return true
			case *ast.ValueSpec:
				for i, nm := range p.Names {
					if nm == id {
						if i < len(p.Values) {
							if cl, isLit := ast.Unparen(p.Values[i]).(*ast.CompositeLit); isLit {
								lits = append(lits, cl)
								litFile = append(litFile, file)
							} else {
								t.why = "the table " + mv.Name() + " is initialised with something that is not a map literal"
							}
						}
					}
				}
				return true
			case *ast.IndexExpr:
				if p.X == ast.Expr(id) {
					// read access unless the index expression is assigned to
					if len(stack) >= 3 {
						if as, isAs := stack[len(stack)-3].(*ast.AssignStmt); isAs {
							for _, l := range as.Lhs {
								if l == ast.Expr(p) {
									t.why = "an entry of the table " + mv.Name() + " is assigned outside its literal"
								}
							}
						}
					}
					return true
				}
			}
			t.why = "the table " + mv.Name() + " is used other than by lookup"
			return true
		})
	}
	if t.why != "" {
		return t
	}
	if len(lits) == 0 {
		t.why = "no literal found for the table " + mv.Name()
		return t
	}
	for li, cl := range lits {
		for _, el := range cl.Elts {
			kv, ok := el.(*ast.KeyValueExpr)
			if !ok {
				t.why = "unkeyed element in the table literal"
				return t
			}
			kval, ok := c14ConstVal(info, kv.Key)
			if !ok {
				t.why = "non-constant key in the table literal"
				return t
			}
			fs := e.funcValues(info, litFile[li], kv.Value, 0)
			if fs == nil {
				t.why = "a value of the table " + mv.Name() + " is not a function, a literal or a local holding only those"
				return t
			}
			t.byVal[kval] = append(t.byVal[kval], fs...)
		}
	}
	return t
}

// funcValues: the module functions an expression in a table literal can denote.
func (e *c14Eng) funcValues(info *types.Info, file *ast.File, x ast.Expr, depth int) []*an.Func {
	x = ast.Unparen(x)
	switch s := x.(type) {
	case *ast.FuncLit:
		if f := e.p.LitFunc(s); f != nil {
			return []*an.Func{f}
		}
	case *ast.SelectorExpr:
		if fo, ok := info.Uses[s.Sel].(*types.Func); ok {
			if f := e.p.FuncOf(fo); f != nil {
				e.refNodes[s.Sel] = f
				return []*an.Func{f}
			}
		}
	case *ast.Ident:
		switch o := info.Uses[s].(type) {
		case *types.Func:
			if f := e.p.FuncOf(o); f != nil {
				e.refNodes[s] = f
				return []*an.Func{f}
			}
		case *types.Var:
			if depth > 0 || o.IsField() || o.Parent() == o.Pkg().Scope() {
				return nil
			}
			// local variable: every assignment must be a function or literal
			var out []*an.Func
			bad := false
			ast.Inspect(file, func(n ast.Node) bool {
				switch as := n.(type) {
				case *ast.AssignStmt:
					for i, l := range as.Lhs {
						id, ok := l.(*ast.Ident)
						if !ok || (info.Uses[id] != o && info.Defs[id] != o) {
							continue
						}
						if len(as.Lhs) != len(as.Rhs) {
							bad = true
							continue
						}
						fs := e.funcValues(info, file, as.Rhs[i], depth+1)
						if fs == nil {
							bad = true
						}
						out = append(out, fs...)
					}
				case *ast.ValueSpec:
					for i, nm := range as.Names {
						if info.Defs[nm] != o {
							continue
						}
						if i >= len(as.Values) {
							bad = true
							continue
						}
						fs := e.funcValues(info, file, as.Values[i], depth+1)
						if fs == nil {
							bad = true
						}
						out = append(out, fs...)
					}
				case *ast.UnaryExpr:
					if as.Op == token.AND {
						if id, ok := ast.Unparen(as.X).(*ast.Ident); ok && info.Uses[id] == o {
							bad = true
						}
					}
				}
				return true
			})
			if bad || len(out) == 0 {
				return nil
			}
			return out
		}
	}
	return nil
}
