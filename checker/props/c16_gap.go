package props

import (
	"go/ast"
	"go/constant"
	"go/token"
	"go/types"
	"strings"

	"verif/checker/internal/an"
	"verif/checker/internal/rep"
)

// C16 gap review.  Rules added after mutating every anchor of the property
// (mutation set: seeded/_mut/C16).  Each rule is a necessary condition of
// "the node hands the consensus library the log / hard state / snapshot /
// identity it acknowledged" or of "membership changes are refused when ...",
// decided from the shape of the code:
//
//	save-complete      every non-empty batch / hard state / snapshot is written (the skip edges imply "empty")
//	identity-restore   RecoverIdentity adopts every attribute of the stored identity
//	identity-match     name and peer id of the stored identity are compared with the configured ones before it is adopted
//	replay-identity    replayWAL adopts the identity read from the wal, a mismatch stops the node
//	decode-failure     a stored raft value that does not decode is an error (or stops the node), never "absent"
//	wal-kept           startRaft wipes the wal only in a state that is chosen when HasWal answered false
//	conv-data          payload of the two converters: block entries carry the hash of their block one way and the
//	                   re-materialised block the other way, conf-change entries carry their data
//	restart-members    a plain restart with a snapshot recovers the member sets from that snapshot
//	removed-recorded   removing an applied member records it in the removed set
//	recover-sets       Recover restores applied (applied=true) and removed members, every element
//	snapshot-sets      a snapshot carries the applied and the removed set in the fields Recover reads them from
//	member-index       Members.add / remove / getMember agree on MapByID[member.ID]
//	recover-skip       Recover is skipped only when both the applied and the removed set equal the snapshot's
//	snapshot-pairing   snapshot index and snapshot block come from the same commit entry
//	apply-arms         a committed AddNode adds the member as applied, a committed RemoveNode removes it
func init() { extend("C16", c16GapRun) }

func c16GapRun(c *rep.Ctx) {
	p := c.Prog
	// anchors by name: a renamed / removed function makes the run undecided, not a violation
	okAnchors := true
	for _, a := range []string{
		c16WalDB + ".SaveEntry", c16WalDB + ".convertWalToRaft", c16WalDB + ".convertFromRaft", c16WalDB + ".ReadAll",
		c16RS + ".serveChannels", c16RS + ".startRaft", c16RS + ".restartNode", c16RS + ".replayWAL", c16RS + ".loadSnapshot",
		c16RS + ".publishSnapshot", c16RS + ".triggerSnapshot", c16RS + ".applyConfChange", c16RS + ".ValidateConfChangeEntry",
		c16RaftPkg + ".marshalEntryData", c16RaftPkg + ".(*ChainSnapshotter).createSnapshotData",
		c16Cluster + ".RecoverIdentity", c16Cluster + ".Recover", c16Cluster + ".ResetMembers", c16Cluster + ".isAllMembersEqual",
		c16Cluster + ".addMember", c16Cluster + ".removeMember",
		c16GapMembers + ".add", c16GapMembers + ".remove", c16GapMembers + ".getMember", c16GapMembers + ".ToArray",
		"consensus.NewSnapshotData", "consensus.(*SnapshotData).Decode",
		"chain.(*ChainDB).HasWal", "chain.(*ChainDB).GetIdentity", "types.(*Block).BlockHash",
	} {
		if c.Fn(a) == nil {
			okAnchors = false
		}
	}
	if !okAnchors {
		return
	}
	c16GapSaveComplete(c, p)
	c16GapIdentity(c, p)
	c16GapReplayIdentity(c, p)
	c16GapDecodeFailure(c, p)
	c16GapWalKept(c, p)
	c16GapConvData(c, p)
	c16GapRestartMembers(c, p)
	c16GapApplyArms(c, p)
	c16GapRemovedRecorded(c, p)
	c16GapRecoverSets(c, p)
	c16GapSnapshotSets(c, p)
	c16GapMemberIndex(c, p)
	c16GapRecoverSkip(c, p)
	c16GapSnapshotPairing(c, p)
}

const (
	c16GapRaftLib = "github.com/aergoio/etcd/raft"
	c16GapCons    = an.Module + "/consensus"
)

// ---------------------------------------------------------------------------
// a small propositional evaluator: "does the condition have this value under
// every assignment that agrees with the assumption?"

type c16GapB struct {
	op   byte // 'a' atom, '!' not, '&' and, '|' or, 'c' const
	atom string
	val  bool
	l, r *c16GapB
}

func c16GapParse(info *types.Info, e ast.Expr, at an.Atomizer, atoms map[string]bool) *c16GapB {
	e = ast.Unparen(e)
	if at != nil {
		if name, neg, ok := at(e); ok {
			atoms[name] = true
			b := &c16GapB{op: 'a', atom: name}
			if neg {
				return &c16GapB{op: '!', l: b}
			}
			return b
		}
	}
	if tv, ok := info.Types[e]; ok && tv.Value != nil && tv.Value.Kind() == constant.Bool {
		return &c16GapB{op: 'c', val: constant.BoolVal(tv.Value)}
	}
	switch x := e.(type) {
	case *ast.UnaryExpr:
		if x.Op == token.NOT {
			return &c16GapB{op: '!', l: c16GapParse(info, x.X, at, atoms)}
		}
	case *ast.BinaryExpr:
		switch x.Op {
		case token.LAND:
			return &c16GapB{op: '&', l: c16GapParse(info, x.X, at, atoms), r: c16GapParse(info, x.Y, at, atoms)}
		case token.LOR:
			return &c16GapB{op: '|', l: c16GapParse(info, x.X, at, atoms), r: c16GapParse(info, x.Y, at, atoms)}
		case token.EQL, token.NEQ:
			for _, pr := range [][2]ast.Expr{{x.X, x.Y}, {x.Y, x.X}} {
				if tv, ok := info.Types[pr[1]]; ok && tv.Value != nil && tv.Value.Kind() == constant.Bool {
					inner := c16GapParse(info, pr[0], at, atoms)
					if (x.Op == token.EQL) == constant.BoolVal(tv.Value) {
						return inner
					}
					return &c16GapB{op: '!', l: inner}
				}
			}
			name := "op:" + an.ExprString(x.X) + "==" + an.ExprString(x.Y)
			atoms[name] = true
			if x.Op == token.NEQ {
				return &c16GapB{op: '!', l: &c16GapB{op: 'a', atom: name}}
			}
			return &c16GapB{op: 'a', atom: name}
		}
	}
	name := "op:" + an.ExprString(e)
	atoms[name] = true
	return &c16GapB{op: 'a', atom: name}
}

func (b *c16GapB) eval(env map[string]bool) bool {
	switch b.op {
	case 'a':
		return env[b.atom]
	case 'c':
		return b.val
	case '!':
		return !b.l.eval(env)
	case '&':
		return b.l.eval(env) && b.r.eval(env)
	case '|':
		return b.l.eval(env) || b.r.eval(env)
	}
	return false
}

// c16GapForced: cond evaluates to val under every assignment of its atoms that
// agrees with assume (atoms not recognised by at are free).
func c16GapForced(info *types.Info, cond ast.Expr, val bool, at an.Atomizer, assume map[string]bool) bool {
	atoms := map[string]bool{}
	f := c16GapParse(info, cond, at, atoms)
	var free []string
	env := map[string]bool{}
	for a := range atoms {
		if v, fixed := assume[a]; fixed {
			env[a] = v
		} else {
			free = append(free, a)
		}
	}
	if len(free) > 12 {
		return false
	}
	for m := 0; m < 1<<len(free); m++ {
		for i, a := range free {
			env[a] = m&(1<<i) != 0
		}
		if f.eval(env) != val {
			return false
		}
	}
	return true
}

// c16GapReachedWhen: every branch outcome that dominates n (error tests aside:
// a failed earlier step may skip n) is forced by the assumption, i.e. whenever
// the assumption holds and no earlier step failed, control reaches n.
func c16GapReachedWhen(g *an.Graph, n *an.Node, at an.Atomizer, assume map[string]bool) (bool, string) {
	info := g.Fn.Info()
	for _, f := range g.FactsAt(n) {
		if c16ErrTestOnly(info, f.Cond, f.Val) {
			continue
		}
		if c16GapFailStop(g, f.Edge) {
			continue
		}
		if !c16GapForced(info, f.Cond, f.Val, at, assume) {
			return false, "it also depends on " + an.ExprString(f.Cond) + map[bool]string{true: "", false: " being false"}[f.Val]
		}
	}
	return true, ""
}

// c16GapFailStop: the other outcome of the branch never returns normally
// (logger.Fatal / panic): the branch is a sanity check that stops the node.
func c16GapFailStop(g *an.Graph, edge *an.Node) bool {
	if edge.Cond == nil {
		return false
	}
	var sib []*an.Node
	for _, s := range edge.Cond.Succs {
		if s != edge && (s.Kind == an.KTrue || s.Kind == an.KFalse) {
			sib = append(sib, s)
		}
	}
	if len(sib) != 1 {
		return false
	}
	r := g.Reach(sib, nil)
	return !r[g.Exit] && !r[edge]
}

// c16GapPath renders a selector chain rooted at an object as "obj#field#field" (objects by identity).
func c16GapPath(info *types.Info, e ast.Expr) (types.Object, string) {
	e = ast.Unparen(e)
	switch x := e.(type) {
	case *ast.Ident:
		return an.ObjOf(info, x), ""
	case *ast.SelectorExpr:
		if fv := an.FieldOf(info, x); fv != nil {
			o, s := c16GapPath(info, x.X)
			if o == nil {
				return nil, ""
			}
			return o, s + "." + fv.Name()
		}
	case *ast.UnaryExpr:
		if x.Op == token.AND {
			return c16GapPath(info, x.X)
		}
	case *ast.StarExpr:
		return c16GapPath(info, x.X)
	}
	return nil, ""
}

func c16GapSamePath(info *types.Info, a, b ast.Expr) bool {
	oa, sa := c16GapPath(info, a)
	ob, sb := c16GapPath(info, b)
	return oa != nil && oa == ob && sa == sb
}

// c16GapOnce: obj receives a value exactly once in the function (a bare `var x T` aside).
func c16GapOnce(g *an.Graph, obj types.Object) bool {
	rhs, _, other := c16ValueAssigns(g, obj)
	return len(rhs) == 1 && other == 0
}

func c16GapIsFn(fn *types.Func, pkgPath, name string) bool {
	return fn != nil && fn.Name() == name && fn.Pkg() != nil && fn.Pkg().Path() == pkgPath
}

// c16GapDef follows once-assigned locals: the defining expression of e and the
// result index when that expression is a multi-value call.
func c16GapDef(g *an.Graph, e ast.Expr, depth int) (ast.Expr, int) {
	info := g.Fn.Info()
	e = ast.Unparen(e)
	id, ok := e.(*ast.Ident)
	if !ok || depth <= 0 {
		return e, 0
	}
	o := an.ObjOf(info, id)
	if _, isVar := o.(*types.Var); !isVar {
		return e, 0
	}
	var rhs ast.Expr
	idx, n := 0, 0
	for _, nd := range g.Nodes {
		if nd.Kind != an.KStmt || !an.Assigns(info, nd.Ast, o) {
			continue
		}
		n++
		switch s := nd.Ast.(type) {
		case *ast.AssignStmt:
			if s.Tok != token.ASSIGN && s.Tok != token.DEFINE {
				return e, 0
			}
			for i, l := range s.Lhs {
				if an.ObjOf(info, l) != o {
					continue
				}
				if len(s.Rhs) == len(s.Lhs) {
					rhs, idx = s.Rhs[i], 0
				} else if len(s.Rhs) == 1 {
					rhs, idx = s.Rhs[0], i
				}
			}
		case *ast.ValueSpec:
			for i, nm := range s.Names {
				if info.Defs[nm] != o || len(s.Values) == 0 {
					continue
				}
				if len(s.Values) == len(s.Names) {
					rhs, idx = s.Values[i], 0
				} else {
					rhs, idx = s.Values[0], i
				}
			}
			if len(s.Values) == 0 {
				n-- // `var x T` gives no value
			}
		default:
			return e, 0
		}
	}
	if n != 1 || rhs == nil {
		return e, 0
	}
	if idx == 0 {
		if _, isCall := ast.Unparen(rhs).(*ast.CallExpr); !isCall {
			return c16GapDef(g, rhs, depth-1)
		}
		if tv, ok := info.Types[rhs]; ok {
			if _, isTuple := tv.Type.(*types.Tuple); !isTuple {
				return c16GapDef(g, rhs, depth-1)
			}
		}
	}
	return ast.Unparen(rhs), idx
}

// ---------------------------------------------------------------------------
// save-complete

func c16GapSaveComplete(c *rep.Ctx, p *an.Prog) {
	const rule = "save-complete"
	if f := c.Fn(c16WalDB + ".SaveEntry"); f != nil {
		g, info := f.Graph(), f.Info()
		name := f.Name()
		var state, entries types.Object
		for i := 0; i < 4; i++ {
			po := c16Param(f, i)
			if po == nil {
				continue
			}
			if c16IsNamed(po.Type(), c16Raftpb, "HardState") {
				state = po
			}
			if sl, ok := po.Type().(*types.Slice); ok && c16IsNamed(sl.Elem(), c16Raftpb, "Entry") {
				entries = po
			}
		}
		wre := g.CallsTo("consensus.(ChainWAL).WriteRaftEntry", "chain.(*ChainDB).WriteRaftEntry")
		hs := g.CallsTo("consensus.(ChainWAL).WriteHardState", "chain.(*ChainDB).WriteHardState")
		if len(wre) != 1 || len(hs) != 1 || state == nil || entries == nil {
			c.Undecide(rule, name, "expected one WriteRaftEntry and one WriteHardState site and the (state, entries) parameters")
		} else {
			ok, why := c16GapReachedWhen(g, wre[0].Node, c16LenAtom(info, entries), map[string]bool{"empty": false})
			c.Check(rule, name+"|entries", wre[0].Call.Pos(), ok && !g.InLoop(wre[0].Node), "every non-empty batch of entries is written: the branches in front of WriteRaftEntry are taken whenever len(entries) > 0 "+why)
			atHS := func(x ast.Expr) (string, bool, bool) {
				call, ok := ast.Unparen(x).(*ast.CallExpr)
				if ok && c16GapIsFn(an.Callee(info, call), c16GapRaftLib, "IsEmptyHardState") && len(call.Args) == 1 && an.ObjOf(info, call.Args[0]) == state {
					return "emptyhs", false, true
				}
				return "", false, false
			}
			ok, why = c16GapReachedWhen(g, hs[0].Node, atHS, map[string]bool{"emptyhs": false})
			c.Check(rule, name+"|hardstate", hs[0].Call.Pos(), ok && !g.InLoop(hs[0].Node), "every non-empty hard state is written: the branches in front of WriteHardState are taken whenever the state is not empty "+why)
		}
	}
	if f := c.Fn(c16RS + ".serveChannels"); f != nil {
		g, info := f.Graph(), f.Info()
		name := f.Name()
		ws := g.CallsTo("consensus.(ChainWAL).WriteSnapshot", "chain.(*ChainDB).WriteSnapshot")
		if len(ws) != 1 || len(ws[0].Call.Args) != 1 {
			c.Undecide(rule, name, "expected one WriteSnapshot site")
		} else {
			arg := ws[0].Call.Args[0]
			atSnap := func(x ast.Expr) (string, bool, bool) {
				call, ok := ast.Unparen(x).(*ast.CallExpr)
				if ok && c16GapIsFn(an.Callee(info, call), c16GapRaftLib, "IsEmptySnap") && len(call.Args) == 1 && c16GapSamePath(info, call.Args[0], arg) {
					return "emptysnap", false, true
				}
				return "", false, false
			}
			ok, why := c16GapReachedWhen(g, ws[0].Node, atSnap, map[string]bool{"emptysnap": false})
			c.Check(rule, name+"|snapshot", ws[0].Call.Pos(), ok, "every non-empty snapshot delivered by the library is written to the wal: the branches in front of WriteSnapshot are taken whenever the snapshot is not empty "+why)
		}
	}
	c.Floor(rule, 3)
}

// ---------------------------------------------------------------------------
// identity-restore, identity-match

func c16GapIdentity(c *rep.Ctx, p *an.Prog) {
	st := p.LookupStruct("consensus", "RaftIdentity")
	idField := p.LookupField(c16RaftPkg, "Cluster", "identity")
	rf := c.Fn(c16Cluster + ".RecoverIdentity")
	if st == nil || idField == nil || rf == nil {
		c.Undecide("identity-restore", "consensus.RaftIdentity", "struct, Cluster.identity or RecoverIdentity not found")
		return
	}
	isIDField := func(fv *types.Var) bool {
		for i := 0; i < st.NumFields(); i++ {
			if st.Field(i) == fv {
				return true
			}
		}
		return false
	}
	g, info := rf.Graph(), rf.Info()
	name := rf.Name()
	var id types.Object
	for i := 0; i < 3; i++ {
		if po := c16Param(rf, i); po != nil && c16IsNamed(po.Type(), c16GapCons, "RaftIdentity") {
			id = po
		}
	}
	if id == nil {
		c.Undecide("identity-restore", name, "identity parameter not found")
		return
	}
	whole := an.Set{}
	perField := map[string]an.Set{}
	for _, n := range g.Nodes {
		as, ok := n.Ast.(*ast.AssignStmt)
		if n.Kind != an.KStmt || !ok || as.Tok != token.ASSIGN || len(as.Lhs) != len(as.Rhs) {
			continue
		}
		for i, l := range as.Lhs {
			sel, ok := ast.Unparen(l).(*ast.SelectorExpr)
			if !ok {
				continue
			}
			fv := an.FieldOf(info, sel)
			r := ast.Unparen(as.Rhs[i])
			if fv == idField {
				if star, ok := r.(*ast.StarExpr); ok && an.ObjOf(info, star.X) == id {
					whole[n] = true
				}
				continue
			}
			if fv != nil && isIDField(fv) && an.FieldOf(info, sel.X) == idField {
				if base, rv := c16FieldSel(info, r, fv.Name()); rv == fv && an.ObjOf(info, base) == id {
					if perField[fv.Name()] == nil {
						perField[fv.Name()] = an.Set{}
					}
					perField[fv.Name()][n] = true
				}
			}
		}
	}
	accept := c16NilErrReturns(g)
	for i := 0; i < st.NumFields(); i++ {
		fld := st.Field(i)
		gates := an.Set{}.Union(whole).Union(perField[fld.Name()])
		ok := len(accept) > 0 && len(gates) > 0
		for _, r := range accept {
			if ok && !g.Dominated(r, gates) {
				ok = false
			}
		}
		c.Check("identity-restore", name+"|"+fld.Name(), rf.Pos(), ok, "a successful RecoverIdentity has copied "+fld.Name()+" of the stored identity into the cluster's identity (whole-struct or per-field assignment from the parameter on every accepting path)")
	}
	c.Floor("identity-restore", 4)

	// identity-match: Name and PeerID are compared before the stored identity is adopted,
	// in RecoverIdentity itself or in HasWal (which selects the restart path)
	eqAtom := func(inf *types.Info, fv *types.Var, kind func(ast.Expr) string) an.Atomizer {
		return func(x ast.Expr) (string, bool, bool) {
			be, ok := ast.Unparen(x).(*ast.BinaryExpr)
			if !ok || (be.Op != token.EQL && be.Op != token.NEQ) {
				return "", false, false
			}
			lb, lf := c16FieldSel(inf, be.X, fv.Name())
			rb, rfv := c16FieldSel(inf, be.Y, fv.Name())
			if lf != fv || rfv != fv {
				return "", false, false
			}
			ka, kb := kind(lb), kind(rb)
			if ka == "" || kb == "" || ka == kb {
				return "", false, false
			}
			return "eq", be.Op == token.NEQ, true
		}
	}
	hw := c.Fn("chain.(*ChainDB).HasWal")
	for _, attr := range []string{"Name", "PeerID"} {
		var fv *types.Var
		for i := 0; i < st.NumFields(); i++ {
			if st.Field(i).Name() == attr {
				fv = st.Field(i)
			}
		}
		if fv == nil {
			c.Undecide("identity-match", attr, "attribute not found in consensus.RaftIdentity")
			continue
		}
		// RecoverIdentity
		okRec := false
		{
			kind := func(b ast.Expr) string {
				if an.FieldOf(info, b) == idField {
					return "configured"
				}
				if an.ObjOf(info, b) == id {
					return "stored"
				}
				return ""
			}
			targets := an.Set{}.Union(whole).Union(perField[attr])
			okRec = len(targets) > 0
			for n := range targets {
				if ok, _ := g.GuardedAt(n, eqAtom(info, fv, kind), map[string]bool{"eq": true}); !ok {
					okRec = false
				}
			}
		}
		// HasWal
		okHas := false
		if hw != nil {
			hg, hinfo := hw.Graph(), hw.Info()
			var cfg, stored types.Object
			for i := 0; i < 3; i++ {
				if po := c16Param(hw, i); po != nil && c16IsNamed(po.Type(), c16GapCons, "RaftIdentity") {
					cfg = po
				}
			}
			gi := hg.CallsTo("chain.(*ChainDB).GetIdentity", "consensus.(ChainWAL).GetIdentity")
			if len(gi) == 1 {
				stored = hg.ResultVarAt(gi[0], 0)
			}
			if cfg != nil && stored != nil && c16GapOnce(hg, stored) {
				kind := func(b ast.Expr) string {
					switch an.ObjOf(hinfo, b) {
					case cfg:
						return "configured"
					case stored:
						return "stored"
					}
					return ""
				}
				var yes []*an.Node
				for _, r := range hg.Returns() {
					rs := r.Ast.(*ast.ReturnStmt)
					if len(rs.Results) == 2 {
						if tv, ok := hinfo.Types[rs.Results[0]]; ok && tv.Value != nil && tv.Value.Kind() == constant.Bool && constant.BoolVal(tv.Value) {
							yes = append(yes, r)
						} else if !ok || tv.Value == nil {
							yes = append(yes, r) // a computed answer may be true
						}
					}
				}
				okHas = len(yes) > 0
				for _, r := range yes {
					if ok, _ := hg.GuardedAt(r, eqAtom(hinfo, fv, kind), map[string]bool{"eq": true}); !ok {
						okHas = false
					}
				}
			}
		}
		where := map[bool]string{true: "RecoverIdentity", false: ""}[okRec]
		if okHas {
			if where != "" {
				where += " and "
			}
			where += "HasWal"
		}
		if where == "" {
			where = "neither RecoverIdentity nor HasWal compares it"
		} else {
			where = "compared in " + where
		}
		c.Check("identity-match", attr, rf.Pos(), okRec || okHas, "the identity stored in the wal is adopted on restart only when its "+attr+" equals the configured one ("+where+")")
	}
	c.Floor("identity-match", 2)
}

// replay-identity: replayWAL adopts the identity read from the wal; a refusal stops the node.
func c16GapReplayIdentity(c *rep.Ctx, p *an.Prog) {
	const rule = "replay-identity"
	f := c.Fn(c16RS + ".replayWAL")
	if f == nil {
		return
	}
	g, info := f.Graph(), f.Info()
	name := f.Name()
	ra := g.CallsTo(c16WalDB + ".ReadAll")
	ri := g.CallsTo(c16Cluster + ".RecoverIdentity")
	if len(ra) != 1 || len(ri) > 1 {
		c.Undecide(rule, name, "expected one ReadAll site and at most one RecoverIdentity site")
		return
	}
	if len(ri) == 0 {
		c.Check(rule, name, f.Pos(), false, "replayWAL hands the identity read from the wal to Cluster.RecoverIdentity (no such call)")
		return
	}
	idv := g.ResultVarAt(ra[0], 0)
	okArg := idv != nil && len(ri[0].Call.Args) == 1 && an.ObjOf(info, ri[0].Call.Args[0]) == idv && c16GapOnce(g, idv)
	okDom := g.Dominated(ri[0].Node, g.ErrNilEdges(ra[0]))
	okF, why := c16FailureReported(g, ri[0])
	succ := g.ErrNilEdges(ri[0])
	okAll := len(succ) > 0
	for _, r := range c16NilErrReturns(g) {
		if !g.Dominated(r, succ) {
			okAll = false
		}
	}
	c.Check(rule, name, ri[0].Call.Pos(), okArg && okDom && okF && okAll, "replayWAL adopts the identity returned by ReadAll (after it succeeded) through RecoverIdentity on every successful path, and a refused identity does not start the node "+why)
	c.Floor(rule, 1)
}

// ---------------------------------------------------------------------------
// decode-failure

func c16GapKeyFuncs(p *an.Prog) map[*types.Func]bool {
	pk := p.Pkg("types/dbkey")
	if pk == nil || pk.Types == nil {
		return nil
	}
	prefObj, _ := pk.Types.Scope().Lookup("raftPrefix").(*types.Const)
	if prefObj == nil || prefObj.Val().Kind() != constant.String {
		return nil
	}
	prefix := constant.StringVal(prefObj.Val())
	out := map[*types.Func]bool{}
	for _, f := range p.Funcs() {
		if f.Pkg != pk || f.Body == nil || f.Obj == nil {
			continue
		}
		ast.Inspect(f.Body, func(n ast.Node) bool {
			if id, ok := n.(*ast.Ident); ok {
				if k, ok := pk.TypesInfo.Uses[id].(*types.Const); ok && k != prefObj && k.Val().Kind() == constant.String && strings.HasPrefix(constant.StringVal(k.Val()), prefix) {
					out[f.Obj] = true
				}
			}
			return true
		})
	}
	return out
}

func c16GapDecodeFailure(c *rep.Ctx, p *an.Prog) {
	const rule = "decode-failure"
	keys := c16GapKeyFuncs(p)
	pk := p.Pkg("chain")
	if len(keys) == 0 || pk == nil {
		c.Undecide(rule, "types/dbkey", "raft key constructors or package chain not found")
		return
	}
	for _, f := range p.Funcs() {
		if f.Pkg != pk || f.Body == nil || f.Decl == nil {
			continue
		}
		g, info := f.Graph(), f.Info()
		reads := false
		for _, s := range g.Calls(nil) {
			if s.Fn == nil || s.Fn.Name() != "Get" || !strings.HasPrefix(an.FuncName(s.Fn), c16DB+".") || len(s.Call.Args) != 1 {
				continue
			}
			if inner, ok := ast.Unparen(s.Call.Args[0]).(*ast.CallExpr); ok && keys[an.Callee(info, inner)] {
				reads = true
			}
		}
		if !reads {
			continue
		}
		for _, s := range g.Calls(nil) {
			if s.Fn == nil {
				continue
			}
			nm := an.FuncName(s.Fn)
			if fam := c16Decoders[nm]; fam != "proto" && fam != "gob" {
				continue
			}
			okF, why := c16FailureReported(g, s)
			c.Check(rule, f.Name()+"|"+c16Short(nm), s.Call.Pos(), okF, "a stored raft value that cannot be decoded is reported as an error or stops the node; it is never returned as absent or as a zero value "+why)
		}
	}
	c.Floor(rule, 4)
}

// ---------------------------------------------------------------------------
// wal-kept: a node that has a valid wal restarts from it; the wal is wiped
// only in the states chosen when HasWal answered false.

func c16GapWalKept(c *rep.Ctx, p *an.Prog) {
	const rule = "wal-kept"
	f := c.Fn(c16RS + ".startRaft")
	if f == nil {
		return
	}
	g, info := f.Graph(), f.Info()
	name := f.Name()
	hasWal := []string{"consensus.(ChainWAL).HasWal", "chain.(*ChainDB).HasWal"}
	var L *an.Func
	nL := 0
	for _, l := range f.Lits {
		if len(l.Graph().CallsTo(hasWal...)) == 1 {
			L = l
			nL++
		}
	}
	if nL != 1 || len(g.CallsTo(hasWal...)) != 0 {
		c.Undecide(rule, name, "the state selection (one nested function calling HasWal once) was not recognised")
		return
	}
	gl, linfo := L.Graph(), L.Info()
	site := gl.CallsTo(hasWal...)[0]
	yes, no := gl.BoolEdges(site, true), gl.BoolEdges(site, false)
	if len(yes) == 0 || len(no) == 0 {
		c.Undecide(rule, L.Name(), "the answer of HasWal is not branched on")
		return
	}
	restart := map[*types.Const]bool{}
	type ret struct {
		n *an.Node
		k *types.Const
	}
	var others []ret
	for _, r := range gl.Returns() {
		rs := r.Ast.(*ast.ReturnStmt)
		var k *types.Const
		if len(rs.Results) == 1 {
			k = c16ConstObj(linfo, rs.Results[0])
		}
		if k == nil {
			c.Undecide(rule, L.Name(), "a return of the state selection is not a named constant")
			return
		}
		if gl.Dominated(r, yes) {
			restart[k] = true
		} else {
			others = append(others, ret{r, k})
		}
	}
	okSel := len(restart) > 0
	bad := ""
	for _, o := range others {
		if !restart[o.k] && !gl.Dominated(o.n, no) {
			okSel = false
			bad = " (" + o.k.Name() + " can be chosen although HasWal answered true)"
		}
	}
	c.Check(rule, L.Name()+"|state", site.Call.Pos(), okSel, "every start-up state other than the one chosen for an existing wal is chosen only after HasWal answered false"+bad)

	// the switch over the selected state
	var v types.Object
	an.InspectShallow(f.Body, func(n ast.Node) bool {
		if as, ok := n.(*ast.AssignStmt); ok {
			for i, r := range as.Rhs {
				if ast.Unparen(r) == ast.Expr(L.Lit) && i < len(as.Lhs) {
					v = an.ObjOf(info, as.Lhs[i])
				}
			}
		}
		return true
	})
	var sw *ast.SwitchStmt
	an.InspectShallow(f.Body, func(n ast.Node) bool {
		if s, ok := n.(*ast.SwitchStmt); ok && s.Tag != nil {
			if call, ok := ast.Unparen(s.Tag).(*ast.CallExpr); ok && v != nil && types.Object(an.CalleeVar(info, call)) == v {
				sw = s
			}
		}
		return true
	})
	if sw == nil {
		c.Undecide(rule, name, "no switch over the selected start-up state")
		return
	}
	listed := map[*types.Const]bool{}
	for _, st := range sw.Body.List {
		if cl, ok := st.(*ast.CaseClause); ok {
			for _, x := range cl.List {
				if k := c16ConstObj(info, x); k != nil {
					listed[k] = true
				}
			}
		}
	}
	wipes := g.CallsTo("consensus.(ChainWAL).ResetWAL", "chain.(*ChainDB).ResetWAL", "consensus.(ChainWAL).ClearWAL", "chain.(*ChainDB).ClearWAL")
	for _, w := range wipes {
		var in *ast.CaseClause
		for _, st := range sw.Body.List {
			if cl, ok := st.(*ast.CaseClause); ok && cl.Pos() <= w.Call.Pos() && w.Call.End() <= cl.End() {
				in = cl
			}
		}
		ok := in != nil
		if ok {
			if in.List == nil {
				for k := range restart {
					if !listed[k] {
						ok = false
					}
				}
			}
			for _, x := range in.List {
				if k := c16ConstObj(info, x); k == nil || restart[k] {
					ok = false
				}
			}
		}
		c.Check(rule, name+"|"+w.Fn.Name(), w.Call.Pos(), ok, "the wal is wiped ("+w.Fn.Name()+") only in an arm of a start-up state that is not the restart-from-wal state")
	}
	c.Floor(rule, 3)
}

// ---------------------------------------------------------------------------
// conv-data

func c16GapFieldOfType(t types.Type, name string) *types.Var {
	st, ok := c16Deref(t).Underlying().(*types.Struct)
	if !ok {
		return nil
	}
	for i := 0; i < st.NumFields(); i++ {
		if st.Field(i).Name() == name {
			return st.Field(i)
		}
	}
	return nil
}

// c16GapBlockData: e is (through once-assigned locals and local helpers) marshalEntryData(GetBlock(<wal>.Data)).
func c16GapBlockData(fn *an.Func, e ast.Expr, wal types.Object, walData *types.Var, depth int) bool {
	if depth <= 0 || wal == nil {
		return false
	}
	g, info := fn.Graph(), fn.Info()
	d, idx := c16GapDef(g, e, 4)
	call, ok := d.(*ast.CallExpr)
	if !ok || idx != 0 {
		return false
	}
	callee := an.Callee(info, call)
	if callee != nil && an.FuncName(callee) == c16RaftPkg+".marshalEntryData" && len(call.Args) == 1 {
		d2, idx2 := c16GapDef(g, call.Args[0], 4)
		c2, ok := d2.(*ast.CallExpr)
		if !ok || idx2 != 0 || len(c2.Args) != 1 {
			return false
		}
		if fn2 := an.Callee(info, c2); fn2 == nil || fn2.Name() != "GetBlock" {
			return false
		}
		base, fv := c16FieldSel(info, c2.Args[0], "Data")
		return fv != nil && fv == walData && an.ObjOf(info, base) == wal
	}
	// a local helper that receives the wal entry
	var cf *an.Func
	if callee != nil {
		cf = fn.Prog.FuncOf(callee)
	} else {
		cf = c16LitOf(g, call)
	}
	if cf == nil || cf.Body == nil {
		return false
	}
	var cp types.Object
	for i, a := range call.Args {
		if an.ObjOf(info, a) == wal {
			cp = c16Param(cf, i)
		}
	}
	if cp == nil {
		return false
	}
	n := 0
	for _, r := range c16NilErrReturns(cf.Graph()) {
		rs := r.Ast.(*ast.ReturnStmt)
		if len(rs.Results) < 2 || !c16GapBlockData(cf, rs.Results[0], cp, walData, depth-1) {
			return false
		}
		n++
	}
	return n > 0
}

func c16GapConvData(c *rep.Ctx, p *an.Prog) {
	const rule = "conv-data"
	walData := p.LookupField("consensus", "WalEntry", "Data")
	walType := p.LookupField("consensus", "WalEntry", "Type")
	if walData == nil || walType == nil {
		c.Undecide(rule, "consensus.WalEntry", "fields Data/Type not found")
		return
	}
	// ---- wal -> raft
	if f := c.Fn(c16WalDB + ".convertWalToRaft"); f != nil {
		g, info := f.Graph(), f.Info()
		name := f.Name()
		P := c16Param(f, 0)
		succ := c16NilErrReturns(g)
		var R types.Object
		okR := len(succ) > 0 && P != nil
		for _, r := range succ {
			rs := r.Ast.(*ast.ReturnStmt)
			o := an.ObjOf(info, rs.Results[0])
			if o == nil || (R != nil && o != R) {
				okR = false
			}
			R = o
		}
		var sw *ast.SwitchStmt
		an.InspectShallow(f.Body, func(nd ast.Node) bool {
			if s, ok := nd.(*ast.SwitchStmt); ok && s.Tag != nil {
				if base, fv := c16FieldSel(info, s.Tag, "Type"); fv == walType && an.ObjOf(info, base) == P {
					sw = s
				}
			}
			return true
		})
		if !okR || sw == nil {
			c.Undecide(rule, name, "the converted entry is not one local variable returned on success, or there is no switch on the wal entry's type")
		} else {
			entData := c16GapFieldOfType(R.Type(), "Data")
			type def struct {
				n   *an.Node
				rhs ast.Expr // nil: no Data given (zero value)
			}
			var defs []def
			defSet := an.Set{}
			for _, n := range g.Nodes {
				if n.Kind != an.KStmt {
					continue
				}
				var lhs, rhs []ast.Expr
				switch s := n.Ast.(type) {
				case *ast.AssignStmt:
					lhs, rhs = s.Lhs, s.Rhs
				case *ast.ValueSpec:
					for _, nm := range s.Names {
						lhs = append(lhs, nm)
					}
					rhs = s.Values
				default:
					continue
				}
				for i, l := range lhs {
					if len(rhs) != len(lhs) {
						if an.ObjOf(info, l) == R {
							defs, defSet[n] = append(defs, def{n, nil}), true // defined by a call: unknown payload
						}
						continue
					}
					if an.ObjOf(info, l) == R {
						// whole-entry definition: composite literal (possibly behind &)
						var dv ast.Expr
						x := ast.Unparen(rhs[i])
						if u, ok := x.(*ast.UnaryExpr); ok && u.Op == token.AND {
							x = ast.Unparen(u.X)
						}
						if cl, ok := x.(*ast.CompositeLit); ok {
							for _, el := range cl.Elts {
								if kv, ok := el.(*ast.KeyValueExpr); ok {
									if id, ok := kv.Key.(*ast.Ident); ok && id.Name == "Data" {
										dv = kv.Value
									}
								}
							}
						}
						defs, defSet[n] = append(defs, def{n, dv}), true
						continue
					}
					if base, fv := c16FieldSel(info, l, "Data"); fv != nil && fv == entData && an.ObjOf(info, base) == R {
						defs, defSet[n] = append(defs, def{n, rhs[i]}), true
					}
				}
			}
			armEdge := func(constName string) *an.Node {
				for _, st := range sw.Body.List {
					cl, ok := st.(*ast.CaseClause)
					if !ok || len(cl.List) != 1 || !c16IsConst(info, cl.List[0], c16GapCons, constName) {
						continue
					}
					if n := g.NodeOf(cl.List[0]); n != nil {
						for _, s := range n.Succs {
							if s.Kind == an.KTrue {
								return s
							}
						}
					}
				}
				return nil
			}
			for _, arm := range []struct {
				k    string
				want func(ast.Expr) bool
				msg  string
			}{
				{"EntryConfChange", func(x ast.Expr) bool {
					base, fv := c16FieldSel(info, x, "Data")
					return fv != nil && fv == walData && an.ObjOf(info, base) == P
				}, "a stored configuration change is handed back with the Data it was stored with (raftEntry.Data = walEntry.Data on every successful path of the arm)"},
				{"EntryBlock", func(x ast.Expr) bool { return c16GapBlockData(f, x, P, walData, 3) },
					"a stored block entry is handed back with the re-materialised block: Data = marshalEntryData(GetBlock(walEntry.Data)) on every successful path of the arm"},
			} {
				edge := armEdge(arm.k)
				if edge == nil {
					c.Undecide(rule, name+"|"+arm.k, "arm not found")
					continue
				}
				fromEdge := g.Reach([]*an.Node{edge}, defSet)
				region := g.Reach([]*an.Node{edge}, nil)
				ok, n := true, 0
				for _, d := range defs {
					reaches := false
					r := g.Reach(d.n.Succs, defSet)
					if region[d.n] {
						for _, s := range succ {
							if r[s] {
								reaches = true
							}
						}
					} else if r[edge] {
						for _, s := range succ {
							if fromEdge[s] {
								reaches = true
							}
						}
					}
					if !reaches {
						continue
					}
					n++
					if d.rhs == nil || !arm.want(d.rhs) {
						ok = false
					}
				}
				c.Check(rule, name+"|"+arm.k, sw.Pos(), ok && n > 0, arm.msg)
			}
		}
	}
	// ---- raft -> wal
	if f := c.Fn(c16WalDB + ".convertFromRaft"); f != nil {
		g, info := f.Graph(), f.Info()
		name := f.Name()
		var L *an.Func
		for _, l := range f.Lits {
			if l.Type.Results == nil {
				continue
			}
			var ts []types.Type
			for _, fl := range l.Type.Results.List {
				k := len(fl.Names)
				if k == 0 {
					k = 1
				}
				for j := 0; j < k; j++ {
					ts = append(ts, info.TypeOf(fl.Type))
				}
			}
			if len(ts) == 3 && c16IsNamed(ts[0], an.Module+"/types", "Block") && isErrorTypeC16Gap(ts[2]) {
				if sl, ok := ts[1].(*types.Slice); ok && types.Identical(sl.Elem(), types.Typ[types.Byte]) {
					L = l
				}
			}
		}
		if L == nil {
			c.Undecide(rule, name, "no nested function returning (*types.Block, []byte, error)")
		} else {
			linfo := L.Info()
			ent := c16Param(L, 0)
			okB, okE, nB, nE := true, true, 0, 0
			for _, r := range L.Graph().Returns() {
				rs := r.Ast.(*ast.ReturnStmt)
				if len(rs.Results) != 3 {
					okB, okE = false, false
					continue
				}
				if tv, ok := linfo.Types[rs.Results[2]]; !ok || !tv.IsNil() {
					continue // error return
				}
				if tv, ok := linfo.Types[rs.Results[0]]; ok && tv.IsNil() {
					nE++
					base, fv := c16FieldSel(linfo, rs.Results[1], "Data")
					if fv == nil || ent == nil || an.ObjOf(linfo, base) != ent {
						okE = false
					}
					continue
				}
				nB++
				b := an.ObjOf(linfo, rs.Results[0])
				call, ok := ast.Unparen(rs.Results[1]).(*ast.CallExpr)
				good := false
				if ok && b != nil {
					if fn := an.Callee(linfo, call); fn != nil && an.FuncName(fn) == "types.(*Block).BlockHash" {
						if sel, ok := ast.Unparen(call.Fun).(*ast.SelectorExpr); ok && an.ObjOf(linfo, sel.X) == b {
							good = true
						}
					}
				}
				if !good {
					okB = false
				}
			}
			c.Check(rule, L.Name()+"|block-hash", L.Pos(), okB && nB > 0, "the Data of a block entry is the hash of the very block that is stored with it (block.BlockHash() of the block returned): the reader looks the block up by WalEntry.Data")
			c.Check(rule, L.Name()+"|other-data", L.Pos(), okE && nE > 0, "an entry without block keeps the Data of the raft entry (configuration changes are stored verbatim)")
			// pairing at the call: blocks[i] and the Data of the wal entry come from the same call
			okP := false
			for _, s := range g.Calls(nil) {
				if s.Fn != nil || c16LitOf(g, s.Call) != L {
					continue
				}
				as, ok := s.Node.Ast.(*ast.AssignStmt)
				if !ok || len(as.Lhs) != 3 || len(as.Rhs) != 1 {
					continue
				}
				d := an.ObjOf(info, as.Lhs[1])
				if d == nil {
					continue
				}
				an.InspectShallow(f.Body, func(nd ast.Node) bool {
					cl, ok := nd.(*ast.CompositeLit)
					if !ok || !c16IsNamed(info.TypeOf(cl), c16GapCons, "WalEntry") {
						return true
					}
					for _, el := range cl.Elts {
						if kv, ok := el.(*ast.KeyValueExpr); ok {
							if id, ok := kv.Key.(*ast.Ident); ok && id.Name == "Data" && an.ObjOf(info, kv.Value) == d {
								if _, isIdx := ast.Unparen(as.Lhs[0]).(*ast.IndexExpr); isIdx {
									okP = true
								}
							}
						}
					}
					return true
				})
			}
			c.Check(rule, name+"|pairing", f.Pos(), okP, "the Data stored in the wal entry and the block stored beside it are the two results of one call of the payload helper")
		}
	}
	c.Floor(rule, 5)
}

func isErrorTypeC16Gap(t types.Type) bool {
	return t != nil && types.Identical(t, types.Universe.Lookup("error").Type())
}

// ---------------------------------------------------------------------------
// restart-members

func c16GapRestartMembers(c *rep.Ctx, p *an.Prog) {
	const rule = "restart-members"
	f := c.Fn(c16RS + ".restartNode")
	if f == nil {
		return
	}
	g, info := f.Graph(), f.Info()
	name := f.Name()
	var join types.Object
	for i := 0; i < 3; i++ {
		if po := c16Param(f, i); po != nil && isBoolC16Gap(po.Type()) {
			join = po
		}
	}
	ls := g.CallsTo(c16RS + ".loadSnapshot")
	rec := g.CallsTo(c16Cluster + ".Recover")
	rp := g.CallsTo(c16RS + ".replayWAL")
	if join == nil || len(ls) != 1 || len(rp) != 1 || len(rec) > 1 {
		c.Undecide(rule, name, "expected the join flag, one loadSnapshot, one replayWAL and at most one Recover site")
		return
	}
	if len(rec) == 0 {
		c.Check(rule, name+"|reached", f.Pos(), false, "a restart recovers the member sets from the stored snapshot (no Cluster.Recover call)")
		return
	}
	snap := g.ResultVarAt(ls[0], 0)
	okArg := snap != nil && c16GapOnce(g, snap) && len(rec[0].Call.Args) == 1 && an.ObjOf(info, rec[0].Call.Args[0]) == snap &&
		len(rp[0].Call.Args) == 1 && an.ObjOf(info, rp[0].Call.Args[0]) == snap
	c.Check(rule, name+"|same-snapshot", rec[0].Call.Pos(), okArg, "the snapshot the members are recovered from is the stored snapshot the wal is replayed against (one loadSnapshot result)")
	at := func(x ast.Expr) (string, bool, bool) {
		if id, ok := ast.Unparen(x).(*ast.Ident); ok && an.ObjOf(info, id) == join {
			return "join", false, true
		}
		if snap != nil {
			if _, neg, ok := an.NilAtom(info, snap)(x); ok {
				return "snapnil", neg, true
			}
		}
		return "", false, false
	}
	ok, why := c16GapReachedWhen(g, rec[0].Node, at, map[string]bool{"join": false, "snapnil": false})
	okF, whyF := c16FailureReported(g, rec[0])
	c.Check(rule, name+"|reached", rec[0].Call.Pos(), ok && okF && !g.InLoop(rec[0].Node), "a plain restart (join == false) with a stored snapshot always recovers the member sets from it, and a failure stops the node "+why+whyF)
	// the run-time counterpart: a snapshot installed by the leader replaces the member sets
	if pf := c.Fn(c16RS + ".publishSnapshot"); pf != nil {
		pg, pinfo := pf.Graph(), pf.Info()
		sp := c16Param(pf, 0)
		prec := pg.CallsTo(c16Cluster + ".Recover")
		if len(prec) != 1 || sp == nil || len(prec[0].Call.Args) != 1 {
			c.Check(rule, pf.Name()+"|reached", pf.Pos(), false, "a snapshot received from the leader replaces the member sets through Cluster.Recover (expected exactly one such call)")
		} else {
			o, path := c16GapPath(pinfo, prec[0].Call.Args[0])
			atSnap := func(x ast.Expr) (string, bool, bool) {
				call, ok := ast.Unparen(x).(*ast.CallExpr)
				if ok && c16GapIsFn(an.Callee(pinfo, call), c16GapRaftLib, "IsEmptySnap") && len(call.Args) == 1 && an.ObjOf(pinfo, call.Args[0]) == sp {
					return "emptysnap", false, true
				}
				return "", false, false
			}
			ok, why := c16GapReachedWhen(pg, prec[0].Node, atSnap, map[string]bool{"emptysnap": false})
			okF, whyF := c16FailureReported(pg, prec[0])
			c.Check(rule, pf.Name()+"|reached", prec[0].Call.Pos(), o == sp && path == "" && ok && okF, "every non-empty snapshot received from the leader replaces the member sets (Cluster.Recover of the snapshot parameter), and a failure is reported "+why+whyF)
		}
	}
	c.Floor(rule, 3)
}

func isBoolC16Gap(t types.Type) bool {
	b, ok := t.Underlying().(*types.Basic)
	return ok && b.Info()&types.IsBoolean != 0
}

// ---------------------------------------------------------------------------
// membership bookkeeping

const c16GapMembers = c16RaftPkg + ".(*Members)"

// c16GapRecvField: the Cluster field (appliedMembers / removedMembers / members) a *Members method call is made on.
func c16GapRecvField(g *an.Graph, call *ast.CallExpr) *types.Var {
	sel, ok := ast.Unparen(call.Fun).(*ast.SelectorExpr)
	if !ok {
		return nil
	}
	return c16MembersField(g, sel.X, 3)
}

// removed-recorded: whoever takes a member out of the applied set records it in the removed set.
func c16GapRemovedRecorded(c *rep.Ctx, p *an.Prog) {
	const rule = "removed-recorded"
	applied := p.LookupField(c16RaftPkg, "Cluster", "appliedMembers")
	removed := p.LookupField(c16RaftPkg, "Cluster", "removedMembers")
	if applied == nil || removed == nil {
		c.Undecide(rule, "Cluster", "appliedMembers / removedMembers not found")
		return
	}
	for _, cs := range p.CallSitesOf(map[string]bool{c16GapMembers + ".remove": true}) {
		if cs.Fn == nil {
			continue
		}
		f := cs.Fn
		g, info := f.Graph(), f.Info()
		if c16GapRecvField(g, cs.Call) != applied || len(cs.Call.Args) != 1 {
			continue
		}
		n := g.NodeContaining(cs.Call.Pos())
		m := an.ObjOf(info, cs.Call.Args[0])
		adds := an.Set{}
		for _, s := range g.CallsTo(c16GapMembers + ".add") {
			if c16GapRecvField(g, s.Call) == removed && len(s.Call.Args) == 1 && m != nil && an.ObjOf(info, s.Call.Args[0]) == m {
				adds[s.Node] = true
			}
		}
		ok := n != nil && len(adds) > 0 && (g.PostDominated(n, adds) || g.Dominated(n, adds))
		c.Check(rule, f.Name(), cs.Call.Pos(), ok, "a member taken out of the applied set is added to the removed set on every path (the refusal to re-add a removed id rests on that record)")
	}
	c.Floor(rule, 1)
}

// c16GapRangeField finds `for _, v := range <x>.<field>` loops of f (not in literals).
func c16GapRangeField(g *an.Graph, field *types.Var) []*c16RangeLoop {
	info := g.Fn.Info()
	var out []*c16RangeLoop
	an.InspectShallow(g.Fn.Body, func(n ast.Node) bool {
		rs, ok := n.(*ast.RangeStmt)
		if !ok || field == nil || an.FieldOf(info, rs.X) != field {
			return true
		}
		rl := &c16RangeLoop{stmt: rs}
		if id, ok := rs.Value.(*ast.Ident); ok && id.Name != "_" {
			rl.val = info.Defs[id]
			if rl.val == nil {
				rl.val = info.Uses[id]
			}
		}
		for cur, steps := g.NodeOf(rs.X), 0; cur != nil && steps < 8; steps++ {
			if len(cur.Succs) == 2 {
				rl.head = cur
				for _, s := range cur.Succs {
					if s.Kind == an.KTrue {
						rl.body = s
					} else if s.Kind == an.KFalse {
						rl.done = s
					}
				}
				break
			}
			if len(cur.Succs) != 1 {
				break
			}
			cur = cur.Succs[0]
		}
		if rl.head != nil && rl.body != nil && rl.done != nil {
			out = append(out, rl)
		}
		return true
	})
	return out
}

// c16GapEveryElement: inside the loop the call at site is made for every element:
// it depends only on error tests, and the body has no break / continue / goto.
func c16GapEveryElement(g *an.Graph, rl *c16RangeLoop, site *an.Node) bool {
	info := g.Fn.Info()
	if !rl.contains(g, site) || !g.Dominated(site, an.SetOf(rl.body)) {
		return false
	}
	for _, f := range g.FactsAt(site) {
		if f.Edge == rl.body || !rl.contains(g, f.Edge.Cond) {
			continue
		}
		if !c16ErrTestOnly(info, f.Cond, f.Val) {
			return false
		}
	}
	ok := true
	ast.Inspect(rl.stmt.Body, func(nd ast.Node) bool {
		if b, isB := nd.(*ast.BranchStmt); isB && (b.Tok == token.BREAK || b.Tok == token.CONTINUE || b.Tok == token.GOTO) {
			ok = false
		}
		return true
	})
	// a return inside the body must be an error return
	for _, r := range g.Returns() {
		if rl.contains(g, r) && !c16SureErr(g, r) {
			ok = false
		}
	}
	return ok
}

// recover-sets: Cluster.Recover restores both member sets of the snapshot, element by element.
func c16GapRecoverSets(c *rep.Ctx, p *an.Prog) {
	const rule = "recover-sets"
	f := c.Fn(c16Cluster + ".Recover")
	if f == nil {
		return
	}
	g, info := f.Graph(), f.Info()
	name := f.Name()
	fMembers := p.LookupField("consensus", "SnapshotData", "Members")
	fRemoved := p.LookupField("consensus", "SnapshotData", "RemovedMembers")
	removed := p.LookupField(c16RaftPkg, "Cluster", "removedMembers")
	snapParam := c16Param(f, 0)
	if fMembers == nil || fRemoved == nil || removed == nil || snapParam == nil {
		c.Undecide(rule, name, "SnapshotData fields, Cluster.removedMembers or the snapshot parameter not found")
		return
	}
	// source: the snapshot data is decoded from the Data of the snapshot parameter
	var data types.Object
	dec := g.CallsTo("consensus.(*SnapshotData).Decode")
	okSrc := false
	if len(dec) == 1 && len(dec[0].Call.Args) == 1 {
		if sel, ok := ast.Unparen(dec[0].Call.Fun).(*ast.SelectorExpr); ok {
			data = an.ObjOf(info, sel.X)
		}
		if o, path := c16GapPath(info, dec[0].Call.Args[0]); o == snapParam && path == ".Data" && data != nil {
			okSrc = true
		}
	}
	c.Check(rule, name+"|source", f.Pos(), okSrc, "the member sets recovered are decoded from the Data of the snapshot given to Recover")
	// the "recovered" returns: successful returns behind the reset of the member sets
	resets := g.CallsTo(c16Cluster + ".ResetMembers")
	if len(resets) != 1 {
		c.Undecide(rule, name, "expected one ResetMembers site")
		return
	}
	var recovered []*an.Node
	after := g.Reach(resets[0].Node.Succs, nil)
	for _, r := range c16NilErrReturns(g) {
		if after[r] {
			recovered = append(recovered, r)
		}
	}
	check := func(key string, field *types.Var, match func(s an.Site, v types.Object) bool, msg string) {
		ok := false
		for _, rl := range c16GapRangeField(g, field) {
			sel, isSel := ast.Unparen(rl.stmt.X).(*ast.SelectorExpr)
			if data == nil || rl.val == nil || !isSel || an.ObjOf(info, sel.X) != data {
				continue
			}
			if !after[rl.head] {
				continue // a loop in front of the reset is undone by it
			}
			for _, s := range g.Calls(nil) {
				if !match(s, rl.val) || !c16GapEveryElement(g, rl, s.Node) {
					continue
				}
				all := len(recovered) > 0
				for _, r := range recovered {
					if !g.Dominated(r, an.SetOf(rl.done)) {
						all = false
					}
				}
				if all {
					ok = true
				}
			}
		}
		c.Check(rule, name+"|"+key, f.Pos(), ok, msg)
	}
	check("applied", fMembers, func(s an.Site, v types.Object) bool {
		if s.Fn == nil || an.FuncName(s.Fn) != c16Cluster+".addMember" || len(s.Call.Args) != 2 || an.ObjOf(info, s.Call.Args[0]) != v {
			return false
		}
		tv, ok := info.Types[s.Call.Args[1]]
		return ok && tv.Value != nil && tv.Value.Kind() == constant.Bool && constant.BoolVal(tv.Value)
	}, "every member of the snapshot is restored as an applied member (addMember(m, true) for each element of SnapshotData.Members, after the reset, before the successful return)")
	check("removed", fRemoved, func(s an.Site, v types.Object) bool {
		return s.Fn != nil && an.FuncName(s.Fn) == c16GapMembers+".add" && len(s.Call.Args) == 1 && an.ObjOf(info, s.Call.Args[0]) == v && c16GapRecvField(g, s.Call) == removed
	}, "every removed member of the snapshot is restored into the removed set (removedMembers.add(m) for each element of SnapshotData.RemovedMembers, after the reset, before the successful return)")
	c.Floor(rule, 3)
}

// snapshot-sets: what Recover reads is what the snapshot writer puts there.
var c16GapSnapNoMembers = map[string]string{
	"chain.(*ChainDB).ResetWAL": "temporary snapshot of a node that joins with a backup: restartNode(join=true) does not recover members from it, they come from the remote cluster",
}

func c16GapSnapshotSets(c *rep.Ctx, p *an.Prog) {
	const rule = "snapshot-sets"
	applied := p.LookupField(c16RaftPkg, "Cluster", "appliedMembers")
	removed := p.LookupField(c16RaftPkg, "Cluster", "removedMembers")
	nf := c.Fn("consensus.NewSnapshotData")
	if applied == nil || removed == nil || nf == nil {
		return
	}
	// the constructor stores parameter 0 as Members and parameter 1 as RemovedMembers
	{
		info := nf.Info()
		got := map[string]types.Object{}
		n := 0
		an.InspectShallow(nf.Body, func(nd ast.Node) bool {
			cl, ok := nd.(*ast.CompositeLit)
			if !ok || !c16IsNamed(info.TypeOf(cl), c16GapCons, "SnapshotData") {
				return true
			}
			n++
			for _, el := range cl.Elts {
				if kv, ok := el.(*ast.KeyValueExpr); ok {
					if id, ok := kv.Key.(*ast.Ident); ok {
						got[id.Name] = an.ObjOf(info, kv.Value)
					}
				}
			}
			return true
		})
		if n != 1 {
			c.Undecide(rule, nf.Name(), "expected one SnapshotData literal")
		} else {
			p0, p1 := c16Param(nf, 0), c16Param(nf, 1)
			c.Check(rule, nf.Name()+"|Members", nf.Pos(), p0 != nil && got["Members"] == p0, "NewSnapshotData stores its first member list as SnapshotData.Members")
			c.Check(rule, nf.Name()+"|RemovedMembers", nf.Pos(), p1 != nil && got["RemovedMembers"] == p1, "NewSnapshotData stores its second member list as SnapshotData.RemovedMembers")
		}
	}
	for _, cs := range p.CallSitesOf(map[string]bool{"consensus.NewSnapshotData": true}) {
		if cs.Fn == nil || len(cs.Call.Args) != 3 {
			continue
		}
		f := cs.Fn
		if why, ex := c16GapSnapNoMembers[f.Name()]; ex {
			info := f.Info()
			nilArg := func(x ast.Expr) bool { tv, ok := info.Types[x]; return ok && tv.IsNil() }
			c.CheckTrivial(rule, f.Name()+"|no-members", cs.Call.Pos(), nilArg(cs.Call.Args[0]) && nilArg(cs.Call.Args[1]), "snapshot without member sets: "+why)
			continue
		}
		g := f.Graph()
		from := func(x ast.Expr, want *types.Var) bool {
			d, idx := c16GapDef(g, x, 4)
			call, ok := d.(*ast.CallExpr)
			if !ok || idx != 0 {
				return false
			}
			fn := an.Callee(f.Info(), call)
			return fn != nil && an.FuncName(fn) == c16GapMembers+".ToArray" && c16GapRecvField(g, call) == want
		}
		c.Check(rule, f.Name()+"|applied", cs.Call.Pos(), from(cs.Call.Args[0], applied), "the snapshot's Members are the applied members of the cluster (appliedMembers.ToArray())")
		c.Check(rule, f.Name()+"|removed", cs.Call.Pos(), from(cs.Call.Args[1], removed), "the snapshot's RemovedMembers are the removed members of the cluster (removedMembers.ToArray())")
	}
	c.Floor(rule, 4)
}

// member-index: add, remove and getMember agree on MapByID[member.ID].
func c16GapMemberIndex(c *rep.Ctx, p *an.Prog) {
	const rule = "member-index"
	byID := p.LookupField(c16RaftPkg, "Members", "MapByID")
	if byID == nil {
		c.Undecide(rule, "Members.MapByID", "field not found")
		return
	}
	isID := func(g *an.Graph, x ast.Expr, m types.Object) bool {
		info := g.Fn.Info()
		d, _ := c16GapDef(g, x, 3)
		base, fv := c16FieldSel(info, d, "ID")
		return fv != nil && m != nil && an.ObjOf(info, base) == m
	}
	if f := c.Fn(c16GapMembers + ".add"); f != nil {
		g, info := f.Graph(), f.Info()
		m, recv := c16Param(f, 0), c16Recv(f)
		sets := an.Set{}
		for _, n := range g.Nodes {
			as, ok := n.Ast.(*ast.AssignStmt)
			if n.Kind != an.KStmt || !ok || as.Tok != token.ASSIGN || len(as.Lhs) != len(as.Rhs) {
				continue
			}
			for i, l := range as.Lhs {
				ix, ok := ast.Unparen(l).(*ast.IndexExpr)
				if !ok || an.FieldOf(info, ix.X) != byID {
					continue
				}
				if b, _ := c16FieldSel(info, ix.X, "MapByID"); an.ObjOf(info, b) == recv && isID(g, ix.Index, m) && an.ObjOf(info, as.Rhs[i]) == m {
					sets[n] = true
				}
			}
		}
		c.Check(rule, f.Name(), f.Pos(), len(sets) > 0 && g.PostDominated(g.Entry, sets), "Members.add files the member under its own ID in MapByID on every path (the duplicate scan, getMember and isExist read that map)")
	}
	if f := c.Fn(c16GapMembers + ".remove"); f != nil {
		g, info := f.Graph(), f.Info()
		m, recv := c16Param(f, 0), c16Recv(f)
		dels := an.Set{}
		for _, s := range g.Calls(nil) {
			if an.IsBuiltin(info, s.Call, "delete") && len(s.Call.Args) == 2 && an.FieldOf(info, s.Call.Args[0]) == byID {
				if b, _ := c16FieldSel(info, s.Call.Args[0], "MapByID"); an.ObjOf(info, b) == recv && isID(g, s.Call.Args[1], m) {
					dels[s.Node] = true
				}
			}
		}
		c.Check(rule, f.Name(), f.Pos(), len(dels) > 0 && g.PostDominated(g.Entry, dels), "Members.remove deletes MapByID[member.ID] on every path (a removed member must not be found by id afterwards)")
	}
	if f := c.Fn(c16GapMembers + ".getMember"); f != nil {
		g, info := f.Graph(), f.Info()
		id, recv := c16Param(f, 0), c16Recv(f)
		ok, n := true, 0
		for _, r := range g.Returns() {
			rs := r.Ast.(*ast.ReturnStmt)
			if len(rs.Results) != 1 {
				ok = false
				continue
			}
			if tv, isT := info.Types[rs.Results[0]]; isT && tv.IsNil() {
				continue
			}
			n++
			d, _ := c16GapDef(g, rs.Results[0], 3)
			ix, isIx := ast.Unparen(d).(*ast.IndexExpr)
			if !isIx || an.FieldOf(info, ix.X) != byID || an.ObjOf(info, ix.Index) != id || id == nil {
				ok = false
				continue
			}
			if b, _ := c16FieldSel(info, ix.X, "MapByID"); an.ObjOf(info, b) != recv {
				ok = false
			}
		}
		c.Check(rule, f.Name(), f.Pos(), ok && n > 0, "Members.getMember answers with MapByID[id] of the id asked for (nil when absent)")
	}
	c.Floor(rule, 3)
}

// recover-skip: Recover may be skipped only when both sets equal the snapshot's.
func c16GapRecoverSkip(c *rep.Ctx, p *an.Prog) {
	const rule = "recover-skip"
	applied := p.LookupField(c16RaftPkg, "Cluster", "appliedMembers")
	removed := p.LookupField(c16RaftPkg, "Cluster", "removedMembers")
	fMembers := p.LookupField("consensus", "SnapshotData", "Members")
	fRemoved := p.LookupField("consensus", "SnapshotData", "RemovedMembers")
	rf := c.Fn(c16Cluster + ".Recover")
	ef := c.Fn(c16Cluster + ".isAllMembersEqual")
	if applied == nil || removed == nil || fMembers == nil || fRemoved == nil || rf == nil || ef == nil {
		return
	}
	// roles of the parameters of isAllMembersEqual, from its call in Recover
	rg, rinfo := rf.Graph(), rf.Info()
	calls := rg.CallsTo(c16Cluster + ".isAllMembersEqual")
	if len(calls) != 1 {
		c.Undecide(rule, rf.Name(), "expected one isAllMembersEqual site in Recover")
		return
	}
	role := map[types.Object]*types.Var{}
	for i, a := range calls[0].Call.Args {
		if fv := an.FieldOf(rinfo, a); fv == fMembers || fv == fRemoved {
			if po := c16Param(ef, i); po != nil {
				role[po] = fv
			}
		}
	}
	// the skip in Recover: the early successful return is taken only when the answer was true
	yes := rg.BoolEdges(calls[0], true)
	resets := rg.CallsTo(c16Cluster + ".ResetMembers")
	okSkip := len(yes) > 0 && len(resets) == 1
	if okSkip {
		after := rg.Reach(resets[0].Node.Succs, nil)
		for _, r := range c16NilErrReturns(rg) {
			if !after[r] && !rg.Dominated(r, yes) {
				okSkip = false
			}
		}
	}
	c.Check(rule, rf.Name()+"|gate", calls[0].Call.Pos(), okSkip, "Recover returns without restoring the member sets only when isAllMembersEqual answered true")
	g, info := ef.Graph(), ef.Info()
	for _, pr := range []struct {
		key   string
		set   *types.Var
		field *types.Var
	}{{"applied", applied, fMembers}, {"removed", removed, fRemoved}} {
		gates := an.Set{}
		cmpCalls := map[*ast.CallExpr]bool{}
		for _, s := range g.Calls(nil) {
			if s.Fn != nil || len(s.Call.Args) != 2 || c16LitOf(g, s.Call) == nil {
				continue
			}
			var haveSet, haveParam bool
			for _, a := range s.Call.Args {
				if role[an.ObjOf(info, a)] == pr.field {
					haveParam = true
					continue
				}
				d, idx := c16GapDef(g, a, 4)
				if call, ok := d.(*ast.CallExpr); ok && idx == 0 {
					if fn := an.Callee(info, call); fn != nil && an.FuncName(fn) == c16GapMembers+".ToArray" && c16GapRecvField(g, call) == pr.set {
						haveSet = true
					}
				}
			}
			if haveSet && haveParam {
				cmpCalls[s.Call] = true
				for ed := range g.BoolEdges(s, true) {
					gates[ed] = true
				}
			}
		}
		ok := len(cmpCalls) > 0
		nYes := 0
		for _, r := range g.Returns() {
			rs := r.Ast.(*ast.ReturnStmt)
			if len(rs.Results) != 1 {
				ok = false
				continue
			}
			if tv, isT := info.Types[rs.Results[0]]; isT && tv.Value != nil && tv.Value.Kind() == constant.Bool {
				if constant.BoolVal(tv.Value) {
					nYes++
					if !g.Dominated(r, gates) {
						ok = false
					}
				}
				continue
			}
			// a computed answer: true must imply a matching comparison, unless the return already lies behind one
			nYes++
			at := func(x ast.Expr) (string, bool, bool) {
				if call, isC := ast.Unparen(x).(*ast.CallExpr); isC && cmpCalls[call] {
					return "eq", false, true
				}
				return "", false, false
			}
			if !g.Dominated(r, gates) && !an.CondImplies(info, rs.Results[0], true, at, map[string]bool{"eq": true}) {
				ok = false
			}
		}
		ok = ok && nYes > 0
		c.Check(rule, ef.Name()+"|"+pr.key, ef.Pos(), ok, "isAllMembersEqual answers true only after the "+pr.key+" set of the cluster was compared with the snapshot's "+pr.field.Name()+" and found equal")
	}
	c.Floor(rule, 3)
}

// snapshot-pairing: the index a snapshot is created at and the block it describes belong to one commit entry.
func c16GapSnapshotPairing(c *rep.Ctx, p *an.Prog) {
	const rule = "snapshot-pairing"
	f := c.Fn(c16RS + ".triggerSnapshot")
	if f == nil {
		return
	}
	g, info := f.Graph(), f.Info()
	name := f.Name()
	var cs, ds []an.Site
	for _, s := range g.Calls(nil) {
		if s.Fn == nil {
			continue
		}
		if c16GapIsFn(s.Fn, c16GapRaftLib, "CreateSnapshot") {
			cs = append(cs, s)
		}
		if an.FuncName(s.Fn) == c16RaftPkg+".(*ChainSnapshotter).createSnapshotData" {
			ds = append(ds, s)
		}
	}
	if len(cs) != 1 || len(ds) != 1 || len(cs[0].Call.Args) != 3 || len(ds[0].Call.Args) != 3 {
		c.Undecide(rule, name, "expected one CreateSnapshot and one createSnapshotData site")
		return
	}
	field := func(x ast.Expr, want string) types.Object {
		d, _ := c16GapDef(g, x, 4)
		base, fv := c16FieldSel(info, d, want)
		if fv == nil || !c16IsNamed(info.TypeOf(base), an.Module+"/"+c16RaftPkg, "commitEntry") {
			return nil
		}
		return an.ObjOf(info, base)
	}
	a, b := field(cs[0].Call.Args[0], "index"), field(ds[0].Call.Args[1], "block")
	ok := a != nil && a == b && c16GapOnce(g, a)
	c.Check(rule, name, cs[0].Call.Pos(), ok, "the index the snapshot is created at and the block described by its data are the index and block of one commit entry (the last entry connected to the chain)")
	c.Floor(rule, 1)
}

// ---------------------------------------------------------------------------
// apply-arms: a committed AddNode makes the member an applied member, a
// committed RemoveNode removes it (the arms of applyConfChange are not mixed up).

func c16GapApplyArms(c *rep.Ctx, p *an.Prog) {
	const rule = "apply-arms"
	f := c.Fn(c16RS + ".applyConfChange")
	if f == nil {
		return
	}
	g, info := f.Graph(), f.Info()
	name := f.Name()
	vs := g.CallsTo(c16RS + ".ValidateConfChangeEntry")
	if len(vs) != 1 {
		c.Undecide(rule, name, "expected one ValidateConfChangeEntry site")
		return
	}
	ccv, mv := g.ResultVarAt(vs[0], 0), g.ResultVarAt(vs[0], 1)
	var sw *ast.SwitchStmt
	an.InspectShallow(f.Body, func(n ast.Node) bool {
		if s, ok := n.(*ast.SwitchStmt); ok && s.Tag != nil {
			if base, fv := c16FieldSel(info, s.Tag, "Type"); fv != nil && ccv != nil && an.ObjOf(info, base) == ccv {
				sw = s
			}
		}
		return true
	})
	if sw == nil || mv == nil {
		c.Undecide(rule, name, "no switch on the type of the validated conf change")
		return
	}
	arm := func(constName string) (*ast.CaseClause, an.Set) {
		for _, st := range sw.Body.List {
			cl, ok := st.(*ast.CaseClause)
			if !ok {
				continue
			}
			has := false
			edges := an.Set{}
			for _, x := range cl.List {
				if c16IsConst(info, x, c16Raftpb, constName) {
					has = true
				}
				if n := g.NodeOf(x); n != nil {
					for _, s := range n.Succs {
						if s.Kind == an.KTrue {
							edges[s] = true
						}
					}
				}
			}
			if has && len(edges) == len(cl.List) {
				return cl, edges
			}
		}
		return nil, nil
	}
	inArm := func(cl *ast.CaseClause, edges an.Set, s an.Site) bool {
		if cl == nil || !(cl.Pos() <= s.Call.Pos() && s.Call.End() <= cl.End()) || !g.Dominated(s.Node, edges) {
			return false
		}
		for _, ft := range g.FactsAt(s.Node) {
			if edges[ft.Edge] || ft.Cond.Pos() < cl.Pos() || ft.Cond.End() > cl.End() {
				continue
			}
			if !c16ErrTestOnly(info, ft.Cond, ft.Val) && !c16GapFailStop(g, ft.Edge) {
				return false
			}
		}
		return true
	}
	addCl, addEdge := arm("ConfChangeAddNode")
	rmCl, rmEdge := arm("ConfChangeRemoveNode")
	okAdd, okRm := false, false
	for _, s := range g.CallsTo(c16Cluster + ".addMember") {
		if len(s.Call.Args) == 2 && an.ObjOf(info, s.Call.Args[0]) == mv && inArm(addCl, addEdge, s) {
			if tv, ok := info.Types[s.Call.Args[1]]; ok && tv.Value != nil && tv.Value.Kind() == constant.Bool && constant.BoolVal(tv.Value) {
				okAdd = true
			}
		}
		if inArm(rmCl, rmEdge, s) {
			okRm = false
		}
	}
	for _, s := range g.CallsTo(c16Cluster + ".removeMember") {
		if len(s.Call.Args) == 1 && an.ObjOf(info, s.Call.Args[0]) == mv && inArm(rmCl, rmEdge, s) {
			okRm = true
		}
	}
	for _, s := range g.CallsTo(c16Cluster + ".removeMember") {
		if addCl != nil && addCl.Pos() <= s.Call.Pos() && s.Call.End() <= addCl.End() {
			okAdd = false
		}
	}
	for _, s := range g.CallsTo(c16Cluster + ".addMember") {
		if rmCl != nil && rmCl.Pos() <= s.Call.Pos() && s.Call.End() <= rmCl.End() {
			okRm = false
		}
	}
	c.Check(rule, name+"|add", sw.Pos(), okAdd, "a committed AddNode change makes the validated member an applied member: addMember(member, true) on every non-failing path of the AddNode arm (and no removal there)")
	c.Check(rule, name+"|remove", sw.Pos(), okRm, "a committed RemoveNode change removes the validated member: removeMember(member) on every non-failing path of the RemoveNode arm (and no addition there)")
	c.Floor(rule, 2)
}
