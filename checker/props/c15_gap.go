package props

import (
	"go/ast"
	"go/token"
	"go/types"
	"sort"
	"strings"

	"verif/checker/internal/an"
	"verif/checker/internal/rep"
)

// Rules added by the gap review of C15 (governance accounting).  Every rule is
// a necessary condition of a clause of the property that the first rules did
// not decide; each was found by applying a small, compiling patch that breaks
// the clause and was not reported (the patches are kept under
// /verif/seeded/_mut/C15 together with behaviour-preserving variants that must
// stay silent).
//
//	when-stamp        every command that persists the staking record stamps it with the current block first
//	run-steps         a command that changes the tally also persists the voter's record and the stamped staking record
//	key-roles         issue key and voter are never exchanged between the readers and writers of a governance record;
//	                  records are written under the executing sender's id
//	polarity          credit functions only add the delta, debit functions only subtract it, on the same state elements
//	refresh-expired   a vote that can still be changed is never exempt from the shrink after an unstake
//	rank-direction    the ranking is sorted so that its head is the maximum (consumers take the head)
//	tally-key-codec   the tally map is filled, indexed and listed under the same key encoding per kind of issue
//	sync-writes       VoteResult.Sync applies the pending voting power and persists total and ranking on every success path
//	vpr-apply         an applied voting-power change updates the total and is consumed; bucket loops cover all buckets
//	vote-binding-sym  the add and sub bindings of one fork arm both touch the voting-power rank or neither does
//	name-current-read ownership decisions on the execution path read the working state, not the block-start state
//	param-commit      a voted parameter becomes active only through CommitParams(apply)
//	stride-loop       every fixed-stride walk over Vote.Candidate visits each element exactly once
//	dispatch          an operation is dispatched to the command that its validator arm prepared the context for
//	name-binding      an updated name resolves to the address the owner asked for; the recorded owner of the name contract is the account that was paid
func init() { extend("C15", c15GapRun) }

func c15GapRun(c *rep.Ctx) {
	e := c15GapEnvOf(c)
	if e == nil {
		return
	}
	c15GapWhenStamp(e)
	c15GapRunSteps(e)
	c15GapKeyRoles(e)
	c15GapPolarity(e)
	c15GapRefreshExpired(e)
	c15GapRankDirection(e)
	c15GapTallyKeyCodec(e)
	c15GapSyncWrites(e)
	c15GapVprApply(e)
	c15GapBindingSym(e)
	c15GapNameCurrentRead(e)
	c15GapParamCommit(e)
	c15GapStrideLoop(e)
	c15GapDispatch(e)
	c15GapNameBinding(e)
}

func c15GapEnvOf(c *rep.Ctx) *c15Env {
	p := c.Prog
	e := &c15Env{c: c, p: p, sys: p.Pkg("contract/system"), nm: p.Pkg("contract/name")}
	if e.sys == nil || e.nm == nil {
		c.Undecide("gap-anchor", "contract/system, contract/name", "governance packages not loaded")
		return nil
	}
	ok := true
	fld := func(name string) *types.Var {
		v := p.LookupField("contract/system", "SystemContext", name)
		if v == nil {
			c.Undecide("gap-anchor", "contract/system.SystemContext."+name, "field not found")
			ok = false
		}
		return v
	}
	e.fSender, e.fReceiver, e.fStaked, e.fVote = fld("Sender"), fld("Receiver"), fld("Staked"), fld("Vote")
	e.fTxBody, e.fOp, e.fProposal = fld("txBody"), fld("op"), fld("Proposal")
	if !ok {
		return nil
	}
	return e
}

// ---------------------------------------------------------------------------
// helpers

const (
	c15GapSetStaking = "contract/system.setStaking"
	c15GapAddVote    = "contract/system.(*VoteResult).AddVote"
	c15GapSubVote    = "contract/system.(*VoteResult).SubVote"
	c15GapAccountID  = "state.(*AccountState).ID"
)

// c15GapInSys: call-graph edges that stay inside contract/system.
func (e *c15Env) c15GapInSys(ed an.Edge) bool { return ed.Callee != nil && ed.Callee.Pkg == e.sys }

// c15GapCtors: the functions of contract/system that build a value of the
// named type with a composite literal.
func (e *c15Env) c15GapCtors(t *types.Named) []*an.Func {
	var out []*an.Func
	for _, f := range e.p.Funcs() {
		if f.Pkg != e.sys || f.Body == nil || f.Lit != nil {
			continue
		}
		found := false
		ast.Inspect(f.Body, func(n ast.Node) bool {
			if cl, ok := n.(*ast.CompositeLit); ok {
				if tv, ok := f.Info().Types[cl]; ok && types.Identical(tv.Type, t) {
					found = true
				}
			}
			return !found
		})
		if found {
			out = append(out, f)
		}
	}
	return out
}

// c15GapUnconv strips parentheses and type conversions.
func c15GapUnconv(info *types.Info, x ast.Expr) ast.Expr {
	for {
		x = ast.Unparen(x)
		call, ok := x.(*ast.CallExpr)
		if !ok || len(call.Args) != 1 {
			return x
		}
		if tv, ok := info.Types[call.Fun]; !ok || !tv.IsType() {
			return x
		}
		x = call.Args[0]
	}
}

// c15GapMentionsDelta: the value of the expression depends on a delta
// parameter (a *big.Int or *types.Vote parameter, not the receiver, not a state
// handle or an id) of the declared function enclosing f, directly or through
// locals that are assigned exactly once.  Map / slice index expressions are not
// part of the value.
func c15GapMentionsDelta(f *an.Func, x ast.Node) bool {
	top := f.TopDecl()
	if top == nil || top.Obj == nil {
		return false
	}
	sig := top.Obj.Type().(*types.Signature)
	isDelta := func(o *types.Var) bool {
		for i := 0; i < sig.Params().Len(); i++ {
			if sig.Params().At(i) != o {
				continue
			}
			pt, ok := o.Type().(*types.Pointer)
			if !ok {
				return false
			}
			nt, ok := pt.Elem().(*types.Named)
			if !ok || nt.Obj().Pkg() == nil {
				return false
			}
			switch nt.Obj().Pkg().Path() + "." + nt.Obj().Name() {
			case "math/big.Int", an.Module + "/types.Vote":
				return true
			}
		}
		return false
	}
	r := c15ResolverOf(f)
	seen := map[types.Object]bool{}
	var mentions func(x ast.Node, depth int) bool
	mentions = func(x ast.Node, depth int) bool {
		if x == nil || depth > 6 {
			return false
		}
		found := false
		ast.Inspect(x, func(n ast.Node) bool {
			if found {
				return false
			}
			if ix, ok := n.(*ast.IndexExpr); ok {
				if mentions(ix.X, depth) {
					found = true
				}
				return false
			}
			id, ok := n.(*ast.Ident)
			if !ok {
				return true
			}
			o, isVar := r.info.Uses[id].(*types.Var)
			if !isVar {
				return true
			}
			if isDelta(o) {
				found = true
				return false
			}
			if d, has := r.defs[o]; has && r.cnt[o] == 1 && !seen[o] {
				seen[o] = true
				if d.call != nil && mentions(d.call, depth+1) {
					found = true
				} else if d.expr != nil && mentions(d.expr, depth+1) {
					found = true
				}
			}
			return !found
		})
		return found
	}
	return mentions(x, 0)
}

func c15GapParamIndex(f *an.Func, v *types.Var) int {
	if f == nil || f.Obj == nil {
		return -1
	}
	sig := f.Obj.Type().(*types.Signature)
	for i := 0; i < sig.Params().Len(); i++ {
		if sig.Params().At(i) == v {
			return i
		}
	}
	return -1
}

// c15GapBoolCond: the vertex is a two-way branch on a boolean expression.
func c15GapBoolCond(info *types.Info, n *an.Node) (ast.Expr, bool) {
	if n.Kind != an.KStmt || len(n.Succs) != 2 {
		return nil, false
	}
	x, ok := n.Ast.(ast.Expr)
	if !ok {
		return nil, false
	}
	tv, has := info.Types[x]
	if !has || tv.Type == nil {
		return nil, false
	}
	b, isB := tv.Type.Underlying().(*types.Basic)
	if !isB || b.Info()&types.IsBoolean == 0 {
		return nil, false
	}
	return x, true
}

func c15GapEdge(n *an.Node, kind an.NodeKind) *an.Node {
	for _, s := range n.Succs {
		if s.Kind == kind {
			return s
		}
	}
	return nil
}

// ---------------------------------------------------------------------------
// when-stamp
//
// The lock periods are measured from Staking.When of the *persisted* record.
// A command that writes the record (updateStaking) without first setting When
// to the current block leaves the time of an older action in place: the next
// stake / unstake / vote is then admitted inside the lock period of this one.
// Decided: every call of updateStaking is dominated by
// Staked.SetWhen(BlockInfo.No) of the context, in the same function or on
// every non-failing return of the single constructor of the command type.
func c15GapWhenStamp(e *c15Env) {
	c, p := e.c, e.p
	fNo := p.LookupField("types", "BlockHeaderInfo", "No")
	fBI := p.LookupField("contract/system", "SystemContext", "BlockInfo")
	if fNo == nil || fBI == nil {
		c.Undecide("when-stamp", "types.BlockHeaderInfo.No / SystemContext.BlockInfo", "fields not found")
		return
	}
	stampsOf := func(f *an.Func) an.Set {
		g := f.Graph()
		r := c15ResolverOf(f)
		out := an.Set{}
		for _, s := range g.CallsTo("types.(*Staking).SetWhen") {
			if len(s.Call.Args) != 1 || !e.recvIsField(r, s.Call, e.fStaked) {
				continue
			}
			v := r.Resolve(c15GapUnconv(r.info, s.Call.Args[0]))
			if v.Expr == nil {
				continue
			}
			sel, ok := c15GapUnconv(r.info, v.Expr).(*ast.SelectorExpr)
			if !ok || an.FieldOf(r.info, sel) != fNo || r.Field(sel.X) != fBI {
				continue
			}
			out[s.Node] = true
		}
		return out
	}
	for _, cs := range p.CallSitesOf(map[string]bool{c15UpdateStaking: true}) {
		if cs.Fn == nil {
			continue
		}
		f := cs.Fn
		key := f.Name()
		if f.Lit != nil {
			c.Check("when-stamp", key, cs.Call.Pos(), false, "the staking record is persisted inside a function literal: the stamp cannot be decided")
			continue
		}
		g := f.Graph()
		upd := g.NodeContaining(cs.Call.Pos())
		ok := upd != nil && len(stampsOf(f)) > 0 && g.Dominated(upd, stampsOf(f))
		how := "stamped in the same function"
		if !ok {
			how = "no Staked.SetWhen(BlockInfo.No) dominates the write, and "
			if t := c15RecvNamed(f); t == nil {
				how += "the function is not a method of a command type"
			} else if ctors := e.c15GapCtors(t); len(ctors) != 1 {
				how += "the command type has " + itoa(len(ctors)) + " constructors"
			} else {
				ctor := ctors[0]
				cg := ctor.Graph()
				st := stampsOf(ctor)
				n := 0
				ok = len(st) > 0
				for _, rn := range cg.Returns() {
					rs := rn.Ast.(*ast.ReturnStmt)
					if len(rs.Results) > 0 && c15IsNilExpr(ctor.Info(), rs.Results[0]) {
						continue // returns no command
					}
					n++
					if !cg.Dominated(rn, st) {
						ok = false
					}
				}
				ok = ok && n > 0
				if ok {
					how = "stamped by the constructor " + ctor.Name() + " on every return that yields a command"
				} else {
					how += "the constructor " + ctor.Name() + " can return a command without it"
				}
			}
		}
		c.Check("when-stamp", key, cs.Call.Pos(), ok, "the staking record is persisted only after Staked.SetWhen(BlockInfo.No): the lock period of the next stake / unstake / vote is measured from this action ("+how+")")
	}
	c.Floor("when-stamp", 3)
}

// ---------------------------------------------------------------------------
// run-steps
//
// A command whose run() changes a tally (AddVote reachable) must, before it
// reports success, have persisted the voter's record (a successful call that
// reaches setVote: otherwise the tally contains a vote no record accounts for,
// and the next re-vote / unstake cannot take it out again) and the stamped
// staking record (a successful call that reaches setStaking: otherwise the
// voting delay is not enforced).
func c15GapRunSteps(e *c15Env) {
	c, p := e.c, e.p
	tn, _ := p.LookupObj("contract/system", "sysCmd").(*types.TypeName)
	addVote, setVote, setStaking := p.Func(c15GapAddVote), p.Func(c15SetVote), p.Func(c15GapSetStaking)
	if tn == nil || addVote == nil || setVote == nil || setStaking == nil {
		c.Undecide("run-steps", "contract/system.sysCmd / AddVote / setVote / setStaking", "anchors not found")
		return
	}
	iface, ok := tn.Type().Underlying().(*types.Interface)
	if !ok {
		c.Undecide("run-steps", "contract/system.sysCmd", "not an interface")
		return
	}
	cg := e.callGraph()
	reachVote := cg.MayReach(map[*an.Func]bool{setVote: true}, e.c15GapInSys)
	reachStaking := cg.MayReach(map[*an.Func]bool{setStaking: true}, e.c15GapInSys)
	for _, f := range p.Funcs() {
		if f.Pkg != e.sys || f.Body == nil || f.Lit != nil || f.Obj == nil {
			continue
		}
		t := c15RecvNamed(f)
		if t == nil || !(types.Implements(types.NewPointer(t), iface) || types.Implements(t, iface)) {
			continue
		}
		isIfaceMethod := false
		for i := 0; i < iface.NumMethods(); i++ {
			if iface.Method(i).Name() == f.Obj.Name() {
				isIfaceMethod = true
			}
		}
		if !isIfaceMethod {
			continue
		}
		if !cg.ReachableFrom([]*an.Func{f}, e.c15GapInSys)[addVote] {
			continue
		}
		g := f.Graph()
		for _, step := range []struct {
			id    string
			reach map[*an.Func]bool
			why   string
		}{
			{"record", reachVote, "persisted the voter's record (a call reaching setVote)"},
			{"staking", reachStaking, "persisted the stamped staking record (a call reaching setStaking)"},
		} {
			okStep := false
			pos := f.Pos()
			for _, s := range g.Calls(nil) {
				cf := p.FuncOf(s.Fn)
				if cf == nil || !step.reach[cf] {
					continue
				}
				if ms, _ := c15MustSucceed(g, s); ms {
					okStep, pos = true, s.Call.Pos()
				}
			}
			c.Check("run-steps", f.Name()+"|"+step.id, pos, okStep, "a command that changes a tally has, on every path to a success return, successfully "+step.why)
		}
	}
	c.Floor("run-steps", 4)
}

// ---------------------------------------------------------------------------
// key-roles
//
// dbkey.SystemVote(issue, voter) and dbkey.SystemStaking(account) define the
// roles of their byte-slice arguments.  The roles are propagated backwards
// through the parameters of the accessor functions to every call site in the
// module.  Decided: no parameter is used in both roles (an accessor whose arms
// or whose reader/writer siblings disagree on the argument order), no value
// that is recognisably an issue key reaches a voter position or vice versa,
// and every *write* is keyed by Sender.ID() of the context (the account whose
// coins are locked); the execution path validates the same sender it executes.
func c15GapKeyRoles(e *c15Env) {
	c, p := e.c, e.p
	const (
		rVoter = 1
		rIssue = 2
	)
	rname := map[int]string{rVoter: "voter account", rIssue: "issue key"}
	defKey := p.LookupObj("contract/system", "defaultVoteKey")
	issueField := p.LookupField("contract/system", "voteCmd", "issue")
	roles := map[*types.Var]int{}
	writers := map[*types.Var]bool{}
	issueCalls := map[string]bool{
		"contract/system.(*Proposal).GetKey":    true,
		"types.(VotingIssue).Key":               true,
		"contract/system.(sysParamIndex).Key":   true,
		"types.(OpSysTx).Key":                   true,
		"contract/system.GenProposalKey":        true,
		"types.(OpSysTx).ID":                    true,
		"types.(VotingIssue).ID":                true,
		"contract/system.(sysParamIndex).ID":    true,
		"contract/system.(*Proposal).GetKeyStr": true,
	}
	classify := func(f *an.Func, v c15Val) (role int, sender bool) {
		r := c15ResolverOf(f)
		if v.Call != nil {
			if v.Idx != 0 {
				return 0, false
			}
			name := c15CalleeName(r.info, v.Call)
			if name == c15GapAccountID {
				return rVoter, r.Field(c15Recv(v.Call)) == e.fSender
			}
			if issueCalls[name] {
				return rIssue, false
			}
			if tv, ok := r.info.Types[v.Call.Fun]; ok && tv.IsType() && len(v.Call.Args) == 1 {
				in := r.Resolve(v.Call.Args[0])
				if in.Call != nil && in.Idx == 0 && issueCalls[c15CalleeName(r.info, in.Call)] {
					return rIssue, false
				}
			}
			return 0, false
		}
		if v.Obj != nil && v.Obj == defKey {
			return rIssue, false
		}
		if v.Expr != nil {
			if an.ObjOf(r.info, v.Expr) == defKey && defKey != nil {
				return rIssue, false
			}
			if fv := an.FieldOf(r.info, v.Expr); fv != nil && fv == issueField {
				return rIssue, false
			}
		}
		return 0, false
	}
	n := 0
	var assign func(f *an.Func, x ast.Expr, role int, writer bool, depth int)
	assign = func(f *an.Func, x ast.Expr, role int, writer bool, depth int) {
		if f == nil || depth > 6 {
			return
		}
		r := c15ResolverOf(f)
		v := r.Resolve(x)
		top := f.TopDecl()
		if pv, isVar := v.Obj.(*types.Var); isVar && c15IsParam(top, pv) {
			idx := c15GapParamIndex(top, pv)
			key := top.Name() + "|param#" + itoa(idx)
			if old, has := roles[pv]; has {
				if old != role {
					n++
					c.Check("key-roles", key+"|both", x.Pos(), false, "one parameter reaches a governance storage key both as "+rname[old]+" and as "+rname[role]+": reader and writer (or two arms of one accessor) disagree on the argument order, so a record is looked up under a key it was never written under")
					return
				}
				if !writer || writers[pv] {
					return
				}
			} else {
				n++
				c.Check("key-roles", key, x.Pos(), true, "parameter is used as "+rname[role]+" only")
			}
			roles[pv] = role
			if writer {
				writers[pv] = true
			}
			sig := top.Obj.Type().(*types.Signature)
			if sig.Variadic() {
				return
			}
			for _, cs := range p.CallSitesOf(map[string]bool{top.Name(): true}) {
				if cs.Fn != nil && idx < len(cs.Call.Args) {
					assign(cs.Fn, cs.Call.Args[idx], role, writer, depth+1)
				}
			}
			return
		}
		got, sender := classify(f, v)
		key := top.Name() + "|" + rname[role]
		switch {
		case got != 0 && got != role:
			n++
			c.Check("key-roles", key+"|exchanged", x.Pos(), false, "a value that is "+rname[got]+" is passed where the storage key expects the "+rname[role])
		case writer && role == rVoter && got == 0:
			c.Undecide("key-roles", key+"|written-for-sender", "the account a staking / vote record is written under is not recognisably an account id (expected Sender.ID() of the context)")
		case writer && role == rVoter:
			n++
			c.Check("key-roles", key+"|written-for-sender", x.Pos(), sender, "a staking / vote record is written under Sender.ID() of the executing context (the account whose coins are locked), not under the id of another account state")
		case got != 0:
			n++
			c.Check("key-roles", key, x.Pos(), true, "argument classified as "+rname[role])
		}
	}
	roots := map[string][]int{
		"types/dbkey.SystemVote":    {rIssue, rVoter},
		"types/dbkey.SystemStaking": {rVoter},
	}
	names := map[string]bool{}
	for k := range roots {
		names[k] = true
	}
	nRoots := 0
	for _, cs := range p.CallSitesOf(names) {
		if cs.Fn == nil || cs.Fn.Pkg != e.sys {
			continue
		}
		want := roots[an.FuncName(cs.Obj)]
		if len(cs.Call.Args) != len(want) {
			c.Undecide("key-roles", an.FuncName(cs.Obj), "key constructor no longer takes the expected arguments")
			continue
		}
		nRoots++
		writer := false
		if pc, _ := c15ParentCall(cs.Fn.TopDecl().Body, cs.Call); pc != nil {
			writer = strings.HasSuffix(c15CalleeName(cs.Fn.Info(), pc), ".SetData")
		}
		for i, role := range want {
			assign(cs.Fn, cs.Call.Args[i], role, writer, 0)
		}
	}
	if nRoots < 4 {
		c.Undecide("key-roles", "roots", "fewer staking / vote key constructions than on the reference tree")
	}
	// the execution path validates the account it executes for
	for _, cs := range p.CallSitesOf(map[string]bool{c15ValidateSystemTx: true}) {
		if cs.Fn == nil || cs.Fn.Pkg != e.sys || len(cs.Call.Args) < 3 {
			continue
		}
		r := c15ResolverOf(cs.Fn)
		v := r.Resolve(cs.Call.Args[0])
		ok := v.Call != nil && v.Idx == 0 && c15CalleeName(r.info, v.Call) == c15GapAccountID && r.SameValue(c15Recv(v.Call), cs.Call.Args[2])
		n++
		c.Check("key-roles", cs.Fn.TopDecl().Name()+"|validated=executed", cs.Call.Pos(), ok, "inside the system contract ValidateSystemTx reads the records of the same account state that becomes the context's Sender (account argument is ID() of the sender argument)")
	}
	c.Floor("key-roles", 10)
	_ = n
}

// ---------------------------------------------------------------------------
// polarity
//
// Three pairs of functions keep sums: addTotal/subTotal (staking total),
// AddVote/SubVote (tally map and vote total), vpr.add/vpr.sub (pending voting
// power).  The invariants "total == sum of stakes" and "tally == sum of
// recorded votes" need the credit function to add the delta and the debit
// function to subtract it (delta as subtrahend), on the same state elements.
// Decided on the big.Int operations of each function (nested literals
// included), independent of how the result is stored.
func c15GapPolarity(e *c15Env) {
	c, p := e.c, e.p
	pairs := [][2]string{
		{c15AddTotal, c15SubTotal},
		{c15GapAddVote, c15GapSubVote},
		{"contract/system.(*vpr).add", "contract/system.(*vpr).sub"},
	}
	type bigOp struct {
		op     string
		call   *ast.CallExpr
		target string
	}
	opsOf := func(f *an.Func) []bigOp {
		info := f.Info()
		var out []bigOp
		var stack []ast.Node
		ast.Inspect(f.Body, func(n ast.Node) bool {
			if n == nil {
				stack = stack[:len(stack)-1]
				return true
			}
			stack = append(stack, n)
			call, ok := n.(*ast.CallExpr)
			if !ok {
				return true
			}
			op := ""
			switch c15CalleeName(info, call) {
			case "math/big.(*Int).Add":
				op = "Add"
			case "math/big.(*Int).Sub":
				op = "Sub"
			case "math/big.(*Int).Neg":
				op = "Neg"
			}
			if op == "" {
				return true
			}
			target := "value"
			fieldName := func(x ast.Expr) string {
				x = ast.Unparen(x)
				if ix, isIx := x.(*ast.IndexExpr); isIx {
					x = ast.Unparen(ix.X)
				}
				if fv := an.FieldOf(info, x); fv != nil {
					return "field " + fv.Name()
				}
				return ""
			}
			for i := len(stack) - 2; i >= 0; i-- {
				st, isStmt := stack[i].(ast.Stmt)
				if !isStmt {
					continue
				}
				switch s := st.(type) {
				case *ast.AssignStmt:
					if len(s.Lhs) == 1 && len(s.Rhs) == 1 && ast.Unparen(s.Rhs[0]) == ast.Expr(call) {
						if fn := fieldName(s.Lhs[0]); fn != "" {
							target = fn
						}
					}
				case *ast.ExprStmt:
					if ast.Unparen(s.X) == ast.Expr(call) {
						if fn := fieldName(c15Recv(call)); fn != "" {
							target = fn
						}
					}
				}
				break
			}
			out = append(out, bigOp{op, call, target})
			return true
		})
		return out
	}
	for _, pr := range pairs {
		credit, debit := c.Fn(pr[0]), c.Fn(pr[1])
		if credit == nil || debit == nil {
			continue
		}
		var tc, td []string
		for side, f := range []*an.Func{credit, debit} {
			ops := opsOf(f)
			if len(ops) == 0 {
				c.Check("polarity", f.Name()+"|ops", f.Pos(), false, "no big.Int addition / subtraction found in a function that keeps a sum")
			}
			for _, o := range ops {
				ok := false
				msg := ""
				if len(o.call.Args) == 2 {
					a0, a1 := c15GapMentionsDelta(f, o.call.Args[0]), c15GapMentionsDelta(f, o.call.Args[1])
					if side == 0 {
						ok = o.op == "Add" && (a0 || a1)
						msg = "the credit function adds its delta argument to the stored value (big.Int.Add with the parameter as an operand; no Sub / Neg)"
					} else {
						ok = o.op == "Sub" && a1 && !a0
						msg = "the debit function subtracts its delta argument from the stored value (big.Int.Sub with the parameter as the subtrahend; no Add / Neg)"
					}
				} else {
					msg = "negation inside a function that keeps a sum: the direction of the update is not recognisable"
				}
				c.Check("polarity", f.Name()+"|"+o.target, o.call.Pos(), ok, msg)
				if side == 0 {
					tc = append(tc, o.target)
				} else {
					td = append(td, o.target)
				}
			}
		}
		sort.Strings(tc)
		sort.Strings(td)
		c.Check("polarity", pr[0]+"/"+pr[1]+"|mirror", credit.Pos(), len(tc) > 0 && strings.Join(tc, ", ") == strings.Join(td, ", "),
			"credit and debit update the same state elements ("+strings.Join(tc, ", ")+" vs "+strings.Join(td, ", ")+"): an element credited but never debited (or the reverse) drifts away from the sum of the records")
	}
	c.Floor("polarity", 10)
	_ = p
}

// ---------------------------------------------------------------------------
// refresh-expired
//
// After an unstake every recorded vote larger than the remaining stake is
// shrunk; the one accepted exception is a proposal whose voting period is
// over.  That exception must not be wider than the validator's "voting is
// closed" refusal: while a vote can still be cast or changed it must also be
// shrunk, or the tally keeps counting coins that were withdrawn.  Decided by
// evaluating both branch conditions (three-valued) on four concrete
// configurations of (Blockto, current block): open-ended, last block, running,
// expired, and requiring skip => closed.
func c15GapRefreshExpired(e *c15Env) {
	c, p := e.c, e.p
	rf, vf := c.Fn(c15RefreshAllVote), c.Fn(c15ValidateSystemTx)
	blockto := p.LookupField("contract/system", "Proposal", "Blockto")
	fNo := p.LookupField("types", "BlockHeaderInfo", "No")
	subF := p.LookupField("contract/system", "vprCmd", "sub")
	if rf == nil || vf == nil {
		return
	}
	if blockto == nil || fNo == nil || subF == nil {
		c.Undecide("refresh-expired", "Proposal.Blockto / BlockHeaderInfo.No / vprCmd.sub", "fields not found")
		return
	}
	type cfg struct {
		name string
		b, n int64
	}
	cases := []cfg{{"open-ended", 0, 5}, {"last-block", 5, 5}, {"running", 7, 5}, {"expired", 3, 5}}
	var eval func(f *an.Func, x ast.Expr, k cfg, depth int) c15Tri
	val := func(f *an.Func, x ast.Expr, k cfg) (int64, bool) {
		r := c15ResolverOf(f)
		x = c15GapUnconv(r.info, x)
		if i, ok := c15ConstInt(r.info, x); ok {
			return i, true
		}
		v := r.Resolve(x)
		if v.Expr == nil {
			return 0, false
		}
		y := c15GapUnconv(r.info, v.Expr)
		switch an.FieldOf(r.info, y) {
		case blockto:
			return k.b, true
		case fNo:
			return k.n, true
		}
		return 0, false
	}
	eval = func(f *an.Func, x ast.Expr, k cfg, depth int) c15Tri {
		if depth > 8 {
			return c15U
		}
		r := c15ResolverOf(f)
		x = ast.Unparen(x)
		switch y := x.(type) {
		case *ast.Ident:
			if v := r.Resolve(y); v.Expr != nil && ast.Unparen(v.Expr) != x {
				return eval(f, v.Expr, k, depth+1)
			}
		case *ast.UnaryExpr:
			if y.Op == token.NOT {
				return c15Not(eval(f, y.X, k, depth+1))
			}
		case *ast.BinaryExpr:
			switch y.Op {
			case token.LAND:
				return c15And(eval(f, y.X, k, depth+1), eval(f, y.Y, k, depth+1))
			case token.LOR:
				return c15Or(eval(f, y.X, k, depth+1), eval(f, y.Y, k, depth+1))
			case token.EQL, token.NEQ, token.LSS, token.LEQ, token.GTR, token.GEQ:
				if c15IsNilExpr(r.info, y.X) || c15IsNilExpr(r.info, y.Y) {
					return c15Bool(y.Op == token.NEQ) // the proposal exists
				}
				a, okA := val(f, y.X, k)
				b, okB := val(f, y.Y, k)
				if okA && okB {
					s := 0
					if a < b {
						s = -1
					} else if a > b {
						s = 1
					}
					if v, ok := c15CmpOp(s, y.Op, 0); ok {
						return c15Bool(v)
					}
				}
			}
		}
		return c15U
	}
	// the validator's refusal
	vg := vf.Graph()
	succ, _ := c15Returns(vg)
	var vCond ast.Expr
	vClosedOn := c15U
	nV := 0
	for _, n := range vg.Nodes {
		x, ok := c15GapBoolCond(vf.Info(), n)
		if !ok || !c15MentionsField(vf.Info(), x, blockto) {
			continue
		}
		te, fe := c15GapEdge(n, an.KTrue), c15GapEdge(n, an.KFalse)
		if te == nil || fe == nil {
			continue
		}
		accT, accF := false, false
		for _, s := range succ {
			if vg.Reach([]*an.Node{te}, nil)[s] {
				accT = true
			}
			if vg.Reach([]*an.Node{fe}, nil)[s] {
				accF = true
			}
		}
		if accT == accF {
			continue
		}
		nV++
		vCond = x
		vClosedOn = c15Bool(!accT)
	}
	if nV != 1 {
		c.Undecide("refresh-expired", c15ValidateSystemTx, "expected exactly one refusing branch on Proposal.Blockto in the validator, found "+itoa(nV))
		return
	}
	// the refresh's skip
	g := rf.Graph()
	info := rf.Info()
	subNodes, iterStart := an.Set{}, an.Set{}
	for _, s := range g.Calls(func(_ *types.Func, call *ast.CallExpr) bool { return an.CalleeVar(info, call) == subF }) {
		subNodes[s.Node] = true
	}
	for _, s := range g.CallsTo(c15GetVote, c15GetVoteEx) {
		iterStart[s.Node] = true
	}
	if len(subNodes) == 0 || len(iterStart) == 0 {
		c.Undecide("refresh-expired", c15RefreshAllVote, "tally update or vote lookup not found")
		return
	}
	reachesSub := func(ed *an.Node) bool {
		r := g.Reach([]*an.Node{ed}, iterStart)
		for n := range subNodes {
			if r[n] {
				return true
			}
		}
		return false
	}
	nR := 0
	for _, n := range g.Nodes {
		x, ok := c15GapBoolCond(info, n)
		if !ok || !c15MentionsField(info, x, blockto) {
			continue
		}
		te, fe := c15GapEdge(n, an.KTrue), c15GapEdge(n, an.KFalse)
		if te == nil || fe == nil {
			continue
		}
		st, sf := reachesSub(te), reachesSub(fe)
		if st == sf {
			continue
		}
		nR++
		skipOn := c15Bool(!st)
		for _, k := range cases {
			rv, vv := eval(rf, x, k, 0), eval(vf, vCond, k, 0)
			if rv == c15U || vv == c15U {
				c.Undecide("refresh-expired", c15RefreshAllVote+"|"+k.name, "a condition on Proposal.Blockto depends on something the evaluator does not model")
				continue
			}
			skip, closed := rv == skipOn, vv == vClosedOn
			c.Check("refresh-expired", c15RefreshAllVote+"|"+k.name, x.Pos(), !skip || closed,
				"the vote refresh after an unstake skips a proposal only when the validator refuses new votes on it (Blockto="+itoa(int(k.b))+", block="+itoa(int(k.n))+"): a vote that can still be changed is shrunk to the remaining stake")
		}
	}
	if nR == 0 {
		c.Note("refresh-expired: the refresh has no exception on Proposal.Blockto (every vote is shrunk)")
		return
	}
	c.Floor("refresh-expired", 4)
}

// ---------------------------------------------------------------------------
// rank-direction
//
// getVoteResult keeps the first n entries of the stored list and Sync takes
// entry 0 as the winner of a parameter vote: the list has to be sorted with the
// largest tally first.  Decided: the direction of VoteList.Less on the amounts
// (from the branch edges that fix the sign of the amount comparison) combined
// with the presence of sort.Reverse in buildVoteList gives a descending order.
func c15GapRankDirection(e *c15Env) {
	c, p := e.c, e.p
	lf := c.Fn("types.(VoteList).Less")
	bf := c.Fn("contract/system.(*VoteResult).buildVoteList")
	amt := p.LookupField("types", "Vote", "Amount")
	if lf == nil || bf == nil {
		return
	}
	if amt == nil {
		c.Undecide("rank-direction", "types.Vote.Amount", "field not found")
		return
	}
	g := lf.Graph()
	info := lf.Info()
	sig := lf.Obj.Type().(*types.Signature)
	if sig.Params().Len() != 2 {
		c.Undecide("rank-direction", lf.Name(), "Less does not take two indices")
		return
	}
	pi, pj := sig.Params().At(0), sig.Params().At(1)
	mentionsAmt := func(x ast.Expr) bool {
		if c15MentionsField(info, x, amt) {
			return true
		}
		for _, call := range an.CallsIn(x) {
			switch c15CalleeName(info, call) {
			case "types.(*Vote).GetAmountBigInt", "types.(*Vote).GetAmount":
				return true
			}
		}
		return false
	}
	// primary: v := A.Cmp(B) with A the amount of one index and B of the other
	var primary types.Object
	flip := false
	ast.Inspect(lf.Body, func(n ast.Node) bool {
		as, ok := n.(*ast.AssignStmt)
		if !ok || len(as.Lhs) != 1 || len(as.Rhs) != 1 {
			return true
		}
		call, ok := ast.Unparen(as.Rhs[0]).(*ast.CallExpr)
		if !ok || c15CalleeName(info, call) != "math/big.(*Int).Cmp" || len(call.Args) != 1 {
			return true
		}
		a, b := c15Recv(call), call.Args[0]
		if !mentionsAmt(a) || !mentionsAmt(b) {
			return true
		}
		// the index may reach the operand through once-defined locals ( lhs, rhs := vl.Votes[i], vl.Votes[j] )
		var uses func(x ast.Expr, prm types.Object, depth int) bool
		uses = func(x ast.Expr, prm types.Object, depth int) bool {
			if c15UsesObj(info, x, prm) {
				return true
			}
			if depth > 3 {
				return false
			}
			found := false
			ast.Inspect(x, func(n ast.Node) bool {
				id, isID := n.(*ast.Ident)
				if !isID || found {
					return !found
				}
				o := info.Uses[id]
				if o == nil {
					return true
				}
				defs := 0
				var rhs ast.Expr
				ast.Inspect(lf.Body, func(m ast.Node) bool {
					if d, isAs := m.(*ast.AssignStmt); isAs && len(d.Lhs) == len(d.Rhs) {
						for k, l := range d.Lhs {
							if li, isL := l.(*ast.Ident); isL && (info.Defs[li] == o || info.Uses[li] == o) {
								defs++
								rhs = d.Rhs[k]
							}
						}
					}
					return true
				})
				if defs == 1 && rhs != nil && uses(rhs, prm, depth+1) {
					found = true
				}
				return !found
			})
			return found
		}
		ai, aj := uses(a, pi, 0), uses(a, pj, 0)
		bi, bj := uses(b, pi, 0), uses(b, pj, 0)
		switch {
		case ai && !aj && bj && !bi:
			primary, flip = an.ObjOf(info, as.Lhs[0]), false
		case aj && !ai && bi && !bj:
			primary, flip = an.ObjOf(info, as.Lhs[0]), true
		}
		return true
	})
	if primary == nil {
		c.Undecide("rank-direction", lf.Name(), "the comparison of the two amounts was not found")
		return
	}
	// sign set implied by  primary op k
	signs := func(x ast.Expr, val bool) (lt, gt bool) {
		be, ok := ast.Unparen(x).(*ast.BinaryExpr)
		if !ok {
			return
		}
		op := be.Op
		var kx ast.Expr
		switch {
		case an.ObjOf(info, be.X) == primary:
			kx = be.Y
		case an.ObjOf(info, be.Y) == primary:
			kx, op = be.X, c15Flip(op)
		default:
			return
		}
		k, isK := c15ConstInt(info, kx)
		if !isK {
			return
		}
		var set []int
		for _, s := range []int{-1, 0, 1} {
			if v, ok := c15CmpOp(s, op, int(k)); ok && v == val {
				set = append(set, s)
			}
		}
		if len(set) == 1 && set[0] == -1 {
			lt = true
		}
		if len(set) == 1 && set[0] == 1 {
			gt = true
		}
		return
	}
	ltEdges, gtEdges := an.Set{}, an.Set{}
	for _, n := range g.Nodes {
		if (n.Kind != an.KTrue && n.Kind != an.KFalse) || n.Cond == nil {
			continue
		}
		x, ok := n.Cond.Ast.(ast.Expr)
		if !ok {
			continue
		}
		lt, gt := signs(x, n.Kind == an.KTrue)
		if lt {
			ltEdges[n] = true
		}
		if gt {
			gtEdges[n] = true
		}
	}
	asc, desc := false, false
	for _, rn := range g.Returns() {
		rs := rn.Ast.(*ast.ReturnStmt)
		if len(rs.Results) != 1 {
			continue
		}
		if tv, ok := info.Types[rs.Results[0]]; ok && tv.Value != nil && tv.Value.String() == "true" {
			if len(ltEdges) > 0 && g.Dominated(rn, ltEdges) {
				asc = true
			}
			if len(gtEdges) > 0 && g.Dominated(rn, gtEdges) {
				desc = true
			}
			continue
		}
		lt, gt := signs(rs.Results[0], true)
		asc, desc = asc || lt, desc || gt
	}
	if flip {
		asc, desc = desc, asc
	}
	if asc == desc {
		c.Undecide("rank-direction", lf.Name(), "the direction of Less on the amounts could not be determined")
		return
	}
	bg := bf.Graph()
	binfo := bf.Info()
	var sorts []an.Site
	for _, s := range bg.Calls(func(fn *types.Func, call *ast.CallExpr) bool {
		return fn != nil && fn.Pkg() != nil && fn.Pkg().Path() == "sort" && (fn.Name() == "Sort" || fn.Name() == "Stable") && len(call.Args) == 1
	}) {
		sorts = append(sorts, s)
	}
	if len(sorts) != 1 {
		c.Undecide("rank-direction", bf.Name(), "expected exactly one sort.Sort / sort.Stable call")
		return
	}
	reversed := false
	if inner, ok := ast.Unparen(sorts[0].Call.Args[0]).(*ast.CallExpr); ok && c15CalleeName(binfo, inner) == "sort.Reverse" {
		reversed = true
	}
	dir := "descending"
	if asc {
		dir = "ascending"
	}
	c.Check("rank-direction", bf.Name(), sorts[0].Call.Pos(), asc == reversed,
		"the ranking list is sorted with the largest tally first (Less orders the amounts "+dir+", sort.Reverse present: "+map[bool]string{true: "yes", false: "no"}[reversed]+"): getVoteResult keeps the first n entries as the elected producers and Sync takes entry 0 as the winning parameter value")
	c.Floor("rank-direction", 1)
}

// ---------------------------------------------------------------------------
// tally-key-codec
//
// The tally map is keyed by base58(candidate id) for the producer vote and by
// the plain candidate string for parameter votes.  loadVoteResult (stored list
// -> map), AddVote/SubVote (vote -> map) and buildVoteList (map -> stored
// list) must use the same encoding for the same kind of issue, selected by the
// `ex` flag; otherwise a stored tally entry and the votes cast afterwards land
// under different keys of one map and the candidate appears twice.
func c15GapTallyKeyCodec(e *c15Env) {
	c, p := e.c, e.p
	rmap := p.LookupField("contract/system", "VoteResult", "rmap")
	cand := p.LookupField("types", "Vote", "Candidate")
	if rmap == nil || cand == nil {
		c.Undecide("tally-key-codec", "VoteResult.rmap / Vote.Candidate", "fields not found")
		return
	}
	shapeOf := func(f *an.Func, x ast.Expr) string {
		r := c15ResolverOf(f)
		v := r.Resolve(x)
		if v.Call != nil {
			switch c15CalleeName(r.info, v.Call) {
			case "internal/enc/base58.Encode", "internal/enc/base58.Decode":
				return "base58"
			}
			if tv, ok := r.info.Types[v.Call.Fun]; ok && tv.IsType() && len(v.Call.Args) == 1 {
				return "plain"
			}
			return ""
		}
		if v.Expr != nil {
			if tv, ok := r.info.Types[v.Expr]; ok && tv.Type != nil {
				if b, isB := tv.Type.Underlying().(*types.Basic); isB && b.Info()&types.IsString != 0 {
					return "plain" // a string taken as it is (element of the decoded argument list)
				}
			}
		}
		return ""
	}
	n := 0
	check := func(f *an.Func, x ast.Expr, pos token.Pos, what string) {
		g := f.Graph()
		node := g.NodeContaining(pos)
		sh := shapeOf(f, x)
		if node == nil || sh == "" {
			c.Undecide("tally-key-codec", f.Name()+"|"+what, "the encoding of a tally key is not one of the two recognised forms (plain string / base58 of a once-defined value)")
			return
		}
		at := func(y ast.Expr) (string, bool, bool) {
			if e.isExFlag(f, ast.Unparen(y), 0) {
				return "X", false, true
			}
			return "", false, false
		}
		ok, how := g.GuardedAt(node, at, map[string]bool{"X": sh == "plain"})
		n++
		kind := map[string]string{"plain": "parameter votes (ex set)", "base58": "the producer vote (ex clear)"}[sh]
		c.Check("tally-key-codec", f.Name()+"|"+what+"|"+sh, pos, ok, "the "+sh+" key encoding is used only for "+kind+": "+how)
	}
	for _, spec := range []string{c15LoadVoteResult, c15GapAddVote, c15GapSubVote} {
		f := c.Fn(spec)
		if f == nil {
			continue
		}
		info := f.Info()
		seen := map[string]bool{}
		ast.Inspect(f.Body, func(nd ast.Node) bool {
			ix, ok := nd.(*ast.IndexExpr)
			if !ok || an.FieldOf(info, ix.X) != rmap {
				return true
			}
			g := f.Graph()
			node := g.NodeContaining(ix.Pos())
			k := shapeOf(f, ix.Index)
			if node != nil {
				k += "@" + itoa(node.ID)
			}
			if seen[k] {
				return true
			}
			seen[k] = true
			check(f, ix.Index, ix.Pos(), "index")
			return true
		})
	}
	if f := c.Fn("contract/system.(*VoteResult).buildVoteList"); f != nil {
		info := f.Info()
		found := 0
		ast.Inspect(f.Body, func(nd ast.Node) bool {
			as, ok := nd.(*ast.AssignStmt)
			if !ok {
				return true
			}
			for i, l := range as.Lhs {
				if an.FieldOf(info, l) != cand {
					continue
				}
				var rhs ast.Expr
				if len(as.Lhs) == len(as.Rhs) {
					rhs = as.Rhs[i]
				} else if len(as.Rhs) == 1 {
					rhs = as.Rhs[0]
				}
				if rhs != nil {
					found++
					check(f, rhs, l.Pos(), "candidate")
				}
			}
			return true
		})
		if found == 0 {
			c.Undecide("tally-key-codec", f.Name(), "no assignment of Vote.Candidate from the map key found")
		}
	}
	c.Floor("tally-key-codec", 8)
}

// ---------------------------------------------------------------------------
// sync-writes
//
// VoteResult.Sync is the only writer of the persisted ranking and of the vote
// total of a parameter issue, and the only caller of vpr.apply.  Decided: the
// pending voting-power changes are applied before any return; every return that
// can report success has written the ranking; for a parameter issue (ex set)
// every path to a success return writes the vote total (the next load reads
// the total back: a total written only on some paths diverges from the tally).
func c15GapSyncWrites(e *c15Env) {
	c := e.c
	f := c.Fn(c15Sync)
	if f == nil {
		return
	}
	g := f.Graph()
	info := f.Info()
	r := c15ResolverOf(f)
	key := f.Name()
	applyNodes := an.Set{}
	for _, s := range g.CallsTo("contract/system.(*vpr).apply") {
		applyNodes[s.Node] = true
	}
	okApply := len(applyNodes) > 0
	for _, rn := range g.NilReturns() {
		if !applyNodes[rn] && !g.Dominated(rn, applyNodes) {
			okApply = false
		}
	}
	c.Check("sync-writes", key+"|apply", f.Pos(), okApply, "the voting-power changes prepared by add/sub are applied (vpr.apply) on every path of Sync that can report success: it is the only place where the in-memory rank and its stored buckets are brought up to date")
	sortNodes, totalNodes := an.Set{}, an.Set{}
	for _, s := range g.Calls(func(fn *types.Func, call *ast.CallExpr) bool {
		return fn != nil && fn.Name() == "SetData" && len(call.Args) == 2
	}) {
		kv := r.Resolve(s.Call.Args[0])
		switch c15CalleeName(info, kv.Call) {
		case "types/dbkey.SystemVoteSort":
			sortNodes[s.Node] = true
		case "types/dbkey.SystemVoteTotal":
			totalNodes[s.Node] = true
		}
	}
	if len(sortNodes) == 0 || len(totalNodes) == 0 {
		c.Undecide("sync-writes", key, "the writes of the ranking / the vote total were not found")
		return
	}
	nilRets := an.SetOf(g.NilReturns()...)
	fail := an.Set{}
	for _, rn := range g.Returns() {
		if !nilRets[rn] {
			fail[rn] = true
		}
	}
	okSort := len(nilRets) > 0
	for rn := range nilRets {
		if !sortNodes[rn] && !g.Dominated(rn, sortNodes) {
			okSort = false
		}
	}
	c.Check("sync-writes", key+"|ranking", f.Pos(), okSort, "every return of Sync that can report success has written the sorted tally (SystemVoteSort)")
	at := func(y ast.Expr) (string, bool, bool) {
		if e.isExFlag(f, ast.Unparen(y), 0) {
			return "X", false, true
		}
		return "", false, false
	}
	exEdges := g.EdgesImplying(at, map[string]bool{"X": true})
	if len(exEdges) == 0 {
		c.Undecide("sync-writes", key+"|total", "no branch on the ex flag found")
		return
	}
	okTotal := true
	for ed := range exEdges {
		if !g.PostDominated(ed, totalNodes.Union(fail)) {
			okTotal = false
		}
	}
	c.Check("sync-writes", key+"|total", f.Pos(), okTotal, "for a parameter issue every path of Sync to a success return writes the vote total (SystemVoteTotal), not only the paths on which a parameter changes")
	c.Floor("sync-writes", 3)
}

// ---------------------------------------------------------------------------
// vpr-apply
//
// The in-memory voting-power rank is rebuilt from the stored buckets by
// loadVpr, which sums the total while loading.  apply must keep the same
// relation: each change that is applied to a voter also goes into the total,
// and is removed from the pending set (a change applied twice counts a vote
// twice).  All loops over the buckets cover exactly the range of
// getBucketIdx (a bucket outside the loop is written but never read back).
func c15GapVprApply(e *c15Env) {
	c, p := e.c, e.p
	changes := p.LookupField("contract/system", "vpr", "changes")
	buckets := p.LookupField("contract/system", "vprStore", "buckets")
	if changes == nil || buckets == nil {
		c.Undecide("vpr-apply", "vpr.changes / vprStore.buckets", "fields not found")
		return
	}
	post := func(f *an.Func, fromName string, gates an.Set, key, msg string) {
		g := f.Graph()
		froms := g.CallsTo(fromName)
		if len(froms) == 0 {
			c.Undecide("vpr-apply", f.Name()+"|"+key, "no call of "+fromName)
			return
		}
		ok := len(gates) > 0
		for _, s := range froms {
			if !g.PostDominated(s.Node, gates) {
				ok = false
			}
		}
		c.Check("vpr-apply", f.Name()+"|"+key, froms[0].Call.Pos(), ok, msg)
	}
	nodesOf := func(sites []an.Site) an.Set {
		out := an.Set{}
		for _, s := range sites {
			out[s.Node] = true
		}
		return out
	}
	if f := c.Fn("contract/system.(*vpr).apply"); f != nil {
		g := f.Graph()
		info := f.Info()
		post(f, "contract/system.(*topVoters).addVotingPower", nodesOf(g.CallsTo("contract/system.(*vpr).addTotal")), "total",
			"a change applied to a voter's power is also added to the total voting power (loadVpr rebuilds the total as the sum of the stored powers)")
		del := nodesOf(g.Calls(func(_ *types.Func, call *ast.CallExpr) bool {
			return an.IsBuiltin(info, call, "delete") && len(call.Args) == 2 && an.FieldOf(info, call.Args[0]) == changes
		}))
		post(f, "contract/system.(*topVoters).addVotingPower", del, "consumed",
			"a change applied to a voter's power is removed from the pending set in the same pass (applied once)")
	}
	if f := c.Fn("contract/system.(*vpr).apply"); f != nil {
		// the change also goes to the stored bucket (unless no state was handed in), and every touched bucket is written
		g := f.Graph()
		info := f.Info()
		gates := nodesOf(g.CallsTo("contract/system.(*vprStore).update"))
		sig := f.Obj.Type().(*types.Signature)
		for i := 0; i < sig.Params().Len(); i++ {
			if _, isPtr := sig.Params().At(i).Type().(*types.Pointer); isPtr {
				for ed := range g.EdgesImplying(an.NilAtom(info, sig.Params().At(i)), map[string]bool{"nil": true}) {
					gates[ed] = true
				}
			}
		}
		post(f, "contract/system.(*topVoters).addVotingPower", gates, "stored",
			"a change applied to the in-memory rank is also applied to the voter's stored bucket (vprStore.update) unless no state was handed in")
		okWrite := false
		var wpos token.Pos = f.Pos()
		for _, us := range g.CallsTo("contract/system.(*vprStore).update") {
			idx := g.ResultVarAt(us, 0)
			if idx == nil {
				continue
			}
			// rows[idx] = ...  and  for i := range rows { store.write(s, i) }
			var rows types.Object
			ast.Inspect(f.Body, func(n ast.Node) bool {
				if as, ok := n.(*ast.AssignStmt); ok {
					for _, l := range as.Lhs {
						if ix, isIx := ast.Unparen(l).(*ast.IndexExpr); isIx && an.ObjOf(info, ix.Index) == idx {
							rows = an.ObjOf(info, ix.X)
						}
					}
				}
				return true
			})
			if rows == nil {
				continue
			}
			ast.Inspect(f.Body, func(n ast.Node) bool {
				rs, ok := n.(*ast.RangeStmt)
				if !ok || an.ObjOf(info, rs.X) != rows || rs.Key == nil {
					return true
				}
				kobj := an.ObjOf(info, rs.Key)
				for _, call := range an.CallsIn(rs.Body) {
					if c15CalleeName(info, call) == "contract/system.(*vprStore).write" && len(call.Args) == 2 && an.ObjOf(info, call.Args[1]) == kobj && kobj != nil {
						okWrite, wpos = true, call.Pos()
					}
				}
				return true
			})
		}
		c.Check("vpr-apply", f.Name()+"|written", wpos, okWrite, "every bucket touched by an applied change (the index returned by vprStore.update, collected in a set) is written back in the same call (vprStore.write over that set)")
	}
	if f := c.Fn("contract/system.loadVpr"); f != nil {
		g := f.Graph()
		post(f, "contract/system.(*topVoters).update", nodesOf(g.CallsTo("contract/system.(*vpr).addTotal")), "total",
			"every voter loaded from a bucket is added to the total voting power")
		post(f, "contract/system.(*topVoters).update", nodesOf(g.CallsTo("contract/system.(*vprStore).addTail")), "stored",
			"every voter loaded from a bucket is put into the in-memory copy of that bucket (the next write of the bucket contains it again)")
	}
	// bucket loops
	var modulus int64 = -1
	if f := c.Fn("contract/system.getBucketIdx"); f != nil {
		info := f.Info()
		ast.Inspect(f.Body, func(n ast.Node) bool {
			if be, ok := n.(*ast.BinaryExpr); ok && be.Op == token.REM {
				if k, isK := c15ConstInt(info, be.Y); isK {
					modulus = k
				}
			}
			return true
		})
	}
	if modulus <= 0 {
		c.Undecide("vpr-apply", "contract/system.getBucketIdx", "the bucket modulus was not found")
		return
	}
	nLoops := 0
	for _, f := range p.Funcs() {
		if f.Pkg != e.sys || f.Body == nil || f.Lit != nil {
			continue
		}
		info := f.Info()
		ast.Inspect(f.Body, func(n ast.Node) bool {
			fs, ok := n.(*ast.ForStmt)
			if !ok {
				return true
			}
			init, ok := fs.Init.(*ast.AssignStmt)
			if !ok || len(init.Lhs) != 1 || len(init.Rhs) != 1 {
				return true
			}
			lv := an.ObjOf(info, init.Lhs[0])
			if lv == nil {
				return true
			}
			uses := false
			ast.Inspect(fs.Body, func(m ast.Node) bool {
				switch y := m.(type) {
				case *ast.IndexExpr:
					if an.FieldOf(info, y.X) == buckets && c15UsesObj(info, y.Index, lv) {
						uses = true
					}
				case *ast.CallExpr:
					switch c15CalleeName(info, y) {
					case "contract/system.(*vprStore).read", "contract/system.(*vprStore).write", "types/dbkey.SystemVpr":
						for _, a := range y.Args {
							if c15UsesObj(info, a, lv) {
								uses = true
							}
						}
					}
				}
				return true
			})
			if !uses {
				return true
			}
			nLoops++
			ok = false
			if k0, is0 := c15ConstInt(info, c15GapUnconv(info, init.Rhs[0])); is0 && k0 == 0 {
				if be, isBE := ast.Unparen(fs.Cond).(*ast.BinaryExpr); isBE && an.ObjOf(info, be.X) == lv {
					if k, isK := c15ConstInt(info, be.Y); isK {
						ok = (be.Op == token.LSS && k == modulus) || (be.Op == token.LEQ && k == modulus-1)
					}
				}
				if inc, isInc := fs.Post.(*ast.IncDecStmt); !isInc || inc.Tok != token.INC || an.ObjOf(info, inc.X) != lv {
					ok = false
				}
			}
			c.Check("vpr-apply", f.Name()+"|bucket-range", fs.Pos(), ok, "a loop over the voting-power buckets runs over 0 .. "+itoa(int(modulus))+"-1, the range of getBucketIdx (account id byte modulo "+itoa(int(modulus))+")")
			return true
		})
	}
	if nLoops < 2 {
		c.Undecide("vpr-apply", "bucket-range", "fewer loops over the voting-power buckets than on the reference tree")
	}
	c.Floor("vpr-apply", 8)
}

// ---------------------------------------------------------------------------
// vote-binding-sym
//
// newVprCmd binds add and sub per hardfork arm.  If in one arm only one of the
// two literals reaches the voting-power rank, every re-vote moves the rank in
// one direction only.
func c15GapBindingSym(e *c15Env) {
	c, p := e.c, e.p
	addF := p.LookupField("contract/system", "vprCmd", "add")
	subF := p.LookupField("contract/system", "vprCmd", "sub")
	va, vs := p.Func("contract/system.(*vpr).add"), p.Func("contract/system.(*vpr).sub")
	if addF == nil || subF == nil || va == nil || vs == nil {
		c.Undecide("vote-binding-sym", "vprCmd.{add,sub} / vpr.{add,sub}", "anchors not found")
		return
	}
	cg := e.callGraph()
	touches := func(w c15Write) (bool, bool) {
		lit, _ := ast.Unparen(w.expr).(*ast.FuncLit)
		if lit == nil {
			return false, false
		}
		lf := p.LitFunc(lit)
		if lf == nil {
			return false, false
		}
		reach := cg.ReachableFrom([]*an.Func{lf}, e.c15GapInSys)
		return reach[va] || reach[vs], true
	}
	blockOf := func(w c15Write) *ast.BlockStmt {
		if w.fn == nil {
			return nil
		}
		var best *ast.BlockStmt
		ast.Inspect(w.fn.TopDecl().Body, func(n ast.Node) bool {
			if b, ok := n.(*ast.BlockStmt); ok && b.Pos() <= w.pos && w.pos < b.End() {
				best = b
			}
			return true
		})
		return best
	}
	type grp struct {
		adds, subs []c15Write
		pos        token.Pos
	}
	groups := map[*ast.BlockStmt]*grp{}
	var order []*ast.BlockStmt
	wa, ca := e.fieldWriteValues(addF)
	ws, cs := e.fieldWriteValues(subF)
	if !ca || !cs {
		c.Undecide("vote-binding-sym", "vprCmd.{add,sub}", "bindings not enumerable")
		return
	}
	put := func(w c15Write, isAdd bool) {
		b := blockOf(w)
		if b == nil {
			return
		}
		if groups[b] == nil {
			groups[b] = &grp{pos: w.pos}
			order = append(order, b)
		}
		if isAdd {
			groups[b].adds = append(groups[b].adds, w)
		} else {
			groups[b].subs = append(groups[b].subs, w)
		}
	}
	for _, w := range wa {
		put(w, true)
	}
	for _, w := range ws {
		put(w, false)
	}
	sort.Slice(order, func(i, j int) bool { return order[i].Pos() < order[j].Pos() })
	for i, b := range order {
		gr := groups[b]
		ok := len(gr.adds) == 1 && len(gr.subs) == 1
		if ok {
			ta, oka := touches(gr.adds[0])
			ts, oks := touches(gr.subs[0])
			ok = oka && oks && ta == ts
		}
		c.Check("vote-binding-sym", "contract/system.newVprCmd|arm#"+itoa(i+1), gr.pos, ok, "in one arm of the constructor add and sub are bound together, and either both reach the voting-power rank or neither does")
	}
	c.Floor("vote-binding-sym", 2)
}

// ---------------------------------------------------------------------------
// name-current-read
//
// Transactions of one block share the uncommitted storage of aergo.name:
// GetInitialData still returns the owner as of the block start after an
// earlier transaction of the same block created, sold or re-targeted the name.
// Every ownership decision on the execution path (ValidateNameTx,
// ExecuteNameTx and what they call) must therefore read the working value:
// getOwner(..., useInitial=false), never a wrapper that fixes useInitial=true.
func c15GapNameCurrentRead(e *c15Env) {
	c, p := e.c, e.p
	root := c.Fn("contract/name.ExecuteNameTx")
	getOwner := c.Fn("contract/name.getOwner")
	ownerF := p.LookupField("contract/name", "NameMap", "Owner")
	if root == nil || getOwner == nil {
		return
	}
	if ownerF == nil {
		c.Undecide("name-current-read", "contract/name.NameMap.Owner", "field not found")
		return
	}
	constBool := func(info *types.Info, x ast.Expr) (val, isConst bool) {
		tv, ok := info.Types[x]
		if !ok || tv.Value == nil {
			return false, false
		}
		return tv.Value.String() == "true", true
	}
	cg := e.callGraph()
	reach := cg.ReachableFrom([]*an.Func{root}, func(ed an.Edge) bool { return ed.Callee != nil && ed.Callee.Pkg == e.nm })
	var fs []*an.Func
	for f := range reach {
		fs = append(fs, f)
	}
	sort.Slice(fs, func(i, j int) bool { return fs[i].Name() < fs[j].Name() })
	for _, f := range fs {
		if f.Body == nil || f.Pkg != e.nm {
			continue
		}
		info := f.Info()
		g := f.Graph()
		for _, s := range g.Calls(nil) {
			if s.Fn == nil {
				continue
			}
			name := an.FuncName(s.Fn)
			switch {
			case name == "contract/name.getOwner" && len(s.Call.Args) == 3:
				v, isC := constBool(info, s.Call.Args[2])
				if !isC {
					if pv, ok := an.ObjOf(info, s.Call.Args[2]).(*types.Var); ok && c15IsParam(f.TopDecl(), pv) {
						continue // a wrapper passing the selector on
					}
					c.Undecide("name-current-read", f.Name(), "the state selector of an owner lookup is not a constant")
					continue
				}
				c.Check("name-current-read", f.Name()+"|getOwner", s.Call.Pos(), !v, "an ownership decision on the execution path reads the working state of the block (useInitial=false): an earlier transaction of the same block may have created, sold or re-targeted the name")
			case name == "contract/name.getNameMap" && len(s.Call.Args) == 3:
				if v, isC := constBool(info, s.Call.Args[2]); isC && v && c15MentionsField(info, f.Body, ownerF) {
					c.Check("name-current-read", f.Name()+"|getNameMap", s.Call.Pos(), false, "an owner is taken from the name record as of the block start (GetInitialData) on the execution path")
				}
			}
		}
	}
	c.Floor("name-current-read", 4)
}

// ---------------------------------------------------------------------------
// param-commit
//
// A parameter changed by a vote is written to the state and parked as the
// next-block value; it becomes the active value only in CommitParams(true),
// which the consensus calls when the block is connected, and is dropped by
// CommitParams(false) when the block is abandoned.  Activating it directly
// would leave the in-memory value changed after a block that is executed but
// not connected, and change the staking minimum / name price in the middle of
// a block.
func c15GapParamCommit(e *c15Env) {
	c, p := e.c, e.p
	n := 0
	for _, cs := range p.CallSitesOf(map[string]bool{"contract/system.(*parameters).setParam": true}) {
		n++
		ok := false
		fn := "<package level>"
		if cs.Fn != nil {
			f := cs.Fn
			fn = f.TopDecl().Name()
			if fn == "contract/system.CommitParams" && f.Lit == nil {
				g := f.Graph()
				info := f.Info()
				at := func(y ast.Expr) (string, bool, bool) {
					if pv, isVar := an.ObjOf(info, ast.Unparen(y)).(*types.Var); isVar && c15IsParam(f, pv) {
						return "A", false, true
					}
					return "", false, false
				}
				if node := g.NodeContaining(cs.Call.Pos()); node != nil {
					ok, _ = g.GuardedAt(node, at, map[string]bool{"A": true})
				}
			}
		}
		c.Check("param-commit", fn+"|setParam", cs.Call.Pos(), ok, "the active value of a system parameter is replaced only in CommitParams, under apply==true (block connected); a vote only parks the next-block value")
	}
	if n == 0 {
		c.Undecide("param-commit", "contract/system.(*parameters).setParam", "no call found")
	}
	c.Floor("param-commit", 1)
}

// ---------------------------------------------------------------------------
// stride-loop
//
// The producer-vote candidate list is a concatenation of fixed-size ids.  The
// tally is credited by one walk over it (AddVote) and debited by another
// (SubVote); both, and the query that lists a voter's candidates, have to visit
// every element exactly once: start at 0, step by the stride, stop at the
// length, slice [off : off+stride].
func c15GapStrideLoop(e *c15Env) {
	c, p := e.c, e.p
	strideObj, _ := p.LookupObj("contract/system", "PeerIDLength").(*types.Const)
	cand := p.LookupField("types", "Vote", "Candidate")
	if strideObj == nil || cand == nil {
		c.Undecide("stride-loop", "contract/system.PeerIDLength / types.Vote.Candidate", "anchors not found")
		return
	}
	stride, okS := c15ConstVal(strideObj)
	if !okS {
		c.Undecide("stride-loop", "contract/system.PeerIDLength", "not an integer constant")
		return
	}
	for _, f := range p.Funcs() {
		if f.Pkg != e.sys || f.Body == nil || f.Lit != nil {
			continue
		}
		info := f.Info()
		nth := 0
		ast.Inspect(f.Body, func(n ast.Node) bool {
			fs, ok := n.(*ast.ForStmt)
			if !ok {
				return true
			}
			init, ok := fs.Init.(*ast.AssignStmt)
			if !ok || len(init.Lhs) != 1 || len(init.Rhs) != 1 {
				return true
			}
			lv := an.ObjOf(info, init.Lhs[0])
			if lv == nil {
				return true
			}
			var slices []*ast.SliceExpr
			ast.Inspect(fs.Body, func(m ast.Node) bool {
				if se, isS := m.(*ast.SliceExpr); isS && an.FieldOf(info, se.X) == cand && se.Low != nil && c15UsesObj(info, se.Low, lv) {
					slices = append(slices, se)
				}
				return true
			})
			if len(slices) == 0 {
				return true
			}
			nth++
			how := ""
			if k0, is0 := c15ConstInt(info, c15GapUnconv(info, init.Rhs[0])); !is0 || k0 != 0 {
				how = "the walk does not start at offset 0"
			}
			// condition: off < len(candidate)  or  off+stride <= len(candidate)
			if how == "" {
				okCond := false
				if be, isBE := ast.Unparen(fs.Cond).(*ast.BinaryExpr); isBE {
					l, r, op := be.X, be.Y, be.Op
					if call, isCall := ast.Unparen(l).(*ast.CallExpr); isCall && an.IsBuiltin(info, call, "len") {
						l, r, op = r, l, c15Flip(op)
					}
					if call, isCall := ast.Unparen(r).(*ast.CallExpr); isCall && an.IsBuiltin(info, call, "len") && len(call.Args) == 1 && an.FieldOf(info, call.Args[0]) == cand {
						if lf, okL := linOf(info, l); okL {
							rest := lf.add(linForm{lv.Name(): 1}, -1)
							switch {
							case op == token.LSS && len(rest) == 0:
								okCond = true
							case op == token.LEQ && len(rest) == 1 && rest["1"] == stride:
								okCond = true
							}
						}
					}
				}
				if !okCond {
					how = "the walk does not stop exactly at the length of the candidate list"
				}
			}
			if how == "" {
				okPost := false
				if as, isAs := fs.Post.(*ast.AssignStmt); isAs && len(as.Lhs) == 1 && len(as.Rhs) == 1 && an.ObjOf(info, as.Lhs[0]) == lv {
					switch as.Tok {
					case token.ADD_ASSIGN:
						if k, isK := c15ConstInt(info, as.Rhs[0]); isK && k == stride {
							okPost = true
						}
					case token.ASSIGN:
						if lf, okL := linOf(info, as.Rhs[0]); okL {
							rest := lf.add(linForm{lv.Name(): 1}, -1)
							okPost = len(rest) == 1 && rest["1"] == stride
						}
					}
				}
				if !okPost {
					how = "the step is not the stride"
				}
			}
			if how == "" {
				for _, se := range slices {
					lo, ok1 := linOf(info, se.Low)
					okSl := false
					if se.High != nil && ok1 {
						if hi, ok2 := linOf(info, se.High); ok2 {
							d := hi.add(lo, -1)
							okSl = len(d) == 1 && d["1"] == stride && len(lo) == 1 && lo[lv.Name()] == 1
						}
					}
					if !okSl {
						how = "an element is not sliced as [off : off+stride]"
					}
				}
			}
			key := f.Name()
			if nth > 1 {
				key += "#" + itoa(nth)
			}
			c.Check("stride-loop", key, fs.Pos(), how == "", "a walk over the concatenated candidate ids visits each "+itoa(int(stride))+"-byte element exactly once (start 0, step and width = stride, stop at the length); AddVote, SubVote and the vote query must see the same elements"+map[bool]string{true: "", false: ": " + how}[how == ""])
			return true
		})
	}
	c.Floor("stride-loop", 3)
}

// ---------------------------------------------------------------------------
// dispatch
//
// ValidateSystemTx prepares the context per operation (which validator ran:
// lock period and minimum for a deposit, lock period / exceed / minimum for a
// withdrawal, voting delay and old vote for a vote); newSysCmd picks the
// command constructor by the same operation.  The command picked must be of
// the kind its validator arm prepared the context for.
func c15GapDispatch(e *c15Env) {
	c, p := e.c, e.p
	nf, vf := c.Fn("contract/system.newSysCmd"), c.Fn(c15ValidateSystemTx)
	tn, _ := p.LookupObj("contract/system", "sysCmd").(*types.TypeName)
	addVote := p.Func(c15GapAddVote)
	if nf == nil || vf == nil {
		return
	}
	if tn == nil || addVote == nil {
		c.Undecide("dispatch", "contract/system.sysCmd / AddVote", "anchors not found")
		return
	}
	iface, _ := tn.Type().Underlying().(*types.Interface)
	cg := e.callGraph()
	kindOfCtor := func(ctor *an.Func) string {
		// the command type built by the constructor and its interface methods
		roots := []*an.Func{ctor}
		ast.Inspect(ctor.Body, func(n ast.Node) bool {
			cl, ok := n.(*ast.CompositeLit)
			if !ok {
				return true
			}
			tv, ok := ctor.Info().Types[cl]
			if !ok {
				return true
			}
			nt, ok := tv.Type.(*types.Named)
			if !ok || iface == nil || !types.Implements(types.NewPointer(nt), iface) {
				return true
			}
			for i := 0; i < iface.NumMethods(); i++ {
				obj, _, _ := types.LookupFieldOrMethod(types.NewPointer(nt), true, e.sys.Types, iface.Method(i).Name())
				if fn, isFn := obj.(*types.Func); isFn {
					if mf := p.FuncOf(fn); mf != nil {
						roots = append(roots, mf)
					}
				}
			}
			return true
		})
		reach := cg.ReachableFrom(roots, e.c15GapInSys)
		hasAdd, hasSub := false, false
		for f := range reach {
			if f.Body == nil {
				continue
			}
			g := f.Graph()
			if len(g.CallsTo(c15StakingAdd)) > 0 {
				hasAdd = true
			}
			if len(g.CallsTo(c15StakingSub)) > 0 {
				hasSub = true
			}
		}
		switch {
		case hasSub && !hasAdd:
			return "withdrawal"
		case hasAdd && !hasSub:
			return "deposit"
		case !hasAdd && !hasSub && reach[addVote]:
			return "vote"
		}
		return "?"
	}
	vg := vf.Graph()
	kindOfArm := func(op types.Object) string {
		edges := c15CaseEdges(vg, op)
		if len(edges) == 0 {
			return "?"
		}
		kinds := map[string]bool{}
		for _, s := range vg.CallsTo("contract/system.validateForStaking", "contract/system.validateForUnstaking", c15ValidateForVote) {
			if !vg.Dominated(s.Node, edges) {
				continue
			}
			switch an.FuncName(s.Fn) {
			case "contract/system.validateForStaking":
				kinds["deposit"] = true
			case "contract/system.validateForUnstaking":
				kinds["withdrawal"] = true
			default:
				kinds["vote"] = true
			}
		}
		if len(kinds) != 1 {
			return "?"
		}
		for k := range kinds {
			return k
		}
		return "?"
	}
	info := nf.Info()
	n := 0
	ast.Inspect(nf.Body, func(nd ast.Node) bool {
		cl, ok := nd.(*ast.CompositeLit)
		if !ok {
			return true
		}
		tv, ok := info.Types[cl]
		if !ok {
			return true
		}
		if _, isMap := tv.Type.Underlying().(*types.Map); !isMap {
			return true
		}
		for _, el := range cl.Elts {
			kv, ok := el.(*ast.KeyValueExpr)
			if !ok {
				continue
			}
			var kid *ast.Ident
			switch k := ast.Unparen(kv.Key).(type) {
			case *ast.Ident:
				kid = k
			case *ast.SelectorExpr:
				kid = k.Sel
			}
			var vid *ast.Ident
			switch v := ast.Unparen(kv.Value).(type) {
			case *ast.Ident:
				vid = v
			case *ast.SelectorExpr:
				vid = v.Sel
			}
			if kid == nil || vid == nil {
				continue
			}
			op, isConst := info.Uses[kid].(*types.Const)
			fn, isFn := info.Uses[vid].(*types.Func)
			if !isConst || !isFn {
				continue
			}
			ctor := p.FuncOf(fn)
			if ctor == nil || ctor.Body == nil {
				continue
			}
			n++
			ka, kc := kindOfArm(op), kindOfCtor(ctor)
			if ka == "?" || kc == "?" {
				c.Undecide("dispatch", op.Name(), "kind of the validator arm ("+ka+") or of the command ("+kc+") not recognised")
				continue
			}
			c.Check("dispatch", op.Name(), kv.Pos(), ka == kc, "operation "+op.Name()+" is validated as a "+ka+" and dispatched to a "+kc+" command: the command executes on the context its own validator prepared")
		}
		return true
	})
	if n == 0 {
		c.Undecide("dispatch", nf.Name(), "the operation -> constructor table was not found")
	}
	c.Floor("dispatch", 4)
}

// ---------------------------------------------------------------------------
// name-binding
//
// registerOwner(scs, name, owner, destination) is the single writer of a name
// record.  Decided through the parameter positions that end in NameMap.Owner /
// NameMap.Destination (followed up through the wrappers): UpdateName stores as
// destination a value that derives only from its own string arguments (the
// address the owner asked for: DecodeAddress / GetAddress of it), not the
// separately computed owner; SetContractOwner records as owner the very
// address whose account state receives the accumulated balance.
func c15GapNameBinding(e *c15Env) {
	c, p := e.c, e.p
	reg := c.Fn("contract/name.registerOwner")
	fOwner := p.LookupField("contract/name", "NameMap", "Owner")
	fDest := p.LookupField("contract/name", "NameMap", "Destination")
	if reg == nil {
		return
	}
	if fOwner == nil || fDest == nil {
		c.Undecide("name-binding", "contract/name.NameMap.{Owner,Destination}", "fields not found")
		return
	}
	io, id := -1, -1
	ast.Inspect(reg.Body, func(n ast.Node) bool {
		cl, ok := n.(*ast.CompositeLit)
		if !ok {
			return true
		}
		for _, el := range cl.Elts {
			kv, ok := el.(*ast.KeyValueExpr)
			if !ok {
				continue
			}
			kid, _ := kv.Key.(*ast.Ident)
			if kid == nil {
				continue
			}
			pv, _ := an.ObjOf(reg.Info(), kv.Value).(*types.Var)
			switch reg.Info().Uses[kid] {
			case fOwner:
				io = c15GapParamIndex(reg, pv)
			case fDest:
				id = c15GapParamIndex(reg, pv)
			}
		}
		return true
	})
	if io < 0 || id < 0 || io == id {
		c.Undecide("name-binding", reg.Name(), "the name record is not built from two distinct parameters (owner, destination)")
		return
	}
	type leaf struct {
		f           *an.Func
		owner, dest ast.Expr
		pos         token.Pos
	}
	var leaves []leaf
	var up func(fn *an.Func, io, id int, depth int)
	up = func(fn *an.Func, io, id int, depth int) {
		if depth > 4 {
			return
		}
		for _, cs := range p.CallSitesOf(map[string]bool{fn.Name(): true}) {
			if cs.Fn == nil || io >= len(cs.Call.Args) || id >= len(cs.Call.Args) {
				continue
			}
			top := cs.Fn.TopDecl()
			info := cs.Fn.Info()
			po, _ := an.ObjOf(info, cs.Call.Args[io]).(*types.Var)
			pd, _ := an.ObjOf(info, cs.Call.Args[id]).(*types.Var)
			jo, jd := c15GapParamIndex(top, po), c15GapParamIndex(top, pd)
			if jo >= 0 && jd >= 0 {
				up(top, jo, jd, depth+1)
				continue
			}
			leaves = append(leaves, leaf{cs.Fn, cs.Call.Args[io], cs.Call.Args[id], cs.Call.Pos()})
		}
	}
	up(reg, io, id, 0)
	passThrough := map[string]bool{"types.DecodeAddress": true, "contract/name.GetAddress": true, "contract/name.getAddress": true, "contract/name.GetAddressLegacy": true}
	n := 0
	for _, lf := range leaves {
		f := lf.f
		top := f.TopDecl()
		info := f.Info()
		switch top.Name() {
		case "contract/name.UpdateName":
			// destination derives only from string parameters of the function
			visiting := map[types.Object]bool{}
			var derives func(x ast.Expr, depth int) bool
			derives = func(x ast.Expr, depth int) bool {
				if depth > 8 {
					return false
				}
				x = c15GapUnconv(info, x)
				switch y := x.(type) {
				case *ast.Ident:
					o, _ := an.ObjOf(info, y).(*types.Var)
					if o == nil {
						return false
					}
					if c15IsParam(top, o) {
						b, isB := o.Type().Underlying().(*types.Basic)
						return isB && b.Info()&types.IsString != 0
					}
					if visiting[o] {
						return true
					}
					visiting[o] = true
					defer func() { visiting[o] = false }()
					ok, defs := true, 0
					ast.Inspect(top.Body, func(nd ast.Node) bool {
						as, isAs := nd.(*ast.AssignStmt)
						if !isAs {
							return true
						}
						for i, l := range as.Lhs {
							if an.ObjOf(info, l) != o {
								continue
							}
							defs++
							switch {
							case len(as.Lhs) == len(as.Rhs):
								if !derives(as.Rhs[i], depth+1) {
									ok = false
								}
							case len(as.Rhs) == 1 && i == 0:
								if !derives(as.Rhs[0], depth+1) {
									ok = false
								}
							default:
								ok = false
							}
						}
						return true
					})
					return ok && defs > 0
				case *ast.CallExpr:
					if !passThrough[c15CalleeName(info, y)] || len(y.Args) == 0 {
						return false
					}
					return derives(y.Args[len(y.Args)-1], depth+1)
				}
				return false
			}
			n++
			c.Check("name-binding", top.Name()+"|destination", lf.pos, derives(lf.dest, 0), "the destination stored for an updated name derives only from the address argument of the transaction (DecodeAddress / GetAddress of it), not from the separately computed owner")
		case "contract/name.SetContractOwner":
			r := c15ResolverOf(f)
			ok := false
			for _, s := range f.Graph().CallsTo("state.GetAccountState", "types.ToAccountID") {
				if len(s.Call.Args) >= 1 && r.SameValue(s.Call.Args[0], lf.owner) {
					ok = true
				}
			}
			n++
			c.Check("name-binding", top.Name()+"|owner", lf.pos, ok, "the address recorded as owner of the name contract is the one whose account state is looked up and paid in the same function")
		case "contract/name.CreateName":
			// owner == destination == payer: decided by name-flow owner=payer
		default:
			c.Undecide("name-binding", top.Name(), "a name record is written from a function the rule does not know")
		}
	}
	if n < 2 {
		c.Undecide("name-binding", "leaves", "fewer writers of name records than on the reference tree")
	}
	c.Floor("name-binding", 2)
}
