package props

import (
	"go/ast"
	"go/token"
	"go/types"
	"sort"
	"strings"

	"verif/checker/internal/an"
)

// c15KeyOwner: storage key constructor of types/dbkey -> the accessor functions
// that may use it as the key of a write.  Confirmed by reading each one.
var c15KeyOwner = map[string][]string{
	"types/dbkey.SystemStaking":      {"contract/system.setStaking"},
	"types/dbkey.SystemStakingTotal": {"contract/system.addTotal", "contract/system.subTotal"},
	"types/dbkey.SystemVote":         {"contract/system.setVote"},
	"types/dbkey.SystemVoteTotal":    {"contract/system.(*VoteResult).Sync"},
	"types/dbkey.SystemVoteSort":     {"contract/system.(*VoteResult).Sync"},
	"types/dbkey.SystemVpr":          {"contract/system.(*vprStore).write"},
	"types/dbkey.SystemParam":        {"contract/system.updateParam"},
	"types/dbkey.Name":               {"contract/name.setNameMap"},
}

// c15AccessorCallers: accessor (or intermediate) function -> the only functions
// that may call it.  One line of reason each.
var c15AccessorCallers = map[string][]string{
	"contract/system.setStaking":                     {"contract/system.(*SystemContext).updateStaking"},                                                         // the record written is always the context's Staked
	"contract/system.(*SystemContext).updateStaking": {"contract/system.(*stakeCmd).run", "contract/system.(*unstakeCmd).run", "contract/system.(*voteCmd).run"}, // the three commands
	"contract/system.setVote":                        {"contract/system.(*voteCmd).updateVote", "contract/system.refreshAllVote"},                                // vote and refresh after unstake
	"contract/system.(*voteCmd).updateVote":          {"contract/system.(*voteCmd).run"},
	"contract/system.(*voteCmd).updateVoteResult":    {"contract/system.(*voteCmd).run"},
	"contract/system.(*VoteResult).Sync":             {"contract/system.(*voteCmd).updateVoteResult", "contract/system.refreshAllVote", "contract/system.InitVoteResult"}, // InitVoteResult: genesis only
	"contract/system.InitVoteResult":                 {"chain.InitGenesisBPs"},
	"contract/system.refreshAllVote":                 {"contract/system.(*unstakeCmd).run"},
	"contract/system.(*vprStore).write":              {"contract/system.(*vpr).apply"},
	"contract/system.(*vpr).apply":                   {"contract/system.(*VoteResult).Sync"},
	"contract/system.updateParam":                    {"contract/system.(*VoteResult).Sync"},
	"contract/name.setNameMap":                       {"contract/name.registerOwner"},
	"contract/name.registerOwner":                    {"contract/name.createName", "contract/name.updateName", "contract/name.SetContractOwner"},
	"contract/name.createName":                       {"contract/name.CreateName"},
	"contract/name.updateName":                       {"contract/name.UpdateName"},
}

var c15WriteMethods = map[string]bool{"SetData": true, "DeleteData": true, "SetRawKV": true, "SetCode": true}
var c15ReadMethods = map[string]bool{"GetData": true, "GetInitialData": true, "GetRawKV": true, "HasKey": true}

func (e *c15Env) keys() {
	c, p := e.c, e.p
	dbkey := p.Pkg("types/dbkey")
	if dbkey == nil {
		c.Undecide("key-owner", "types/dbkey", "package not loaded")
		return
	}
	// 1. every storage write of the two governance packages uses a key built by a dbkey constructor in place
	govKeys := map[string]bool{}
	nWrites := 0
	for _, f := range p.Funcs() {
		if (f.Pkg != e.sys && f.Pkg != e.nm) || f.Body == nil {
			continue
		}
		info := f.Info()
		ast.Inspect(f.Body, func(n ast.Node) bool {
			call, ok := n.(*ast.CallExpr)
			if !ok {
				return true
			}
			sel, ok := ast.Unparen(call.Fun).(*ast.SelectorExpr)
			if !ok || !c15WriteMethods[sel.Sel.Name] || len(call.Args) < 1 {
				return true
			}
			fn := an.Callee(info, call)
			if fn == nil || !c15IsStorageMethod(fn) {
				return true
			}
			nWrites++
			kc, _ := ast.Unparen(call.Args[0]).(*ast.CallExpr)
			kname := c15CalleeName(info, kc)
			ok = kc != nil && strings.HasPrefix(kname, "types/dbkey.")
			if ok {
				govKeys[kname] = true
			}
			c.Check("key-owner", f.Name()+"|"+sel.Sel.Name+"|key", call.Pos(), ok, "a governance storage write takes its key directly from a types/dbkey constructor (so the owner table below is complete)")
			return true
		})
	}
	if nWrites < 9 {
		c.Undecide("key-owner", "writes", "fewer storage writes in contract/system and contract/name than on the reference tree")
	}
	// 2. every use of those key constructors anywhere in the module: writes only in the owner
	for k := range c15KeyOwner {
		if _, _, name := splitName(k); !lookupMethodExists(p, "types/dbkey", "", name) {
			c.Undecide("key-owner", k, "key constructor in the owner table no longer exists")
		}
		govKeys[k] = true
	}
	for _, cs := range p.CallSitesOf(govKeys) {
		kname := an.FuncName(cs.Obj)
		fn := "<package level>"
		var root ast.Node
		if cs.Fn != nil {
			fn = cs.Fn.TopDecl().Name()
			root = cs.Fn.TopDecl().Body
		}
		use := "other"
		if root != nil {
			if parent, idx := c15ParentCall(root, cs.Call); parent != nil && idx == 0 {
				if sel, ok := ast.Unparen(parent.Fun).(*ast.SelectorExpr); ok {
					switch {
					case c15WriteMethods[sel.Sel.Name]:
						use = "write"
					case c15ReadMethods[sel.Sel.Name]:
						use = "read"
					}
				}
			}
		}
		owners, known := c15KeyOwner[kname]
		switch use {
		case "read":
			c.CheckTrivial("key-owner", fn+"|"+kname+"|read", cs.Call.Pos(), true, "read access")
		case "write":
			ok := false
			for _, o := range owners {
				if o == fn {
					ok = true
				}
			}
			msg := "the key is written only by its accessor function(s) " + strings.Join(owners, ", ")
			if !known {
				msg = "a governance package writes under a key constructor that has no row in the owner table: classify it"
			}
			c.Check("key-owner", fn+"|"+kname+"|write", cs.Call.Pos(), ok, msg)
		default:
			c.Check("key-owner", fn+"|"+kname+"|escapes", cs.Call.Pos(), false, "the key is neither the first argument of a storage read nor of a storage write: it escapes and its use cannot be attributed")
		}
	}
	c.Floor("key-owner", 25)
	// 3. closed caller sets of the accessors
	names := map[string]bool{}
	for k := range c15AccessorCallers {
		names[k] = true
		if p.Func(k) == nil {
			c.Undecide("key-callers", k, "accessor in the caller table no longer exists")
		}
	}
	type pair struct{ callee, caller string }
	seen := map[pair]token.Pos{}
	for _, cs := range append(p.CallSitesOf(names), p.FuncRefs(names)...) {
		fn := "<package level>"
		if cs.Fn != nil {
			fn = cs.Fn.TopDecl().Name()
		}
		pr := pair{an.FuncName(cs.Obj), fn}
		if _, dup := seen[pr]; !dup {
			seen[pr] = c15SitePos(cs)
		}
	}
	// interface calls (dataSetter etc.) cannot reach the accessors: they are plain functions / concrete methods
	var prs []pair
	for pr := range seen {
		prs = append(prs, pr)
	}
	sort.Slice(prs, func(i, j int) bool {
		if prs[i].callee != prs[j].callee {
			return prs[i].callee < prs[j].callee
		}
		return prs[i].caller < prs[j].caller
	})
	for _, pr := range prs {
		ok := false
		for _, a := range c15AccessorCallers[pr.callee] {
			if a == pr.caller {
				ok = true
			}
		}
		c.Check("key-callers", pr.caller+"|"+pr.callee, seen[pr], ok, pr.callee+" is called only from "+strings.Join(c15AccessorCallers[pr.callee], ", "))
	}
	c.Floor("key-callers", 20)
}

// c15IsStorageMethod: a method of statedb.ContractState or of one of the
// package's storage interfaces (dataSetter).
func c15IsStorageMethod(fn *types.Func) bool {
	sig, ok := fn.Type().(*types.Signature)
	if !ok || sig.Recv() == nil {
		return false
	}
	t := sig.Recv().Type()
	if pt, ok := t.(*types.Pointer); ok {
		t = pt.Elem()
	}
	if n, ok := t.(*types.Named); ok {
		if n.Obj().Name() == "ContractState" && n.Obj().Pkg() != nil && strings.HasSuffix(n.Obj().Pkg().Path(), "state/statedb") {
			return true
		}
		if types.IsInterface(n) && n.Obj().Pkg() != nil && strings.Contains(n.Obj().Pkg().Path(), "/contract/") {
			return true
		}
	}
	return false
}
