package props

import (
	"go/ast"
	"go/constant"
	"go/token"
	"go/types"

	"verif/checker/internal/an"
)

// ---------------------------------------------------------------------------
// value resolution: follow locals that are assigned exactly once back to the
// expression (or call result) that defines them.  Purely syntactic on top of
// the type checker's object identity; names of locals never matter.

// c15Val is the root of an expression after following single-assignment locals.
type c15Val struct {
	Expr ast.Expr      // root expression (nil when the root is one result of a multi-value call)
	Call *ast.CallExpr // root is (result Idx of) this call
	Idx  int
	Obj  types.Object // root is an identifier that cannot be followed (parameter, multiply assigned)
}

type c15Def struct {
	expr ast.Expr
	call *ast.CallExpr
	idx  int
}

type c15Resolver struct {
	f    *an.Func
	info *types.Info
	cnt  map[types.Object]int
	defs map[types.Object]c15Def
}

var c15Resolvers = map[*an.Func]*c15Resolver{}

// c15ResolverOf builds (once) the single-assignment table of the declared
// function enclosing f (literals share their parent's table).
func c15ResolverOf(f *an.Func) *c15Resolver {
	top := f.TopDecl()
	if r, ok := c15Resolvers[top]; ok {
		return r
	}
	r := &c15Resolver{f: top, info: top.Info(), cnt: map[types.Object]int{}, defs: map[types.Object]c15Def{}}
	c15Resolvers[top] = r
	if top.Body == nil {
		return r
	}
	obj := func(e ast.Expr) types.Object {
		id, ok := ast.Unparen(e).(*ast.Ident)
		if !ok || id.Name == "_" {
			return nil
		}
		if o := r.info.Defs[id]; o != nil {
			return o
		}
		return r.info.Uses[id]
	}
	bind := func(lhs []ast.Expr, rhs []ast.Expr) {
		if len(lhs) == len(rhs) {
			for i := range lhs {
				if o := obj(lhs[i]); o != nil {
					r.cnt[o]++
					r.defs[o] = c15Def{expr: rhs[i]}
				}
			}
			return
		}
		if len(rhs) == 1 {
			call, _ := ast.Unparen(rhs[0]).(*ast.CallExpr)
			for i := range lhs {
				if o := obj(lhs[i]); o != nil {
					r.cnt[o]++
					if call != nil {
						r.defs[o] = c15Def{call: call, idx: i}
					} else {
						r.defs[o] = c15Def{expr: nil}
						r.cnt[o]++ // comma-ok forms etc.: not followed
					}
				}
			}
		}
	}
	ast.Inspect(top.Body, func(n ast.Node) bool {
		switch s := n.(type) {
		case *ast.AssignStmt:
			if s.Tok == token.ASSIGN || s.Tok == token.DEFINE {
				bind(s.Lhs, s.Rhs)
			} else {
				for _, l := range s.Lhs {
					if o := obj(l); o != nil {
						r.cnt[o] += 2
					}
				}
			}
		case *ast.ValueSpec:
			var lhs []ast.Expr
			for _, nm := range s.Names {
				lhs = append(lhs, nm)
			}
			if len(s.Values) == 0 {
				// var x T : zero value, later assignments count
				for _, l := range lhs {
					if o := obj(l); o != nil {
						r.cnt[o]++
						r.defs[o] = c15Def{}
						r.cnt[o]++ // declared without value: never followed
					}
				}
			} else {
				bind(lhs, s.Values)
			}
		case *ast.IncDecStmt:
			if o := obj(s.X); o != nil {
				r.cnt[o] += 2
			}
		case *ast.UnaryExpr:
			if s.Op == token.AND {
				if o := obj(s.X); o != nil {
					r.cnt[o] += 2
				}
			}
		case *ast.RangeStmt:
			for _, e := range []ast.Expr{s.Key, s.Value} {
				if e != nil {
					if o := obj(e); o != nil {
						r.cnt[o] += 2
					}
				}
			}
		}
		return true
	})
	return r
}

// Resolve follows single-assignment locals.
func (r *c15Resolver) Resolve(e ast.Expr) c15Val {
	for depth := 0; depth < 12; depth++ {
		e = ast.Unparen(e)
		id, ok := e.(*ast.Ident)
		if !ok {
			if call, ok := e.(*ast.CallExpr); ok {
				return c15Val{Expr: e, Call: call}
			}
			return c15Val{Expr: e}
		}
		o := r.info.Uses[id]
		if o == nil {
			o = r.info.Defs[id]
		}
		v, isVar := o.(*types.Var)
		if !isVar {
			return c15Val{Expr: e, Obj: o}
		}
		d, has := r.defs[v]
		if !has || r.cnt[v] != 1 {
			return c15Val{Expr: e, Obj: v}
		}
		if d.call != nil {
			return c15Val{Call: d.call, Idx: d.idx}
		}
		if d.expr == nil {
			return c15Val{Expr: e, Obj: v}
		}
		e = d.expr
	}
	return c15Val{Expr: e}
}

// c15Field returns the struct field selected by the root of e (x.f after
// following locals), or nil.
func (r *c15Resolver) Field(e ast.Expr) *types.Var {
	v := r.Resolve(e)
	if v.Expr == nil {
		return nil
	}
	return an.FieldOf(r.info, v.Expr)
}

// c15SameValue: two expressions denote the same value: the same defining call
// result, the same unfollowable variable, or a read of the same field through
// the same base variable.
func (r *c15Resolver) SameValue(a, b ast.Expr) bool {
	va, vb := r.Resolve(a), r.Resolve(b)
	if va.Call != nil || vb.Call != nil {
		return va.Call == vb.Call && va.Idx == vb.Idx
	}
	if va.Obj != nil || vb.Obj != nil {
		return va.Obj == vb.Obj
	}
	if va.Expr == vb.Expr {
		return true
	}
	fa, fb := an.FieldOf(r.info, va.Expr), an.FieldOf(r.info, vb.Expr)
	if fa == nil || fa != fb {
		return false
	}
	sa, sb := ast.Unparen(va.Expr).(*ast.SelectorExpr), ast.Unparen(vb.Expr).(*ast.SelectorExpr)
	ba, bb := r.Resolve(sa.X), r.Resolve(sb.X)
	if ba.Obj != nil && ba.Obj == bb.Obj {
		return true
	}
	return false
}

// c15CalleeName is the FuncName of a call's static callee or "".
func c15CalleeName(info *types.Info, call *ast.CallExpr) string {
	if call == nil {
		return ""
	}
	return an.CalleeName(info, call)
}

// c15Recv returns the receiver expression of a method call x.m(...).
func c15Recv(call *ast.CallExpr) ast.Expr {
	if sel, ok := ast.Unparen(call.Fun).(*ast.SelectorExpr); ok {
		return sel.X
	}
	return nil
}

// c15IsNilExpr reports whether e is the nil literal.
func c15IsNilExpr(info *types.Info, e ast.Expr) bool {
	tv, ok := info.Types[e]
	return ok && tv.IsNil()
}

// c15Returns splits the return statements of g into success returns (last
// result is the nil literal) and failure returns (anything else).
func c15Returns(g *an.Graph) (succ, fail []*an.Node) {
	info := g.Fn.Info()
	for _, n := range g.Returns() {
		rs := n.Ast.(*ast.ReturnStmt)
		if len(rs.Results) == 0 {
			succ = append(succ, n) // bare return: treated as success (conservative for must-succeed rules)
			continue
		}
		if c15IsNilExpr(info, rs.Results[len(rs.Results)-1]) {
			succ = append(succ, n)
		} else {
			fail = append(fail, n)
		}
	}
	return
}

// c15MustSucceed: every success return of g is dominated by the edges on which
// the error result of the call at site is known to be nil.
func c15MustSucceed(g *an.Graph, site an.Site) (bool, string) {
	edges := g.ErrNilEdges(site)
	if len(edges) == 0 {
		// return f(...) directly: the call's error is the function's error
		if rs, ok := site.Node.Ast.(*ast.ReturnStmt); ok && len(rs.Results) > 0 && ast.Unparen(rs.Results[len(rs.Results)-1]) == site.Call {
			return true, "its error is returned directly"
		}
		return false, "the error result is not tested"
	}
	succ, _ := c15Returns(g)
	if len(succ) == 0 {
		return false, "no success return found"
	}
	for _, r := range succ {
		if !g.Dominated(r, edges) {
			return false, "a success return is reachable without the call having succeeded"
		}
	}
	return true, "every success return is dominated by its err==nil edge"
}

// c15ConstInt returns the integer constant value of e.
func c15ConstInt(info *types.Info, e ast.Expr) (int64, bool) {
	tv, ok := info.Types[e]
	if !ok || tv.Value == nil {
		return 0, false
	}
	v := constant.ToInt(tv.Value)
	if v.Kind() != constant.Int {
		return 0, false
	}
	i, exact := constant.Int64Val(v)
	return i, exact
}

// c15UsesObj reports whether expression e mentions object o.
func c15UsesObj(info *types.Info, e ast.Node, o types.Object) bool {
	found := false
	ast.Inspect(e, func(n ast.Node) bool {
		if id, ok := n.(*ast.Ident); ok && info.Uses[id] == o {
			found = true
		}
		return !found
	})
	return found
}

// c15ParentCall finds the call expression of which inner is a direct argument.
func c15ParentCall(root ast.Node, inner ast.Expr) (*ast.CallExpr, int) {
	var res *ast.CallExpr
	idx := -1
	ast.Inspect(root, func(n ast.Node) bool {
		if res != nil {
			return false
		}
		if c, ok := n.(*ast.CallExpr); ok {
			for i, a := range c.Args {
				if ast.Unparen(a) == inner {
					res, idx = c, i
					return false
				}
			}
		}
		return true
	})
	return res, idx
}

// c15CaseEdges returns the KTrue vertices of the case expressions of g that
// denote the constant object o (switch tag == o matched).
func c15CaseEdges(g *an.Graph, o types.Object) an.Set {
	info := g.Fn.Info()
	out := an.Set{}
	for _, n := range g.Nodes {
		if n.Kind != an.KTrue || n.Cond == nil {
			continue
		}
		e, ok := n.Cond.Ast.(ast.Expr)
		if !ok {
			continue
		}
		var id *ast.Ident
		switch x := ast.Unparen(e).(type) {
		case *ast.Ident:
			id = x
		case *ast.SelectorExpr:
			id = x.Sel
		}
		if id != nil && info.Uses[id] == o {
			out[n] = true
		}
	}
	return out
}
