package props

import (
	"go/ast"
	"go/constant"
	"go/token"
	"go/types"

	"verif/checker/internal/an"
)

// ---------------------------------------------------------------------------
// value resolution: follow locals that are assigned exactly once back to the
// expression (or call result) that defines them.  Purely syntactic on top of
// the type checker's object identity; names of locals never matter.

// c15Val is the root of an expression after following single-assignment locals.
type c15Val struct {
	Expr ast.Expr      // root expression (nil when the root is one result of a multi-value call)
	Call *ast.CallExpr // root is (result Idx of) this call
	Idx  int
	Obj  types.Object // root is an identifier that cannot be followed (parameter, multiply assigned)
}

type c15Def struct {
	expr ast.Expr
	call *ast.CallExpr
	idx  int
}

type c15Resolver struct {
	f    *an.Func
	info *types.Info
	cnt  map[types.Object]int
	defs map[types.Object]c15Def
}

var c15Resolvers = map[*an.Func]*c15Resolver{}

// c15ResolverOf builds (once) the single-assignment table of the declared
// function enclosing f (literals share their parent's table).
func c15ResolverOf(f *an.Func) *c15Resolver {
	top := f.TopDecl()
	if r, ok := c15Resolvers[top]; ok {
		return r
	}
	r := &c15Resolver{f: top, info: top.Info(), cnt: map[types.Object]int{}, defs: map[types.Object]c15Def{}}
	c15Resolvers[top] = r
	if top.Body == nil {
		return r
	}
	obj := func(e ast.Expr) types.Object {
		id, ok := ast.Unparen(e).(*ast.Ident)
		if !ok || id.Name == "_" {
			return nil
		}
		if o := r.info.Defs[id]; o != nil {
			return o
		}
		return r.info.Uses[id]
	}
	bind := func(lhs []ast.Expr, rhs []ast.Expr) {
		if len(lhs) == len(rhs) {
			for i := range lhs {
				if o := obj(lhs[i]); o != nil {
					r.cnt[o]++
					r.defs[o] = c15Def{expr: rhs[i]}
				}
			}
			return
		}
		if len(rhs) == 1 {
			call, _ := ast.Unparen(rhs[0]).(*ast.CallExpr)
			for i := range lhs {
				if o := obj(lhs[i]); o != nil {
					r.cnt[o]++
					if call != nil {
						r.defs[o] = c15Def{call: call, idx: i}
					} else {
						r.defs[o] = c15Def{expr: nil}
						r.cnt[o]++ // comma-ok forms etc.: not followed
					}
				}
			}
		}
	}
	ast.Inspect(top.Body, func(n ast.Node) bool {
		switch s := n.(type) {
		case *ast.AssignStmt:
			if s.Tok == token.ASSIGN || s.Tok == token.DEFINE {
				bind(s.Lhs, s.Rhs)
			} else {
				for _, l := range s.Lhs {
					if o := obj(l); o != nil {
						r.cnt[o] += 2
					}
				}
			}
		case *ast.ValueSpec:
			var lhs []ast.Expr
			for _, nm := range s.Names {
				lhs = append(lhs, nm)
			}
			if len(s.Values) == 0 {
				// var x T : zero value, later assignments count
				for _, l := range lhs {
					if o := obj(l); o != nil {
						r.cnt[o]++
						r.defs[o] = c15Def{}
						r.cnt[o]++ // declared without value: never followed
					}
				}
			} else {
				bind(lhs, s.Values)
			}
		case *ast.IncDecStmt:
			if o := obj(s.X); o != nil {
				r.cnt[o] += 2
			}
		case *ast.UnaryExpr:
			if s.Op == token.AND {
				if o := obj(s.X); o != nil {
					r.cnt[o] += 2
				}
			}
		case *ast.RangeStmt:
			for _, e := range []ast.Expr{s.Key, s.Value} {
				if e != nil {
					if o := obj(e); o != nil {
						r.cnt[o] += 2
					}
				}
			}
		}
		return true
	})
	return r
}

// Resolve follows single-assignment locals.
func (r *c15Resolver) Resolve(e ast.Expr) c15Val {
	for depth := 0; depth < 12; depth++ {
		e = ast.Unparen(e)
		id, ok := e.(*ast.Ident)
		if !ok {
			if call, ok := e.(*ast.CallExpr); ok {
				return c15Val{Expr: e, Call: call}
			}
			return c15Val{Expr: e}
		}
		o := r.info.Uses[id]
		if o == nil {
			o = r.info.Defs[id]
		}
		v, isVar := o.(*types.Var)
		if !isVar {
			return c15Val{Expr: e, Obj: o}
		}
		d, has := r.defs[v]
		if !has || r.cnt[v] != 1 {
			return c15Val{Expr: e, Obj: v}
		}
		if d.call != nil {
			return c15Val{Call: d.call, Idx: d.idx}
		}
		if d.expr == nil {
			return c15Val{Expr: e, Obj: v}
		}
		e = d.expr
	}
	return c15Val{Expr: e}
}

// c15Field returns the struct field selected by the root of e (x.f after
// following locals), or nil.
func (r *c15Resolver) Field(e ast.Expr) *types.Var {
	v := r.Resolve(e)
	if v.Expr == nil {
		return nil
	}
	return an.FieldOf(r.info, v.Expr)
}

// c15SameValue: two expressions denote the same value: the same defining call
// result, the same unfollowable variable, or a read of the same field through
// the same base variable.
func (r *c15Resolver) SameValue(a, b ast.Expr) bool {
	va, vb := r.Resolve(a), r.Resolve(b)
	if va.Call != nil || vb.Call != nil {
		return va.Call == vb.Call && va.Idx == vb.Idx
	}
	if va.Obj != nil || vb.Obj != nil {
		return va.Obj == vb.Obj
	}
	if va.Expr == vb.Expr {
		return true
	}
	fa, fb := an.FieldOf(r.info, va.Expr), an.FieldOf(r.info, vb.Expr)
	if fa == nil || fa != fb {
		return false
	}
	sa, sb := ast.Unparen(va.Expr).(*ast.SelectorExpr), ast.Unparen(vb.Expr).(*ast.SelectorExpr)
	ba, bb := r.Resolve(sa.X), r.Resolve(sb.X)
	if ba.Obj != nil && ba.Obj == bb.Obj {
		return true
	}
	return false
}

// c15CalleeName is the FuncName of a call's static callee or "".
func c15CalleeName(info *types.Info, call *ast.CallExpr) string {
	if call == nil {
		return ""
	}
	return an.CalleeName(info, call)
}

// c15Recv returns the receiver expression of a method call x.m(...).
func c15Recv(call *ast.CallExpr) ast.Expr {
	if sel, ok := ast.Unparen(call.Fun).(*ast.SelectorExpr); ok {
		return sel.X
	}
	return nil
}

// c15IsNilExpr reports whether e is the nil literal.
func c15IsNilExpr(info *types.Info, e ast.Expr) bool {
	tv, ok := info.Types[e]
	return ok && tv.IsNil()
}

// c15Returns splits the return statements of g into success returns (last
// result is the nil literal) and failure returns (anything else).
func c15Returns(g *an.Graph) (succ, fail []*an.Node) {
	info := g.Fn.Info()
	for _, n := range g.Returns() {
		rs := n.Ast.(*ast.ReturnStmt)
		if len(rs.Results) == 0 {
			succ = append(succ, n) // bare return: treated as success (conservative for must-succeed rules)
			continue
		}
		if c15IsNilExpr(info, rs.Results[len(rs.Results)-1]) {
			succ = append(succ, n)
		} else {
			fail = append(fail, n)
		}
	}
	return
}

// c15MustSucceed: every success return of g is dominated by the edges on which
// the error result of the call at site is known to be nil.
func c15MustSucceed(g *an.Graph, site an.Site) (bool, string) {
	edges := g.ErrNilEdges(site)
	if len(edges) == 0 {
		// return f(...) directly: the call's error is the function's error
		if rs, ok := site.Node.Ast.(*ast.ReturnStmt); ok && len(rs.Results) > 0 && ast.Unparen(rs.Results[len(rs.Results)-1]) == site.Call {
			return true, "its error is returned directly"
		}
		return false, "the error result is not tested"
	}
	succ, _ := c15Returns(g)
	if len(succ) == 0 {
		return false, "no success return found"
	}
	for _, r := range succ {
		if !g.Dominated(r, edges) {
			return false, "a success return is reachable without the call having succeeded"
		}
	}
	return true, "every success return is dominated by its err==nil edge"
}

// c15ConstInt returns the integer constant value of e.
func c15ConstInt(info *types.Info, e ast.Expr) (int64, bool) {
	tv, ok := info.Types[e]
	if !ok || tv.Value == nil {
		return 0, false
	}
	v := constant.ToInt(tv.Value)
	if v.Kind() != constant.Int {
		return 0, false
	}
	i, exact := constant.Int64Val(v)
	return i, exact
}

// c15UsesObj reports whether expression e mentions object o.
func c15UsesObj(info *types.Info, e ast.Node, o types.Object) bool {
	found := false
	ast.Inspect(e, func(n ast.Node) bool {
		if id, ok := n.(*ast.Ident); ok && info.Uses[id] == o {
			found = true
		}
		return !found
	})
	return found
}

// c15ParentCall finds the call expression of which inner is a direct argument.
func c15ParentCall(root ast.Node, inner ast.Expr) (*ast.CallExpr, int) {
	var res *ast.CallExpr
	idx := -1
	ast.Inspect(root, func(n ast.Node) bool {
		if res != nil {
			return false
		}
		if c, ok := n.(*ast.CallExpr); ok {
			for i, a := range c.Args {
				if ast.Unparen(a) == inner {
					res, idx = c, i
					return false
				}
			}
		}
		return true
	})
	return res, idx
}

// c15CaseEdges returns the KTrue vertices of the case expressions of g that
// denote the constant object o (switch tag == o matched).
func c15CaseEdges(g *an.Graph, o types.Object) an.Set {
	info := g.Fn.Info()
	out := an.Set{}
	for _, n := range g.Nodes {
		if n.Kind != an.KTrue || n.Cond == nil {
			continue
		}
		e, ok := n.Cond.Ast.(ast.Expr)
		if !ok {
			continue
		}
		var id *ast.Ident
		switch x := ast.Unparen(e).(type) {
		case *ast.Ident:
			id = x
		case *ast.SelectorExpr:
			id = x.Sel
		}
		if id != nil && info.Uses[id] == o {
			out[n] = true
		}
	}
	return out
}

// ---------------------------------------------------------------------------
// parameter roles, independent of the parameter order
//
// The issue key, the voter and the vote of setVote / getVote / GetVote /
// loadVoteResult / validateForVote are not found by their argument position
// but by where the parameter ends up: in the issue or the voter position of a
// storage-key constructor of types/dbkey (directly, through locals assigned
// once, through conversions, or through another function of the two governance
// packages whose parameters are classified the same way), in a field of a
// composite literal, or - for the record itself - by its type.

// c15Sink describes where a value of a given role ends up.
type c15Sink struct {
	id    string
	calls map[string]int // callee FuncName -> argument index that has the role
	field *types.Var     // or: the value of this field in a keyed composite literal
}

func c15IssueSink() *c15Sink {
	return &c15Sink{id: "issue", calls: map[string]int{"types/dbkey.SystemVote": 0, "types/dbkey.SystemVoteSort": 0, "types/dbkey.SystemVoteTotal": 0}}
}

func c15VoterSink() *c15Sink {
	return &c15Sink{id: "voter", calls: map[string]int{"types/dbkey.SystemVote": 1}}
}

// c15Unconv strips parentheses and type conversions.
func c15Unconv(info *types.Info, x ast.Expr) ast.Expr {
	for {
		x = ast.Unparen(x)
		call, ok := x.(*ast.CallExpr)
		if !ok || len(call.Args) != 1 {
			return x
		}
		if tv, ok := info.Types[call.Fun]; !ok || !tv.IsType() {
			return x
		}
		x = call.Args[0]
	}
}

type c15SinkKey struct {
	f    *an.Func
	sink string
}

var c15SinkMemo = map[c15SinkKey]map[int]bool{}

// paramsReaching: the indices of the parameters of the declared function f
// whose value reaches the sink, in f itself or in a function of the governance
// packages that f passes it to.
func (e *c15Env) paramsReaching(f *an.Func, sink *c15Sink) map[int]bool {
	return e.paramsReachingD(f, sink, map[*an.Func]bool{})
}

func (e *c15Env) paramsReachingD(f *an.Func, sink *c15Sink, busy map[*an.Func]bool) map[int]bool {
	out := map[int]bool{}
	if f == nil {
		return out
	}
	f = f.TopDecl()
	if f == nil || f.Body == nil || f.Obj == nil || busy[f] || len(busy) > 8 {
		return out
	}
	mk := c15SinkKey{f, sink.id}
	if sink.field != nil {
		mk.sink += "/" + sink.field.Name()
	}
	if m, ok := c15SinkMemo[mk]; ok {
		return m
	}
	busy[f] = true
	defer delete(busy, f)
	r := c15ResolverOf(f)
	info := r.info
	take := func(x ast.Expr) {
		v := r.Resolve(c15Unconv(info, x))
		for i := 0; i < 4 && v.Expr != nil && v.Call != nil; i++ {
			// a conversion of a local: []byte(name)
			y := c15Unconv(info, v.Expr)
			if y == ast.Unparen(v.Expr) {
				break
			}
			v = r.Resolve(y)
		}
		if pv, ok := v.Obj.(*types.Var); ok {
			if idx := c15ParamIdx(f, pv); idx >= 0 {
				out[idx] = true
			}
		}
	}
	ast.Inspect(f.Body, func(n ast.Node) bool {
		switch y := n.(type) {
		case *ast.CompositeLit:
			if sink.field == nil {
				return true
			}
			var st *types.Struct
			if tv, ok := info.Types[y]; ok && tv.Type != nil {
				t := tv.Type
				if pt, isP := t.Underlying().(*types.Pointer); isP {
					t = pt.Elem()
				}
				st, _ = t.Underlying().(*types.Struct)
			}
			for i, el := range y.Elts {
				if kv, ok := el.(*ast.KeyValueExpr); ok {
					if id, ok := kv.Key.(*ast.Ident); ok && info.Uses[id] == sink.field {
						take(kv.Value)
					}
				} else if st != nil && i < st.NumFields() && st.Field(i) == sink.field {
					take(el) // positional literal
				}
			}
		case *ast.CallExpr:
			fn := an.Callee(info, y)
			if fn == nil {
				return true
			}
			if idx, ok := sink.calls[an.FuncName(fn)]; ok {
				if idx < len(y.Args) {
					take(y.Args[idx])
				}
				return true
			}
			cf := e.p.FuncOf(fn)
			if cf == nil || cf.Body == nil || (cf.Pkg != e.sys && cf.Pkg != e.nm) {
				return true
			}
			sig, _ := fn.Type().(*types.Signature)
			if sig == nil || sig.Variadic() || y.Ellipsis.IsValid() {
				return true
			}
			for idx := range e.paramsReachingD(cf, sink, busy) {
				if idx < len(y.Args) {
					take(y.Args[idx])
				}
			}
		}
		return true
	})
	if len(busy) == 1 {
		c15SinkMemo[mk] = out // only complete (non-truncated) results are remembered
	}
	return out
}

func c15ParamIdx(f *an.Func, v *types.Var) int {
	if f == nil || f.Obj == nil {
		return -1
	}
	sig := f.Obj.Type().(*types.Signature)
	for i := 0; i < sig.Params().Len(); i++ {
		if sig.Params().At(i) == v {
			return i
		}
	}
	return -1
}

// roleParam: the one parameter of the function that reaches the sink, or -1
// with the reason (none, or several: the roles of the parameters are mixed up
// inside the accessor).
func (e *c15Env) roleParam(fn string, sink *c15Sink) (int, string) {
	f := e.p.Func(fn)
	if f == nil {
		return -1, fn + " not found"
	}
	m := e.paramsReaching(f, sink)
	if len(m) != 1 {
		return -1, itoa(len(m)) + " parameters of " + fn + " reach the " + sink.id + " position of the storage key"
	}
	for i := range m {
		return i, ""
	}
	return -1, ""
}

// keyArgs returns the issue-key and voter arguments of a call of an
// accessor of the vote records (setVote, getVote, GetVote, validateForVote),
// by the roles of the callee's parameters.  nil when the role is not carried
// by exactly one parameter (or by the same parameter as the other role).
func (e *c15Env) keyArgs(s an.Site) (issue, voter ast.Expr) {
	if s.Fn == nil || s.Call == nil || s.Call.Ellipsis.IsValid() {
		return nil, nil
	}
	name := an.FuncName(s.Fn)
	ii, _ := e.roleParam(name, c15IssueSink())
	vi, _ := e.roleParam(name, c15VoterSink())
	if ii >= 0 && ii == vi {
		return nil, nil
	}
	if ii >= 0 && ii < len(s.Call.Args) {
		issue = s.Call.Args[ii]
	}
	if vi >= 0 && vi < len(s.Call.Args) {
		voter = s.Call.Args[vi]
	}
	return
}

// c15TypedArg returns the argument of the call that is passed to the only
// parameter of the callee whose type satisfies pred (nil: none or several).
func c15TypedArg(fn *types.Func, call *ast.CallExpr, pred func(types.Type) bool) ast.Expr {
	if fn == nil || call == nil || call.Ellipsis.IsValid() {
		return nil
	}
	sig, _ := fn.Type().(*types.Signature)
	if sig == nil || sig.Variadic() || sig.Params().Len() != len(call.Args) {
		return nil
	}
	idx := -1
	for i := 0; i < sig.Params().Len(); i++ {
		if pred(sig.Params().At(i).Type()) {
			if idx >= 0 {
				return nil
			}
			idx = i
		}
	}
	if idx < 0 {
		return nil
	}
	return call.Args[idx]
}

// c15IsPtrTo: *pkg.Name with pkg given as full import path.
func c15IsPtrTo(path, name string) func(types.Type) bool {
	return func(t types.Type) bool {
		pt, ok := t.(*types.Pointer)
		if !ok {
			return false
		}
		nt, ok := pt.Elem().(*types.Named)
		return ok && nt.Obj().Pkg() != nil && nt.Obj().Pkg().Path() == path && nt.Obj().Name() == name
	}
}
