package props

import (
	"go/ast"
	"go/token"
	"go/types"

	"golang.org/x/tools/go/cfg"

	"verif/checker/internal/an"
	"verif/checker/internal/rep"
)

// c17SetAncestorExempt: callers of SyncContext.SetAncestor that are not the syncer.
var c17SetAncestorExempt = map[string]string{}

func c17Finder(c *rep.Ctx) {
	c17FinderOrder(c)
	c17ScanVerified(c)
	c17AncestorLocal(c)
	c17AncestorMainChain(c)
	c17HashSets(c)
}

// c17RangeBodyEdge returns the "loop continues" edge of a range statement.
func c17RangeBodyEdge(g *an.Graph, loop *ast.RangeStmt) *an.Node {
	for _, n := range g.Nodes {
		if n.Kind == an.KTrue && n.Block != nil && n.Block.Kind == cfg.KindRangeLoop && n.Block.Stmt == ast.Stmt(loop) {
			return n
		}
	}
	return nil
}

// ---------------------------------------------------------------------------
// finder-order: light scan, then (only if it found nothing) full scan

func c17FinderOrder(c *rep.Ctx) {
	p := c.Prog
	light := c.Fn("syncer.(*Finder).lightscan")
	full := c.Fn("syncer.(*Finder).fullscan")
	if light == nil || full == nil {
		return
	}
	ls := p.CallSitesOf(map[string]bool{light.Name(): true})
	fs := p.CallSitesOf(map[string]bool{full.Name(): true})
	if len(ls) != 1 || len(fs) != 1 || ls[0].Fn == nil || ls[0].Fn != fs[0].Fn {
		c.Check("finder-order", "syncer.(*Finder).{lightscan,fullscan}", light.Pos(), false, "lightscan and fullscan are not each called exactly once from the same finder routine")
		return
	}
	f := ls[0].Fn
	g := f.Graph()
	info := f.Info()
	var lsite, fsite an.Site
	for _, s := range g.CallsTo(light.Name()) {
		lsite = s
	}
	for _, s := range g.CallsTo(full.Name()) {
		fsite = s
	}
	if lsite.Node == nil || fsite.Node == nil {
		c.Undecide("finder-order", f.Name(), "scan calls not found in the control-flow graph")
		return
	}
	anc, errV := g.ResultVarAt(lsite, 0), g.ResultVarAt(lsite, 1)
	anc2, errV2 := g.ResultVarAt(fsite, 0), g.ResultVarAt(fsite, 1)
	if anc == nil || errV == nil {
		c.Undecide("finder-order", f.Name(), "results of lightscan are not stored in variables")
		return
	}
	c.Check("finder-order", f.Name()+"|order", fsite.Call.Pos(), g.Dominated(fsite.Node, an.SetOf(lsite.Node)) && !g.Reachable(fsite.Node, lsite.Node), "the quick anchor comparison (lightscan) runs on every path before the full scan, and not again after it")
	at := c17Atoms(
		c17NilCmpAtom(info, "ANIL", func(x ast.Expr) bool { return an.ObjOf(info, x) == anc }),
		c17NilCmpAtom(info, "ENIL", func(x ast.Expr) bool { return an.ObjOf(info, x) == errV }),
	)
	guarded, how := g.GuardedAt(fsite.Node, at, map[string]bool{"ANIL": true, "ENIL": true})
	clean := true
	for m := range g.Between(lsite.Node, fsite.Node) {
		if m.Kind == an.KStmt && (an.Assigns(info, m.Ast, anc) || an.Assigns(info, m.Ast, errV)) {
			clean = false
		}
	}
	c.Check("finder-order", f.Name()+"|fullscan-guard", fsite.Call.Pos(), guarded && clean && anc2 == anc && errV2 == errV, "the full scan runs (and overwrites the result) only when the light scan returned neither an ancestor nor an error ("+how+"): a light-scan hit is used, a light-scan failure is reported")
	// the result that is published
	ancFld := p.LookupField(c17Msg, "FinderResult", "Ancestor")
	nPub := 0
	for _, n := range g.StmtNodes(func(n *an.Node) bool { return true }) {
		var lit *ast.CompositeLit
		an.InspectShallow(n.Ast, func(x ast.Node) bool {
			if cl, ok := x.(*ast.CompositeLit); ok {
				if tv, ok := info.Types[cl]; ok && c17TypeKey(tv.Type) == c17Msg+".FinderResult" {
					lit = cl
				}
			}
			return true
		})
		if lit == nil {
			continue
		}
		nPub++
		var val ast.Expr
		for _, el := range lit.Elts {
			if kv, ok := el.(*ast.KeyValueExpr); ok {
				if id, ok := kv.Key.(*ast.Ident); ok && info.Uses[id] == ancFld {
					val = kv.Value
				}
			}
		}
		// err == nil edges taken after both scans
		edges := an.Set{}
		for en := range g.EdgesImplying(at, map[string]bool{"ENIL": true}) {
			if g.Reachable(en, lsite.Node) || g.Reachable(en, fsite.Node) {
				continue
			}
			edges[en] = true
		}
		ok := val != nil && an.ObjOf(info, val) == anc && len(edges) > 0 && g.Dominated(n, edges) &&
			g.Dominated(n, an.SetOf(lsite.Node))
		// the variable is not modified after the scans
		for _, m := range c17AssignNodes(g, anc) {
			if m != lsite.Node && m != fsite.Node && g.Reachable(lsite.Node, m) && g.Reachable(m, n) {
				ok = false
			}
		}
		c.Check("finder-order", f.Name()+"|published", lit.Pos(), ok, "the ancestor sent in FinderResult is the scans' result variable, untouched, and only on paths on which the scans' error is known to be nil")
	}
	if nPub == 0 {
		c.Check("finder-order", f.Name()+"|published", f.Pos(), false, "the finder no longer publishes a FinderResult")
	}
	c.Floor("finder-order", 3)
}

// ---------------------------------------------------------------------------
// scan-verified: the full scan only reports a block the remote confirmed

func c17ScanVerified(c *rep.Ctx) {
	p := c.Prog
	bs := c.Fn("syncer.(*Finder).binarySearch")
	same := c.Fn("syncer.(*Finder).hasSameHash")
	if bs == nil || same == nil {
		return
	}
	g := bs.Graph()
	info := bs.Info()
	hs := g.CallsTo(same.Name())
	gh := g.CallsTo("types.(ChainAccessor).GetHashByNo")
	if len(hs) != 1 || len(gh) != 1 || len(hs[0].Call.Args) != 2 || len(gh[0].Call.Args) != 1 {
		c.Check("scan-verified", bs.Name()+"|probe", bs.Pos(), false, "binarySearch no longer probes with exactly one local GetHashByNo and one remote hasSameHash per step")
		return
	}
	h, l := hs[0], gh[0]
	no := an.ObjOf(info, l.Call.Args[0])
	localHash := g.ResultVarAt(l, 0)
	pair := no != nil && localHash != nil && an.ObjOf(info, h.Call.Args[0]) == no && an.ObjOf(info, h.Call.Args[1]) == localHash &&
		g.Dominated(h.Node, g.ErrNilEdges(l))
	for m := range g.Between(l.Node, h.Node) {
		if m.Kind == an.KStmt && (an.Assigns(info, m.Ast, no) || an.Assigns(info, m.Ast, localHash)) {
			pair = false
		}
	}
	c.Check("scan-verified", bs.Name()+"|probe", h.Call.Pos(), pair, "the remote is asked about the same height whose local main-chain hash was just read (hasSameHash(mid, hashOf(mid))), after that read succeeded")
	// the result variable
	var res types.Object
	resOK := true
	for _, r := range g.Returns() {
		rs := r.Ast.(*ast.ReturnStmt)
		if len(rs.Results) != 2 {
			resOK = false
			continue
		}
		if c17IsNil(info, rs.Results[0]) {
			continue
		}
		o := an.ObjOf(info, rs.Results[0])
		if o == nil || (res != nil && res != o) {
			resOK = false
		}
		res = o
	}
	if !resOK || res == nil {
		c.Undecide("scan-verified", bs.Name()+"|match", "binarySearch does not return one local result variable")
		return
	}
	gates := c17BoolResultEdges(g, h, 0, true)
	errOK := g.ErrNilEdges(h)
	nAsg := 0
	biHash := p.LookupField("types", "BlockInfo", "Hash")
	biNo := p.LookupField("types", "BlockInfo", "No")
	for _, n := range c17AssignNodes(g, res) {
		as, ok := n.Ast.(*ast.AssignStmt)
		if !ok || len(as.Lhs) != len(as.Rhs) {
			continue
		}
		for i, lhs := range as.Lhs {
			if an.ObjOf(info, lhs) != res || c17IsNil(info, as.Rhs[i]) {
				continue
			}
			nAsg++
			var lit *ast.CompositeLit
			an.InspectShallow(as.Rhs[i], func(x ast.Node) bool {
				if cl, ok := x.(*ast.CompositeLit); ok && lit == nil {
					lit = cl
				}
				return true
			})
			same := false
			if lit != nil {
				var hv, nv ast.Expr
				for _, el := range lit.Elts {
					if kv, ok := el.(*ast.KeyValueExpr); ok {
						if id, ok := kv.Key.(*ast.Ident); ok {
							switch info.Uses[id] {
							case biHash:
								hv = kv.Value
							case biNo:
								nv = kv.Value
							}
						}
					}
				}
				same = hv != nil && nv != nil && an.ObjOf(info, hv) == localHash && an.ObjOf(info, nv) == no
			}
			clean := true
			for m := range g.Between(h.Node, n) {
				if m.Kind == an.KStmt && (an.Assigns(info, m.Ast, no) || an.Assigns(info, m.Ast, localHash)) {
					clean = false
				}
			}
			ok := len(gates) > 0 && g.Dominated(n, gates) && len(errOK) > 0 && g.Dominated(n, errOK) && same && clean
			c.Check("scan-verified", bs.Name()+"|match", as.Pos(), ok, "the candidate ancestor is set only on paths on which hasSameHash returned (true, nil), to exactly the (hash, number) that was probed: the full scan never reports a block the remote chain lacks")
		}
	}
	if nAsg == 0 {
		c.Check("scan-verified", bs.Name()+"|match", bs.Pos(), false, "binarySearch never records a match")
	}

	// hasSameHash says true only for equal hashes, and asks about the number it was given
	sg := same.Graph()
	sinfo := same.Info()
	var noPar, hashPar types.Object
	if pl := same.Type.Params; pl != nil {
		var names []*ast.Ident
		for _, f := range pl.List {
			names = append(names, f.Names...)
		}
		if len(names) == 2 {
			noPar, hashPar = sinfo.Defs[names[0]], sinfo.Defs[names[1]]
		}
	}
	rspHash := p.LookupField(c17Msg, "GetHashByNoRsp", "BlockHash")
	if noPar == nil || hashPar == nil || rspHash == nil {
		c.Undecide("scan-verified", same.Name(), "expected hasSameHash(no, localHash)")
		return
	}
	at := c17EqAtom(sinfo, "HEQ", true,
		func(x ast.Expr) bool { return an.ObjOf(sinfo, x) == hashPar },
		func(x ast.Expr) bool { return c17Derives(same, x, c17FieldPred(sinfo, rspHash), 3) })
	eq := sg.EdgesImplying(at, map[string]bool{"HEQ": true})
	nTrue := 0
	for _, r := range sg.Returns() {
		rs := r.Ast.(*ast.ReturnStmt)
		if len(rs.Results) != 2 || c17Const(sinfo, rs.Results[0]) == "false" {
			continue
		}
		nTrue++
		c.Check("scan-verified", same.Name()+"|true", r.Ast.Pos(), len(eq) > 0 && sg.Dominated(r, eq), "hasSameHash answers true only on paths on which bytes.Equal(local hash, remote answer's BlockHash) is known")
	}
	if nTrue == 0 {
		c.Check("scan-verified", same.Name()+"|true", same.Pos(), false, "hasSameHash never answers true")
	}
	reqNo := p.LookupField(c17Msg, "GetHashByNo", "BlockNo")
	nReq := 0
	an.InspectShallow(same.Body, func(x ast.Node) bool {
		cl, ok := x.(*ast.CompositeLit)
		if !ok {
			return true
		}
		if tv, ok := sinfo.Types[cl]; !ok || c17TypeKey(tv.Type) != c17Msg+".GetHashByNo" {
			return true
		}
		nReq++
		good := false
		for _, el := range cl.Elts {
			if kv, ok := el.(*ast.KeyValueExpr); ok {
				if id, ok := kv.Key.(*ast.Ident); ok && sinfo.Uses[id] == reqNo {
					good = an.ObjOf(sinfo, kv.Value) == noPar
				}
			}
		}
		c.Check("scan-verified", same.Name()+"|request", cl.Pos(), good, "the remote is asked for the hash at the block number hasSameHash was given")
		return true
	})
	if nReq == 0 {
		c.Undecide("scan-verified", same.Name()+"|request", "no GetHashByNo request built")
	}
	c.Floor("scan-verified", 4)
}

// ---------------------------------------------------------------------------
// anc-local: the session's ancestor is a block this node has

func c17AncestorLocal(c *rep.Ctx) {
	p := c.Prog
	hfr := c.Fn("syncer.(*Syncer).handleFinderResult")
	if hfr == nil {
		return
	}
	n := 0
	for _, cs := range p.CallSitesOf(map[string]bool{"types.(*SyncContext).SetAncestor": true}) {
		fn := c17Top(cs.Fn)
		if why, ex := c17SetAncestorExempt[fn]; ex {
			c.CheckTrivial("anc-local", fn+"|exempt", cs.Call.Pos(), true, why)
			continue
		}
		n++
		if cs.Fn != hfr || len(cs.Call.Args) != 1 {
			c.Check("anc-local", fn, cs.Call.Pos(), false, "the common ancestor of a session is set outside handleFinderResult")
			continue
		}
		g := hfr.Graph()
		info := hfr.Info()
		node := g.NodeContaining(cs.Call.Pos())
		ancFld := p.LookupField(c17Msg, "FinderResult", "Ancestor")
		hashFld := p.LookupField("types", "BlockInfo", "Hash")
		ok := false
		for _, s := range g.CallsTo("types.(ChainAccessor).GetBlock") {
			if len(s.Call.Args) != 1 {
				continue
			}
			fromResult := c17Contains(s.Call.Args[0], c17FieldPred(info, ancFld)) && c17Contains(s.Call.Args[0], c17FieldPred(info, hashFld))
			blk := g.ResultVarAt(s, 0)
			if fromResult && blk != nil && an.ObjOf(info, cs.Call.Args[0]) == blk && node != nil && g.Dominated(node, g.ErrNilEdges(s)) {
				ok = true
				for m := range g.Between(s.Node, node) {
					if m.Kind == an.KStmt && an.Assigns(info, m.Ast, blk) {
						ok = false
					}
				}
			}
		}
		c.Check("anc-local", fn, cs.Call.Pos(), ok, "the ancestor of the session is the block the local chain returned for the finder's hash (ChainAccessor.GetBlock succeeded): never a block this node lacks")
		// the workers start from it
		for _, w := range g.CallsTo("syncer.newBlockFetcher", "syncer.newHashFetcher") {
			c.Check("anc-local", fn+"|"+c17Short(an.FuncName(w.Fn)), w.Call.Pos(), node != nil && g.Dominated(w.Node, an.SetOf(node)), "the fetchers are created after the ancestor was recorded (they read ctx.CommonAncestor as their starting point)")
		}
	}
	if n == 0 {
		c.Undecide("anc-local", "types.(*SyncContext).SetAncestor", "no call site")
	}
	c.Floor("anc-local", 3)
}

// ---------------------------------------------------------------------------
// anc-mainchain: the responder of the light scan only names main-chain blocks

func c17AncestorMainChain(c *rep.Ctx) {
	p := c.Prog
	f := c.Fn("chain.(*ChainService).findAncestor")
	if f == nil {
		return
	}
	g := f.Graph()
	info := f.Info()
	okRets := an.Set{}
	var blk types.Object
	for _, r := range g.Returns() {
		rs := r.Ast.(*ast.ReturnStmt)
		if len(rs.Results) != 2 || c17IsNil(info, rs.Results[0]) {
			continue
		}
		okRets[r] = true
		// the local *types.Block the answer is built from
		an.InspectShallow(rs.Results[0], func(x ast.Node) bool {
			id, ok := x.(*ast.Ident)
			if !ok {
				return true
			}
			if v, ok := info.Uses[id].(*types.Var); ok && !v.IsField() && c17TypeKey(v.Type()) == "types.Block" {
				blk = v
			}
			return true
		})
	}
	if len(okRets) == 0 || blk == nil {
		c.Undecide("anc-mainchain", f.Name(), "no successful return built from a local block variable")
		return
	}
	ofBlk := func(x ast.Expr) bool { return c17Contains(x, c17ObjPred(info, blk)) }
	byNo := c17CallPred(info, "chain.(*ChainDB).getHashByNo")
	// main-chain hash at the candidate's own height
	pairOK := false
	for _, s := range g.CallsTo("chain.(*ChainDB).getHashByNo") {
		if len(s.Call.Args) == 1 && ofBlk(s.Call.Args[0]) && c17Contains(s.Call.Args[0], c17BlockNoPred(p, info)) {
			pairOK = true
		}
	}
	at := c17EqAtom(info, "MAIN", true,
		func(x ast.Expr) bool { return c17Derives(f, x, byNo, 3) },
		func(x ast.Expr) bool { return ofBlk(x) && c17Contains(x, c17BlockHashPred(p, info)) })
	mainEdges := g.EdgesImplying(at, map[string]bool{"MAIN": true})
	avoid := an.Set{}
	for en := range mainEdges {
		avoid[en] = true
	}
	var sets []*an.Node
	for _, n := range c17AssignNodes(g, blk) {
		as, ok := n.Ast.(*ast.AssignStmt)
		if !ok {
			continue
		}
		avoid[n] = true
		nonNil := false
		for i, l := range as.Lhs {
			if an.ObjOf(info, l) == blk && !(len(as.Lhs) == len(as.Rhs) && c17IsNil(info, as.Rhs[i])) {
				nonNil = true
			}
		}
		if nonNil {
			sets = append(sets, n)
		}
	}
	if len(sets) == 0 {
		c.Undecide("anc-mainchain", f.Name(), "the candidate block is never assigned")
		return
	}
	for _, sn := range sets {
		reach := g.Reach(sn.Succs, avoid)
		leak := false
		for r := range okRets {
			if reach[r] {
				leak = true
			}
		}
		c.Check("anc-mainchain", f.Name(), sn.Ast.Pos(), pairOK && len(mainEdges) > 0 && !leak, "a block looked up by one of the requester's anchor hashes is named as common ancestor only on paths on which its hash equals the main-chain hash at its own height (otherwise the candidate is reset): the answer is never a block the responder's main chain lacks")
	}
	c.Floor("anc-mainchain", 1)
}

// ---------------------------------------------------------------------------
// hash-set: hash sets continue each other

func c17HashSets(c *rep.Ctx) {
	p := c.Prog
	valid := c.Fn("syncer.(*HashFetcher).isValidResponse")
	proc := c.Fn("syncer.(*HashFetcher).processHashSet")
	if valid == nil || proc == nil {
		return
	}
	// processHashSet is called only on the accepted edge of isValidResponse
	n := 0
	for _, cs := range p.CallSitesOf(map[string]bool{proc.Name(): true}) {
		n++
		if cs.Fn == nil {
			continue
		}
		g := cs.Fn.Graph()
		info := cs.Fn.Info()
		node := g.NodeContaining(cs.Call.Pos())
		gates := an.Set{}
		var vsite *an.Site
		for _, s := range g.CallsTo(valid.Name()) {
			s := s
			gates = gates.Union(c17BoolResultEdges(g, s, 0, true))
			vsite = &s
		}
		c.Check("hash-set", c17Top(cs.Fn)+"|accepted", cs.Call.Pos(), node != nil && len(gates) > 0 && g.Dominated(node, gates), "a hash set is processed (and handed to the block fetcher) only on paths on which HashFetcher.isValidResponse returned true")
		// the set's first number is the successor of the answered PrevInfo
		startNo := p.LookupField("syncer", "HashSet", "StartNo")
		prevInfo := p.LookupField(c17Msg, "GetHashesRsp", "PrevInfo")
		biNo := p.LookupField("types", "BlockInfo", "No")
		hsArg := an.ObjOf(info, cs.Call.Args[0])
		found := false
		for _, src := range c17Sources(cs.Fn.TopDecl(), hsArg) {
			an.InspectShallow(src, func(x ast.Node) bool {
				cl, ok := x.(*ast.CompositeLit)
				if !ok {
					return true
				}
				for _, el := range cl.Elts {
					kv, ok := el.(*ast.KeyValueExpr)
					if !ok {
						continue
					}
					if id, ok := kv.Key.(*ast.Ident); !ok || info.Uses[id] != startNo {
						continue
					}
					found = true
					good := false
					if be, ok := ast.Unparen(kv.Value).(*ast.BinaryExpr); ok && be.Op == token.ADD {
						for _, pr := range [][2]ast.Expr{{be.X, be.Y}, {be.Y, be.X}} {
							if c17Const(info, pr[1]) == "1" && an.FieldOf(info, pr[0]) == biNo && c17Contains(pr[0], c17FieldPred(info, prevInfo)) {
								good = true
							}
						}
					}
					// same message as the one validated
					if good && vsite != nil && len(vsite.Call.Args) == 1 {
						mo := an.ObjOf(info, vsite.Call.Args[0])
						good = mo != nil && c17Contains(kv.Value, c17ObjPred(info, mo))
					}
					c.Check("hash-set", c17Top(cs.Fn)+"|StartNo", kv.Pos(), good, "the first number of a hash set is PrevInfo.No + 1 of the validated answer (contiguous with the previous set)")
				}
				return true
			})
		}
		if !found {
			c.Undecide("hash-set", c17Top(cs.Fn)+"|StartNo", "the HashSet literal was not found")
		}
	}
	if n == 0 {
		c.Undecide("hash-set", proc.Name(), "no call site")
	}

	// isValidResponse says true only if the answer continues the last hash (PrevInfo equal) — direct or through a flag
	g := valid.Graph()
	info := valid.Info()
	last := p.LookupField("syncer", "HashFetcher", "lastBlockInfo")
	prevInfo := p.LookupField(c17Msg, "GetHashesRsp", "PrevInfo")
	at := func(x ast.Expr) (string, bool, bool) {
		call, ok := ast.Unparen(x).(*ast.CallExpr)
		if !ok || len(call.Args) != 1 || an.CalleeName(info, call) != "types.(*BlockInfo).Equal" {
			return "", false, false
		}
		sel, ok := ast.Unparen(call.Fun).(*ast.SelectorExpr)
		if !ok {
			return "", false, false
		}
		a, b := sel.X, call.Args[0]
		isLast := func(e ast.Expr) bool { return an.FieldOf(info, e) == last }
		isPrev := func(e ast.Expr) bool { return an.FieldOf(info, e) == prevInfo }
		if (isLast(a) && isPrev(b)) || (isPrev(a) && isLast(b)) {
			return "CONT", false, true
		}
		return "", false, false
	}
	ok, why := c17TrueOnlyIf(g, at, "CONT")
	msg := "HashFetcher.isValidResponse returns true only if the answer's PrevInfo equals the last hash this fetcher holds (number and hash): the new set continues the previous one"
	if !ok {
		msg += ": " + why
	}
	c.Check("hash-set", valid.Name()+"|continues", valid.Pos(), ok, msg)

	// the position only moves forward inside the target
	lastNodes := 0
	pg := proc.Graph()
	pinfo := proc.Info()
	tgt := p.LookupField("types", "SyncContext", "TargetNo")
	for _, w := range p.FieldWrites(map[*types.Var]bool{last: true}) {
		if w.Fn != proc {
			continue
		}
		lastNodes++
		node := pg.NodeContaining(w.Pos)
		tat := func(x ast.Expr) (string, bool, bool) {
			be, ok := ast.Unparen(x).(*ast.BinaryExpr)
			if !ok {
				return "", false, false
			}
			l, r, op := be.X, be.Y, be.Op
			if an.FieldOf(pinfo, l) == tgt {
				l, r = r, l
				switch op {
				case token.LSS:
					op = token.GTR
				case token.GTR:
					op = token.LSS
				case token.LEQ:
					op = token.GEQ
				case token.GEQ:
					op = token.LEQ
				}
			}
			if an.FieldOf(pinfo, r) != tgt {
				return "", false, false
			}
			switch op {
			case token.GTR:
				return "BEYOND", false, true
			case token.LEQ:
				return "BEYOND", true, true
			}
			return "", false, false
		}
		edges := pg.EdgesImplying(tat, map[string]bool{"BEYOND": false})
		c.Check("hash-set", proc.Name()+"|within-target", w.Pos, node != nil && len(edges) > 0 && pg.Dominated(node, edges), "the fetch position advances only when the set's last number does not exceed the target (too many hashes are rejected)")
	}
	if lastNodes == 0 {
		c.Undecide("hash-set", proc.Name()+"|within-target", "processHashSet does not update lastBlockInfo")
	}
	c.Floor("hash-set", 4)
}

// c17TrueOnlyIf decides: the function returns true (first result) only on
// executions on which atom `name` was evaluated to true.  Two shapes:
//   - direct: every return of a non-false first result is dominated by an edge implying the atom;
//   - flag:   a local bool F, initialised before any branch, is only ever
//     reassigned the constant false; every such return is dominated by an edge
//     implying F (with no assignment of F in between); and every branch
//     outcome of a condition mentioning the atom that does not imply it leads
//     to `F = false` before any such return.
func c17TrueOnlyIf(g *an.Graph, at an.Atomizer, name string) (bool, string) {
	info := g.Fn.Info()
	var trues []*an.Node
	for _, r := range g.Returns() {
		rs := r.Ast.(*ast.ReturnStmt)
		if len(rs.Results) == 0 {
			return false, "bare return"
		}
		if c17Const(info, rs.Results[0]) != "false" {
			trues = append(trues, r)
		}
	}
	if len(trues) == 0 {
		return false, "never returns true"
	}
	good := g.EdgesImplying(at, map[string]bool{name: true})
	direct := len(good) > 0
	for _, r := range trues {
		if !g.Dominated(r, good) {
			direct = false
		}
	}
	if direct {
		return true, ""
	}
	// edges of conditions mentioning the atom that do not establish it
	var bad []*an.Node
	for _, n := range g.Nodes {
		if n.Kind != an.KTrue && n.Kind != an.KFalse {
			continue
		}
		cond, ok := n.Ast.(ast.Expr)
		if !ok || !an.CondMentions(info, cond, at, name) {
			continue
		}
		if !good[n] {
			bad = append(bad, n)
		}
	}
	if len(bad) == 0 {
		return false, "the condition is not tested"
	}
	// candidate flags: local bool variables
	cands := map[types.Object]bool{}
	for _, n := range g.Nodes {
		if n.Kind != an.KStmt {
			continue
		}
		an.InspectShallow(n.Ast, func(x ast.Node) bool {
			if id, ok := x.(*ast.Ident); ok {
				if v, ok := info.Defs[id].(*types.Var); ok && !v.IsField() {
					if b, ok := v.Type().Underlying().(*types.Basic); ok && b.Info()&types.IsBoolean != 0 {
						cands[v] = true
					}
				}
			}
			return true
		})
	}
	why := "no return-true is dominated by the test, and no boolean flag carries it"
	for fv := range cands {
		asg := c17AssignNodes(g, fv)
		if len(asg) < 2 {
			continue
		}
		// the first assignment dominates every other vertex that mentions the flag; all others assign constant false
		var init *an.Node
		falses := an.Set{}
		shape := true
		for _, n := range asg {
			if init == nil && g.Live(n) && !g.InLoop(n) && len(g.FactsAt(n)) == 0 {
				// the initialiser: executed unconditionally (not dominated by any branch outcome)
				init = n
				continue
			}
			as, ok := n.Ast.(*ast.AssignStmt)
			if !ok || len(as.Lhs) != 1 || len(as.Rhs) != 1 || c17Const(info, as.Rhs[0]) != "false" {
				shape = false
				break
			}
			falses[n] = true
		}
		if !shape || init == nil {
			continue
		}
		for n := range falses {
			if !g.Dominated(n, an.SetOf(init)) {
				shape = false
			}
		}
		if !shape {
			continue
		}
		fat := func(x ast.Expr) (string, bool, bool) {
			if id, ok := ast.Unparen(x).(*ast.Ident); ok && info.Uses[id] == fv {
				return "F", false, true
			}
			return "", false, false
		}
		fTrue := g.EdgesImplying(fat, map[string]bool{"F": true})
		ok := len(fTrue) > 0
		for _, r := range trues {
			if !g.Dominated(r, fTrue) {
				ok = false
				why = "a return of true is not dominated by the flag being true"
			}
		}
		// no assignment of the flag after the edge that established it (flag edges must not reach a `F = false`)
		for en := range fTrue {
			for n := range falses {
				if g.Reachable(en, n) {
					// an edge that can still be followed by F=false is useless as a witness: drop it
					delete(fTrue, en)
				}
			}
		}
		for _, r := range trues {
			if len(fTrue) == 0 || !g.Dominated(r, fTrue) {
				ok = false
				why = "the flag can be cleared after it was tested"
			}
		}
		if !ok {
			continue
		}
		leak := false
		for _, b := range bad {
			reach := g.Reach([]*an.Node{b}, falses)
			for _, r := range trues {
				if reach[r] {
					leak = true
				}
			}
		}
		if leak {
			why = "an outcome of the test that does not establish the condition reaches `return true` without clearing the flag"
			continue
		}
		return true, ""
	}
	return false, why
}
