package props

import (
	"fmt"
	"go/ast"
	"go/token"
	"go/types"
	"os"
	"sort"
	"strconv"
	"strings"

	"golang.org/x/tools/go/cfg"

	"verif/checker/internal/an"
)

// ---------------------------------------------------------------------------
// "denotes the current transaction"

func (a *c14Fn) denotes(x ast.Expr, l *c14Loc, depth int) bool {
	if depth > 8 || x == nil {
		return false
	}
	e := a.e
	x = ast.Unparen(x)
	switch s := x.(type) {
	case *ast.Ident:
		v := a.varOf(s)
		return v != nil && l.cur[v]
	case *ast.UnaryExpr:
		if s.Op == token.AND {
			return a.denotes(s.X, l, depth+1)
		}
	case *ast.StarExpr:
		return a.denotes(s.X, l, depth+1)
	case *ast.SelectorExpr:
		if fv := an.FieldOf(a.info, s); fv != nil {
			if e.carrierClass(a.info.TypeOf(s.X)) == 0 {
				return false
			}
			return a.denotes(s.X, l, depth+1)
		}
	case *ast.CallExpr:
		if tv, has := a.info.Types[s.Fun]; has && tv.IsType() {
			return false
		}
		fs, known := a.calleesOf(s)
		if !known || len(fs) == 0 {
			return false
		}
		for _, f := range fs {
			if f.Obj != nil && e.getterField(f.Obj) != nil {
				continue
			}
			cf := e.fnOf(f)
			if cf == nil || !cf.retSame || cf.multi {
				return false
			}
		}
		return a.argsDenote(s, l, depth+1)
	case *ast.CompositeLit:
		t := a.info.TypeOf(s)
		if e.carrierClass(t) != 3 && c14Named(t) != e.tTxWrap {
			return false
		}
		n := 0
		for _, el := range s.Elts {
			kv, ok := el.(*ast.KeyValueExpr)
			if !ok {
				return false
			}
			if e.carrierClass(a.info.TypeOf(kv.Value)) == 0 {
				continue
			}
			if !a.denotes(kv.Value, l, depth+1) {
				return false
			}
			n++
		}
		return n > 0
	}
	return false
}

// argsDenote: every carrier-typed operand (receiver and arguments) of the call
// denotes the current transaction, and there is at least one.
func (a *c14Fn) argsDenote(call *ast.CallExpr, l *c14Loc, depth int) bool {
	n := 0
	if sel, ok := ast.Unparen(call.Fun).(*ast.SelectorExpr); ok {
		if s := a.info.Selections[sel]; s != nil && s.Kind() == types.MethodVal {
			if a.e.carrierClass(a.info.TypeOf(sel.X)) != 0 {
				if !a.denotes(sel.X, l, depth) {
					return false
				}
				n++
			}
		}
	}
	for _, arg := range call.Args {
		if a.e.carrierClass(a.info.TypeOf(arg)) != 0 {
			if !a.denotes(arg, l, depth) {
				return false
			}
			n++
		}
	}
	return n > 0
}

// calleesOf: module functions a call may invoke (static, interface
// implementations, function-valued fields).  known=false: a function value the
// call graph could not resolve.
func (a *c14Fn) calleesOf(call *ast.CallExpr) ([]*an.Func, bool) {
	if fs, ok := a.e.callees[call]; ok {
		return fs, true
	}
	if fn := an.Callee(a.info, call); fn != nil {
		return nil, true // outside the module / no body
	}
	return nil, false
}

// ---------------------------------------------------------------------------
// conditions

// refine returns the state on the edge on which cond evaluates to val
// (nil: that edge is impossible).
func (a *c14Fn) refine(s *c14State, cond ast.Expr, val bool) *c14State {
	if s == nil {
		return nil
	}
	e := a.e
	cond = ast.Unparen(cond)
	switch x := cond.(type) {
	case *ast.UnaryExpr:
		if x.Op == token.NOT {
			return a.refine(s, x.X, !val)
		}
	case *ast.BinaryExpr:
		switch x.Op {
		case token.LAND, token.LOR:
			and := x.Op == token.LAND
			if and == val {
				// both operands have the value val
				return a.refine(a.refine(s, x.X, val), x.Y, val)
			}
			// either X has !and ... or X has and and Y has !and
			l := a.refine(s, x.X, val)
			r := a.refine(a.refine(s, x.X, !val), x.Y, val)
			return e.meetState(l, r)
		case token.EQL, token.NEQ:
			eq := (x.Op == token.EQL) == val
			for _, pr := range [][2]ast.Expr{{x.X, x.Y}, {x.Y, x.X}} {
				// discriminant == constant
				if dim, base, ok := a.disc(pr[0], 0); ok {
					if cv, isC := c14ConstVal(a.info, pr[1]); isC {
						if !a.denotes(base, s.loc, 0) {
							return s
						}
						return a.restrictDisc(s, dim, cv, eq)
					}
				}
				// x == nil
				if tv, ok := a.info.Types[pr[1]]; ok && tv.IsNil() {
					return a.refineNil(s, pr[0], eq)
				}
				// true/false constants
				if tv, ok := a.info.Types[pr[1]]; ok && tv.Value != nil && tv.Value.String() == "true" {
					return a.refine(s, pr[0], eq)
				}
				if tv, ok := a.info.Types[pr[1]]; ok && tv.Value != nil && tv.Value.String() == "false" {
					return a.refine(s, pr[0], !eq)
				}
			}
			return a.refineLen(s, x, val)
		case token.LSS, token.LEQ, token.GTR, token.GEQ:
			return a.refineLen(s, x, val)
		}
	case *ast.Ident:
		v := a.varOf(x)
		if v == nil {
			return s
		}
		if b, ok := s.loc.ok[v]; ok && val {
			return a.learnType(s, b.ref, b.typ)
		}
	}
	return s
}

// assignedOnce: the variable is defined at exactly one vertex (for a range key: the loop header).
func (a *c14Fn) assignedOnce(v *types.Var) bool {
	n := 0
	for _, nd := range a.g.Nodes {
		if nd.Kind == an.KStmt && an.Assigns(a.info, nd.Ast, v) {
			n++
		}
	}
	return n == 1
}

func (a *c14Fn) restrictDisc(s *c14State, dim int, cv string, eq bool) *c14State {
	e := a.e
	i, interesting := e.dims[dim].idx[cv]
	if !interesting {
		// a value the analysis does not distinguish: it is one of "the others"
		if eq {
			return e.restrict(s, e.maskEq[dim][0], true)
		}
		return s
	}
	return e.restrict(s, e.maskEq[dim][i], eq)
}

func (a *c14Fn) learnType(s *c14State, ref c14Ref, typ string) *c14State {
	e := a.e
	switch ref.kind {
	case 1:
		return e.mapArms(s, func(f *c14Facts) *c14Facts { return e.withElem(f, ref.idx, typ) })
	case 2:
		if ref.v != nil {
			if _, inside := s.loc.el[ref.v]; inside {
				return s.withLoc(func(l *c14Loc) { l.el[ref.v] = typ })
			}
		}
	}
	return s
}

func (a *c14Fn) refineNil(s *c14State, x ast.Expr, isNil bool) *c14State {
	e := a.e
	x = ast.Unparen(x)
	// error variable holding the result of a summarised call
	if v := a.varOf(x); v != nil {
		if call := s.loc.errOf[v]; call != nil {
			if isNil {
				return a.applyPost(s, call)
			}
		}
		if !isNil {
			if _, isErr := v.Type().Underlying().(*types.Interface); isErr {
				return s.withLoc(func(l *c14Loc) { l.nn[v] = true })
			}
		}
		return s
	}
	// direct test of a call:  if f(tx) != nil
	if call, ok := x.(*ast.CallExpr); ok && isNil {
		if a.argsDenote(call, s.loc, 0) {
			return a.applyPost(s, call)
		}
		return s
	}
	// witness field:  ctx.F != nil
	if fv := an.FieldOf(a.info, x); fv != nil && !isNil {
		sel := x.(*ast.SelectorExpr)
		if e.carrierClass(a.info.TypeOf(sel.X)) == 3 && a.denotes(sel.X, s.loc, 0) {
			e.witnessUsed[fv] = true
			a.usesWitness = true
			if m := e.witness[fv]; m != nil {
				return e.restrict(s, m, true)
			}
		}
	}
	return s
}

// refineLen: len(S) op k on an edge
func (a *c14Fn) refineLen(s *c14State, x *ast.BinaryExpr, val bool) *c14State {
	e := a.e
	op := x.Op
	var lenArg ast.Expr
	var k int
	lenCall := func(y ast.Expr) *ast.CallExpr {
		y = ast.Unparen(y)
		// int64(len(x)) and friends
		if cv, ok := y.(*ast.CallExpr); ok && len(cv.Args) == 1 {
			if tv, has := a.info.Types[cv.Fun]; has && tv.IsType() {
				if b, isB := tv.Type.Underlying().(*types.Basic); isB && b.Info()&types.IsInteger != 0 {
					y = ast.Unparen(cv.Args[0])
				}
			}
		}
		// n := len(x) ... n op k
		if id, ok := y.(*ast.Ident); ok {
			if rhs := a.singleDef(a.varOf(id)); rhs != nil {
				y = ast.Unparen(rhs)
			}
		}
		if c, ok := y.(*ast.CallExpr); ok && an.IsBuiltin(a.info, c, "len") && len(c.Args) == 1 {
			return c
		}
		return nil
	}
	if c := lenCall(x.X); c != nil {
		kk, isC := c14ConstInt(a.info, x.Y)
		if !isC {
			return s
		}
		lenArg, k = c.Args[0], kk
	} else if c := lenCall(x.Y); c != nil {
		kk, isC := c14ConstInt(a.info, x.X)
		if !isC {
			return s
		}
		lenArg, k = c.Args[0], kk
		switch op { // k op len  ==>  len op' k
		case token.LSS:
			op = token.GTR
		case token.GTR:
			op = token.LSS
		case token.LEQ:
			op = token.GEQ
		case token.GEQ:
			op = token.LEQ
		}
	} else {
		return s
	}
	if !val {
		switch op {
		case token.LSS:
			op = token.GEQ
		case token.GEQ:
			op = token.LSS
		case token.GTR:
			op = token.LEQ
		case token.LEQ:
			op = token.GTR
		case token.EQL:
			op = token.NEQ
		case token.NEQ:
			op = token.EQL
		}
	}
	lb := -1
	switch op {
	case token.GTR:
		lb = k + 1
	case token.GEQ, token.EQL:
		lb = k
	case token.NEQ:
		if k == 0 {
			lb = 1 // a length that is not zero
		}
	}
	if lb <= 0 {
		return s
	}
	key, off, base, ok := a.slice(lenArg, 0)
	if !ok || !a.denotes(base, s.loc, 0) {
		return s
	}
	return e.mapArms(s, func(f *c14Facts) *c14Facts { return e.withMin(f, key, off+lb) })
}

// ---------------------------------------------------------------------------
// calls

type c14Resolved struct {
	static []*an.Func
	disp   *c14Dispatch
}

func (a *c14Fn) resolve(call *ast.CallExpr) *c14Resolved {
	if d := a.e.dispatch[call]; d != nil {
		if d.why != "" {
			return nil
		}
		return &c14Resolved{disp: d}
	}
	fs, known := a.calleesOf(call)
	if !known || len(fs) == 0 {
		return nil
	}
	return &c14Resolved{static: fs}
}

// calleesFor lists the callees possible in arm k.
func (a *c14Fn) calleesFor(r *c14Resolved, k int) []*an.Func {
	if r.disp == nil {
		return r.static
	}
	d := r.disp
	v := a.e.dims[d.dim].vals[a.e.comp(k, d.dim)]
	return d.byVal[v]
}

// applyPost: the call returned without error (or returned at all, for callees
// without an error result): add what its callees guarantee at such an exit.
func (a *c14Fn) applyPost(s *c14State, call *ast.CallExpr) *c14State {
	e := a.e
	r := a.resolve(call)
	if r == nil {
		return s
	}
	arms := make([]*c14Facts, e.K)
	for k, f := range s.arms {
		if f == nil {
			continue
		}
		cs := a.calleesFor(r, k)
		if r.disp != nil && len(cs) == 0 {
			continue // no function stored under this key: the call cannot return
		}
		var post *c14Facts
		unknown := false
		for _, c := range cs {
			cf := e.fns[c]
			if cf == nil || len(cf.carr) == 0 || cf.multi || cf.post == nil {
				unknown = true
				break
			}
			post = e.meet(post, cf.post[k])
		}
		if unknown {
			arms[k] = f
			continue
		}
		if post == nil {
			continue // none of the callees returns normally in this arm
		}
		arms[k] = e.join(f, post)
	}
	return &c14State{arms: arms, loc: s.loc}
}

func (a *c14Fn) hasErrResult(call *ast.CallExpr) bool {
	t := a.info.TypeOf(call)
	errT := types.Universe.Lookup("error").Type()
	switch x := t.(type) {
	case *types.Tuple:
		return x.Len() > 0 && types.Identical(x.At(x.Len()-1).Type(), errT)
	case nil:
		return false
	default:
		return types.Identical(x, errT)
	}
}

// ---------------------------------------------------------------------------
// the walker: evaluates one CFG vertex

type c14Walker struct {
	a    *c14Fn
	s    *c14State
	emit bool
	node *an.Node
}

func (w *c14Walker) site(n ast.Node, pos token.Pos, shape string, need func(f *c14Facts, l *c14Loc) bool, what string) {
	if !w.emit || w.s == nil {
		return
	}
	a := w.a
	if old := a.siteAt[n]; old != nil {
		return
	}
	st := &c14Site{pos: pos, shape: shape, ok: true}
	bad := make([]bool, a.e.K)
	nbad := 0
	for k, f := range w.s.arms {
		if f == nil {
			continue
		}
		st.reach = true
		if !need(f, w.s.loc) {
			bad[k] = true
			nbad++
		}
	}
	if nbad > 0 {
		st.ok = false
		st.msg = what + " — not established for " + a.e.describe(bad)
	} else if st.reach {
		st.msg = what + " — established on every path, in every arm that reaches it (" + a.e.describe(c14Possible(w.s)) + ")"
	} else {
		st.msg = what + " — no transaction reaches this point (no caller passes one, or every arm was rejected before)"
	}
	a.siteAt[n] = st
	a.sites = append(a.sites, st)
}

func (w *c14Walker) expr(x ast.Expr) {
	if x == nil || w.s == nil {
		return
	}
	a := w.a
	switch s := x.(type) {
	case *ast.ParenExpr:
		w.expr(s.X)
	case *ast.FuncLit:
		return
	case *ast.BinaryExpr:
		if s.Op == token.LAND || s.Op == token.LOR {
			w.expr(s.X)
			save := w.s
			w.s = a.refine(w.s, s.X, s.Op == token.LAND)
			if w.s != nil {
				w.expr(s.Y)
			}
			w.s = save
			return
		}
		w.expr(s.X)
		w.expr(s.Y)
	case *ast.UnaryExpr:
		w.expr(s.X)
	case *ast.StarExpr:
		w.expr(s.X)
	case *ast.SelectorExpr:
		w.expr(s.X)
	case *ast.KeyValueExpr:
		w.expr(s.Key)
		w.expr(s.Value)
	case *ast.CompositeLit:
		for _, el := range s.Elts {
			w.expr(el)
		}
		w.literal(s)
	case *ast.IndexExpr:
		w.expr(s.X)
		w.expr(s.Index)
		w.index(s)
	case *ast.SliceExpr:
		w.expr(s.X)
		w.expr(s.Low)
		w.expr(s.High)
		w.expr(s.Max)
		w.sliceOp(s)
	case *ast.TypeAssertExpr:
		w.expr(s.X)
		w.assert(s)
	case *ast.CallExpr:
		if sel, ok := ast.Unparen(s.Fun).(*ast.SelectorExpr); ok {
			w.expr(sel.X)
		} else if _, isLit := ast.Unparen(s.Fun).(*ast.FuncLit); !isLit {
			w.expr(s.Fun)
		}
		for _, arg := range s.Args {
			w.expr(arg)
		}
		w.call(s)
	}
}

func (w *c14Walker) inScope(key string) bool {
	return key == "Args" || w.a.e.scopeBytes(w.a.f)
}

func (w *c14Walker) index(x *ast.IndexExpr) {
	a := w.a
	e := a.e
	key, off, base, ok := a.slice(x.X, 0)
	if !ok || !w.inScope(key) {
		return
	}
	if _, isSlice := a.info.TypeOf(x.X).Underlying().(*types.Slice); !isSlice {
		return
	}
	den := a.denotes(base, w.s.loc, 0)
	if c, isC := c14ConstInt(a.info, x.Index); isC {
		n := off + c
		w.site(x, x.Pos(), key+"["+strconv.Itoa(n)+"]", func(f *c14Facts, _ *c14Loc) bool { return den && f.min[key] > n },
			"index "+strconv.Itoa(n)+" of "+key+" needs len("+key+") > "+strconv.Itoa(n))
		if den {
			w.s = e.mapArms(w.s, func(f *c14Facts) *c14Facts { return e.withMin(f, key, n+1) })
		}
		return
	}
	// non-constant index: fine when it is the key variable of a range loop over the same slice
	if v := a.varOf(x.Index); v != nil {
		if r := a.rangeKey[v]; r != nil {
			if k2, o2, _, has := a.slice(r.X, 0); has && k2 == key && o2 == off && a.assignedOnce(v) {
				w.site(x, x.Pos(), key+"[range-key]", func(*c14Facts, *c14Loc) bool { return true }, "index is the key of a range loop over the same slice")
				return
			}
		}
	}
	// a parameter of the function that is never assigned: decided per call site (see c14ParamIndex)
	if v := a.varOf(x.Index); v != nil {
		if pos := a.paramPos(v); pos >= 0 {
			w.site(x, x.Pos(), key+"["+types.ExprString(x.Index)+"]", func(*c14Facts, *c14Loc) bool { return false },
				"non-constant index of "+key+" (no bound on the index is derived)")
			if st := a.siteAt[x]; st != nil && w.emit {
				st.byPar = &c14ParamIndex{key: key, off: off, pos: pos, name: v.Name(), den: den}
			}
			return
		}
	}
	w.site(x, x.Pos(), key+"["+types.ExprString(x.Index)+"]", func(*c14Facts, *c14Loc) bool { return false },
		"non-constant index of "+key+" (no bound on the index is derived)")
}

// paramPos: position of v among the flattened parameters of the function when v
// is an integer parameter that is never assigned, incremented or has its
// address taken anywhere in the body (nested literals included); -1 otherwise.
func (a *c14Fn) paramPos(v *types.Var) int {
	if v == nil || a.f.Type == nil || a.f.Type.Params == nil {
		return -1
	}
	if b, isB := v.Type().Underlying().(*types.Basic); !isB || b.Info()&types.IsInteger == 0 {
		return -1
	}
	pos, k := -1, 0
	for _, fld := range a.f.Type.Params.List {
		if len(fld.Names) == 0 {
			k++
			continue
		}
		for _, nm := range fld.Names {
			if a.info.Defs[nm] == v {
				pos = k
			}
			k++
		}
	}
	if pos < 0 {
		return -1
	}
	if _, variadic := a.f.Type.Params.List[len(a.f.Type.Params.List)-1].Type.(*ast.Ellipsis); variadic {
		return -1
	}
	written := false
	ast.Inspect(a.f.Body, func(n ast.Node) bool {
		switch s := n.(type) {
		case *ast.AssignStmt:
			for _, l := range s.Lhs {
				if a.varOf(l) == v {
					written = true
				}
			}
		case *ast.IncDecStmt:
			if a.varOf(s.X) == v {
				written = true
			}
		case *ast.UnaryExpr:
			if s.Op == token.AND && a.varOf(s.X) == v {
				written = true
			}
		case *ast.RangeStmt:
			if a.varOf(s.Key) == v || a.varOf(s.Value) == v {
				written = true
			}
		}
		return !written
	})
	if written {
		return -1
	}
	return pos
}

// paramIndexOK discharges a c14ParamIndex obligation of function a: every call
// site of a (all of them are analysed: root == 0) passes a constant, and the
// length needed for that constant is established there in every arm.
func (e *c14Eng) paramIndexOK(a *c14Fn, st *c14Site) (bool, string) {
	pi := st.byPar
	what := "index of " + pi.key + " by the parameter " + pi.name
	switch {
	case a.root != 0 || a.multi:
		return false, what + " — the callers of the function are not all known (exported to C, used as a value, or no transaction parameter): no bound on " + pi.name + " is derived"
	case !pi.den:
		return false, what + " — the indexed value is not read from the transaction the function works on"
	}
	// the call expressions the call graph knows for this function
	want := map[*ast.CallExpr]bool{}
	for _, ed := range e.cg.In[a.f] {
		if ed.Call == nil || ed.Caller == nil || e.skipSites[ed.Caller.TopDecl().Name()] != "" {
			continue
		}
		if b := e.fns[ed.Caller]; b != nil && b.in != nil {
			if nd := b.g.NodeContaining(ed.Call.Pos()); nd != nil && nd.ID < len(b.in) && b.in[nd.ID] == nil {
				continue // the call site is unreachable in its function
			}
		}
		want[ed.Call] = true
	}
	n := 0
	bad := make([]bool, e.K)
	nbad := 0
	var consts []string
	for _, b := range e.order {
		if e.skipSites[b.f.TopDecl().Name()] != "" {
			continue
		}
		for _, ct := range b.contrib {
			if ct.callee != a.f || ct.call == nil {
				continue
			}
			delete(want, ct.call)
			n++
			if ct.call.Ellipsis.IsValid() || pi.pos >= len(ct.call.Args) {
				return false, what + " — the call at " + e.p.Pos(ct.call.Pos()) + " does not pass " + pi.name + " as a plain argument"
			}
			c, isC := c14ConstInt(b.info, ct.call.Args[pi.pos])
			if !isC {
				return false, what + " — the call at " + e.p.Pos(ct.call.Pos()) + " passes " + types.ExprString(ct.call.Args[pi.pos]) + ", which is not a constant (no bound is derived)"
			}
			consts = append(consts, strconv.Itoa(c))
			for k, f := range ct.arms {
				if f != nil && f.min[pi.key] <= pi.off+c {
					if !bad[k] {
						nbad++
					}
					bad[k] = true
				}
			}
		}
	}
	if len(want) > 0 {
		for call := range want {
			return false, what + " — the call at " + e.p.Pos(call.Pos()) + " is not part of the analysis"
		}
	}
	if nbad > 0 {
		return false, what + " needs len(" + pi.key + ") > " + pi.name + " at every call site — not established for " + e.describe(bad)
	}
	sort.Strings(consts)
	return true, what + " — every one of the " + strconv.Itoa(n) + " call sites passes a constant (" + strings.Join(consts, ",") + ") below the length established at that call site, in every arm that reaches it"
}

func (w *c14Walker) sliceOp(x *ast.SliceExpr) {
	a := w.a
	e := a.e
	key, off, base, ok := a.slice(x.X, 0)
	if !ok || !w.inScope(key) {
		return
	}
	if _, isSlice := a.info.TypeOf(x.X).Underlying().(*types.Slice); !isSlice {
		return
	}
	den := a.denotes(base, w.s.loc, 0)
	need := 0
	shape := key + "["
	constant := true
	for i, b := range []ast.Expr{x.Low, x.High, x.Max} {
		if i > 0 {
			if i == 2 && !x.Slice3 {
				break
			}
			shape += ":"
		}
		if b == nil {
			continue
		}
		c, isC := c14ConstInt(a.info, b)
		if !isC {
			constant = false
			shape += types.ExprString(b)
			continue
		}
		shape += strconv.Itoa(off + c)
		if off+c > need {
			need = off + c
		}
	}
	shape += "]"
	if !constant {
		w.site(x, x.Pos(), shape, func(*c14Facts, *c14Loc) bool { return false }, "non-constant slice bound on "+key+" (no bound is derived)")
		return
	}
	if need == 0 {
		return // x[:] / x[0:] cannot fail
	}
	w.site(x, x.Pos(), shape, func(f *c14Facts, _ *c14Loc) bool { return den && f.min[key] >= need },
		"slice expression needs len("+key+") >= "+strconv.Itoa(need))
	if den {
		w.s = e.mapArms(w.s, func(f *c14Facts) *c14Facts { return e.withMin(f, key, need) })
	}
}

func c14RefShape(r c14Ref) string {
	if r.kind == 1 {
		return "Args[" + strconv.Itoa(r.idx) + "]"
	}
	return "Args[*]"
}

func (w *c14Walker) assert(x *ast.TypeAssertExpr) {
	a := w.a
	if x.Type == nil {
		return // type switch
	}
	ref, base, ok := a.elem(x.X, 0)
	if !ok {
		return
	}
	t := a.info.TypeOf(x.Type)
	if t == nil {
		return
	}
	typ := c14TypeString(t)
	if a.commaOk[x] {
		return // bound by the enclosing assignment
	}
	den := a.denotes(base, w.s.loc, 0)
	_, isIface := t.Underlying().(*types.Interface)
	w.site(x, x.Pos(), c14RefShape(ref)+".("+types.ExprString(x.Type)+")", func(f *c14Facts, l *c14Loc) bool {
		if !den || isIface {
			return false
		}
		switch ref.kind {
		case 1:
			return f.typeAt(ref.idx) == typ
		default:
			if f.all == typ {
				return true
			}
			return ref.v != nil && l.el[ref.v] == typ
		}
	}, "single-result type assertion to "+types.ExprString(x.Type)+" needs the element's dynamic type to be known")
	if den && !isIface {
		w.s = a.learnType(w.s, ref, typ)
	}
}

// literal: composite literal of a wrapper struct: record witness-field writes
func (w *c14Walker) literal(x *ast.CompositeLit) {
	a := w.a
	if a.e.carrierClass(a.info.TypeOf(x)) != 3 {
		return
	}
	for _, el := range x.Elts {
		if kv, ok := el.(*ast.KeyValueExpr); ok {
			if id, ok := kv.Key.(*ast.Ident); ok {
				if fv, ok := a.info.Uses[id].(*types.Var); ok && fv.IsField() {
					w.fieldWrite(fv)
				}
			}
		}
	}
}

func (w *c14Walker) fieldWrite(fv *types.Var) {
	if !w.emit || w.s == nil {
		return
	}
	if w.a.keysAt == nil {
		w.a.keysAt = map[*an.Node][]bool{}
	}
	w.a.keysAt[w.node] = c14Possible(w.s)
}

func (w *c14Walker) call(x *ast.CallExpr) {
	a := w.a
	e := a.e
	if tv, has := a.info.Types[x.Fun]; has && tv.IsType() {
		return
	}
	if id, ok := ast.Unparen(x.Fun).(*ast.Ident); ok {
		if _, isB := a.info.Uses[id].(*types.Builtin); isB {
			return
		}
	}
	name := an.CalleeName(a.info, x)
	// decode of a payload into a call info
	if name == "encoding/json.Unmarshal" && len(x.Args) == 2 {
		if u, ok := ast.Unparen(x.Args[1]).(*ast.UnaryExpr); ok && u.Op == token.AND {
			if v := a.varOf(u.X); v != nil && e.carrierClass(v.Type()) == 2 {
				key, off, base, has := a.slice(x.Args[0], 0)
				if has && key == "Payload" && off == 0 && a.denotes(base, w.s.loc, 0) {
					w.s = w.s.withLoc(func(l *c14Loc) { l.cur[v] = true })
				} else {
					w.s = e.kill(w.s, v)
				}
				return
			}
		}
	}
	// a carrier variable whose address is passed as something that is not a
	// carrier (interface{}, proto.Message, ...) may be overwritten by the callee
	if sig, ok := a.info.TypeOf(x.Fun).(*types.Signature); ok {
		for i, arg := range x.Args {
			u, ok := ast.Unparen(arg).(*ast.UnaryExpr)
			if !ok || u.Op != token.AND {
				continue
			}
			v := a.varOf(u.X)
			if v == nil {
				continue
			}
			if cl := e.carrierClass(v.Type()); cl != 1 && cl != 2 {
				continue
			}
			var pt types.Type
			if i < sig.Params().Len() {
				pt = sig.Params().At(i).Type()
			} else if sig.Variadic() && sig.Params().Len() > 0 {
				pt = sig.Params().At(sig.Params().Len() - 1).Type()
			}
			if pt == nil || e.carrierClass(pt) == 0 {
				w.s = e.kill(w.s, v)
				return
			}
		}
	}
	r := a.resolve(x)
	if r == nil {
		return
	}
	den := a.argsDenote(x, w.s.loc, 0)
	// entry contributions
	if w.emit {
		var all []*an.Func
		if r.disp != nil {
			all = r.disp.all
		} else {
			all = r.static
		}
		for _, c := range all {
			cf := e.fns[c]
			if cf == nil || len(cf.carr) == 0 {
				continue
			}
			var arms []*c14Facts
			if !den || cf.multi || a.multi {
				arms = e.bottom
			} else {
				arms = make([]*c14Facts, e.K)
				for k, f := range w.s.arms {
					if f == nil {
						continue
					}
					if r.disp != nil {
						in := false
						for _, c2 := range a.calleesFor(r, k) {
							if c2 == c {
								in = true
							}
						}
						if !in {
							continue
						}
					}
					arms[k] = f
				}
			}
			a.contrib = append(a.contrib, c14Contrib{callee: c, arms: arms, call: x})
		}
	} else {
		// make sure callees are known to the engine
		if r.disp != nil {
			for _, c := range r.disp.all {
				e.fnOf(c)
			}
		} else {
			for _, c := range r.static {
				if e.relevant[c] {
					e.fnOf(c)
				}
			}
		}
	}
	if !den {
		return
	}
	if !a.hasErrResult(x) {
		w.s = a.applyPost(w.s, x)
	}
}

// assign handles the binding effects of  lhs... = rhs...
func (w *c14Walker) assign(lhs []ast.Expr, rhs []ast.Expr) {
	a := w.a
	e := a.e
	if w.s == nil {
		return
	}
	// a write into the argument list invalidates what was known about it
	for _, l := range lhs {
		x := ast.Unparen(l)
		if _, isId := x.(*ast.Ident); isId {
			continue // (re)definition of a variable, not a write into a slice
		}
		for {
			switch y := x.(type) {
			case *ast.IndexExpr:
				x = ast.Unparen(y.X)
				continue
			case *ast.SliceExpr:
				x = ast.Unparen(y.X)
				continue
			}
			break
		}
		if k, _, _, ok := a.slice(x, 0); ok {
			{
				key := k
				w.s = e.mapArms(w.s, func(f *c14Facts) *c14Facts {
					min := map[string]int{}
					for kk, v := range f.min {
						if kk != key {
							min[kk] = v
						}
					}
					if key == "Args" {
						return e.mk(min, nil, "")
					}
					return e.mk(min, f.elem, f.all)
				})
			}
		}
	}
	// writes through a selector (ctx.F = v): witness bookkeeping
	for _, l := range lhs {
		if fv := an.FieldOf(a.info, l); fv != nil {
			sel := ast.Unparen(l).(*ast.SelectorExpr)
			if e.carrierClass(a.info.TypeOf(sel.X)) == 3 {
				w.fieldWrite(fv)
			}
		}
	}
	type pair struct {
		v   *types.Var
		rhs ast.Expr
		idx int // result index when rhs is a tuple-valued expression, -1 for 1:1
	}
	var pairs []pair
	switch {
	case len(lhs) == len(rhs):
		for i, l := range lhs {
			if v := a.varOf(l); v != nil {
				pairs = append(pairs, pair{v, rhs[i], -1})
			}
		}
	case len(rhs) == 1:
		for i, l := range lhs {
			if v := a.varOf(l); v != nil {
				pairs = append(pairs, pair{v, rhs[0], i})
			}
		}
	}
	for _, pr := range pairs {
		v := pr.v
		// forget what was known about the variable
		if _, has := w.s.loc.ok[v]; has || w.s.loc.errOf[v] != nil || w.s.loc.nn[v] {
			w.s = w.s.withLoc(func(l *c14Loc) { delete(l.ok, v); delete(l.errOf, v); delete(l.nn, v) })
		}
		for ov, b := range w.s.loc.ok {
			if b.ref.v == v {
				ovc := ov
				w.s = w.s.withLoc(func(l *c14Loc) { delete(l.ok, ovc) })
			}
		}
		r := ast.Unparen(pr.rhs)
		// comma-ok assertion:  x, ok := E.(T)
		if ta, isTA := r.(*ast.TypeAssertExpr); isTA && pr.idx == 1 && ta.Type != nil {
			if ref, base, ok := a.elem(ta.X, 0); ok && a.denotes(base, w.s.loc, 0) {
				if t := a.info.TypeOf(ta.Type); t != nil {
					if _, isIface := t.Underlying().(*types.Interface); !isIface {
						b := c14Bind{ref: ref, typ: c14TypeString(t)}
						w.s = w.s.withLoc(func(l *c14Loc) { l.ok[v] = b })
					}
				}
			}
			continue
		}
		// error result of a summarised call
		if call, isCall := r.(*ast.CallExpr); isCall && a.hasErrResult(call) {
			last := pr.idx == len(lhs)-1 || (pr.idx == -1)
			if types.Identical(v.Type(), types.Universe.Lookup("error").Type()) && last {
				if a.resolve(call) != nil && a.argsDenote(call, w.s.loc, 0) {
					w.s = w.s.withLoc(func(l *c14Loc) { l.errOf[v] = call })
				}
				continue
			}
		}
		// carrier variables
		cl := e.carrierClass(v.Type())
		if cl == 0 {
			continue
		}
		if a.denotes(pr.rhs, w.s.loc, 0) {
			w.s = w.s.withLoc(func(l *c14Loc) { l.cur[v] = true })
			continue
		}
		if a.neutral(pr.rhs) {
			if w.s.loc.cur[v] {
				w.s = w.s.withLoc(func(l *c14Loc) { delete(l.cur, v) })
			}
			continue
		}
		w.s = e.kill(w.s, v)
	}
}

// neutral: a value that is not a transaction of its own (nil, an empty wrapper).
func (a *c14Fn) neutral(x ast.Expr) bool {
	x = ast.Unparen(x)
	if tv, ok := a.info.Types[x]; ok && tv.IsNil() {
		return true
	}
	if u, ok := x.(*ast.UnaryExpr); ok && u.Op == token.AND {
		x = ast.Unparen(u.X)
	}
	if cl, ok := x.(*ast.CompositeLit); ok {
		t := a.info.TypeOf(cl)
		if a.e.carrierClass(t) == 3 || c14Named(t) == a.e.tTxWrap {
			for _, el := range cl.Elts {
				kv, ok := el.(*ast.KeyValueExpr)
				if !ok {
					return false
				}
				if a.e.carrierClass(a.info.TypeOf(kv.Value)) != 0 {
					return false
				}
			}
			return true
		}
	}
	if c, ok := x.(*ast.CallExpr); ok && an.IsBuiltin(a.info, c, "new") && len(c.Args) == 1 {
		return a.e.carrierClass(a.info.TypeOf(c.Args[0])) == 3
	}
	return false
}

// stmt evaluates one KStmt vertex.
func (w *c14Walker) stmt(n ast.Node) {
	a := w.a
	switch s := n.(type) {
	case *ast.AssignStmt:
		for _, r := range s.Rhs {
			w.expr(r)
		}
		for _, l := range s.Lhs {
			if _, isId := ast.Unparen(l).(*ast.Ident); !isId {
				w.expr(l)
			}
		}
		if s.Tok == token.ASSIGN || s.Tok == token.DEFINE {
			w.assign(s.Lhs, s.Rhs)
		}
	case *ast.ValueSpec:
		for _, r := range s.Values {
			w.expr(r)
		}
		if len(s.Values) > 0 {
			lhs := make([]ast.Expr, len(s.Names))
			for i, nm := range s.Names {
				lhs[i] = nm
			}
			w.assign(lhs, s.Values)
		}
	case *ast.ExprStmt:
		w.expr(s.X)
	case *ast.IncDecStmt:
		w.expr(s.X)
	case *ast.SendStmt:
		w.expr(s.Chan)
		w.expr(s.Value)
	case *ast.GoStmt:
		w.expr(s.Call)
	case *ast.DeferStmt:
		w.expr(s.Call)
	case *ast.ReturnStmt:
		for _, r := range s.Results {
			w.expr(r)
		}
	case ast.Expr:
		w.expr(s)
		if r := a.rangeByX[s]; r != nil && w.s != nil {
			if k, _, _, ok := a.slice(r.X, 0); ok && k == "Args" {
				w.s = w.s.withLoc(func(l *c14Loc) { l.vis[r] = c14Top })
			}
		}
	default:
		// other vertex kinds (labels, empty statements, declarations without values)
	}
}

// ---------------------------------------------------------------------------
// edges

func (a *c14Fn) rangeOfEdge(n *an.Node) *ast.RangeStmt {
	if n.Cond == nil || n.Cond.Kind != an.KHead || n.Cond.Block == nil || n.Cond.Block.Kind != cfg.KindRangeLoop {
		return nil
	}
	r, _ := n.Cond.Block.Stmt.(*ast.RangeStmt)
	return r
}

func (a *c14Fn) edge(n *an.Node, s *c14State) *c14State {
	if s == nil {
		return nil
	}
	e := a.e
	if r := a.rangeOfEdge(n); r != nil {
		key, off, base, isArgs := a.slice(r.X, 0)
		isArgs = isArgs && key == "Args"
		if n.Kind == an.KTrue {
			// next element
			for _, kv := range []ast.Expr{r.Key, r.Value} {
				if v := a.varOf(kv); v != nil {
					if cl := e.carrierClass(v.Type()); cl != 0 {
						s = e.kill(s, v)
					}
				}
			}
			if v := a.varOf(r.Value); v != nil {
				s = s.withLoc(func(l *c14Loc) {
					for ov, b := range l.ok {
						if b.ref.v == v {
							delete(l.ok, ov)
						}
					}
					if isArgs {
						l.el[v] = ""
					}
				})
			}
			return s
		}
		// loop finished: every element was visited
		if t, has := s.loc.vis[r]; has {
			if isArgs && off == 0 && t != "" && t != c14Top && a.denotes(base, s.loc, 0) {
				s = e.mapArms(s, func(f *c14Facts) *c14Facts { return e.withAll(f, t) })
			}
			s = s.withLoc(func(l *c14Loc) { delete(l.vis, r) })
		}
		return s
	}
	if n.Cond == nil || n.Cond.Kind != an.KStmt {
		return s
	}
	cond, ok := n.Cond.Ast.(ast.Expr)
	if !ok {
		return s
	}
	val := n.Kind == an.KTrue
	if sw := a.caseOf[cond]; sw != nil {
		// case value of  switch tag { case cond: }
		dim, base, isDisc := a.disc(sw.Tag, 0)
		if !isDisc {
			return s
		}
		cv, isC := c14ConstVal(a.info, cond)
		if !isC {
			return s
		}
		if !a.denotes(base, s.loc, 0) {
			return s
		}
		return a.restrictDisc(s, dim, cv, val)
	}
	if tv, has := a.info.Types[cond]; !has || tv.Type == nil {
		return s
	} else if b, isB := tv.Type.Underlying().(*types.Basic); !isB || b.Info()&types.IsBoolean == 0 {
		return s
	}
	return a.refine(s, cond, val)
}

// foldIter: the end of one iteration of a range loop over Args: the element
// just processed joins the visited ones.
func (a *c14Fn) foldIter(s *c14State, r *ast.RangeStmt) *c14State {
	if s == nil {
		return nil
	}
	v := a.varOf(r.Value)
	if v == nil {
		// no value variable: the loop proves nothing about the elements
		if t, has := s.loc.vis[r]; has && t != "" {
			return s.withLoc(func(l *c14Loc) { l.vis[r] = "" })
		}
		return s
	}
	t, inside := s.loc.el[v]
	if !inside {
		return s
	}
	return s.withLoc(func(l *c14Loc) {
		if cur, has := l.vis[r]; has {
			l.vis[r] = c14MeetType(cur, t)
		}
		delete(l.el, v)
	})
}

// ---------------------------------------------------------------------------
// intra-procedural fixpoint

func (a *c14Fn) entryState() *c14State {
	l := c14NewLoc()
	if !a.multi {
		for _, v := range a.carr {
			l.cur[v] = true
		}
	}
	arms := a.entry
	switch {
	case a.root == 2:
		arms = make([]*c14Facts, a.e.K) // dead code: nothing reaches it
	case a.root == 1 || a.multi || len(a.carr) == 0:
		arms = a.e.bottom
	}
	if arms == nil {
		arms = make([]*c14Facts, a.e.K)
	}
	return &c14State{arms: arms, loc: l}
}

func (a *c14Fn) inOf(n *an.Node) *c14State {
	var s *c14State
	if n == a.g.Entry {
		s = a.entryState()
	}
	var rng *ast.RangeStmt
	if n.Kind == an.KHead && n.Block != nil && n.Block.Kind == cfg.KindRangeLoop {
		rng, _ = n.Block.Stmt.(*ast.RangeStmt)
	}
	for _, p := range n.Preds {
		o := a.out[p.ID]
		if o == nil {
			continue
		}
		if rng != nil {
			o = a.foldIter(o, rng)
		}
		s = a.e.meetState(s, o)
	}
	return s
}

func (a *c14Fn) transfer(n *an.Node, in *c14State, emit bool) *c14State {
	if in == nil {
		return nil
	}
	switch n.Kind {
	case an.KTrue, an.KFalse:
		return a.edge(n, in)
	case an.KStmt:
		w := &c14Walker{a: a, s: in, emit: emit, node: n}
		w.stmt(n.Ast)
		return w.s
	}
	return in
}

// analyse runs the function to its fixpoint with the current entry facts and
// callee summaries; the final pass emits sites, call contributions and exits.
func (a *c14Fn) analyse() (post []*c14Facts, retSame bool) {
	g := a.g
	a.in = make([]*c14State, len(g.Nodes))
	a.out = make([]*c14State, len(g.Nodes))
	work := []*an.Node{g.Entry}
	inWork := map[*an.Node]bool{g.Entry: true}
	steps := 0
	for len(work) > 0 {
		n := work[0]
		work = work[1:]
		inWork[n] = false
		steps++
		if steps > 200000 {
			break
		}
		in := a.inOf(n)
		out := a.transfer(n, in, false)
		a.in[n.ID] = in
		if c14SameState(out, a.out[n.ID]) && (a.out[n.ID] != nil || out == nil) {
			continue
		}
		a.out[n.ID] = out
		for _, s := range n.Succs {
			if !inWork[s] {
				inWork[s] = true
				work = append(work, s)
			}
		}
	}
	if tr := os.Getenv("C14_TRACE"); tr != "" && strings.Contains(a.f.Name(), tr) {
		for _, n := range g.Nodes {
			if n.Kind != an.KStmt || a.in[n.ID] == nil {
				continue
			}
			groups := map[*c14Facts][]bool{}
			for k, f := range a.in[n.ID].arms {
				if f != nil {
					if groups[f] == nil {
						groups[f] = make([]bool, a.e.K)
					}
					groups[f][k] = true
				}
			}
			fmt.Fprintf(os.Stderr, "TRACE %s %s loc=%s\n", a.f.Name(), a.e.p.Pos(n.Ast.Pos()), a.in[n.ID].loc.id())
			for f, m := range groups {
				fmt.Fprintf(os.Stderr, "      [%s] %s\n", f.key, a.e.describe(m))
			}
		}
	}
	// emit pass
	a.contrib = nil
	a.sites = nil
	a.siteAt = map[ast.Node]*c14Site{}
	a.keysAt = map[*an.Node][]bool{}
	retSame = true
	post = make([]*c14Facts, a.e.K)
	for _, n := range g.Nodes {
		in := a.in[n.ID]
		if in == nil {
			continue
		}
		if n.Kind != an.KStmt {
			continue
		}
		w := &c14Walker{a: a, s: in, emit: true, node: n}
		w.stmt(n.Ast)
		rs, isRet := n.Ast.(*ast.ReturnStmt)
		if !isRet {
			continue
		}
		s := w.s
		if s == nil {
			continue
		}
		// carrier-typed results must denote the function's own transaction
		for _, r := range rs.Results {
			if a.e.carrierClass(a.info.TypeOf(r)) != 0 {
				if tv, ok := a.info.Types[r]; ok && tv.IsNil() {
					continue
				}
				if !a.denotes(r, s.loc, 0) {
					retSame = false
				}
			}
		}
		if len(rs.Results) == 0 && a.f.Type.Results != nil && len(a.f.Type.Results.List) > 0 {
			retSame = false // named results: not followed
		}
		// does this return leave with a nil error?
		if a.errIdx >= 0 && len(rs.Results) > 0 {
			var ex ast.Expr
			if len(rs.Results) == 1 && a.errIdx > 0 {
				ex = rs.Results[0] // return f()  with a tuple-valued call
			} else if a.errIdx < len(rs.Results) {
				ex = rs.Results[a.errIdx]
			}
			ex = ast.Unparen(ex)
			if ex != nil {
				if an.NonNilErrorExpr(a.info, ex) {
					continue
				}
				if v := a.varOf(ex); v != nil {
					if s.loc.nn[v] {
						continue
					}
					if call := s.loc.errOf[v]; call != nil {
						s = a.applyPost(s, call)
					}
				} else if call, isCall := ex.(*ast.CallExpr); isCall && a.hasErrResult(call) {
					if a.argsDenote(call, s.loc, 0) {
						s = a.applyPost(s, call)
					}
				}
			}
		}
		for k, f := range s.arms {
			post[k] = a.e.meet(post[k], f)
		}
	}
	// falling off the end of a function without results
	if a.f.Type.Results == nil || len(a.f.Type.Results.List) == 0 {
		for _, p := range g.Exit.Preds {
			if _, isRet := p.Ast.(*ast.ReturnStmt); isRet && p.Kind == an.KStmt {
				continue
			}
			if o := a.out[p.ID]; o != nil {
				for k, f := range o.arms {
					post[k] = a.e.meet(post[k], f)
				}
			}
		}
	}
	return post, retSame
}
