// Package props holds one file per property: the rule instances (slots filled
// from aergoio/aergo) handed to the engines of package an.
package props

import "verif/checker/internal/rep"

// Prop is a property implementation.
type Prop struct {
	ID  string
	Run func(c *rep.Ctx)
}

var registry = map[string]*Prop{}

func register(id string, run func(c *rep.Ctx)) { registry[id] = &Prop{ID: id, Run: run} }

// Get returns the implementation of a property or nil.
func Get(id string) *Prop { return registry[id] }

// IDs lists the implemented properties.
func IDs() []string {
	var out []string
	for k := range registry {
		out = append(out, k)
	}
	return out
}
