// Package props holds one file per property: the rule instances (slots filled
// from aergoio/aergo) handed to the engines of package an.
package props

import "verif/checker/internal/rep"

// Prop is a property implementation.
type Prop struct {
	ID  string
	Run func(c *rep.Ctx)
}

var registry = map[string]*Prop{}

func register(id string, run func(c *rep.Ctx)) { registry[id] = &Prop{ID: id, Run: run} }

var extras = map[string][]func(c *rep.Ctx){}

// extend adds rules to a property implemented in another file (used for the
// rules added after the seeded-change rounds).
func extend(id string, run func(c *rep.Ctx)) { extras[id] = append(extras[id], run) }

// Get returns the implementation of a property or nil.
func Get(id string) *Prop {
	p := registry[id]
	if p == nil {
		return nil
	}
	base := p.Run
	return &Prop{ID: id, Run: func(c *rep.Ctx) {
		base(c)
		for _, x := range extras[id] {
			x(c)
		}
	}}
}

// IDs lists the implemented properties.
func IDs() []string {
	var out []string
	for k := range registry {
		out = append(out, k)
	}
	return out
}
