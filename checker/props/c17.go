package props

import (
	"go/ast"
	"go/token"
	"go/types"

	"verif/checker/internal/an"
	"verif/checker/internal/rep"
)

// C17 — block sync delivers a gap-free ascending chain from a true common
// ancestor.
//
// Decided (shape of the code, not its run-time behaviour):
//   - c17.go        the block processor: single submission point of
//                   AddBlock{IsSync:true}, one block in flight, connect-queue
//                   ordering gates, validation of chunk / add-block responses
//                   before the queue or the cursor moves, the chain service's
//                   answer carries the error of addBlock;
//   - c17_seq.go    the session sequence: verifySeq/handleMessage/Receive table
//                   agreement, every Seq-carrying message is stamped, fresh
//                   sequence per session;
//   - c17_finder.go common ancestor: light scan then full scan, the ancestor is
//                   a verified match / a locally known block / on the
//                   responder's main chain, hash sets continue the previous one;
//   - c17_stop.go   failure: a failed step makes its helper fail (err-propagates),
//                   every failed step of a sync goroutine or message handler
//                   leads to stopSyncer / Reset, Reset re-arms the syncer.

func init() { register("C17", runC17) }

const (
	c17BP  = "syncer.(*BlockProcessor)."
	c17Msg = "types/message"
)

// c17ConnQueueWriters: who may assign BlockProcessor.connQueue.
var c17ConnQueueWriters = map[string]string{
	"syncer.(*BlockProcessor).pushToConnQueue":  "sorted insert (rule push-sorted)",
	"syncer.(*BlockProcessor).popFromConnQueue": "pop of the head (rule pop-guard)",
	"syncer.newBlockFetcher":                    "allocates the empty queue before the fetcher goroutine starts",
}

// c17AddBlockImpl: the block-connecting entry of the chain service as the
// actor sees it (ChainManager embeds the IChainHandler interface, whose only
// implementation is ChainService).
var c17AddBlockImpl = map[string]bool{"chain.(*ChainService).addBlock": true, "chain.(IChainHandler).addBlock": true}

// c17AddBlockRspExempt: producers of message.AddBlockRsp that are not the chain service.
var c17AddBlockRspExempt = map[string]string{
	"syncer.(*StubSyncer).AddBlock": "unit-test stub of the chain service compiled into the package (no production caller)",
}

type c17env struct {
	c    *rep.Ctx
	p    *an.Prog
	bp   map[string]*types.Var // fields of syncer.BlockProcessor
	task map[string]*types.Var // fields of syncer.ConnectTask
}

func runC17(c *rep.Ctx) {
	c.Explain = "Structural decision of the block-sync rules: the only producer of message.AddBlock{IsSync:true} is BlockProcessor.connectBlock and it is fed only by getNextBlockToConnect; a new current block is chosen only when none is in flight; the connect queue is popped only when its head continues the previous block (firstNo == prev+1) and is filled by a sorted insert; a chunk reaches the queue only after the hash-linkage validator and the task match, and the cursor advances only after the add-block answer was compared (number and hash) with the current block; verifySeq/handleMessage/Receive agree on the set of Seq-carrying messages and every such message is stamped; the finder runs the light scan before the full scan and only reports verified matches; every tested error of a sync goroutine or handler leads to stopSyncer/Reset. All of this is decided on the control-flow graph and the type-checked AST: it is the shape of the code that is decided, not the behaviour of a running node."
	c.NotDecided = []string{
		"termination and absence of deadlock of the fetch scheduler (queues, channels, timers)",
		"correctness of the binary search beyond 'only verified matches are reported' (that the highest shared block is found)",
		"behaviour of the remote peer and of the p2p receivers (C18), recomputation of block hashes (F4)",
		"errors of steps outside package syncer (actor requests, chain accessor) inside helpers other than the rule instances listed; that the error VALUE reported is the original one",
		"that the light-scan answer of the remote peer is one of the anchors that were sent (the code does not check it; see the final report)",
		"cross-chunk hash linkage (first block of a chunk against prevBlock's hash) — left to ChainService.addBlock",
	}
	c.Assume = []string{
		"message dispatch is by the type switches analysed here (no reflection-based dispatch)",
		"a function literal bound to a local variable is only invoked through that variable",
		"BlockProcessor state is touched only from the BlockFetcher goroutine (single-threaded actor style); no lockset is computed",
	}
	p := c.Prog
	e := &c17env{c: c, p: p, bp: map[string]*types.Var{}, task: map[string]*types.Var{}}
	for _, n := range []string{"curBlock", "prevBlock", "connQueue", "curConnRequest", "targetBlockNo"} {
		e.bp[n] = p.LookupField("syncer", "BlockProcessor", n)
		if e.bp[n] == nil {
			c.Undecide("anchor", "syncer.BlockProcessor."+n, "field not found")
			return
		}
	}
	for _, n := range []string{"firstNo", "cur", "Blocks"} {
		e.task[n] = p.LookupField("syncer", "ConnectTask", n)
		if e.task[n] == nil {
			c.Undecide("anchor", "syncer.ConnectTask."+n, "field not found")
			return
		}
	}
	e.submit()
	e.inFlight()
	e.popGuard()
	e.pushSorted()
	e.queueGate()
	e.linkage()
	e.addMatch()
	e.chainAnswer()
	c17Seq(c)
	c17Finder(c)
	c17Stop(c)
}

// ---------------------------------------------------------------------------
// sync-submit / submit-arg: the single submission point

func (e *c17env) submit() {
	c, p := e.c, e.p
	isSync := p.LookupField(c17Msg, "AddBlock", "IsSync")
	blockFld := p.LookupField(c17Msg, "AddBlock", "Block")
	if isSync == nil || blockFld == nil {
		c.Undecide("anchor", "message.AddBlock.{IsSync,Block}", "field not found")
		return
	}
	connect := c.Fn(c17BP + "connectBlock")
	if connect == nil {
		return
	}
	nSync := 0
	for _, pk := range p.ModulePkgs() {
		info := pk.TypesInfo
		if info == nil {
			continue
		}
		for _, file := range pk.Syntax {
			ast.Inspect(file, func(n ast.Node) bool {
				lit, ok := n.(*ast.CompositeLit)
				if !ok {
					return true
				}
				tv, ok := info.Types[lit]
				if !ok || c17TypeKey(tv.Type) != c17Msg+".AddBlock" {
					return true
				}
				encl := p.EnclosingFunc(pk, lit.Pos())
				var syncVal, blockVal ast.Expr
				for i, el := range lit.Elts {
					if kv, ok := el.(*ast.KeyValueExpr); ok {
						if id, ok := kv.Key.(*ast.Ident); ok {
							switch info.Uses[id] {
							case isSync:
								syncVal = kv.Value
							case blockFld:
								blockVal = kv.Value
							}
						}
					} else { // positional literal
						st := tv.Type.Underlying().(*types.Struct)
						if i < st.NumFields() {
							switch st.Field(i) {
							case isSync:
								syncVal = el
							case blockFld:
								blockVal = el
							}
						}
					}
				}
				sync := syncVal != nil && c17Const(info, syncVal) != "false"
				if !sync {
					c.CheckTrivial("sync-submit", c17Top(encl)+"|not-sync", lit.Pos(), true, "AddBlock literal without IsSync (ordinary block notice)")
					return true
				}
				nSync++
				ok = encl != nil && encl.TopDecl() == connect
				c.Check("sync-submit", c17Top(encl), lit.Pos(), ok, "message.AddBlock{IsSync:true} may be produced only by BlockProcessor.connectBlock (the ordered submission point)")
				if ok {
					// the submitted block is the parameter of connectBlock
					var par types.Object
					if connect.Type.Params != nil && len(connect.Type.Params.List) > 0 && len(connect.Type.Params.List[0].Names) > 0 {
						par = info.Defs[connect.Type.Params.List[0].Names[0]]
					}
					c.Check("sync-submit", c17Top(encl)+"|Block", lit.Pos(), par != nil && blockVal != nil && an.ObjOf(info, blockVal) == par, "the block submitted by connectBlock is its parameter")
				}
				return true
			})
		}
	}
	for _, w := range p.FieldWrites(map[*types.Var]bool{isSync: true}) {
		if w.How == "literal" {
			continue
		}
		c.Check("sync-submit", c17Top(w.Fn)+"|"+w.How, w.Pos, false, "AddBlock.IsSync is written outside a composite literal: the submission point is no longer syntactically unique")
	}
	if nSync == 0 {
		c.Undecide("sync-submit", "message.AddBlock{IsSync:true}", "no synchronising AddBlock producer found: anchor lost")
	}
	c.Floor("sync-submit", 4)

	// every caller hands over the result of getNextBlockToConnect
	next := c.Fn(c17BP + "getNextBlockToConnect")
	if next == nil {
		return
	}
	names := map[string]bool{connect.Name(): true}
	for _, r := range p.FuncRefs(names) {
		c.Check("submit-arg", c17Top(r.Fn)+"|method-value", token.NoPos, false, "connectBlock is used as a function value: its callers can no longer be enumerated")
	}
	for _, cs := range p.CallSitesOf(names) {
		if cs.Fn == nil || len(cs.Call.Args) != 1 {
			c.Check("submit-arg", c17Top(cs.Fn), cs.Call.Pos(), false, "unexpected call shape of connectBlock")
			continue
		}
		g := cs.Fn.Graph()
		info := cs.Fn.Info()
		top := cs.Fn.TopDecl()
		isNext := c17CallPred(info, next.Name())
		derives := c17Derives(top, cs.Call.Args[0], isNext, 3)
		node := g.NodeContaining(cs.Call.Pos())
		gates := an.Set{}
		for _, s := range g.CallsTo(next.Name()) {
			gates[s.Node] = true
		}
		ok := derives && node != nil && len(gates) > 0 && g.Dominated(node, gates)
		c.Check("submit-arg", c17Top(cs.Fn), cs.Call.Pos(), ok, "connectBlock is called only with the value returned by getNextBlockToConnect (the next block in order), obtained on every path before the call")
	}
	c.Floor("submit-arg", 2)
}

// ---------------------------------------------------------------------------
// cur-guard / next-returns-cur / cursor: one block in flight, no duplicate

func (e *c17env) curNilAtom(info *types.Info) an.Atomizer {
	return c17NilCmpAtom(info, "CURNIL", c17FieldPred(info, e.bp["curBlock"]))
}

func (e *c17env) inFlight() {
	c, p := e.c, e.p
	next := c.Fn(c17BP + "getNextBlockToConnect")
	addRsp := c.Fn(c17BP + "AddBlockResponse")
	if next == nil || addRsp == nil {
		return
	}
	cur := e.bp["curBlock"]
	var setNodes []*an.Node // non-nil writes inside getNextBlockToConnect
	for _, w := range p.FieldWrites(map[*types.Var]bool{cur: true}) {
		fn := c17Top(w.Fn)
		if w.Fn == nil {
			c.Check("cur-guard", fn, w.Pos, false, "BlockProcessor.curBlock written at package level")
			continue
		}
		info := w.Fn.Info()
		g := w.Fn.Graph()
		n := g.NodeContaining(w.Pos)
		var rhs ast.Expr
		if w.How == "literal" {
			// find the key/value
			ast.Inspect(w.Fn.Body, func(x ast.Node) bool {
				if kv, ok := x.(*ast.KeyValueExpr); ok && kv.Pos() == w.Pos {
					rhs = kv.Value
				}
				return true
			})
		} else if n != nil {
			rhs, _ = c17FieldAssign(info, n, cur)
		}
		if rhs == nil || w.How == "addr" {
			c.Check("cur-guard", fn+"|"+w.How, w.Pos, false, "BlockProcessor.curBlock is written in a form the rule does not understand ("+w.How+")")
			continue
		}
		if c17IsNil(info, rhs) {
			ok := w.How == "literal" || w.Fn.TopDecl() == addRsp
			c.Check("cur-guard", fn+"|clear", w.Pos, ok, "the in-flight marker curBlock is cleared only by AddBlockResponse (after the answer was matched, rule add-match)")
			continue
		}
		if w.Fn != next {
			c.Check("cur-guard", fn+"|set", w.Pos, false, "a new current block may be chosen only by getNextBlockToConnect")
			continue
		}
		edges := g.EdgesImplying(e.curNilAtom(info), map[string]bool{"CURNIL": true})
		ok := n != nil && len(edges) > 0 && g.Dominated(n, edges)
		c.Check("cur-guard", fn+"|set", w.Pos, ok, "a new current block is chosen only on paths on which `curBlock == nil` is known (no block is in flight): at most one AddBlock is outstanding, so answers arrive in submission order")
		if n != nil {
			setNodes = append(setNodes, n)
		}
	}
	c.Floor("cur-guard", 2)

	// the block returned (and then submitted) is the one recorded as curBlock
	g := next.Graph()
	info := next.Info()
	nRet := 0
	for _, r := range g.Returns() {
		rs := r.Ast.(*ast.ReturnStmt)
		if len(rs.Results) != 1 || c17IsNil(info, rs.Results[0]) {
			continue
		}
		nRet++
		res := rs.Results[0]
		ok := false
		if an.FieldOf(info, res) == cur {
			for _, sn := range setNodes {
				if g.Dominated(r, an.SetOf(sn)) {
					ok = true
				}
			}
		} else if obj := an.ObjOf(info, res); obj != nil {
			for _, sn := range setNodes {
				rhs, _ := c17FieldAssign(info, sn, cur)
				if rhs == nil || an.ObjOf(info, rhs) != obj || !g.Dominated(r, an.SetOf(sn)) {
					continue
				}
				clean := true
				for m := range g.Between(sn, r) {
					if m.Kind == an.KStmt && an.Assigns(info, m.Ast, obj) {
						clean = false
					}
				}
				if clean {
					ok = true
				}
			}
		}
		c.Check("next-returns-cur", next.Name(), r.Ast.Pos(), ok, "the block getNextBlockToConnect returns for submission is the very value it recorded in curBlock (AddBlockResponse compares the answer against curBlock)")
	}
	if nRet == 0 {
		c.Undecide("next-returns-cur", next.Name(), "no non-nil return found")
	}

	// the cursor inside the current task: starts at 0, advances by exactly one per call
	curIdx := e.task["cur"]
	nInc := 0
	for _, w := range p.FieldWrites(map[*types.Var]bool{curIdx: true}) {
		fn := c17Top(w.Fn)
		if w.Fn == nil {
			continue
		}
		wg := w.Fn.Graph()
		winfo := w.Fn.Info()
		n := wg.NodeContaining(w.Pos)
		switch w.How {
		case "literal":
			var val ast.Expr
			ast.Inspect(w.Fn.Body, func(x ast.Node) bool {
				if kv, ok := x.(*ast.KeyValueExpr); ok && kv.Pos() == w.Pos {
					val = kv.Value
				}
				return true
			})
			c.Check("cursor", fn+"|init", w.Pos, c17Const(winfo, val) == "0", "a new connect task starts at its first block (cur: 0)")
		case "incdec", "op-assign", "assign":
			// a write that steps the cursor relative to itself (`cur++`, `cur += k`,
			// `cur = cur + k`): the step, whatever its spelling, must be exactly +1
			step, self := c17SelfStep(winfo, n, curIdx)
			if !self {
				c.Check("cursor", fn+"|"+w.How, w.Pos, false, "ConnectTask.cur is written in an unexpected way ("+w.How+")")
				break
			}
			edges := wg.EdgesImplying(e.curNilAtom(winfo), map[string]bool{"CURNIL": true})
			ok := w.Fn == next && step == 1 && !wg.InLoop(n) && wg.Dominated(n, edges)
			nInc++
			c.Check("cursor", fn+"|advance", w.Pos, ok, "the task cursor advances by exactly one (`cur++` / `cur += 1`, not in a loop) and only when no block is in flight: no block is skipped or submitted twice")
		default:
			c.Check("cursor", fn+"|"+w.How, w.Pos, false, "ConnectTask.cur is written in an unexpected way ("+w.How+")")
		}
	}
	if nInc == 0 {
		c.Check("cursor", next.Name()+"|advance", next.Pos(), false, "getNextBlockToConnect never advances the task cursor: the same block would be submitted again")
	}
	// the block chosen is Blocks[cur]
	blocks := e.task["Blocks"]
	nIdx := 0
	an.InspectShallow(next.Body, func(x ast.Node) bool {
		ix, ok := x.(*ast.IndexExpr)
		if !ok || an.FieldOf(info, ix.X) != blocks {
			return true
		}
		nIdx++
		c.Check("cursor", next.Name()+"|index", ix.Pos(), c17Derives(next, ix.Index, c17FieldPred(info, curIdx), 3), "the block chosen from the current task is Blocks[cur]")
		return true
	})
	if nIdx == 0 {
		c.Undecide("cursor", next.Name()+"|index", "no indexing of ConnectTask.Blocks found")
	}
	c.Floor("cursor", 3)
}

// c17SelfStep: is the statement at n a step of `field` relative to its own
// value, and by how much?  `x.f++` (+1), `x.f--` (-1), `x.f += k` / `x.f -= k`
// with constant k, `x.f = x.f + k` in any linear spelling (linOf).  self is
// false for a write that does not read the field back (a plain assignment);
// step is 0 when the write is relative but its amount is not a constant.
func c17SelfStep(info *types.Info, n *an.Node, field *types.Var) (step int64, self bool) {
	if n == nil {
		return 0, false
	}
	constOf := func(lf linForm, ok bool) int64 {
		if !ok || len(lf) != 1 {
			return 0
		}
		return lf["1"]
	}
	switch s := n.Ast.(type) {
	case *ast.IncDecStmt:
		if an.FieldOf(info, s.X) != field {
			return 0, false
		}
		if s.Tok == token.INC {
			return 1, true
		}
		return -1, true
	case *ast.AssignStmt:
		if len(s.Lhs) != 1 || len(s.Rhs) != 1 || an.FieldOf(info, s.Lhs[0]) != field {
			return 0, false
		}
		switch s.Tok {
		case token.ADD_ASSIGN:
			return constOf(linOf(info, s.Rhs[0])), true
		case token.SUB_ASSIGN:
			return -constOf(linOf(info, s.Rhs[0])), true
		case token.ASSIGN:
			// the base must be a plain selector chain (no call, no index) so that
			// equal spelling means equal location
			for b := ast.Unparen(s.Lhs[0]); ; {
				if sel, ok := b.(*ast.SelectorExpr); ok {
					b = ast.Unparen(sel.X)
					continue
				}
				if _, ok := b.(*ast.Ident); !ok {
					return 0, false
				}
				break
			}
			l, ok1 := linOf(info, s.Lhs[0])
			r, ok2 := linOf(info, s.Rhs[0])
			if !ok1 || !ok2 || len(l) != 1 {
				return 0, false
			}
			for k := range l {
				if r[k] != 1 {
					return 0, false
				}
			}
			return constOf(r.add(l, -1), true), true
		default:
			return 0, true // `*=` and friends: relative, never a step of one
		}
	}
	return 0, false
}

// ---------------------------------------------------------------------------
// pop-guard: the head of the connect queue is taken only if it continues prevBlock

func (e *c17env) contAtoms(f *an.Func) an.Atomizer {
	info := f.Info()
	p := e.p
	prev := e.bp["prevBlock"]
	firstNo := e.task["firstNo"]
	var isPrevNo func(x ast.Expr) bool
	isPrevNo = func(x ast.Expr) bool {
		// <prevBlock number> + 1, possibly held in a local assigned only that
		x = ast.Unparen(x)
		if id, ok := x.(*ast.Ident); ok {
			if v, ok := info.Uses[id].(*types.Var); ok && !v.IsField() {
				srcs := c17Sources(f, v)
				for _, s := range srcs {
					if _, again := ast.Unparen(s).(*ast.Ident); again || !isPrevNo(s) {
						return false
					}
				}
				return len(srcs) > 0
			}
			return false
		}
		be, ok := x.(*ast.BinaryExpr)
		if !ok || be.Op != token.ADD {
			return false
		}
		for _, pr := range [][2]ast.Expr{{be.X, be.Y}, {be.Y, be.X}} {
			if c17Const(info, pr[1]) == "1" && c17Derives(f, pr[0], c17FieldPred(info, prev), 3) && c17Derives(f, pr[0], c17BlockNoPred(p, info), 3) {
				return true
			}
		}
		return false
	}
	isFirst := func(x ast.Expr) bool { return an.FieldOf(info, x) == firstNo }
	return c17Atoms(
		c17NilCmpAtom(info, "PREVNIL", c17FieldPred(info, prev)),
		c17EqAtom(info, "CONT", false, isFirst, isPrevNo),
	)
}

func (e *c17env) popGuard() {
	c, p := e.c, e.p
	pop := c.Fn(c17BP + "popFromConnQueue")
	if pop == nil {
		return
	}
	q := e.bp["connQueue"]
	g := pop.Graph()
	info := pop.Info()
	edges := g.EdgesEntailing(e.contAtoms(pop), nil, func(env map[string]bool) bool { return env["PREVNIL"] || env["CONT"] })
	var popNode *an.Node
	for _, w := range p.FieldWrites(map[*types.Var]bool{q: true}) {
		fn := c17Top(w.Fn)
		why, allowed := c17ConnQueueWriters[fn]
		if !allowed {
			c.Check("queue-writers", fn, w.Pos, false, "BlockProcessor.connQueue is written outside the sorted insert and the guarded pop")
			continue
		}
		c.CheckTrivial("queue-writers", fn, w.Pos, true, why)
		if w.Fn == pop {
			popNode = g.NodeContaining(w.Pos)
			ok := popNode != nil && len(edges) > 0 && g.Dominated(popNode, edges)
			c.Check("pop-guard", pop.Name()+"|pop", w.Pos, ok, "the queue head is removed only on paths on which `head.firstNo == prevBlock.BlockNo()+1` is known (or there is no previous block): the next chunk continues the last connected block, no gap and no repeat")
		}
	}
	c.Floor("queue-writers", 3)
	if popNode == nil {
		c.Undecide("pop-guard", pop.Name(), "no write of connQueue found in popFromConnQueue")
		return
	}
	// the task handed out is guarded too, and it is the head that was tested
	qAt := c17Anywhere(c17FieldPred(info, q))
	head := func(x ast.Expr, at *an.Node) bool {
		ix, ok := x.(*ast.IndexExpr)
		return ok && c17Const(info, ix.Index) == "0" && c17DerivesAt(g, at, ix.X, qAt, 3)
	}
	nRet := 0
	for _, r := range g.Returns() {
		rs := r.Ast.(*ast.ReturnStmt)
		if len(rs.Results) != 1 || c17IsNil(info, rs.Results[0]) {
			continue
		}
		nRet++
		ok := len(edges) > 0 && g.Dominated(r, edges)
		c.Check("pop-guard", pop.Name()+"|return", r.Ast.Pos(), ok, "a connect task is handed out only under the continuation guard")
		c.Check("pop-head", pop.Name()+"|returned", r.Ast.Pos(), c17DerivesAt(g, r, rs.Results[0], head, 3), "the task handed out is element 0 of the connect queue as it was before the pop (the smallest firstNo)")
	}
	if nRet == 0 {
		c.Undecide("pop-guard", pop.Name()+"|return", "no non-nil return")
	}
	// the element whose firstNo is tested is element 0 as well
	firstNo := e.task["firstNo"]
	tested := 0
	for en := range edges {
		cond := en.Ast.(ast.Expr)
		an.InspectShallow(cond, func(x ast.Node) bool {
			sel, ok := x.(*ast.SelectorExpr)
			if !ok || an.FieldOf(info, sel) != firstNo {
				return true
			}
			tested++
			c.Check("pop-head", pop.Name()+"|tested", sel.Pos(), c17DerivesAt(g, en.Cond, sel.X, head, 3), "the task whose firstNo is compared with prevBlock+1 is element 0 of the connect queue (the one that is popped)")
			return true
		})
	}
	// what remains is the queue without element 0
	if rhs, ok := c17FieldAssign(info, popNode, q); ok {
		rest := func(x ast.Expr, at *an.Node) bool {
			sl, ok := x.(*ast.SliceExpr)
			return ok && c17Const(info, sl.Low) == "1" && sl.High == nil && c17DerivesAt(g, at, sl.X, qAt, 3)
		}
		c.Check("pop-head", pop.Name()+"|rest", rhs.Pos(), c17DerivesAt(g, popNode, rhs, rest, 3), "after the pop the queue is the old queue without element 0 (`q[1:]`)")
	} else {
		c.Undecide("pop-head", pop.Name()+"|rest", "unrecognised form of the connQueue update")
	}
	c.Floor("pop-guard", 2)
	c.Floor("pop-head", 3)
}

// ---------------------------------------------------------------------------
// push-sorted / task-first: sorted insert keyed by the number of the first block

func (e *c17env) pushSorted() {
	c, p := e.c, e.p
	push := c.Fn(c17BP + "pushToConnQueue")
	addTask := c.Fn(c17BP + "addConnectTask")
	if push == nil || addTask == nil {
		return
	}
	info := push.Info()
	g := push.Graph()
	firstNo := e.task["firstNo"]
	var par types.Object
	if pl := push.Type.Params; pl != nil && len(pl.List) == 1 && len(pl.List[0].Names) == 1 {
		par = info.Defs[pl.List[0].Names[0]]
	}
	if par == nil {
		c.Undecide("push-sorted", push.Name(), "expected one parameter (the new connect task)")
		return
	}
	sites := g.CallsTo("sort.Search")
	if len(sites) != 1 {
		c.Check("push-sorted", push.Name()+"|search", push.Pos(), false, "pushToConnQueue no longer locates the insert position with exactly one sort.Search")
	} else {
		s := sites[0]
		ok := false
		why := "predicate is not a function literal"
		var lit *ast.FuncLit
		if len(s.Call.Args) == 2 {
			lit, _ = ast.Unparen(s.Call.Args[1]).(*ast.FuncLit)
			if lit == nil {
				if lf := c17LitOfVar(p, push, &ast.CallExpr{Fun: s.Call.Args[1]}); lf != nil {
					lit = lf.Lit
				}
			}
		}
		if lit != nil && len(lit.Type.Params.List) == 1 && len(lit.Type.Params.List[0].Names) == 1 {
			ip := info.Defs[lit.Type.Params.List[0].Names[0]]
			why = "predicate does not compare queue[i].firstNo with the new task's firstNo"
			var rets []*ast.ReturnStmt
			an.InspectShallow(lit.Body, func(x ast.Node) bool {
				if r, ok := x.(*ast.ReturnStmt); ok {
					rets = append(rets, r)
				}
				return true
			})
			if len(rets) == 1 && len(rets[0].Results) == 1 {
				if be, isBin := ast.Unparen(rets[0].Results[0]).(*ast.BinaryExpr); isBin {
					isElem := func(x ast.Expr) bool { // queue[i].firstNo
						if an.FieldOf(info, x) != firstNo {
							return false
						}
						ix, ok := ast.Unparen(x.(*ast.SelectorExpr).X).(*ast.IndexExpr)
						return ok && an.ObjOf(info, ix.Index) == ip && c17Derives(push, ix.X, c17FieldPred(info, e.bp["connQueue"]), 3)
					}
					isNew := func(x ast.Expr) bool { // newReq.firstNo
						return an.FieldOf(info, x) == firstNo && an.ObjOf(info, ast.Unparen(x).(*ast.SelectorExpr).X) == par
					}
					x, y := ast.Unparen(be.X), ast.Unparen(be.Y)
					switch {
					case isElem(x) && isNew(y) && (be.Op == token.GTR || be.Op == token.GEQ):
						ok = true
					case isNew(x) && isElem(y) && (be.Op == token.LSS || be.Op == token.LEQ):
						ok = true
					default:
						why = "predicate must be `queue[i].firstNo > new.firstNo` (or >=): first index whose task starts after the new one"
					}
				}
			}
		}
		msg := "the insert position is the first index whose task has a larger firstNo (ascending queue; popFromConnQueue relies on element 0 being the smallest)"
		if !ok {
			msg += ": " + why
		}
		c.Check("push-sorted", push.Name()+"|search", s.Call.Pos(), ok, msg)
		// the new task is stored at that index
		idx := g.ResultVarAt(s, 0)
		stored := false
		for _, n := range g.StmtNodes(func(n *an.Node) bool { _, ok := n.Ast.(*ast.AssignStmt); return ok }) {
			as := n.Ast.(*ast.AssignStmt)
			if len(as.Lhs) != 1 || len(as.Rhs) != 1 {
				continue
			}
			ix, isIx := ast.Unparen(as.Lhs[0]).(*ast.IndexExpr)
			if isIx && idx != nil && an.ObjOf(info, ix.Index) == idx && an.ObjOf(info, as.Rhs[0]) == par && g.Dominated(n, an.SetOf(s.Node)) {
				stored = true
			}
		}
		c.Check("push-sorted", push.Name()+"|store", s.Call.Pos(), stored, "the new task is stored at the index returned by sort.Search")
	}
	c.Floor("push-sorted", 2)

	// callers of the insert, and the key of a task
	for _, cs := range p.CallSitesOf(map[string]bool{push.Name(): true}) {
		c.Check("queue-gate", c17Top(cs.Fn)+"|pushToConnQueue", cs.Call.Pos(), cs.Fn != nil && cs.Fn.TopDecl() == addTask, "pushToConnQueue is reached only through addConnectTask (which is gated by the validators)")
	}
	nKey := 0
	for _, w := range p.FieldWrites(map[*types.Var]bool{firstNo: true}) {
		fn := c17Top(w.Fn)
		nKey++
		if w.How != "literal" || w.Fn == nil {
			c.Check("task-first", fn+"|"+w.How, w.Pos, false, "ConnectTask.firstNo is modified after the task was built")
			continue
		}
		winfo := w.Fn.Info()
		var lit *ast.CompositeLit
		ast.Inspect(w.Fn.Body, func(x ast.Node) bool {
			if cl, ok := x.(*ast.CompositeLit); ok {
				for _, el := range cl.Elts {
					if el.Pos() == w.Pos {
						lit = cl
					}
				}
			}
			return true
		})
		var keyVal, blocksVal ast.Expr
		if lit != nil {
			for _, el := range lit.Elts {
				if kv, ok := el.(*ast.KeyValueExpr); ok {
					if id, ok := kv.Key.(*ast.Ident); ok {
						switch winfo.Uses[id] {
						case firstNo:
							keyVal = kv.Value
						case e.task["Blocks"]:
							blocksVal = kv.Value
						}
					}
				}
			}
		}
		ok := false
		if keyVal != nil && blocksVal != nil {
			want := an.ExprString(ast.Unparen(blocksVal))
			first := func(x ast.Expr) bool {
				ix, ok := x.(*ast.IndexExpr)
				return ok && c17Const(winfo, ix.Index) == "0" && an.ExprString(ast.Unparen(ix.X)) == want
			}
			ok = c17Contains(keyVal, first) && c17Contains(keyVal, c17BlockNoPred(p, winfo))
		}
		c.Check("task-first", fn, w.Pos, ok, "the sort key of a connect task is the block number of element 0 of the very slice stored as its Blocks")
	}
	if nKey == 0 {
		c.Undecide("task-first", "syncer.ConnectTask.firstNo", "no writer found")
	}
}

// ---------------------------------------------------------------------------
// queue-gate: a chunk is queued only after validation and task match

func (e *c17env) queueGate() {
	c, p := e.c, e.p
	addTask := c.Fn(c17BP + "addConnectTask")
	rsp := c.Fn(c17BP + "GetBlockChunkRsp")
	valid := c.Fn(c17BP + "isValidResponse")
	find := c.Fn("syncer.(*BlockFetcher).findFinished")
	if addTask == nil || rsp == nil || valid == nil || find == nil {
		return
	}
	for _, r := range p.FuncRefs(map[string]bool{addTask.Name(): true}) {
		c.Check("queue-gate", c17Top(r.Fn)+"|method-value", token.NoPos, false, "addConnectTask is used as a function value")
	}
	n := 0
	for _, cs := range p.CallSitesOf(map[string]bool{addTask.Name(): true}) {
		n++
		if cs.Fn != rsp || len(cs.Call.Args) != 1 {
			c.Check("queue-gate", c17Top(cs.Fn)+"|addConnectTask", cs.Call.Pos(), false, "addConnectTask is called outside GetBlockChunkRsp (the validated path)")
			continue
		}
		g := rsp.Graph()
		info := rsp.Info()
		node := g.NodeContaining(cs.Call.Pos())
		msg := an.ObjOf(info, cs.Call.Args[0])
		for _, gate := range []struct {
			fn   *an.Func
			what string
		}{{valid, "the response validator (error, emptiness, hash linkage)"}, {find, "the match against an outstanding fetch task (peer, count, every hash)"}} {
			gates := an.Set{}
			sameArg := false
			for _, s := range g.CallsTo(gate.fn.Name()) {
				if len(s.Call.Args) > 0 && msg != nil && an.ObjOf(info, s.Call.Args[0]) == msg {
					sameArg = true
					if gate.fn == find && (len(s.Call.Args) < 2 || c17Const(info, s.Call.Args[1]) != "false") {
						continue // peer-only matching is not a gate
					}
					gates = gates.Union(g.ErrNilEdges(s))
				}
			}
			ok := node != nil && sameArg && len(gates) > 0 && g.Dominated(node, gates)
			c.Check("queue-gate", rsp.Name()+"|"+c17Short(gate.fn.Name()), cs.Call.Pos(), ok, "a chunk response enters the connect queue only on paths on which "+gate.what+" returned nil for the same message")
		}
	}
	if n == 0 {
		c.Undecide("queue-gate", addTask.Name(), "no call site")
	}
	c.Floor("queue-gate", 3)

	// findFinished hands out a task for a data response only if isMatched said so
	fg := find.Graph()
	finfo := find.Info()
	var peerPar types.Object
	if pl := find.Type.Params; pl != nil && len(pl.List) == 2 && len(pl.List[1].Names) == 1 {
		peerPar = finfo.Defs[pl.List[1].Names[0]]
	}
	isM := fg.CallsTo("syncer.(*FetchTask).isMatched")
	isP := fg.CallsTo("syncer.(*FetchTask).isPeerMatched")
	if peerPar == nil {
		c.Undecide("task-match", find.Name(), "expected findFinished(msg, peerMatch bool)")
		return
	}
	if len(isM) == 0 {
		c.Check("task-match", find.Name()+"|data", find.Pos(), false, "findFinished no longer consults FetchTask.isMatched: a data response is matched to a task without comparing its block hashes with the requested ones")
		return
	}
	gates := an.Set{}
	for _, s := range isM {
		gates = gates.Union(fg.BoolEdges(s, true))
	}
	// peerMatch == true paths are the error-response paths (GetBlockChunkRspError): exempt by the flag
	flagAt := func(x ast.Expr) (string, bool, bool) {
		if id, ok := ast.Unparen(x).(*ast.Ident); ok && finfo.Uses[id] == peerPar {
			return "PEERONLY", false, true
		}
		return "", false, false
	}
	peerOnly := fg.EdgesImplying(flagAt, map[string]bool{"PEERONLY": true})
	okRets := 0
	for _, r := range fg.Returns() {
		rs := r.Ast.(*ast.ReturnStmt)
		if len(rs.Results) != 2 || c17IsNil(finfo, rs.Results[0]) {
			continue
		}
		okRets++
		if fg.Dominated(r, peerOnly) {
			pg := an.Set{}
			for _, s := range isP {
				pg = pg.Union(fg.BoolEdges(s, true))
			}
			c.Check("task-match", find.Name()+"|peer-only", r.Ast.Pos(), len(pg) > 0 && fg.Dominated(r, pg), "for an error response the task handed out is one that was given to the answering peer")
			continue
		}
		c.Check("task-match", find.Name()+"|data", r.Ast.Pos(), len(gates) > 0 && fg.Dominated(r, gates), "for a data response findFinished hands out a task only if FetchTask.isMatched returned true (same peer, same count, every block hash equals the requested hash)")
	}
	if okRets == 0 {
		c.Undecide("task-match", find.Name(), "no successful return")
	}
	// isMatched: a hash mismatch inside the loop rejects
	if im := c.Fn("syncer.(*FetchTask).isMatched"); im != nil {
		ig := im.Graph()
		iinfo := im.Info()
		hashes := p.LookupField("syncer", "FetchTask", "hashes")
		isReq := func(x ast.Expr) bool { return c17Contains(x, c17FieldPred(iinfo, hashes)) }
		isGot := func(x ast.Expr) bool { return c17Contains(x, c17BlockHashPred(p, iinfo)) }
		at := c17EqAtom(iinfo, "HEQ", true, isReq, isGot)
		trueRets := an.Set{}
		for _, r := range ig.Returns() {
			rs := r.Ast.(*ast.ReturnStmt)
			if len(rs.Results) == 1 && c17Const(iinfo, rs.Results[0]) != "false" {
				trueRets[r] = true
			}
		}
		bad := ig.EdgesImplying(at, map[string]bool{"HEQ": false})
		inLoop := 0
		for en := range bad {
			if !ig.InLoop(en.Cond) {
				continue
			}
			inLoop++
			reach := ig.Reach([]*an.Node{en}, nil)
			leaks := reach[en.Cond]
			for r := range trueRets {
				if reach[r] {
					leaks = true
				}
			}
			c.Check("task-match", im.Name()+"|every-hash", en.Cond.Ast.Pos(), !leaks, "inside the loop over the received blocks a hash different from the requested one leads to `return false` (no continue, no true)")
		}
		if inLoop == 0 {
			c.Check("task-match", im.Name()+"|every-hash", im.Pos(), false, "isMatched no longer compares every received block hash with the requested hash inside a loop")
		}
	}
	c.Floor("task-match", 3)
}

// ---------------------------------------------------------------------------
// linkage / rsp-err: what the validator of isValidResponse checks

func (e *c17env) linkage() {
	c, p := e.c, e.p
	valid := c.Fn(c17BP + "isValidResponse")
	if valid == nil {
		return
	}
	vinfo := valid.Info()
	vg := valid.Graph()
	tss := c17TypeSwitches(valid)
	if len(tss) != 1 {
		c.Undecide("linkage", valid.Name(), "expected one type switch over the message")
		return
	}
	clauses, _ := c17Clauses(vinfo, tss[0])
	for _, tname := range []string{"GetBlockChunksRsp", "AddBlockRsp"} {
		key := c17Msg + "." + tname
		var cl *c17Clause
		for i := range clauses {
			if clauses[i].Key == key {
				cl = &clauses[i]
			}
		}
		if cl == nil {
			c.Check("rsp-err", valid.Name()+"|"+tname, valid.Pos(), false, "isValidResponse has no arm for "+tname)
			continue
		}
		// the validator invoked in this arm
		var vf *an.Func
		var site an.Site
		for _, s := range vg.Calls(nil) {
			if !c17In(cl.Clause, s.Call.Pos()) {
				continue
			}
			if s.Fn != nil {
				if f := p.FuncOf(s.Fn); f != nil && c17ErrIdx(s.Fn) >= 0 {
					vf, site = f, s
				}
			} else if f := c17LitOfVar(p, valid, s.Call); f != nil {
				vf, site = f, s
			}
		}
		if vf == nil {
			c.Undecide("rsp-err", valid.Name()+"|"+tname, "no validator call found in the arm")
			continue
		}
		// its error is returned by isValidResponse
		avoid := vg.ErrNilEdges(site).Union(c17NonNilReturns(vg, -1))
		c.Check("rsp-err", valid.Name()+"|"+tname+"|propagated", site.Call.Pos(), len(vg.ErrNilEdges(site)) > 0 && !vg.Reach(site.Node.Succs, avoid)[vg.Exit], "a non-nil result of the "+tname+" validator is returned by isValidResponse (no path to `return nil` without the nil test)")
		// the validator rejects a response carrying an error
		g := vf.Graph()
		info := vf.Info()
		errFld := p.LookupField(c17Msg, tname, "Err")
		at := c17NilCmpAtom(info, "ERRNIL", c17FieldPred(info, errFld))
		rej := c17NonNilReturns(g, -1)
		bad := g.EdgesImplying(at, map[string]bool{"ERRNIL": false})
		ok := len(bad) > 0
		for en := range bad {
			if g.Reach([]*an.Node{en}, rej)[g.Exit] {
				ok = false
			}
		}
		// and the test is the first thing on every path to a nil return
		tested := an.Set{}
		for _, n := range g.Nodes {
			if (n.Kind == an.KTrue || n.Kind == an.KFalse) && n.Ast != nil {
				if cond, isE := n.Ast.(ast.Expr); isE && an.CondMentions(info, cond, at, "ERRNIL") {
					tested[n] = true
				}
			}
		}
		for _, r := range g.Returns() {
			if !rej[r] && !g.Dominated(r, tested) {
				ok = false
			}
		}
		c.Check("rsp-err", vf.Name()+"|"+tname+".Err", vf.Pos(), ok, "the validator rejects (non-nil result) a "+tname+" whose Err is set, and accepts only after testing it: the processor never advances on a failed fetch / failed AddBlock")
		if tname == "GetBlockChunksRsp" {
			e.linkageLoop(vf)
		}
	}
	c.Floor("rsp-err", 4)
}

func (e *c17env) linkageLoop(vf *an.Func) {
	c, p := e.c, e.p
	g := vf.Graph()
	info := vf.Info()
	top := vf.TopDecl()
	blocksFld := p.LookupField(c17Msg, "GetBlockChunksRsp", "Blocks")
	fromBlocks := func(x ast.Node) bool { return c17Derives(top, x, c17FieldPred(info, blocksFld), 3) }
	rej := c17NonNilReturns(g, -1)

	// emptiness: len(blocks) == 0 rejects
	isLen := func(x ast.Expr) bool {
		call, ok := ast.Unparen(x).(*ast.CallExpr)
		return ok && an.IsBuiltin(info, call, "len") && len(call.Args) == 1 && fromBlocks(call.Args[0])
	}
	emptyAt := func(x ast.Expr) (string, bool, bool) {
		be, ok := ast.Unparen(x).(*ast.BinaryExpr)
		if !ok {
			return "", false, false
		}
		l, r, op := be.X, be.Y, be.Op
		if isLen(r) {
			l, r = r, l
			switch op {
			case token.LSS:
				op = token.GTR
			case token.GTR:
				op = token.LSS
			case token.LEQ:
				op = token.GEQ
			case token.GEQ:
				op = token.LEQ
			}
		}
		if !isLen(l) {
			return "", false, false
		}
		k := c17Const(info, r)
		switch {
		case k == "0" && (op == token.EQL || op == token.LEQ), k == "1" && op == token.LSS:
			return "EMPTY", false, true
		case k == "0" && (op == token.NEQ || op == token.GTR), k == "1" && op == token.GEQ:
			return "EMPTY", true, true
		}
		return "", false, false
	}
	empties := g.EdgesImplying(emptyAt, map[string]bool{"EMPTY": true})
	// edges on which the response may be empty: every edge of a condition mentioning EMPTY that does not imply non-empty
	okEmpty := false
	for _, n := range g.Nodes {
		if n.Kind != an.KTrue && n.Kind != an.KFalse {
			continue
		}
		cond, isE := n.Ast.(ast.Expr)
		if !isE || !an.CondMentions(info, cond, emptyAt, "EMPTY") {
			continue
		}
		if an.CondImplies(info, cond, n.Kind == an.KTrue, emptyAt, map[string]bool{"EMPTY": false}) {
			continue // known non-empty
		}
		okEmpty = true
		if g.Reach([]*an.Node{n}, rej)[g.Exit] {
			okEmpty = false
			break
		}
	}
	_ = empties
	c.Check("linkage", vf.Name()+"|empty", vf.Pos(), okEmpty, "a chunk response without blocks is rejected (every branch outcome compatible with len(Blocks)==0 leads to a non-nil result); Blocks[0] is read afterwards")

	// the loop
	var loops []*ast.RangeStmt
	an.InspectShallow(vf.Body, func(x ast.Node) bool {
		if rs, ok := x.(*ast.RangeStmt); ok && fromBlocks(rs.X) {
			loops = append(loops, rs)
		}
		return true
	})
	if len(loops) == 0 {
		c.Check("linkage", vf.Name()+"|loop", vf.Pos(), false, "the chunk validator no longer iterates over the received blocks: hash linkage inside a chunk is not checked")
		return
	}
	found := false
	for _, loop := range loops {
		val := an.ObjOf(info, loop.Value)
		if val == nil {
			continue
		}
		ofBlock := func(x ast.Expr) bool { return c17Contains(x, c17ObjPred(info, val)) }
		isPrevOfCur := func(x ast.Expr) bool {
			return ofBlock(x) && c17Contains(x, c17Or(c17CallPred(info, "types.(*BlockHeader).GetPrevBlockHash"), c17FieldPred(info, p.LookupField("types", "BlockHeader", "PrevBlockHash"))))
		}
		// candidate carry variable: a local assigned in the loop body from the hash of the loop's block
		var carry types.Object
		carryNodes := an.Set{}
		for _, n := range g.StmtNodes(func(n *an.Node) bool { return c17In(loop.Body, n.Ast.Pos()) }) {
			as, ok := n.Ast.(*ast.AssignStmt)
			if !ok || len(as.Lhs) != 1 || len(as.Rhs) != 1 {
				continue
			}
			if ofBlock(as.Rhs[0]) && c17Contains(as.Rhs[0], c17BlockHashPred(p, info)) && !c17Contains(as.Rhs[0], isPrevOfCur) {
				if o := an.ObjOf(info, as.Lhs[0]); o != nil && (carry == nil || carry == o) {
					carry = o
					carryNodes[n] = true
				}
			}
		}
		if carry == nil {
			continue
		}
		isCarry := func(x ast.Expr) bool { return an.ObjOf(info, x) == carry }
		at := c17Atoms(
			c17NilCmpAtom(info, "FIRST", isCarry),
			c17EqAtom(info, "LINK", true, isCarry, isPrevOfCur),
		)
		ok := false
		var pos token.Pos = loop.Pos()
		for _, n := range g.Nodes {
			if n.Kind != an.KTrue && n.Kind != an.KFalse {
				continue
			}
			cond, isE := n.Ast.(ast.Expr)
			if !isE || !c17In(loop.Body, n.Cond.Ast.Pos()) || !an.CondMentions(info, cond, at, "LINK") {
				continue
			}
			pos = cond.Pos()
			val := n.Kind == an.KTrue
			switch {
			case an.CondEntails(info, cond, val, at, []string{"LINK"}, func(env map[string]bool) bool { return env["FIRST"] || env["LINK"] }):
				// linked (or first block): may continue
				ok = true
			default:
				// possibly unlinked: must reject without updating the carry or continuing
				reach := g.Reach([]*an.Node{n}, rej)
				upd := false
				for cn := range carryNodes {
					if reach[cn] {
						upd = true
					}
				}
				if reach[g.Exit] || upd || reach[n.Cond] {
					ok = false
					c.Check("linkage", vf.Name()+"|loop", pos, false, "an outcome of the linkage test that does not establish `prev == block.PrevBlockHash` continues the loop or accepts the chunk")
					return
				}
			}
		}
		// the carry is updated on every iteration that continues: no path from the
		// loop's "next element" edge back to the loop head avoids the update
		if ok {
			be := c17RangeBodyEdge(g, loop)
			ok = be != nil && !g.Reach(be.Succs, carryNodes)[be.Cond]
		}
		found = true
		c.Check("linkage", vf.Name()+"|loop", pos, ok, "inside the loop over the received blocks: unless `prev == block.GetHeader().GetPrevBlockHash()` (or it is the first block) the chunk is rejected, and on every iteration that continues prev becomes this block's hash — each block of a queued chunk is the child of the one before it")
	}
	if !found {
		c.Check("linkage", vf.Name()+"|loop", vf.Pos(), false, "no loop over the received blocks carries the previous block's hash into a comparison with the next block's PrevBlockHash")
	}
	c.Floor("linkage", 2)
}

// ---------------------------------------------------------------------------
// add-match / target-stop: advancing after the chain service's answer

func (e *c17env) addMatch() {
	c, p := e.c, e.p
	addRsp := c.Fn(c17BP + "AddBlockResponse")
	valid := c.Fn(c17BP + "isValidResponse")
	next := c.Fn(c17BP + "getNextBlockToConnect")
	connect := c.Fn(c17BP + "connectBlock")
	if addRsp == nil || valid == nil || next == nil || connect == nil {
		return
	}
	g := addRsp.Graph()
	info := addRsp.Info()
	cur, prev := e.bp["curBlock"], e.bp["prevBlock"]
	rspNo := p.LookupField(c17Msg, "AddBlockRsp", "BlockNo")
	rspHash := p.LookupField(c17Msg, "AddBlockRsp", "BlockHash")
	if rspNo == nil || rspHash == nil {
		c.Undecide("anchor", "message.AddBlockRsp.{BlockNo,BlockHash}", "field not found")
		return
	}
	fromCur := func(x ast.Expr) bool { return c17Derives(addRsp, x, c17FieldPred(info, cur), 4) }
	curNo := func(x ast.Expr) bool { return fromCur(x) && c17Derives(addRsp, x, c17BlockNoPred(p, info), 4) }
	curHash := func(x ast.Expr) bool { return fromCur(x) && c17Derives(addRsp, x, c17BlockHashPred(p, info), 4) }
	at := c17Atoms(
		c17EqAtom(info, "NOEQ", false, curNo, func(x ast.Expr) bool { return an.FieldOf(info, x) == rspNo }),
		c17EqAtom(info, "HASHEQ", true, curHash, func(x ast.Expr) bool { return an.FieldOf(info, x) == rspHash }),
	)
	gNo := g.EdgesImplying(at, map[string]bool{"NOEQ": true})
	gHash := g.EdgesImplying(at, map[string]bool{"HASHEQ": true})
	gValid := an.Set{}
	for _, s := range g.CallsTo(valid.Name()) {
		gValid = gValid.Union(g.ErrNilEdges(s))
	}
	gated := func(n *an.Node) (bool, string) {
		switch {
		case n == nil:
			return false, "site not found in the control-flow graph"
		case len(gValid) == 0 || !g.Dominated(n, gValid):
			return false, "not dominated by isValidResponse(msg) == nil (Err / BlockHash of the answer)"
		case len(gNo) == 0 || !g.Dominated(n, gNo):
			return false, "not dominated by `curBlock number == msg.BlockNo`"
		case len(gHash) == 0 || !g.Dominated(n, gHash):
			return false, "not dominated by `bytes.Equal(curBlock hash, msg.BlockHash)`"
		}
		return true, ""
	}
	type tgt struct {
		key  string
		node *an.Node
		pos  token.Pos
	}
	var tgts []tgt
	var prevNode, clearNode *an.Node
	for _, w := range p.FieldWrites(map[*types.Var]bool{prev: true, cur: true}) {
		if w.Fn == nil || w.Fn.TopDecl() != addRsp {
			if w.Field == prev && w.How != "literal" {
				c.Check("add-match", c17Top(w.Fn)+"|prevBlock", w.Pos, false, "BlockProcessor.prevBlock (the last connected block) is written outside AddBlockResponse")
			}
			continue
		}
		n := g.NodeContaining(w.Pos)
		if w.Field == prev {
			prevNode = n
			rhs, _ := c17FieldAssign(info, n, prev)
			c.Check("add-match", addRsp.Name()+"|prevBlock-value", w.Pos, rhs != nil && fromCur(rhs), "the block recorded as connected (prevBlock) is the current block whose answer was just matched")
			tgts = append(tgts, tgt{"prevBlock", n, w.Pos})
		} else {
			clearNode = n
			tgts = append(tgts, tgt{"curBlock-clear", n, w.Pos})
		}
	}
	var nextNodes []*an.Node
	for _, s := range g.CallsTo(next.Name()) {
		tgts = append(tgts, tgt{"getNextBlockToConnect", s.Node, s.Call.Pos()})
		nextNodes = append(nextNodes, s.Node)
	}
	for _, s := range g.CallsTo(connect.Name()) {
		tgts = append(tgts, tgt{"connectBlock", s.Node, s.Call.Pos()})
	}
	for _, t := range tgts {
		ok, why := gated(t.node)
		msg := "the processor advances (" + t.key + ") only after the add-block answer passed the validator and was compared, number and hash, with the block in flight"
		if !ok {
			msg += ": " + why
		}
		c.Check("add-match", addRsp.Name()+"|"+t.key, t.pos, ok, msg)
	}
	// order: prevBlock and the cleared marker are in place before the next block is chosen
	for _, nn := range nextNodes {
		ok := prevNode != nil && clearNode != nil && g.Dominated(nn, an.SetOf(prevNode)) && g.Dominated(nn, an.SetOf(clearNode))
		c.Check("add-match", addRsp.Name()+"|order", nn.Ast.Pos(), ok, "prevBlock is updated and curBlock cleared on every path before getNextBlockToConnect runs (the continuation guard and the in-flight guard read them)")
	}
	if len(nextNodes) == 0 {
		c.Check("add-match", addRsp.Name()+"|order", addRsp.Pos(), false, "AddBlockResponse no longer asks for the next block")
	}
	c.Floor("add-match", 6)

	// success is reported exactly when the block just connected is the target
	stop := c.Fn("syncer.stopSyncer")
	if stop == nil {
		return
	}
	tgtFld := e.bp["targetBlockNo"]
	nOK := 0
	for _, cs := range p.CallSitesOf(map[string]bool{stop.Name(): true}) {
		if cs.Fn == nil || len(cs.Call.Args) != 4 || !c17IsNil(cs.Fn.Info(), cs.Call.Args[3]) {
			continue
		}
		nOK++
		if cs.Fn != addRsp {
			c.Check("target-stop", c17Top(cs.Fn), cs.Call.Pos(), false, "the synchronisation is declared successful (stopSyncer with a nil error) outside AddBlockResponse")
			continue
		}
		n := g.NodeContaining(cs.Call.Pos())
		ok, why := gated(n)
		tat := func(x ast.Expr) (string, bool, bool) {
			be, isBin := ast.Unparen(x).(*ast.BinaryExpr)
			if !isBin {
				return "", false, false
			}
			l, r, op := be.X, be.Y, be.Op
			if an.FieldOf(info, l) == tgtFld {
				l, r = r, l
				switch op {
				case token.LEQ:
					op = token.GEQ
				case token.GEQ:
					op = token.LEQ
				case token.LSS:
					op = token.GTR
				case token.GTR:
					op = token.LSS
				}
			}
			if an.FieldOf(info, r) != tgtFld || !curNo(l) {
				return "", false, false
			}
			switch op {
			case token.EQL, token.GEQ:
				return "ATTARGET", false, true
			case token.NEQ, token.LSS:
				return "ATTARGET", true, true
			}
			return "", false, false
		}
		te := g.EdgesImplying(tat, map[string]bool{"ATTARGET": true})
		if ok && (len(te) == 0 || !g.Dominated(n, te)) {
			ok, why = false, "not dominated by `curBlock number == targetBlockNo`"
		}
		msg := "success (stopSyncer with a nil error) is reported only after the answer for the current block was matched and that block's number equals the target"
		if !ok {
			msg += ": " + why
		}
		c.Check("target-stop", addRsp.Name(), cs.Call.Pos(), ok, msg)
	}
	if nOK == 0 {
		c.Check("target-stop", addRsp.Name(), addRsp.Pos(), false, "no successful stop found: the synchroniser never completes")
	}
}

// ---------------------------------------------------------------------------
// add-rsp: the chain service's answer tells the truth about addBlock

func (e *c17env) chainAnswer() {
	c, p := e.c, e.p
	errFld := p.LookupField(c17Msg, "AddBlockRsp", "Err")
	noFld := p.LookupField(c17Msg, "AddBlockRsp", "BlockNo")
	hashFld := p.LookupField(c17Msg, "AddBlockRsp", "BlockHash")
	n := 0
	for _, pk := range p.ModulePkgs() {
		info := pk.TypesInfo
		if info == nil {
			continue
		}
		for _, file := range pk.Syntax {
			ast.Inspect(file, func(x ast.Node) bool {
				lit, ok := x.(*ast.CompositeLit)
				if !ok {
					return true
				}
				tv, ok := info.Types[lit]
				if !ok || c17TypeKey(tv.Type) != c17Msg+".AddBlockRsp" {
					return true
				}
				encl := p.EnclosingFunc(pk, lit.Pos())
				if why, ex := c17AddBlockRspExempt[c17Top(encl)]; ex {
					c.CheckTrivial("add-rsp", c17Top(encl)+"|exempt", lit.Pos(), true, why)
					return true
				}
				n++
				if encl == nil {
					c.Check("add-rsp", "<package level>", lit.Pos(), false, "AddBlockRsp built at package level")
					return true
				}
				vals := map[*types.Var]ast.Expr{}
				for _, el := range lit.Elts {
					if kv, ok := el.(*ast.KeyValueExpr); ok {
						if id, ok := kv.Key.(*ast.Ident); ok {
							if v, ok := info.Uses[id].(*types.Var); ok {
								vals[v] = kv.Value
							}
						}
					}
				}
				g := encl.Graph()
				node := g.NodeContaining(lit.Pos())
				// the addBlock call whose outcome is reported
				var site *an.Site
				for _, s := range g.Calls(func(fn *types.Func, _ *ast.CallExpr) bool {
					return fn != nil && c17AddBlockImpl[an.FuncName(fn)]
				}) {
					s := s
					if node != nil && g.Dominated(node, an.SetOf(s.Node)) {
						site = &s
					}
				}
				ok = false
				why := "no call of ChainService.addBlock dominates the answer"
				if site != nil {
					errVar := g.ResultVarAt(*site, 0)
					why = "Err is not the result of addBlock"
					if ev := vals[errFld]; ev != nil && errVar != nil && an.ObjOf(info, ev) == errVar {
						clean := true
						for m := range g.Between(site.Node, node) {
							if m.Kind == an.KStmt && an.Assigns(info, m.Ast, errVar) {
								clean = false
							}
						}
						blk := an.ObjOf(info, site.Call.Args[0])
						top := encl.TopDecl()
						isBlk := c17ObjPred(info, blk)
						why = "BlockNo/BlockHash are not taken from the block passed to addBlock"
						if clean && blk != nil && vals[noFld] != nil && vals[hashFld] != nil &&
							c17Derives(top, vals[noFld], isBlk, 3) && c17Derives(top, vals[hashFld], isBlk, 3) {
							ok = true
						}
					}
				}
				msg := "the chain service answers an AddBlock with the error returned by addBlock and with number and hash of the very block it was given (the syncer advances on Err == nil and compares number and hash)"
				if !ok {
					msg += ": " + why
				}
				c.Check("add-rsp", c17Top(encl), lit.Pos(), ok, msg)
				return true
			})
		}
	}
	if n == 0 {
		c.Undecide("add-rsp", "message.AddBlockRsp", "no producer of the answer found")
	}
	c.Floor("add-rsp", 1)
}
