package props

import (
	"go/ast"
	"go/token"
	"go/types"
	"strings"

	"verif/checker/internal/an"
	"verif/checker/internal/rep"
)

// C04 — authorisation and replay protection for executed transactions.
//
// Decided clauses: (1) gate order in the transaction executor: signature-
// account match, tx.Validate and tx.ValidateWithSenderState succeed before any
// execution or state write; (2) the nonce comparison is a trichotomy: every
// ordering other than "tx nonce == state nonce + 1" exits with an error, and
// the nonce stored is the compared field; (3) Validate binds the chain id hash
// and the recomputed tx hash before any type-specific branch; (4) signature
// verification really happens on every accepting path of the verifiers and the
// block executor waits for it before committing.

func init() { register("C04", runC04) }

func runC04(c *rep.Ctx) {
	c.Explain = "Decides the shape of the authorisation path: in chain.executeTx every execution/state-writing call is dominated by the success edges of the verified-account comparison, tx.Validate(chain id hash) and tx.ValidateWithSenderState; the nonce guard in ValidateWithSenderState rejects both strict orderings of (state nonce+1, tx nonce) (ordering abstraction over the comparison operators); transaction.Validate compares the chain-id hash and the recomputed hash before its type switch; every nil return of the signature verifiers is dominated by a successful ECDSA verification (or the documented mempool-hit shortcut, whose companion gate in the pool is checked too); the block executor commits only after the signature wait succeeded. It does not decide ECDSA itself nor nonce sequences along histories."
	c.NotDecided = []string{"ECDSA correctness", "nonce sequences along reorganisation histories", "mempool/chain interplay over time"}
	c.Assume = []string{"`bv.verbose`-style diagnostic flags are irrelevant here", "a call is 'successful' on the branch edges where its error result is known nil (no reassignment in between)"}
	c04ExecuteTxGates(c)
	c04NonceTrichotomy(c)
	c04ValidateBinding(c)
	c04Signatures(c)
}

const (
	c04Validate   = "types.(Transaction).Validate"
	c04ValidateSS = "types.(Transaction).ValidateWithSenderState"
)

// execution / state-writing calls of executeTx that must come after the gates
var c04Targets = []string{
	"contract.Execute",
	"chain.executeGovernanceTx",
	"contract.CheckFeeDelegation",
	"state.(*AccountState).SetNonce",
	"state.(*AccountState).PutState",
	"state.(*AccountState).SubBalance",
	"state.(*AccountState).AddBalance",
	"chain.resetAccount",
	"state.(*BlockState).AddReceipt",
	"state.CreateAccountState",
}

func c04ExecuteTxGates(c *rep.Ctx) {
	f := c.Fn("chain.executeTx")
	if f == nil {
		return
	}
	g := f.Graph()
	info := f.Info()
	targets := sitesOf(f, c04Targets...)
	if len(targets) < 8 {
		c.Undecide("gate-order", "chain.executeTx", "fewer execution/state-writing calls than on the reference tree")
	}
	v := errGate(c, f, c04Validate)
	mustPrecede(c, "gate-order", f, v, targets, nil, "tx.Validate (format, chain id hash, tx hash) must have succeeded before the transaction executes or writes state")
	vs := errGate(c, f, c04ValidateSS)
	mustPrecede(c, "gate-order", f, vs, targets, nil, "tx.ValidateWithSenderState (exact nonce, balance) must have succeeded before the transaction executes or writes state")
	c.Floor("gate-order", 16)

	// tx.Validate is called with the chain id hash of the block being executed
	for _, s := range v.sites {
		ok := len(s.Call.Args) >= 1 && containsCallTo(info, s.Call.Args[0], "types.(*BlockHeaderInfo).ChainIdHash")
		c.Check("chain-binding", "chain.executeTx|Validate(arg0)", s.Call.Pos(), ok, "tx.Validate receives the chain id hash of the block header being executed (bi.ChainIdHash())")
	}
	// ValidateWithSenderState receives the state of the account the tx names
	for _, s := range vs.sites {
		ok := false
		if len(s.Call.Args) >= 1 {
			if call, isCall := ast.Unparen(s.Call.Args[0]).(*ast.CallExpr); isCall && an.CalleeName(info, call) == "state.(*AccountState).State" {
				snd := recvObj(info, call)
				if rhs, _ := g.SingleDef(snd); rhs != nil {
					if gc, isCall := ast.Unparen(rhs).(*ast.CallExpr); isCall && an.CalleeName(info, gc) == "state.GetAccountState" && len(gc.Args) >= 1 {
						acc := an.ObjOf(info, gc.Args[0])
						// account comes from name.Resolve(bs, txBody.GetAccount(), ...)
						for _, rs := range g.CallsTo("contract/name.Resolve") {
							if g.ResultVarAt(rs, 0) == acc && len(rs.Call.Args) >= 2 && containsCallTo(info, rs.Call.Args[1], "types.(*TxBody).GetAccount") {
								ok = true
							}
						}
					}
				}
			}
		}
		c.Check("sender-binding", "chain.executeTx|ValidateWithSenderState(arg0)", s.Call.Pos(), ok, "the nonce/balance check runs against the state of the account resolved from the transaction's own Account field")
	}

	// verified-account comparison: bytes.Equal(GetVerifedAccount(), resolved account) must hold
	// (or the tx carries no verified account) before anything executes
	has := boolGate(c, f, false, "types.(Transaction).HasVerifedAccount")
	eq := an.Set{}
	var eqPos token.Pos
	for _, s := range g.CallsTo("bytes.Equal") {
		if len(s.Call.Args) != 2 {
			continue
		}
		usesVerified := false
		for _, a := range s.Call.Args {
			if o := an.ObjOf(info, a); o != nil {
				if rhs, _ := g.SingleDef(o); rhs != nil && containsCallTo(info, rhs, "types.(Transaction).GetVerifedAccount") {
					usesVerified = true
				}
			}
			if containsCallTo(info, a, "types.(Transaction).GetVerifedAccount") {
				usesVerified = true
			}
		}
		if usesVerified {
			eqPos = s.Call.Pos()
			for e := range g.BoolEdges(s, true) {
				eq[e] = true
			}
		}
	}
	execs := sitesOf(f, "contract.Execute", "chain.executeGovernanceTx", "state.(*AccountState).PutState", "chain.resetAccount")
	for _, t := range execs {
		ok := len(eq) > 0 && g.Dominated(t.Node, eq.Union(has.edges))
		c.Check("sign-account-match", "chain.executeTx|verified-account < "+shortName(an.FuncName(t.Fn)), eqPos, ok, "a transaction verified against a name owner/address executes only if that verified account equals the account the name resolves to now")
	}

	// the nonce stored is the field that was compared.  The argument is resolved
	// through once-defined locals (newNonce := txBody.GetNonce()) and must BE the
	// Nonce field / GetNonce() of the body of the transaction being executed —
	// an expression that merely contains it (GetNonce()+1) is not accepted.
	// resetAccount calls whose nonce argument is nil store no nonce: that they
	// must not end in an accepting return is decided by nonce-advance
	// (c04_gap.go), which follows the helper; this rule keeps the clause
	// "EVERY nonce value written to the sender in executeTx is the tx nonce"
	// (nonce-advance only asks for one such write before the accepting return).
	nonceF := c.Prog.LookupField("types", "TxBody", "Nonce")
	var txParam types.Object
	for i := 0; i < 8; i++ {
		if o := f.ParamObj(i); o != nil {
			if nt, isNamed := o.Type().(*types.Named); isNamed && nt.Obj().Name() == "Transaction" && nt.Obj().Pkg() != nil && strings.HasSuffix(nt.Obj().Pkg().Path(), "/types") {
				txParam = o
			}
		}
	}
	if txParam == nil {
		c.Undecide("nonce-stored", "chain.executeTx", "the parameter holding the transaction being executed (types.Transaction) was not found")
	}
	isTxNonce := func(e ast.Expr) bool {
		if nonceF == nil || txParam == nil {
			return false
		}
		e = c04GapResolve(g, info, e)
		var base ast.Expr
		switch x := e.(type) {
		case *ast.SelectorExpr:
			if an.FieldOf(info, x) != nonceF {
				return false
			}
			base = x.X
		case *ast.CallExpr:
			sel, isSel := ast.Unparen(x.Fun).(*ast.SelectorExpr)
			if !isSel || len(x.Args) != 0 || an.CalleeName(info, x) != "types.(*TxBody).GetNonce" {
				return false
			}
			base = sel.X
		default:
			return false
		}
		// the body is tx.GetBody() of the executed transaction
		base = c04GapResolve(g, info, base)
		call, isCall := base.(*ast.CallExpr)
		if !isCall || an.CalleeName(info, call) != "types.(Transaction).GetBody" {
			return false
		}
		sel, isSel := ast.Unparen(call.Fun).(*ast.SelectorExpr)
		return isSel && an.ObjOf(info, c04GapResolve(g, info, sel.X)) == txParam
	}
	for _, s := range g.CallsTo("state.(*AccountState).SetNonce") {
		ok := len(s.Call.Args) == 1 && isTxNonce(s.Call.Args[0])
		c.Check("nonce-stored", "chain.executeTx|SetNonce", s.Call.Pos(), ok, "the sender nonce is advanced to the transaction's own nonce (the value validated as state nonce + 1)")
	}
	for _, s := range g.CallsTo("chain.resetAccount") {
		if len(s.Call.Args) != 3 {
			continue
		}
		a := c04GapResolve(g, info, s.Call.Args[2])
		if tv, ok := info.Types[a]; ok && tv.IsNil() {
			continue
		}
		ok := false
		if u, isU := a.(*ast.UnaryExpr); isU && u.Op == token.AND {
			ok = isTxNonce(u.X)
		}
		c.Check("nonce-stored", "chain.executeTx|resetAccount(nonce)", s.Call.Pos(), ok, "on a runtime error the sender nonce is advanced to the transaction's own nonce")
	}
	c.Floor("nonce-stored", 2)
}

func c04NonceTrichotomy(c *rep.Ctx) {
	f := c.Fn("types.(*transaction).ValidateWithSenderState")
	if f == nil {
		return
	}
	g := f.Graph()
	info := f.Info()
	stNonce := c.Prog.LookupField("types", "State", "Nonce")
	txNonce := c.Prog.LookupField("types", "TxBody", "Nonce")
	roleS := func(e ast.Expr) bool {
		if an.FieldOf(info, e) == stNonce && stNonce != nil {
			return true
		}
		if call, ok := ast.Unparen(e).(*ast.CallExpr); ok {
			return an.CalleeName(info, call) == "types.(*State).GetNonce"
		}
		return false
	}
	roleT := func(e ast.Expr) bool {
		if an.FieldOf(info, e) == txNonce && txNonce != nil {
			return true
		}
		if call, ok := ast.Unparen(e).(*ast.CallExpr); ok {
			return an.CalleeName(info, call) == "types.(*TxBody).GetNonce"
		}
		return false
	}
	// d = (state nonce + 1) - tx nonce
	cmps, und := g.OrdCmps(roleS, roleT, 1)
	for _, u := range und {
		c.Undecide("nonce-trichotomy", "types.(*transaction).ValidateWithSenderState", "comparison "+an.ExprString(u)+" cannot be normalised to an ordering of (state nonce+1, tx nonce)")
	}
	if len(cmps) == 0 {
		c.Check("nonce-trichotomy", "types.(*transaction).ValidateWithSenderState|no-comparison", f.Pos(), false, "no comparison between the sender's state nonce and the transaction nonce found")
		return
	}
	nilRets := g.NilReturns()
	nilSet := an.Set{}
	for _, r := range nilRets {
		nilSet[r] = true
	}
	canAccept := func(edge *an.Node) bool {
		r := g.Reach([]*an.Node{edge}, nil)
		for n := range nilSet {
			if r[n] {
				return true
			}
		}
		return false
	}
	for _, sign := range []int{+1, -1} {
		name := map[int]string{+1: "tx nonce <= state nonce (replay / too low)", -1: "tx nonce > state nonce + 1 (gap / too high)"}[sign]
		rejected := false
		for _, cm := range cmps {
			e := g.EdgeFor(cm, sign)
			if e == nil {
				continue
			}
			// the guard must be on every path to acceptance: the edge taken under this ordering cannot reach a nil return,
			// and the comparison itself dominates every nil return
			if !canAccept(e) {
				allDom := true
				for _, r := range nilRets {
					if !g.Dominated(r, an.SetOf(cm.Node)) {
						allDom = false
					}
				}
				if allDom {
					rejected = true
				}
			}
		}
		c.Check("nonce-trichotomy", "types.(*transaction).ValidateWithSenderState|"+map[int]string{+1: "too-low", -1: "too-high"}[sign], cmps[0].Expr.Pos(), rejected, "ordering "+name+" must end in an error on every path (a comparison whose outcome under this ordering cannot reach `return nil` dominates all accepting returns)")
	}
	// the exact value is accepted: under equality no nonce comparison forces an error
	okEq := true
	for _, cm := range cmps {
		if e := g.EdgeFor(cm, 0); e != nil && !canAccept(e) {
			okEq = false
		}
	}
	c.Check("nonce-trichotomy", "types.(*transaction).ValidateWithSenderState|exact", cmps[0].Expr.Pos(), okEq, "tx nonce == state nonce + 1 is not rejected by a nonce comparison")
}

func c04ValidateBinding(c *rep.Ctx) {
	f := c.Fn("types.(*transaction).Validate")
	if f == nil {
		return
	}
	g := f.Graph()
	info := f.Info()
	chainParam := f.ParamObj(0)
	var chainEq, hashEq an.Set
	var p1, p2 token.Pos
	for _, s := range g.CallsTo("bytes.Equal") {
		if len(s.Call.Args) != 2 {
			continue
		}
		a0, a1 := s.Call.Args[0], s.Call.Args[1]
		isChain := (an.ObjOf(info, a0) == chainParam && containsCallTo(info, a1, "types.(*TxBody).GetChainIdHash")) ||
			(an.ObjOf(info, a1) == chainParam && containsCallTo(info, a0, "types.(*TxBody).GetChainIdHash"))
		isHash := (containsCallTo(info, a0, "types.(*transaction).GetHash", "types.(*Tx).GetHash") && containsCallTo(info, a1, "types.(*transaction).CalculateTxHash", "types.(*Tx).CalculateTxHash")) ||
			(containsCallTo(info, a1, "types.(*transaction).GetHash", "types.(*Tx).GetHash") && containsCallTo(info, a0, "types.(*transaction).CalculateTxHash", "types.(*Tx).CalculateTxHash"))
		if isChain && chainParam != nil {
			chainEq, p1 = g.BoolEdges(s, true), s.Call.Pos()
		}
		if isHash {
			hashEq, p2 = g.BoolEdges(s, true), s.Call.Pos()
		}
	}
	nilRets := g.NilReturns()
	if len(nilRets) == 0 {
		c.Undecide("validate-binding", "types.(*transaction).Validate", "no accepting return found")
	}
	okC, okH := len(chainEq) > 0, len(hashEq) > 0
	for _, r := range nilRets {
		okC = okC && g.Dominated(r, chainEq)
		okH = okH && g.Dominated(r, hashEq)
	}
	c.Check("validate-binding", "types.(*transaction).Validate|chain-id-hash", p1, okC, "every accepting return is dominated by bytes.Equal(expected chain id hash, body.ChainIdHash) == true")
	c.Check("validate-binding", "types.(*transaction).Validate|tx-hash", p2, okH, "every accepting return is dominated by bytes.Equal(tx.Hash, recomputed hash) == true")
	// before any type-specific branch
	typeF := c.Prog.LookupField("types", "TxBody", "Type")
	nSwitch := 0
	for _, n := range g.StmtNodes(func(n *an.Node) bool {
		e, ok := n.Ast.(ast.Expr)
		return ok && typeF != nil && (an.FieldOf(info, e) == typeF) && n.Block != nil && n.Block.Kind.String() != "SwitchNextCase"
	}) {
		// a switch tag is a KStmt whose successors are the case expressions
		nSwitch++
		c.Check("validate-binding", "types.(*transaction).Validate|before-type-switch", n.Ast.Pos(), len(chainEq) > 0 && len(hashEq) > 0 && g.Dominated(n, chainEq) && g.Dominated(n, hashEq), "the chain-id and hash comparisons precede the per-type branch")
	}
	// the governance arm runs the payload validator
	gv := errGate(c, f, "types.validate")
	c.Check("validate-binding", "types.(*transaction).Validate|governance-validator", posOf(gv.sites), len(gv.sites) >= 1 && len(gv.edges) >= 1, "governance transactions pass through the per-recipient payload validator with an error exit")
}

func c04Signatures(c *rep.Ctx) {
	p := c.Prog
	// (a) ECDSA: every nil return of VerifyTxWithAddress is dominated by sign.Verify(...) == true
	if f := c.Fn("account/key.VerifyTxWithAddress"); f != nil {
		g := f.Graph()
		info := f.Info()
		var ver an.Set
		var pos token.Pos
		prov := false
		for _, s := range g.Calls(func(fn *types.Func, call *ast.CallExpr) bool {
			return fn != nil && fn.Name() == "Verify" && fn.Pkg() != nil && strings.HasSuffix(fn.Pkg().Path(), "/ecdsa")
		}) {
			ver, pos = g.BoolEdges(s, true), s.Call.Pos()
			if len(s.Call.Args) == 2 {
				h, _ := g.SingleDef(an.ObjOf(info, s.Call.Args[0]))
				k, _ := g.SingleDef(an.ObjOf(info, s.Call.Args[1]))
				sg, _ := g.SingleDef(recvObj(info, s.Call))
				addr := f.ParamObj(1)
				signF := p.LookupField("types", "TxBody", "Sign")
				prov = h != nil && containsCallTo(info, h, "account/key.CalculateHashWithoutSign") &&
					k != nil && addr != nil && mentions(info, k, addr) &&
					sg != nil && signF != nil && readsField(info, sg, signF)
			}
		}
		ok := len(ver) > 0
		for _, r := range g.NilReturns() {
			ok = ok && g.Dominated(r, ver)
		}
		c.Check("sig-verify", "account/key.VerifyTxWithAddress|accept", pos, ok, "VerifyTxWithAddress returns nil only after ecdsa Verify returned true")
		c.Check("sig-verify", "account/key.VerifyTxWithAddress|operands", pos, prov, "the verified digest is CalculateHashWithoutSign(tx.Body), the key is parsed from the address argument and the signature from tx.Body.Sign")
	}
	if f := c.Fn("account/key.VerifyTx"); f != nil {
		g := f.Graph()
		s := g.CallsTo("account/key.VerifyTxWithAddress")
		accF := p.LookupField("types", "TxBody", "Account")
		ok := len(s) == 1 && len(s[0].Call.Args) == 2 && accF != nil && readsField(f.Info(), s[0].Call.Args[1], accF) && argIs(f.Info(), s[0].Call, 0, f.ParamObj(0))
		c.Check("sig-verify", "account/key.VerifyTx|delegates", f.Pos(), ok, "VerifyTx verifies against the transaction's own Account field")
	}
	// (b) chain-side verifier: every (_, nil) return is dominated by a successful key.VerifyTx*, or by the mempool-hit shortcut
	if f := c.Fn("chain.(*SignVerifier).verifyTx"); f != nil {
		g := f.Graph()
		gates := errEdgesOf(g, g.CallsTo("account/key.VerifyTx", "account/key.VerifyTxWithAddress"))
		hit := an.Set{}
		for _, s := range g.CallsTo("chain.(*SignVerifier).isInMempool") {
			for e := range g.BoolEdges(s, true) {
				hit[e] = true
			}
		}
		ok := len(gates) > 0
		for _, r := range g.NilReturns() {
			ok = ok && g.Dominated(r, gates.Union(hit))
		}
		c.Check("sig-verify", "chain.(*SignVerifier).verifyTx|accept", f.Pos(), ok, "the block-side verifier accepts a transaction only after key.VerifyTx/VerifyTxWithAddress succeeded, or on the mempool-hit shortcut (table row: sound because pool entry requires verification, see pool-entry)")
		// the name-owner arm verifies against the owner recorded in state
		for _, s := range g.CallsTo("account/key.VerifyTxWithAddress") {
			info := f.Info()
			ok := false
			if len(s.Call.Args) == 2 {
				if rhs, _ := g.SingleDef(an.ObjOf(info, s.Call.Args[1])); rhs != nil && containsCallTo(info, rhs, "contract/name.GetOwner") {
					ok = true
				}
			}
			c.Check("sig-verify", "chain.(*SignVerifier).verifyTx|owner", s.Call.Pos(), ok, "a named sender's signature is checked against the owner registered in the name contract state")
		}
	}
	// (c) pool entry: put only after verifyTx succeeded; verifyTx accepts only after Validate and key.VerifyTx*
	if f := c.Fn("mempool.(*TxVerifier).Receive"); f != nil {
		gt := errGate(c, f, "mempool.(*MemPool).verifyTx")
		mustPrecede(c, "pool-entry", f, gt, sitesOf(f, "mempool.(*MemPool).put"), nil, "a transaction enters the pool (and can later satisfy the verifier's mempool-hit shortcut) only after mempool.verifyTx succeeded")
	}
	if f := c.Fn("mempool.(*MemPool).verifyTx"); f != nil {
		g := f.Graph()
		gates := errEdgesOf(g, g.CallsTo("account/key.VerifyTx", "account/key.VerifyTxWithAddress"))
		val := errEdgesOf(g, g.CallsTo(c04Validate))
		ok := len(gates) > 0 && len(val) > 0
		for _, r := range g.NilReturns() {
			ok = ok && g.Dominated(r, gates) && g.Dominated(r, val)
		}
		c.Check("pool-entry", "mempool.(*MemPool).verifyTx|accept", f.Pos(), ok, "pool-side verification accepts only after tx.Validate and an ECDSA verification succeeded")
		for _, s := range g.CallsTo(c04Validate) {
			accept := p.LookupField("mempool", "MemPool", "acceptChainIdHash")
			ok := len(s.Call.Args) >= 1 && accept != nil && an.FieldOf(f.Info(), s.Call.Args[0]) == accept
			c.Check("chain-binding", "mempool.(*MemPool).verifyTx|Validate(arg0)", s.Call.Pos(), ok, "the pool validates against the chain id hash it accepts")
		}
	}
	// (d) block executor: commit and reward only after the signature wait succeeded (unless the block was executed by this node's own producer)
	if f := c.Fn("chain.(*blockExecutor).execute"); f != nil {
		g := f.Graph()
		info := f.Info()
		vsw := p.LookupField("chain", "blockExecutor", "validateSignWait")
		commitOnly := p.LookupField("chain", "blockExecutor", "commitOnly")
		calls := funcValueCalls(f, vsw)
		gates := errEdgesOf(g, calls)
		own := g.EdgesImplying(an.FieldAtom(info, commitOnly, "commitOnly"), map[string]bool{"commitOnly": true})
		// `if e.validateSignWait != nil`: the nil arm is covered by the wiring rule on newBlockExecutor
		// (validateSignWait is nil only when commitOnly is set)
		unset := g.EdgesImplying(func(e ast.Expr) (string, bool, bool) {
			be, ok := e.(*ast.BinaryExpr)
			if !ok || (be.Op != token.EQL && be.Op != token.NEQ) {
				return "", false, false
			}
			for _, pr := range [][2]ast.Expr{{be.X, be.Y}, {be.Y, be.X}} {
				if an.FieldOf(info, pr[0]) == vsw && vsw != nil {
					if tv, has := info.Types[pr[1]]; has && tv.IsNil() {
						return "unset", be.Op == token.NEQ, true
					}
				}
			}
			return "", false, false
		}, map[string]bool{"unset": true})
		own = own.Union(unset)
		targets := append(sitesOf(f, "chain.(*blockExecutor).commit"), funcValueCalls(f, p.LookupObjVar("chain", "SendBlockReward"))...)
		if vsw == nil || commitOnly == nil || len(targets) < 2 {
			c.Undecide("sign-wait", "chain.(*blockExecutor).execute", "anchors validateSignWait/commitOnly/commit/SendBlockReward not found")
		}
		for _, t := range targets {
			tn := "SendBlockReward"
			if t.Fn != nil {
				tn = shortName(an.FuncName(t.Fn))
			}
			ok := len(gates) > 0 && g.Dominated(t.Node, gates.Union(own))
			c.Check("sign-wait", "chain.(*blockExecutor).execute|validateSignWait < "+tn, t.Call.Pos(), ok, "a received block is rewarded/committed only after the asynchronous signature verification reported success (own-produced blocks: commitOnly)")
		}
	}
	if f := c.Fn("chain.newBlockExecutor"); f != nil {
		g := f.Graph()
		info := f.Info()
		// on the arm that builds a fresh state (received block) validateSignWait is assigned a literal that returns WaitVerifyDone()
		var lit *an.Func
		var asg *an.Node
		for _, n := range g.StmtNodes(func(n *an.Node) bool { _, ok := n.Ast.(*ast.AssignStmt); return ok }) {
			as := n.Ast.(*ast.AssignStmt)
			if len(as.Lhs) == 1 && len(as.Rhs) == 1 {
				if id, ok := as.Lhs[0].(*ast.Ident); ok && id.Name != "_" {
					if fl, ok := ast.Unparen(as.Rhs[0]).(*ast.FuncLit); ok {
						lf := c.Prog.LitFunc(fl)
						if lf != nil && len(lf.Graph().CallsTo("chain.(*BlockValidator).WaitVerifyDone")) == 1 {
							lit, asg = lf, n
						}
					}
				}
			}
		}
		ok := lit != nil
		if ok {
			// the literal returns the result of WaitVerifyDone
			lg := lit.Graph()
			for _, r := range lg.Returns() {
				rs := r.Ast.(*ast.ReturnStmt)
				if len(rs.Results) != 1 || !containsCallTo(lit.Info(), rs.Results[0], "chain.(*BlockValidator).WaitVerifyDone") {
					ok = false
				}
			}
			// the same arm validates the block (ValidateBlock requests the verification) and the other arm sets commitOnly
			vb := errGate(c, f, "chain.(*BlockValidator).ValidateBlock")
			ok = ok && len(vb.edges) > 0 && g.Dominated(asg, vb.edges)
			var co *an.Node
			for _, n := range g.StmtNodes(func(n *an.Node) bool { _, ok := n.Ast.(*ast.AssignStmt); return ok }) {
				as := n.Ast.(*ast.AssignStmt)
				if len(as.Lhs) == 1 && len(as.Rhs) == 1 {
					if tv, has := info.Types[as.Rhs[0]]; has && tv.Value != nil && tv.Value.ExactString() == "true" {
						if id, isID := as.Lhs[0].(*ast.Ident); isID && id.Name == "commitOnly" {
							co = n
						}
					}
				}
			}
			for _, r := range g.Returns() {
				rs := r.Ast.(*ast.ReturnStmt)
				if len(rs.Results) == 2 {
					if tv, has := info.Types[rs.Results[1]]; has && tv.IsNil() {
						ok = ok && co != nil && g.Dominated(r, an.SetOf(asg, co))
					}
				}
			}
		}
		c.Check("sign-wait", "chain.newBlockExecutor|wiring", f.Pos(), ok, "for a received block the executor is built only after ValidateBlock succeeded and with validateSignWait bound to BlockValidator.WaitVerifyDone; otherwise commitOnly is set")
	}
	// (e) ValidateBody requests verification of every non-empty body; WaitVerifyDone turns a failure into an error
	if f := c.Fn("chain.(*BlockValidator).ValidateBody"); f != nil {
		g := f.Graph()
		info := f.Info()
		req := g.CallsTo("chain.(*SignVerifier).RequestVerifyTxs")
		need := p.LookupField("chain", "BlockValidator", "isNeedWait")
		gates := nodesOf(req)
		// empty body shortcut: `len(txs) == 0` true edge
		empty := an.Set{}
		for _, n := range g.Nodes {
			if n.Kind != an.KTrue && n.Kind != an.KFalse {
				continue
			}
			be, ok := n.Ast.(*ast.BinaryExpr)
			if !ok {
				continue
			}
			if call, ok := ast.Unparen(be.X).(*ast.CallExpr); ok && an.IsBuiltin(info, call, "len") {
				if tv, has := info.Types[be.Y]; has && tv.Value != nil && tv.Value.ExactString() == "0" {
					if (be.Op == token.EQL && n.Kind == an.KTrue) || (be.Op == token.NEQ && n.Kind == an.KFalse) {
						empty[n] = true
					}
				}
			}
		}
		ok := len(req) >= 1
		for _, r := range g.NilReturns() {
			ok = ok && g.Dominated(r, gates.Union(empty))
		}
		c.Check("sign-request", "chain.(*BlockValidator).ValidateBody|request", posOf(req), ok, "every accepting return of ValidateBody for a non-empty body has requested signature verification of the transactions")
		// isNeedWait = true follows the request
		setOK := false
		for _, w := range c.Prog.FieldWrites(map[*types.Var]bool{need: true}) {
			if w.Fn == f {
				if n := g.NodeContaining(w.Pos); n != nil && g.Dominated(n, gates) {
					setOK = true
				}
			}
		}
		c.Check("sign-request", "chain.(*BlockValidator).ValidateBody|need-wait", posOf(req), setOK && need != nil, "the validator records that a verification result must be awaited")
		// the tx root comparison precedes
		var eq an.Set
		for _, s := range g.CallsTo("bytes.Equal") {
			if len(s.Call.Args) == 2 {
				for _, a := range s.Call.Args {
					if rhs, _ := g.SingleDef(an.ObjOf(info, a)); rhs != nil && containsCallTo(info, rhs, "types.CalculateTxsRootHash") {
						eq = g.BoolEdges(s, true)
					}
				}
			}
		}
		ok = len(eq) > 0
		for _, r := range g.NilReturns() {
			ok = ok && g.Dominated(r, eq)
		}
		c.Check("sign-request", "chain.(*BlockValidator).ValidateBody|tx-root", f.Pos(), ok, "ValidateBody accepts only if the header's tx root equals the root recomputed from the body")
	}
	if f := c.Fn("chain.(*BlockValidator).WaitVerifyDone"); f != nil {
		g := f.Graph()
		wd := g.CallsTo("chain.(*SignVerifier).WaitDone")
		need := p.LookupField("chain", "BlockValidator", "isNeedWait")
		pass := an.Set{}
		for _, s := range wd {
			for e := range g.BoolEdges(s, false) {
				pass[e] = true
			}
		}
		noNeed := g.EdgesImplying(an.FieldAtom(f.Info(), need, "need"), map[string]bool{"need": false})
		ok := len(wd) == 1 && len(pass) > 0
		for _, r := range g.NilReturns() {
			ok = ok && g.Dominated(r, pass.Union(noNeed))
		}
		c.Check("sign-wait", "chain.(*BlockValidator).WaitVerifyDone|failed-is-error", f.Pos(), ok, "WaitVerifyDone returns nil only if no wait was needed or the verifier reported failed == false")
	}
}
