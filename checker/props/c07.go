package props

import (
	"go/ast"
	"go/token"
	"go/types"

	"golang.org/x/tools/go/cfg"

	"verif/checker/internal/an"
	"verif/checker/internal/rep"
)

// C07 — fork choice: reorganisation reaches the longest valid branch.
//
// Decided clauses: the pipeline order of ChainService.reorg (gather, consensus
// veto, rollback, roll-forward, swap) with every step gated by the success of
// the previous one; the roll-forward executes every block of the branch through
// the validating executor; "strictly longer" is decided identically by
// needReorg and swapChainMapping; abandoned transactions are handed back to the
// pool; a failed roll-forward restores the state of the best block.

func init() { register("C07", runC07) }

func runC07(c *rep.Ctx) {
	c.Explain = "Decides the shape of the reorganisation pipeline on all control-flow paths: in ChainService.reorg the branch is gathered, the consensus veto is consulted, the state is rolled back, the branch is rolled forward and the chain mapping swapped, each only after the previous step succeeded, and no state-root write precedes the veto; rollforward executes every gathered block, oldest first, through the function bound to the reorganiser (the validating executeBlock for a live reorganisation) and stops at the first failure; the 'strictly longer' decision uses the exact operator in needReorg and the complementary one in swapChainMapping, and the reorg is attempted only for a side-branch tip; every transaction that was only on the abandoned branch is sent to the pool; after a failed roll-forward the state root and consensus status of the best block are restored before the error is returned. It does not decide that the resulting state equals an independent re-execution."
	c.NotDecided = []string{"equality of the resulting state with an independent re-execution", "delivery interleavings", "LIB geometry"}
	c.Assume = []string{"function values stored in reorganizer fields are resolved through the assignments in newReorganizer"}
	c07Pipeline(c)
	c07Rollforward(c)
	c07Strictness(c)
	c07Abandoned(c)
	c07Gather(c)
}

func c07FieldCalls(c *rep.Ctx, f *an.Func, typ, field string) []an.Site {
	v := c.Prog.LookupField("chain", typ, field)
	if v == nil {
		c.Undecide("anchor", "chain."+typ+"."+field, "field not found")
		return nil
	}
	return funcValueCalls(f, v)
}

func c07Pipeline(c *rep.Ctx) {
	f := c.Fn("chain.(*ChainService).reorg")
	if f == nil {
		return
	}
	g := f.Graph()
	info := f.Info()
	gather := c07FieldCalls(c, f, "reorganizer", "gatherFn")
	veto := sitesOf(f, "consensus.(ChainConsensus).NeedReorganization")
	rb := sitesOf(f, "chain.(*reorganizer).rollback")
	rf := sitesOf(f, "chain.(*reorganizer).rollforward")
	sw := sitesOf(f, "chain.(*reorganizer).swapChain")
	if len(gather) != 1 || len(veto) != 1 || len(rb) != 1 || len(rf) != 1 || len(sw) != 1 {
		c.Check("pipeline", "chain.(*ChainService).reorg|steps", f.Pos(), false, "expected exactly one call each of gatherFn, NeedReorganization, rollback, rollforward, swapChain")
		return
	}
	gOK := g.ErrNilEdges(gather[0])
	vOK := g.BoolEdges(veto[0], true)
	rbOK := g.ErrNilEdges(rb[0])
	rfOK := g.ErrNilEdges(rf[0])
	step := func(name string, target an.Site, gates an.Set, why string) {
		c.Check("pipeline", "chain.(*ChainService).reorg|"+name, target.Call.Pos(), len(gates) > 0 && g.Dominated(target.Node, gates), why)
	}
	step("gather < veto", veto[0], gOK, "the consensus veto is asked about the fork point found by a successful gather")
	step("veto < rollback", rb[0], vOK, "the state is rolled back only after the consensus allowed the reorganisation (no fork below the irreversible block)")
	step("rollback < rollforward", rf[0], rbOK, "the branch is executed only after the state root was set to the fork point")
	step("rollforward < swapChain", sw[0], rfOK, "the chain mapping is swapped only after every block of the branch executed and validated")
	// the veto is asked about the fork point
	brStart := c.Prog.LookupField("chain", "reorganizer", "brStartBlock")
	// the argument of the veto is decided exactly (linear form, locals and header spellings resolved) by
	// reorg-veto|...|argument in c08_gap.go, which is registered for C07 as well; the former check here
	// (field read + BlockNo call somewhere in the argument) let `BlockNo()+1` pass and tripped on a local.
	_, _ = brStart, info
	// nothing that moves the state root precedes the veto
	for _, s := range g.Calls(func(fn *types.Func, call *ast.CallExpr) bool {
		if fn == nil {
			return false
		}
		n := an.FuncName(fn)
		return n == "state.(*ChainStateDB).SetRoot" || n == "chain.(*reorganizer).rollback" || n == "chain.(*reorganizer).rollforward" || n == "chain.(*reorganizer).swapChain"
	}) {
		c.Check("pipeline", "chain.(*ChainService).reorg|no-state-before-veto|"+shortName(an.FuncName(s.Fn)), s.Call.Pos(), g.Dominated(s.Node, vOK), "no step that changes state or chain mapping is reachable before the consensus veto passed")
	}
	// failure restore: every return reachable after a successful rollback, other than through a successful swap,
	// is preceded by a restore of the best block's state (a callee that sets the state root from reorg.bestBlock)
	restore := an.Set{}
	cg := c.Prog.BuildCallGraphCached()
	bestF := c.Prog.LookupField("chain", "reorganizer", "bestBlock")
	for _, s := range g.Calls(nil) {
		if s.Fn == nil {
			continue
		}
		cf := c.Prog.FuncOf(s.Fn)
		if cf == nil || cf.Body == nil || cf.Name() == "chain.(*reorganizer).rollback" || cf.Name() == "chain.(*reorganizer).rollforward" || cf.Name() == "chain.(*reorganizer).swapChain" {
			continue
		}
		sets := cf.Graph().CallsTo("state.(*ChainStateDB).SetRoot")
		upd := cf.Graph().CallsTo("consensus.(ChainConsensus).Update")
		if len(sets) == 1 && len(upd) >= 1 && bestF != nil && readsField(cf.Info(), cf.Body, bestF) && !readsField(cf.Info(), cf.Body, brStart) {
			// its failure must not be ignored
			if len(g.ErrNilEdges(s)) > 0 {
				restore[s.Node] = true
			}
		}
	}
	_ = cg
	swOK := g.ErrNilEdges(sw[0])
	okRestore := true
	var badPos token.Pos
	after := g.Reach(setNodes(rbOK), nil)
	for _, r := range g.Returns() {
		if !after[r] {
			continue
		}
		// returns on the fully successful path
		if g.Dominated(r, swOK) {
			continue
		}
		// swapChain failure is fatal (logger.Fatal) or a debug stop: table row
		if g.Dominated(r, nodesOf(sw)) {
			continue
		}
		if !g.Dominated(r, restore) {
			okRestore = false
			badPos = r.Ast.Pos()
		}
	}
	if badPos == token.NoPos {
		badPos = rf[0].Call.Pos()
	}
	c.Check("failure-restore", "chain.(*ChainService).reorg|after-rollback", badPos, okRestore, "every error exit after the state root was moved to the fork point first restores the state root and consensus status of the best block (the chain DB still names it as the tip)")
}

func c07Rollforward(c *rep.Ctx) {
	p := c.Prog
	f := c.Fn("chain.(*reorganizer).rollforward")
	if f == nil {
		return
	}
	g := f.Graph()
	info := f.Info()
	exec := c07FieldCalls(c, f, "reorganizer", "executeBlockFn")
	newBlocks := p.LookupField("chain", "reorganizer", "newBlocks")
	ok := len(exec) == 1 && g.InLoop(exec[0].Node)
	var loop *ast.ForStmt
	ast.Inspect(f.Body, func(n ast.Node) bool {
		if fs, isFor := n.(*ast.ForStmt); isFor && loop == nil {
			loop = fs
		}
		return true
	})
	covers := false
	if ok && loop != nil {
		covers = c07LoopCoversDescending(info, loop, newBlocks)
		// the executed block is the loop element
		if len(exec[0].Call.Args) == 2 {
			o := an.ObjOf(info, exec[0].Call.Args[1])
			rhs, _ := g.SingleDefInLoop(o)
			if rhs == nil || !readsField(info, rhs, newBlocks) {
				covers = false
			}
		}
	}
	c.Check("rollforward", "chain.(*reorganizer).rollforward|every-block", f.Pos(), ok && covers, "every gathered block of the new branch is executed, from the oldest (last gathered) to the tip")
	// a failure stops the roll-forward with an error
	okStop := ok
	if ok {
		okEdges := g.ErrNilEdges(exec[0])
		for _, r := range g.NilReturns() {
			if !g.Dominated(r, okEdges) && g.Reach(exec[0].Node.Succs, okEdges)[r] {
				okStop = false
			}
		}
		// the loop does not continue past a failure: the back edge to the call is only reachable through the success edge
		if g.Reach(exec[0].Node.Succs, okEdges)[exec[0].Node] {
			okStop = false
		}
		okStop = okStop && len(okEdges) > 0
	}
	c.Check("rollforward", "chain.(*reorganizer).rollforward|stop-on-failure", f.Pos(), okStop, "the first block that fails execution or validation aborts the roll-forward with an error")
	// binding of the executor
	field := p.LookupField("chain", "reorganizer", "executeBlockFn")
	vals := p.BuildCallGraphCached().FuncValues(field)
	names := map[string]bool{}
	for _, v := range vals {
		names[v.Name()] = true
	}
	c.Check("rollforward", "chain.newReorganizer|executor-binding", f.Pos(), len(names) == 2 && names["chain.(*ChainService).executeBlock"] && names["chain.(*ChainService).executeBlockReco"], "the roll-forward executor is bound only to executeBlock (live) or executeBlockReco (crash recovery)")
	if nf := c.Fn("chain.newReorganizer"); nf != nil {
		ng := nf.Graph()
		ni := nf.Info()
		okLive := false
		for _, n := range ng.StmtNodes(func(n *an.Node) bool { _, ok := n.Ast.(*ast.AssignStmt); return ok }) {
			as := n.Ast.(*ast.AssignStmt)
			if len(as.Lhs) != 1 || an.FieldOf(ni, as.Lhs[0]) != field {
				continue
			}
			sel, isSel := ast.Unparen(as.Rhs[0]).(*ast.SelectorExpr)
			if !isSel {
				continue
			}
			fo, _ := ni.Uses[sel.Sel].(*types.Func)
			if fo == nil || an.FuncName(fo) != "chain.(*ChainService).executeBlockReco" {
				continue
			}
			// the recovery executor is installed only when a marker was given
			marker := nf.ParamObj(2)
			facts := ng.FactsAt(n)
			for _, ft := range facts {
				if ft.Val && marker != nil {
					if o := an.ObjOf(ni, ft.Cond); o != nil {
						if rhs, _ := ng.SingleDef(o); rhs != nil && mentions(ni, rhs, marker) {
							okLive = true
						}
					}
					if mentions(ni, ft.Cond, marker) {
						okLive = true
					}
				}
			}
		}
		c.Check("rollforward", "chain.newReorganizer|reco-only-with-marker", nf.Pos(), okLive, "the non-validating recovery executor is installed only when a persisted reorg marker is being replayed")
	}
}

// c07LoopCoversDescending:  for i := len(X.f)-1; i >= 0; i--
func c07LoopCoversDescending(info *types.Info, fs *ast.ForStmt, field *types.Var) bool {
	as, ok := fs.Init.(*ast.AssignStmt)
	if !ok || len(as.Lhs) != 1 || len(as.Rhs) != 1 {
		return false
	}
	iv := an.ObjOf(info, as.Lhs[0])
	be, ok := ast.Unparen(as.Rhs[0]).(*ast.BinaryExpr)
	if !ok || be.Op != token.SUB {
		return false
	}
	call, ok := ast.Unparen(be.X).(*ast.CallExpr)
	if !ok || !an.IsBuiltin(info, call, "len") || an.FieldOf(info, call.Args[0]) != field || field == nil {
		return false
	}
	if tv, has := info.Types[be.Y]; !has || tv.Value == nil || tv.Value.ExactString() != "1" {
		return false
	}
	cond, ok := fs.Cond.(*ast.BinaryExpr)
	if !ok || an.ObjOf(info, cond.X) != iv {
		return false
	}
	tv, has := info.Types[cond.Y]
	if !has || tv.Value == nil {
		return false
	}
	if !((cond.Op == token.GEQ && tv.Value.ExactString() == "0") || (cond.Op == token.GTR && tv.Value.ExactString() == "-1")) {
		return false
	}
	post, ok := fs.Post.(*ast.IncDecStmt)
	return ok && post.Tok == token.DEC && an.ObjOf(info, post.X) == iv
}

func c07Strictness(c *rep.Ctx) {
	// needReorg: true exactly when latest < blockNo
	if f := c.Fn("chain.(*ChainService).needReorg"); f != nil {
		info := f.Info()
		g := f.Graph()
		roleLatest := func(e ast.Expr) bool {
			if o := an.ObjOf(info, e); o != nil {
				if rhs, _ := g.SingleDef(o); rhs != nil {
					return containsCallTo(info, rhs, "chain.(*ChainDB).getBestBlockNo")
				}
			}
			return containsCallTo(info, e, "chain.(*ChainDB).getBestBlockNo")
		}
		roleNo := func(e ast.Expr) bool {
			if o := an.ObjOf(info, e); o != nil {
				if rhs, _ := g.SingleDef(o); rhs != nil {
					return containsCallTo(info, rhs, "types.(*Block).BlockNo")
				}
			}
			return containsCallTo(info, e, "types.(*Block).BlockNo")
		}
		cmps, und := f.ExprCmps(roleLatest, roleNo, 0)
		ok := len(cmps) == 1 && len(und) == 0 && cmps[0].Op == token.LSS
		pos := f.Pos()
		if len(cmps) > 0 {
			pos = cmps[0].Expr.Pos()
			// the comparison is what the function returns
			retOK := false
			for _, r := range g.Returns() {
				rs := r.Ast.(*ast.ReturnStmt)
				if len(rs.Results) == 1 {
					if ast.Unparen(rs.Results[0]) == cmps[0].Expr {
						retOK = true
					}
					if o := an.ObjOf(info, rs.Results[0]); o != nil {
						if rhs, _ := g.SingleDef(o); rhs != nil && ast.Unparen(rhs) == cmps[0].Expr {
							retOK = true
						}
					}
				}
			}
			ok = ok && retOK
		}
		c.Check("strictly-longer", "chain.(*ChainService).needReorg|operator", pos, ok, "a side branch displaces the main chain only if its tip is strictly higher: best block number < branch tip number")
	}
	// swapChainMapping refuses old >= new
	if f := c.Fn("chain.(*ChainDB).swapChainMapping"); f != nil {
		info := f.Info()
		g := f.Graph()
		roleOld := func(e ast.Expr) bool {
			if o := an.ObjOf(info, e); o != nil {
				if rhs, _ := g.SingleDef(o); rhs != nil {
					return containsCallTo(info, rhs, "chain.(*ChainDB).getBestBlockNo")
				}
			}
			return containsCallTo(info, e, "chain.(*ChainDB).getBestBlockNo")
		}
		// the number of element 0 (the tip) of the parameter slice: a number getter (or the header's number
		// field) applied to newBlocks[0]; a once-defined local holding the element or the number is resolved
		param := f.ParamObj(0)
		isTip := func(e ast.Expr) bool {
			ix, isIx := ast.Unparen(c07GapResolve(g, e)).(*ast.IndexExpr)
			return isIx && param != nil && g.SingleDefOrParam(param) && an.ObjOf(info, ix.X) == param && c07GapConstIs(info, ix.Index, "0")
		}
		roleNew := func(e ast.Expr) bool {
			root, isNo := c07NumberOf(g, e)
			return isNo && isTip(root)
		}
		cmps, und := g.OrdCmps(roleOld, roleNew, 0)
		ok := len(cmps) == 1 && len(und) == 0
		pos := f.Pos()
		if ok {
			pos = cmps[0].Expr.Pos()
			nilRets := g.NilReturns()
			for _, sign := range []int{0, +1} {
				e := g.EdgeFor(cmps[0], sign)
				if e == nil || g.CanReachAny(e, nilRets) {
					ok = false
				}
			}
			e := g.EdgeFor(cmps[0], -1)
			if e == nil || !g.CanReachAny(e, nilRets) {
				ok = false
			}
			// the guard precedes every write
			for _, s := range g.Calls(func(fn *types.Func, _ *ast.CallExpr) bool {
				return fn != nil && (fn.Name() == "Set" || fn.Name() == "Flush") && c02IsDbWriterOrFlush(fn)
			}) {
				if !g.Dominated(s.Node, an.SetOf(cmps[0].Node)) {
					ok = false
				}
			}
		}
		c.Check("strictly-longer", "chain.(*ChainDB).swapChainMapping|guard", pos, ok, "the height mapping is swapped only to a strictly higher tip (equal or lower is refused before anything is written)")
	}
	// the reorg is tried only for a side-branch tip that is higher
	if f := c.Fn("chain.(*chainProcessor).reorganize"); f != nil {
		g := f.Graph()
		info := f.Info()
		isMain := c.Prog.LookupField("chain", "chainProcessor", "isMainChain")
		at := func(e ast.Expr) (string, bool, bool) {
			if an.FieldOf(info, e) == isMain && isMain != nil {
				return "main", false, true
			}
			if call, ok := ast.Unparen(e).(*ast.CallExpr); ok && an.CalleeName(info, call) == "chain.(*ChainService).needReorg" {
				return "need", false, true
			}
			return "", false, false
		}
		for _, s := range sitesOf(f, "chain.(*ChainService).reorg") {
			ok, how := g.GuardedAt(s.Node, at, map[string]bool{"main": false, "need": true})
			c.Check("strictly-longer", "chain.(*chainProcessor).reorganize|guard", s.Call.Pos(), ok, "a reorganisation is attempted only when the processed block ended a side branch and needReorg holds: "+how)
			last := c.Prog.LookupField("chain", "chainProcessor", "lastBlock")
			okArg := len(s.Call.Args) == 2 && an.FieldOf(info, s.Call.Args[0]) == last && last != nil
			for _, nr := range sitesOf(f, "chain.(*ChainService).needReorg") {
				okArg = okArg && len(nr.Call.Args) == 1 && an.FieldOf(info, nr.Call.Args[0]) == last
			}
			c.Check("strictly-longer", "chain.(*chainProcessor).reorganize|same-block", s.Call.Pos(), okArg, "the block tested by needReorg is the branch tip handed to reorg")
		}
	}
}

// c07NumberOf: e (once-defined locals resolved) is the block number of some block expression, spelled as a
// number getter at the end of a method chain (b.BlockNo(), b.GetHeader().GetBlockNo()) or as the header's number
// field (b.Header.BlockNo, b.GetHeader().BlockNo); returns the expression the chain starts at.
func c07NumberOf(g *an.Graph, e ast.Expr) (ast.Expr, bool) {
	info := g.Fn.Info()
	e = ast.Unparen(c07GapResolve(g, e))
	switch x := e.(type) {
	case *ast.CallExpr:
		if !c07GapNoGetters[an.CalleeName(info, x)] {
			return nil, false
		}
	case *ast.SelectorExpr:
		fv := an.FieldOf(info, x)
		if fv == nil || fv.Name() != "BlockNo" || fv.Pkg() == nil || fv.Pkg().Path() != an.Module+"/types" {
			return nil, false
		}
	default:
		return nil, false
	}
	// down the chain of method calls and field selections to the block the number is read from
	for {
		e = ast.Unparen(e)
		if call, isCall := e.(*ast.CallExpr); isCall {
			sel, isSel := ast.Unparen(call.Fun).(*ast.SelectorExpr)
			if !isSel || info.Selections[sel] == nil {
				return nil, false
			}
			e = sel.X
			continue
		}
		if sel, isSel := e.(*ast.SelectorExpr); isSel {
			// a field of the block / header structures themselves (b.Header, h.BlockNo), not of the struct that holds the block
			if fv := an.FieldOf(info, sel); fv != nil && fv.Pkg() != nil && fv.Pkg().Path() == an.Module+"/types" {
				e = sel.X
				continue
			}
		}
		return e, true
	}
}

func c02IsDbWriterOrFlush(fn *types.Func) bool {
	switch an.FuncName(fn) {
	case "github.com/aergoio/aergo-lib/db.(Transaction).Set", "github.com/aergoio/aergo-lib/db.(Bulk).Set", "github.com/aergoio/aergo-lib/db.(Bulk).Flush", "github.com/aergoio/aergo-lib/db.(Transaction).Commit":
		return true
	}
	return false
}

// c07EveryIteration: the range loop runs over all its elements and every iteration passes the vertex must: the
// loop header cannot be reached again from the start of the body without passing must, and the body is left
// only through the header (no break / return / goto out of it; a panic ends everything).
func c07EveryIteration(g *an.Graph, loop *ast.RangeStmt, must *an.Node) bool {
	if must == nil {
		return false
	}
	// go/cfg gives a range loop an empty header block (two-way branch: next element / done)
	var head, enter *an.Node
	for _, n := range g.Nodes {
		if n.Kind == an.KHead && n.Block != nil && n.Block.Kind == cfg.KindRangeLoop && n.Block.Stmt == ast.Stmt(loop) {
			head = n
		}
	}
	if head == nil {
		return false
	}
	for _, s := range head.Succs {
		if s.Kind == an.KTrue && s.Cond == head {
			enter = s
		}
	}
	if enter == nil {
		return false
	}
	if g.Reach([]*an.Node{enter}, an.SetOf(must))[head] {
		return false
	}
	inBody := map[ast.Node]bool{}
	ast.Inspect(loop.Body, func(n ast.Node) bool {
		if n != nil {
			inBody[n] = true
		}
		return true
	})
	for n := range g.Reach([]*an.Node{enter}, an.SetOf(head)) {
		switch {
		case n == g.Panic || n == enter:
		case n == g.Exit:
			return false
		case n.Ast != nil:
			if !inBody[n.Ast] {
				return false
			}
		case n.Block == nil:
			return false
		case n.Block.Stmt == ast.Stmt(loop):
			if n.Block.Kind != cfg.KindRangeBody {
				return false
			}
		default:
			if n.Block.Stmt == nil || !inBody[n.Block.Stmt] {
				return false
			}
		}
	}
	return true
}

func c07Abandoned(c *rep.Ctx) {
	f := c.Fn("chain.(*reorganizer).swapTxMapping")
	if f == nil {
		return
	}
	g := f.Graph()
	info := f.Info()
	p := c.Prog
	oldBlocks := p.LookupField("chain", "reorganizer", "oldBlocks")
	newBlocks := p.LookupField("chain", "reorganizer", "newBlocks")
	// the map collecting the old transactions
	var oldTxs types.Object
	var ranges []*ast.RangeStmt
	ast.Inspect(f.Body, func(n ast.Node) bool {
		if rs, ok := n.(*ast.RangeStmt); ok {
			ranges = append(ranges, rs)
		}
		return true
	})
	// fill: range reorg.oldBlocks { range block txs { oldTxs[id] = tx } } -- every iteration of both loops
	// reaches the store and neither loop is left early (decided on the control-flow graph: other statements in
	// the loop bodies, e.g. a counter or a log line, do not matter)
	fillOK := false
	for _, rs := range ranges {
		if an.FieldOf(info, rs.X) != oldBlocks || oldBlocks == nil {
			continue
		}
		an.InspectShallow(rs.Body, func(n ast.Node) bool {
			inner, ok := n.(*ast.RangeStmt)
			if !ok || !containsCallTo(info, c07GapResolve(g, inner.X), "types.(*BlockBody).GetTxs") {
				return true
			}
			tx := an.ObjOf(info, inner.Value)
			if inner.Value == nil || tx == nil {
				return true
			}
			an.InspectShallow(inner.Body, func(m ast.Node) bool {
				as, ok := m.(*ast.AssignStmt)
				if !ok || len(as.Lhs) != 1 || len(as.Rhs) != 1 {
					return true
				}
				ix, ok := ast.Unparen(as.Lhs[0]).(*ast.IndexExpr)
				if !ok || an.ObjOf(info, as.Rhs[0]) != tx || !mentions(info, ix.Index, tx) || an.ObjOf(info, ix.X) == nil {
					return true
				}
				oldTxs = an.ObjOf(info, ix.X)
				fillOK = c07EveryIteration(g, inner, g.NodeOf(as)) && c07EveryIteration(g, rs, g.NodeOf(inner.X))
				return true
			})
			return true
		})
	}
	c.Check("abandoned-txs", "chain.(*reorganizer).swapTxMapping|collect", f.Pos(), fillOK && oldTxs != nil, "every transaction of every rolled-back block is collected (keyed by its own hash)")
	if oldTxs == nil {
		return
	}
	// removal only of transactions that are in a new block
	delOK := false
	for _, rs := range ranges {
		if !containsCallTo(info, rs.X, "types.(*BlockBody).GetTxs") {
			continue
		}
		ast.Inspect(rs.Body, func(n ast.Node) bool {
			call, ok := n.(*ast.CallExpr)
			if ok && an.IsBuiltin(info, call, "delete") && len(call.Args) == 2 && an.ObjOf(info, call.Args[0]) == oldTxs {
				if mentions(info, call.Args[1], an.ObjOf(info, rs.Value)) {
					delOK = true
				}
			}
			return true
		})
	}
	nDel := 0
	ast.Inspect(f.Body, func(n ast.Node) bool {
		if call, ok := n.(*ast.CallExpr); ok && an.IsBuiltin(info, call, "delete") && len(call.Args) == 2 && an.ObjOf(info, call.Args[0]) == oldTxs {
			nDel++
		}
		return true
	})
	c.Check("abandoned-txs", "chain.(*reorganizer).swapTxMapping|remove-reincluded", f.Pos(), delOK && nDel == 1, "a collected transaction is dropped from the set only because the same hash occurs in a block of the new branch")
	// every remaining one is sent to the pool
	sendOK := false
	var sendRange *ast.RangeStmt
	for _, rs := range ranges {
		if an.ObjOf(info, rs.X) != oldTxs {
			continue
		}
		ast.Inspect(rs.Body, func(n ast.Node) bool {
			cl, ok := n.(*ast.CompositeLit)
			if !ok {
				return true
			}
			tv, has := info.Types[cl]
			if !has || tv.Type == nil || types.TypeString(tv.Type, nil) != an.Module+"/types/message.MemPoolPut" {
				return true
			}
			for _, el := range cl.Elts {
				if kv, ok := el.(*ast.KeyValueExpr); ok && an.ObjOf(info, kv.Value) == an.ObjOf(info, rs.Value) && rs.Value != nil {
					sendOK = true
					sendRange = rs
				}
			}
			return true
		})
	}
	if sendOK {
		// the send loop has no early exit and is skipped only when the set is empty
		ast.Inspect(sendRange.Body, func(n ast.Node) bool {
			switch s := n.(type) {
			case *ast.BranchStmt:
				if s.Tok == token.BREAK || s.Tok == token.GOTO {
					sendOK = false
				}
			case *ast.ReturnStmt:
				sendOK = false
			}
			return true
		})
		xNode := g.NodeOf(sendRange.X)
		for _, r := range g.NilReturns() {
			if xNode == nil {
				sendOK = false
				break
			}
			empty := an.Set{}
			for _, ft := range g.Nodes {
				if ft.Kind != an.KFalse && ft.Kind != an.KTrue {
					continue
				}
				be, ok := ft.Ast.(*ast.BinaryExpr)
				if !ok {
					continue
				}
				// count > 0 where count := len(oldTxs)
				if o := an.ObjOf(info, be.X); o != nil {
					if rhs, _ := g.SingleDef(o); rhs != nil {
						if call, ok := ast.Unparen(rhs).(*ast.CallExpr); ok && an.IsBuiltin(info, call, "len") && an.ObjOf(info, call.Args[0]) == oldTxs {
							if tv, has := info.Types[be.Y]; has && tv.Value != nil && tv.Value.ExactString() == "0" && be.Op == token.GTR && ft.Kind == an.KFalse {
								empty[ft] = true
							}
						}
					}
				}
			}
			if !g.Dominated(r, an.SetOf(xNode).Union(empty)) {
				sendOK = false
			}
		}
	}
	c.Check("abandoned-txs", "chain.(*reorganizer).swapTxMapping|resubmit", f.Pos(), sendOK, "every transaction left in the set (only on the abandoned branch) is sent to the transaction pool as MemPoolPut before the function succeeds")
	// the new branch's index is written for every new block
	idxOK := false
	ast.Inspect(f.Body, func(n ast.Node) bool {
		fs, ok := n.(*ast.ForStmt)
		if ok && c07LoopCoversDescending(info, fs, newBlocks) && containsCallTo(info, fs.Body, "chain.(*ChainDB).addTxsOfBlock") {
			idxOK = true
		}
		return true
	})
	c.Check("abandoned-txs", "chain.(*reorganizer).swapTxMapping|index-new", f.Pos(), idxOK, "the transaction index is rewritten for every block of the new branch")
}

func c07Gather(c *rep.Ctx) {
	f := c.Fn("chain.(*reorganizer).gather")
	if f == nil {
		return
	}
	g := f.Graph()
	info := f.Info()
	brStart := c.Prog.LookupField("chain", "reorganizer", "brStartBlock")
	// the fork point is set only where the branch block equals the main-chain block of the same height
	// (which two blocks are compared is decided exactly by gather-walk|fork-test-operands in c07_gap.go; here the
	// test is only located: both operands are block hashes, a once-defined local holding one is resolved)
	isHash := func(e ast.Expr) bool {
		return c07GapGetterOn(g, e, c07GapHashGetters, func(ast.Expr) bool { return true })
	}
	eq := an.Set{}
	for _, s := range g.CallsTo("bytes.Equal") {
		if len(s.Call.Args) == 2 && isHash(s.Call.Args[0]) && isHash(s.Call.Args[1]) {
			eq = eq.Union(g.BoolEdges(s, true))
		}
	}
	n := 0
	for _, w := range c.Prog.FieldWrites(map[*types.Var]bool{brStart: true}) {
		if w.Fn != f {
			continue
		}
		n++
		node := g.NodeContaining(w.Pos)
		c.Check("gather", "chain.(*reorganizer).gather|fork-point", w.Pos, node != nil && len(eq) > 0 && g.Dominated(node, eq), "the fork point is a block whose hash equals the main-chain block at the same height")
	}
	if n == 0 {
		c.Undecide("gather", "chain.(*reorganizer).gather", "no assignment of the fork point found")
	}
	// success only after the fork point was found with non-empty old and new lists
	for _, r := range g.NilReturns() {
		c.Check("gather", "chain.(*reorganizer).gather|success", r.Ast.Pos(), len(eq) > 0 && g.Dominated(r, eq), "gather succeeds only when a common ancestor on the main chain was found")
	}
	// parent linkage: each step goes to the block named by PrevBlockHash and checks the number decreases by one
	prev := g.CallsTo("chain.(*ChainDB).getBlock")
	okLink := false
	for _, s := range prev {
		if len(s.Call.Args) == 1 && containsCallTo(info, s.Call.Args[0], "types.(*BlockHeader).GetPrevBlockHash") && len(g.ErrNilEdges(s)) > 0 {
			okLink = true
		}
	}
	c.Check("gather", "chain.(*reorganizer).gather|parent-link", posOf(prev), okLink, "the side branch is walked through the parent hashes (failing when a parent is missing)")
}
