package props

import (
	"go/ast"
	"go/constant"
	"go/token"
	"go/types"
	"strings"

	"verif/checker/internal/an"
	"verif/checker/internal/rep"
)

// C07 gap rules (fork choice / reorganisation).
//
// Added after a systematic mutation review of every anchor of the property.
// Each rule is a necessary condition of "the node switches to the strictly
// longer valid branch, ends in exactly that branch's state, and offers the
// abandoned transactions back to the pool", decided from the shape of the code
// on all paths.  Values are compared by role (which block a value denotes:
// fork point, best block, walked branch block, main-chain block of the same
// height, loop element), never by spelling: once-defined locals are resolved,
// constants are folded, getters are followed to the object they are called on.

func init() {
	extend("C07", c07GapVetoArg)
	extend("C07", c07GapTipTracking)
	extend("C07", c07GapReorgAttempted)
	extend("C07", c07GapStateMoves)
	extend("C07", c07GapParamsReload)
	extend("C07", c07GapGather)
	extend("C07", c07GapRollforwardElem)
	extend("C07", c07GapSwapTip)
	extend("C07", c07GapSwapSkip)
	extend("C07", c07GapResubmit)
	extend("C07", c07GapMempoolFollows)
	extend("C07", c07GapExecRoot)
	extend("C07", c07GapVetoRefusal)
}

// ---------------------------------------------------------------------------
// helpers

var c07GapNoGetters = map[string]bool{
	"types.(*Block).BlockNo":          true,
	"types.(*BlockHeader).GetBlockNo": true,
}

var c07GapHashGetters = map[string]bool{
	"types.(*Block).BlockHash": true,
	"types.(*Block).GetHash":   true,
}

const c07GapRootGetter = "types.(*BlockHeader).GetBlocksRootHash"

// c07GapResolve follows locals that have exactly one definition (possibly
// inside a loop body) to the defining expression.
func c07GapResolve(g *an.Graph, e ast.Expr) ast.Expr {
	info := g.Fn.Info()
	for i := 0; i < 4; i++ {
		e = ast.Unparen(e)
		o := an.ObjOf(info, e)
		if o == nil {
			return e
		}
		v, ok := o.(*types.Var)
		if !ok || v.IsField() || (v.Pkg() != nil && v.Parent() == v.Pkg().Scope()) {
			return e
		}
		rhs, idx := g.SingleDefInLoop(o)
		if rhs == nil || idx != 0 {
			return e
		}
		if tv, has := info.Types[rhs]; has {
			if _, isTuple := tv.Type.(*types.Tuple); isTuple {
				return e
			}
		}
		e = rhs
	}
	return e
}

// c07GapSplit strips parentheses, conversions and +/- integer constants:
// e = base + off.
func c07GapSplit(info *types.Info, e ast.Expr) (ast.Expr, int64, bool) {
	e = ast.Unparen(e)
	cv := func(x ast.Expr) (int64, bool) {
		tv, ok := info.Types[x]
		if !ok || tv.Value == nil || tv.Value.Kind() != constant.Int {
			return 0, false
		}
		return constant.Int64Val(tv.Value)
	}
	if be, ok := e.(*ast.BinaryExpr); ok && (be.Op == token.ADD || be.Op == token.SUB) {
		if k, ok := cv(be.Y); ok {
			base, off, ok2 := c07GapSplit(info, be.X)
			if be.Op == token.SUB {
				k = -k
			}
			return base, off + k, ok2
		}
		if k, ok := cv(be.X); ok && be.Op == token.ADD {
			base, off, ok2 := c07GapSplit(info, be.Y)
			return base, off + k, ok2
		}
		return e, 0, false
	}
	if call, ok := e.(*ast.CallExpr); ok && len(call.Args) == 1 {
		if tv, ok := info.Types[call.Fun]; ok && tv.IsType() {
			return c07GapSplit(info, call.Args[0])
		}
	}
	return e, 0, true
}

// c07GapLin resolves locals and folds constants alternately: e = base + off.
func c07GapLin(g *an.Graph, e ast.Expr) (ast.Expr, int64, bool) {
	info := g.Fn.Info()
	var total int64
	for i := 0; i < 4; i++ {
		b, off, ok := c07GapSplit(info, c07GapResolve(g, e))
		if !ok {
			return b, total, false
		}
		total += off
		if b == ast.Unparen(e) {
			return b, total, true
		}
		e = b
	}
	return ast.Unparen(e), total, true
}

// c07GapChainRoot: the object a chain of method calls is applied to,
// a.B().C() -> a.  ok is false when a call in the chain is not a method call.
func c07GapChainRoot(info *types.Info, e ast.Expr) (ast.Expr, bool) {
	for {
		e = ast.Unparen(e)
		call, isCall := e.(*ast.CallExpr)
		if !isCall {
			return e, true
		}
		sel, isSel := ast.Unparen(call.Fun).(*ast.SelectorExpr)
		if !isSel || info.Selections[sel] == nil {
			return e, false
		}
		e = sel.X
	}
}

// c07GapGetterOn: e (locals resolved) is a call of one of the getters whose
// method chain starts at an expression accepted by root.
func c07GapGetterOn(g *an.Graph, e ast.Expr, getters map[string]bool, root func(ast.Expr) bool) bool {
	info := g.Fn.Info()
	e = c07GapResolve(g, e)
	call, ok := ast.Unparen(e).(*ast.CallExpr)
	if !ok || !getters[an.CalleeName(info, call)] {
		return false
	}
	r, ok := c07GapChainRoot(info, call)
	return ok && root(r)
}

// c07GapDenotesField: e is the struct field, or a once-defined local holding it.
func c07GapDenotesField(g *an.Graph, e ast.Expr, field *types.Var) bool {
	if field == nil {
		return false
	}
	return an.FieldOf(g.Fn.Info(), c07GapResolve(g, e)) == field
}

// c07GapIsObj: e is the identifier obj (no resolution: obj may be reassigned).
func c07GapIsObj(info *types.Info, e ast.Expr, obj types.Object) bool {
	return obj != nil && an.ObjOf(info, ast.Unparen(e)) == obj
}

func c07GapIsError(t types.Type) bool {
	return t != nil && types.Identical(t, types.Universe.Lookup("error").Type())
}

// c07GapOKReturns lists the return vertices on which the function reports
// success: the error result (at whatever position) is the literal nil, or may
// be nil.  A returned error variable that is known non-nil on the path is an
// error return.
func c07GapOKReturns(f *an.Func) []*an.Node {
	g := f.Graph()
	info := f.Info()
	idx, n := -1, 0
	if f.Type.Results != nil {
		for _, fl := range f.Type.Results.List {
			k := len(fl.Names)
			if k == 0 {
				k = 1
			}
			if tv, ok := info.Types[fl.Type]; ok && c07GapIsError(tv.Type) && idx < 0 {
				idx = n
			}
			n += k
		}
	}
	var out []*an.Node
	for _, r := range g.Returns() {
		rs := r.Ast.(*ast.ReturnStmt)
		if idx < 0 || len(rs.Results) != n {
			out = append(out, r)
			continue
		}
		e := ast.Unparen(rs.Results[idx])
		if tv, ok := info.Types[e]; ok && tv.IsNil() {
			out = append(out, r)
			continue
		}
		if an.NonNilErrorExpr(info, e) {
			continue
		}
		if obj := an.ObjOf(info, e); obj != nil {
			nonNil := g.EdgesImplying(an.NilAtom(info, obj), map[string]bool{"nil": false})
			if len(nonNil) > 0 && g.Dominated(r, nonNil) {
				continue
			}
		}
		out = append(out, r)
	}
	return out
}

// c07GapAppends lists the statements  X.field = append(X.field, v)  of f.
type c07GapAppend struct {
	Node *an.Node
	Val  ast.Expr
	Pos  token.Pos
}

func c07GapAppends(f *an.Func, field *types.Var) (out []c07GapAppend, other bool) {
	g := f.Graph()
	info := f.Info()
	for _, n := range g.StmtNodes(func(n *an.Node) bool { _, ok := n.Ast.(*ast.AssignStmt); return ok }) {
		as := n.Ast.(*ast.AssignStmt)
		for i, l := range as.Lhs {
			if an.FieldOf(info, l) != field || field == nil {
				continue
			}
			if len(as.Rhs) != len(as.Lhs) {
				other = true
				continue
			}
			call, ok := ast.Unparen(as.Rhs[i]).(*ast.CallExpr)
			if !ok || !an.IsBuiltin(info, call, "append") || len(call.Args) != 2 || call.Ellipsis != token.NoPos || an.FieldOf(info, call.Args[0]) != field {
				other = true
				continue
			}
			out = append(out, c07GapAppend{Node: n, Val: call.Args[1], Pos: as.Pos()})
		}
	}
	return
}

// c07GapConstIs: e is a constant with the given exact value.
func c07GapConstIs(info *types.Info, e ast.Expr, val string) bool {
	tv, ok := info.Types[e]
	return ok && tv.Value != nil && tv.Value.ExactString() == val
}

// ---------------------------------------------------------------------------
// veto-arg-exact: the consensus veto is asked about exactly the fork point's
// number.  `brStart.BlockNo()+1` (or -1) moves the irreversibility boundary by
// one block: a branch forking one below the LIB would be accepted (or one
// forking exactly at the LIB refused).

func c07GapVetoArg(c *rep.Ctx) {
	f := c.Fn("chain.(*ChainService).reorg")
	if f == nil {
		return
	}
	g := f.Graph()
	brStart := c.Prog.LookupField("chain", "reorganizer", "brStartBlock")
	veto := sitesOf(f, "consensus.(ChainConsensus).NeedReorganization")
	if len(veto) == 0 || brStart == nil {
		c.Undecide("veto-arg-exact", "chain.(*ChainService).reorg", "no call of NeedReorganization / fork point field not found")
		return
	}
	for _, s := range veto {
		ok := false
		if len(s.Call.Args) == 1 {
			base, off, lin := c07GapLin(g, s.Call.Args[0])
			ok = lin && off == 0 && c07GapGetterOn(g, base, c07GapNoGetters, func(r ast.Expr) bool { return c07GapDenotesField(g, r, brStart) })
		}
		c.Check("veto-arg-exact", "chain.(*ChainService).reorg|NeedReorganization", s.Call.Pos(), ok, "the consensus veto receives exactly the number of the fork point (the branch start block's own number, no offset): the irreversibility boundary is not shifted by a block")
	}
}

// ---------------------------------------------------------------------------
// tip-tracking: every block the chain processor stores on a side branch
// becomes cp.lastBlock, so that after the orphan pool was drained lastBlock is
// the tip of the branch (it is what needReorg tests and reorg starts from).

func c07GapTipTracking(c *rep.Ctx) {
	f := c.Fn("chain.(*chainProcessor).addBlock")
	if f == nil {
		return
	}
	g := f.Graph()
	info := f.Info()
	last := c.Prog.LookupField("chain", "chainProcessor", "lastBlock")
	if last == nil {
		c.Undecide("tip-tracking", "chain.chainProcessor.lastBlock", "field not found")
		return
	}
	stores := g.CallsTo("chain.(*ChainDB).addBlock")
	if len(stores) != 1 || len(stores[0].Call.Args) != 2 {
		c.Undecide("tip-tracking", "chain.(*chainProcessor).addBlock", "expected exactly one call of ChainDB.addBlock")
		return
	}
	blk := an.ObjOf(info, stores[0].Call.Args[1])
	writes := an.Set{}
	for _, n := range g.StmtNodes(func(n *an.Node) bool { _, ok := n.Ast.(*ast.AssignStmt); return ok }) {
		as := n.Ast.(*ast.AssignStmt)
		if len(as.Lhs) != len(as.Rhs) {
			continue
		}
		for i, l := range as.Lhs {
			if an.FieldOf(info, l) == last && blk != nil && an.ObjOf(info, as.Rhs[i]) == blk && g.SingleDefOrParam(blk) {
				writes[n] = true
			}
		}
	}
	ok := len(writes) > 0
	pos := f.Pos()
	for _, r := range g.NilReturns() {
		if !g.Dominated(r, writes) {
			ok = false
			pos = r.Ast.Pos()
		}
	}
	c.Check("tip-tracking", "chain.(*chainProcessor).addBlock|lastBlock", pos, ok, "every successful store of a side-branch block records that same block as cp.lastBlock (unconditionally): after the orphans were resolved lastBlock is the branch tip that needReorg tests and reorg starts from")
}

// ---------------------------------------------------------------------------
// reorg-attempted: addBlockInternal reports success after the chain processor
// ran only through a successful reorganize(); no shortcut decides on the block
// that was handed in (the run may have connected higher orphans).

func c07GapReorgAttempted(c *rep.Ctx) {
	f := c.Fn("chain.(*ChainService).addBlockInternal")
	if f == nil {
		return
	}
	g := f.Graph()
	runF := c.Prog.LookupField("chain", "chainProcessor", "run")
	run := funcValueCalls(f, runF)
	re := sitesOf(f, "chain.(*chainProcessor).reorganize")
	if len(run) != 1 || len(re) == 0 {
		c.Undecide("reorg-attempted", "chain.(*ChainService).addBlockInternal", "expected one call of cp.run and a call of cp.reorganize")
		return
	}
	runOK := g.ErrNilEdges(run[0])
	reOK := errEdgesOf(g, re)
	if len(runOK) == 0 {
		c.Undecide("reorg-attempted", "chain.(*ChainService).addBlockInternal", "result of cp.run is not tested")
		return
	}
	after := g.Reach(setNodes(runOK), nil)
	ok := len(reOK) > 0
	pos := re[0].Call.Pos()
	n := 0
	for _, r := range c07GapOKReturns(f) {
		if !after[r] {
			continue
		}
		n++
		if !g.Dominated(r, reOK) {
			ok = false
			pos = r.Ast.Pos()
		}
	}
	c.Check("reorg-attempted", "chain.(*ChainService).addBlockInternal|run < reorganize", pos, ok && n > 0, "after the chain processor connected the block (and every orphan depending on it) success is reported only through a successful cp.reorganize(): no exit decides on the received block instead of the last connected one")
}

// ---------------------------------------------------------------------------
// state-move: rollback moves state root and consensus status to the fork
// point; the restore after a failed roll-forward moves both to the best block.
// Both on every successful path, both to the same block.

func c07GapStateMoves(c *rep.Ctx) {
	p := c.Prog
	brStart := p.LookupField("chain", "reorganizer", "brStartBlock")
	best := p.LookupField("chain", "reorganizer", "bestBlock")
	if f := c.Fn("chain.(*reorganizer).rollback"); f != nil {
		c07GapStateMove(c, f, brStart, "fork point (reorg.brStartBlock)")
	}
	// the restore functions: callees of reorg (other than the pipeline steps) that set the state root
	rf := c.Fn("chain.(*ChainService).reorg")
	if rf == nil {
		return
	}
	n := 0
	seen := map[*an.Func]bool{}
	for _, s := range rf.Graph().Calls(nil) {
		if s.Fn == nil {
			continue
		}
		cf := p.FuncOf(s.Fn)
		if cf == nil || cf.Body == nil || seen[cf] {
			continue
		}
		switch cf.Name() {
		case "chain.(*reorganizer).rollback", "chain.(*reorganizer).rollforward", "chain.(*reorganizer).swapChain", "chain.newReorganizer":
			continue
		}
		if !strings.HasPrefix(cf.Name(), "chain.") || len(cf.Graph().CallsTo("state.(*ChainStateDB).SetRoot")) == 0 {
			continue
		}
		seen[cf] = true
		n++
		c07GapStateMove(c, cf, best, "best block (reorg.bestBlock)")
	}
	if n == 0 {
		c.Undecide("state-move", "chain.(*ChainService).reorg|restore", "no restore step (a callee that sets the state root) found in reorg")
	}
	c.Floor("state-move", 6)
}

func c07GapStateMove(c *rep.Ctx, f *an.Func, target *types.Var, what string) {
	g := f.Graph()
	name := f.Name()
	sets := g.CallsTo("state.(*ChainStateDB).SetRoot")
	upds := g.CallsTo("consensus.(ChainConsensus).Update")
	if len(sets) != 1 || target == nil {
		c.Undecide("state-move", name, "expected exactly one SetRoot call")
		return
	}
	isTarget := func(r ast.Expr) bool { return c07GapDenotesField(g, r, target) }
	rootOK := len(sets[0].Call.Args) == 1 && c07GapGetterOn(g, sets[0].Call.Args[0], map[string]bool{c07GapRootGetter: true}, isTarget)
	c.Check("state-move", name+"|root", sets[0].Call.Pos(), rootOK, "the state root is set to the root recorded in the header of the "+what)
	setOK := g.ErrNilEdges(sets[0])
	good := an.Set{}
	updOK := len(upds) > 0
	for _, u := range upds {
		if len(u.Call.Args) == 1 && isTarget(u.Call.Args[0]) {
			good[u.Node] = true
		} else {
			updOK = false
		}
	}
	pos := sets[0].Call.Pos()
	complete := len(setOK) > 0 && len(good) > 0
	for _, r := range g.NilReturns() {
		if !g.Dominated(r, setOK) || !g.Dominated(r, good) {
			complete = false
			pos = r.Ast.Pos()
		}
	}
	c.Check("state-move", name+"|consensus", pos, updOK, "the consensus status is updated to the same block the state root was moved to: the "+what)
	c.Check("state-move", name+"|complete", pos, complete, "every successful exit has set the state root (result tested) and updated the consensus status to the "+what)
}

// ---------------------------------------------------------------------------
// params-reload: the process-wide cache of the system parameters (gas price,
// BP count, staking minimum, name price) is reloaded from the state of the new
// branch once the roll-forward succeeded; otherwise the node keeps executing
// with the abandoned branch's parameters.

func c07GapParamsReload(c *rep.Ctx) {
	f := c.Fn("chain.(*ChainService).reorg")
	if f == nil {
		return
	}
	g := f.Graph()
	rfs := sitesOf(f, "chain.(*reorganizer).rollforward")
	if len(rfs) != 1 {
		c.Undecide("params-reload", "chain.(*ChainService).reorg", "expected one call of rollforward")
		return
	}
	rfOK := g.ErrNilEdges(rfs[0])
	const initName = "contract/system.InitSystemParams"
	initF := c.Prog.Func(initName)
	if initF == nil {
		c.Undecide("params-reload", initName, "function not found")
		return
	}
	cg := c.Prog.BuildCallGraphCached()
	reload := an.Set{}
	for _, s := range g.Calls(nil) {
		if s.Fn == nil || !g.Dominated(s.Node, rfOK) {
			continue
		}
		if an.FuncName(s.Fn) == initName {
			reload[s.Node] = true
			continue
		}
		if cf := c.Prog.FuncOf(s.Fn); cf != nil {
			if cg.ReachableFrom([]*an.Func{cf}, func(e an.Edge) bool { return e.Kind == an.EStatic })[initF] {
				reload[s.Node] = true
			}
		}
	}
	ok := len(reload) > 0 && len(rfOK) > 0
	pos := rfs[0].Call.Pos()
	for _, r := range g.NilReturns() {
		if !g.Dominated(r, reload) {
			ok = false
			pos = r.Ast.Pos()
		}
	}
	c.Check("params-reload", "chain.(*ChainService).reorg|after-rollforward", pos, ok, "a successful reorganisation reloads the cached system parameters (system.InitSystemParams) after the roll-forward reached the new tip's state: the node does not keep the abandoned branch's gas price / BP count / staking parameters")
}

// ---------------------------------------------------------------------------
// gather: roles of the walk.
//   W  the walked branch block (starts at brTopBlock, replaced by its parent)
//   N  the number of W (the loop's height variable)
//   M  the main-chain block looked up at height N
//   B  the best block number

type c07GapWalk struct {
	f              *an.Func
	g              *an.Graph
	info           *types.Info
	w, n, m        types.Object
	fetch, lookup  an.Site
	eq             an.Site
	eqTrue, eqFals an.Set
	cmp            an.OrdCmp
	hasCmp         bool
}

func c07GapGather(c *rep.Ctx) {
	f := c.Fn("chain.(*reorganizer).gather")
	if f == nil {
		return
	}
	p := c.Prog
	g := f.Graph()
	info := f.Info()
	name := "chain.(*reorganizer).gather"
	und := func(msg string) { c.Undecide("gather-walk", name, msg) }
	wk := &c07GapWalk{f: f, g: g, info: info}
	// W: assigned from getBlock(<W>.GetHeader().GetPrevBlockHash())
	for _, s := range g.CallsTo("chain.(*ChainDB).getBlock") {
		if len(s.Call.Args) != 1 {
			continue
		}
		call, ok := ast.Unparen(s.Call.Args[0]).(*ast.CallExpr)
		if !ok || an.CalleeName(info, call) != "types.(*BlockHeader).GetPrevBlockHash" {
			continue
		}
		root, ok := c07GapChainRoot(info, call)
		if !ok {
			continue
		}
		res := g.ResultVarAt(s, 0)
		if res == nil || an.ObjOf(info, root) != res {
			continue
		}
		if wk.w != nil {
			und("more than one parent fetch")
			return
		}
		wk.w, wk.fetch = res, s
	}
	if wk.w == nil {
		und("the parent fetch  W = getBlock(W.prevHash)  was not recognised")
		return
	}
	look := g.CallsTo("chain.(*ChainDB).GetBlockByNo")
	if len(look) != 1 || len(look[0].Call.Args) != 1 {
		und("expected exactly one main-chain lookup GetBlockByNo")
		return
	}
	wk.lookup = look[0]
	wk.m = g.ResultVarAt(look[0], 0)
	wk.n = an.ObjOf(info, look[0].Call.Args[0])
	if wk.m == nil || wk.n == nil {
		und("lookup result / height variable not recognised")
		return
	}
	onW := func(r ast.Expr) bool { return c07GapIsObj(info, r, wk.w) }
	onM := func(r ast.Expr) bool { return c07GapIsObj(info, r, wk.m) }

	// --- lookup-height: N is the number of the current W wherever the main chain is consulted
	brTop := p.LookupField("chain", "reorganizer", "brTopBlock")
	okW, okN := true, true
	var nDefs, wDefs []*an.Node
	for _, nd := range g.StmtNodes(func(n *an.Node) bool { _, ok := n.Ast.(*ast.AssignStmt); return ok }) {
		as := nd.Ast.(*ast.AssignStmt)
		for i, l := range as.Lhs {
			o := an.ObjOf(info, l)
			if o == nil || (o != wk.w && o != wk.n) {
				continue
			}
			var rhs ast.Expr
			if len(as.Rhs) == len(as.Lhs) {
				rhs = as.Rhs[i]
			} else if len(as.Rhs) == 1 {
				rhs = as.Rhs[0]
			}
			if o == wk.w {
				wDefs = append(wDefs, nd)
				if nd != wk.fetch.Node && !(rhs != nil && brTop != nil && an.FieldOf(info, rhs) == brTop) {
					okW = false
				}
				continue
			}
			nDefs = append(nDefs, nd)
			// number getter on W (a local holding it is resolved), or N-1 (the link check makes them equal)
			good := rhs != nil && c07GapGetterOn(g, rhs, c07GapNoGetters, onW)
			if !good && rhs != nil {
				if b, off, lin := c07GapSplit(info, rhs); lin && off == -1 && c07GapIsObj(info, b, wk.n) {
					good = true
				}
			}
			if !good {
				okN = false
			}
		}
	}
	// N-- is N-1 as well; any other statement that changes N is not recognised
	for _, nd := range g.StmtNodes(func(n *an.Node) bool { _, ok := n.Ast.(*ast.IncDecStmt); return ok }) {
		st := nd.Ast.(*ast.IncDecStmt)
		if an.ObjOf(info, st.X) == wk.n {
			nDefs = append(nDefs, nd)
			if st.Tok != token.DEC {
				okN = false
			}
		}
		if an.ObjOf(info, st.X) == wk.w {
			okW = false
		}
	}
	// after W changed, N is re-derived before the main chain is consulted or W is recorded again
	avoid := an.Set{}
	for _, nd := range nDefs {
		avoid[nd] = true
	}
	fresh := true
	for _, wd := range wDefs {
		if g.Reach(wd.Succs, avoid)[wk.lookup.Node] {
			fresh = false
		}
	}
	c.Check("gather-walk", name+"|walk-start", wk.fetch.Call.Pos(), okW && len(wDefs) >= 2, "the walk starts at the branch tip handed to the reorganiser and only ever moves to the parent named by PrevBlockHash")
	c.Check("gather-walk", name+"|lookup-height", wk.lookup.Call.Pos(), okN && fresh && len(nDefs) >= 1, "the main chain is consulted at the height of the branch block currently walked (the height variable is that block's own number, re-derived whenever the walk moves)")

	// --- eq-operands: the fork point test compares the walked block with the main-chain block of the same height
	var eqs []an.Site
	for _, s := range g.CallsTo("bytes.Equal") {
		if len(s.Call.Args) == 2 {
			eqs = append(eqs, s)
		}
	}
	nEq := 0
	for _, s := range eqs {
		a, b := s.Call.Args[0], s.Call.Args[1]
		wa, wb := c07GapGetterOn(g, a, c07GapHashGetters, onW), c07GapGetterOn(g, b, c07GapHashGetters, onW)
		ma, mb := c07GapGetterOn(g, a, c07GapHashGetters, onM), c07GapGetterOn(g, b, c07GapHashGetters, onM)
		if !(wa || wb || ma || mb) && !containsCallTo(info, s.Call, "types.(*Block).BlockHash", "types.(*Block).GetHash") {
			continue
		}
		nEq++
		wk.eq = s
		c.Check("gather-walk", name+"|fork-test-operands", s.Call.Pos(), (wa && mb) || (wb && ma), "the fork point test compares the hash of the walked branch block with the hash of the main-chain block looked up at the same height (not the best block, not another block)")
	}
	if nEq != 1 {
		und("expected exactly one block-hash equality test")
		return
	}
	wk.eqTrue, wk.eqFals = g.BoolEdges(wk.eq, true), g.BoolEdges(wk.eq, false)
	// the lookup result is used only when the lookup succeeded
	lookOK := g.ErrNilEdges(wk.lookup)
	c.Check("gather-walk", name+"|lookup-checked", wk.lookup.Call.Pos(), len(lookOK) > 0 && g.Dominated(wk.eq.Node, lookOK), "the main-chain block is compared only after its lookup succeeded")

	// --- old-range: the main chain is consulted exactly for heights <= best
	isBest := func(e ast.Expr) bool {
		e = c07GapResolve(g, e)
		if containsCallTo(info, e, "chain.(*ChainDB).getBestBlockNo") {
			return true
		}
		return c07GapGetterOn(g, e, c07GapNoGetters, func(r ast.Expr) bool {
			rr := c07GapResolve(g, r)
			if call, ok := ast.Unparen(rr).(*ast.CallExpr); ok && an.CalleeName(info, call) == "chain.(*ChainDB).GetBestBlock" {
				return true
			}
			if o := an.ObjOf(info, rr); o != nil {
				for _, s := range g.CallsTo("chain.(*ChainDB).GetBestBlock") {
					if g.ResultVarAt(s, 0) == o && g.SingleDefOrParam(o) {
						return true
					}
				}
			}
			return false
		})
	}
	isN := func(e ast.Expr) bool { return c07GapIsObj(info, e, wk.n) }
	cmps, undc := g.OrdCmps(isN, isBest, 0)
	var gate []an.OrdCmp
	for _, cm := range cmps {
		if g.Reach(cm.Node.Succs, an.SetOf(cm.Node))[wk.lookup.Node] {
			gate = append(gate, cm)
		}
	}
	if len(undc) > 0 || len(gate) != 1 {
		und("the height-vs-best comparison that gates the main-chain lookup was not recognised")
		return
	}
	wk.cmp, wk.hasCmp = gate[0], true
	eLo, eEq, eHi := g.EdgeFor(wk.cmp, -1), g.EdgeFor(wk.cmp, 0), g.EdgeFor(wk.cmp, +1)
	if eLo == nil || eEq == nil || eHi == nil {
		und("the height-vs-best comparison is part of a compound condition")
		return
	}
	stop := an.SetOf(wk.cmp.Node)
	reaches := func(e *an.Node) bool { return e == wk.lookup.Node || g.Reach([]*an.Node{e}, stop)[wk.lookup.Node] }
	rangeOK := reaches(eLo) && reaches(eEq) && !reaches(eHi) && g.Dominated(wk.lookup.Node, an.SetOf(eLo, eEq))
	c.Check("gather-walk", name+"|old-range", wk.cmp.Expr.Pos(), rangeOK, "the main chain is consulted for every walked height up to and including the best block's (height <= best) and for no height above it: the best block itself is among the rolled-back blocks")

	// --- sources and positions of the two lists
	oldF := p.LookupField("chain", "reorganizer", "oldBlocks")
	newF := p.LookupField("chain", "reorganizer", "newBlocks")
	olds, o1 := c07GapAppends(f, oldF)
	news, o2 := c07GapAppends(f, newF)
	if o1 || o2 || len(olds) == 0 || len(news) == 0 {
		und("writes of oldBlocks / newBlocks other than single-element appends")
		return
	}
	for _, a := range olds {
		src := c07GapIsObj(info, a.Val, wk.m) && g.Dominated(a.Node, lookOK)
		c.Check("gather-walk", name+"|old-source", a.Pos, src, "the rolled-back list receives the main-chain block that was looked up (successfully) at the walked height")
		c.Check("gather-walk", name+"|old-excludes-fork-point", a.Pos, len(wk.eqFals) > 0 && g.Dominated(a.Node, wk.eqFals), "a main-chain block joins the rolled-back list only after it was found to differ from the branch block of the same height (the fork point itself is not rolled back, its transactions are not abandoned)")
	}
	for _, a := range news {
		src := c07GapIsObj(info, a.Val, wk.w)
		c.Check("gather-walk", name+"|new-source", a.Pos, src, "the roll-forward list receives the walked branch block")
		gates := wk.eqFals.Union(an.SetOf(eHi))
		// not the fork point: above the best height, or compared and found different; and recorded before the walk moves on
		before := !g.Reach(wk.fetch.Node.Succs, stop)[a.Node]
		c.Check("gather-walk", name+"|new-excludes-fork-point", a.Pos, g.Dominated(a.Node, gates) && before, "a branch block joins the roll-forward list only when it is above the best height or was compared with the main chain and differs, and before the walk moves to its parent (the fork point is not re-executed, the tip is not skipped)")
	}

	// --- number-link: parent number = child number - 1, checked before the walk continues
	isPrevNo := func(e ast.Expr) bool { return c07GapGetterOn(g, e, c07GapNoGetters, onW) }
	lcs, lund := g.OrdCmps(isN, isPrevNo, -1)
	fetchOK := g.ErrNilEdges(wk.fetch)
	var link []an.OrdCmp
	for _, cm := range lcs {
		if g.Dominated(cm.Node, fetchOK) {
			link = append(link, cm)
		}
	}
	linkOK := len(lund) == 0 && len(link) == 1 && len(fetchOK) > 0
	pos := wk.fetch.Call.Pos()
	if linkOK {
		cm := link[0]
		pos = cm.Expr.Pos()
		oks := c07GapOKReturns(f)
		for _, sign := range []int{-1, +1} {
			e := g.EdgeFor(cm, sign)
			if e == nil {
				linkOK = false
				continue
			}
			r := g.Reach([]*an.Node{e}, nil)
			if r[wk.fetch.Node] || r[wk.lookup.Node] {
				linkOK = false
			}
			for _, ret := range oks {
				if r[ret] {
					linkOK = false
				}
			}
		}
		if e := g.EdgeFor(cm, 0); e == nil || !g.Reach([]*an.Node{e}, nil)[wk.lookup.Node] {
			linkOK = false
		}
		// the walk cannot continue around the check
		around := g.Reach(setNodes(fetchOK), an.SetOf(cm.Node))
		if around[wk.lookup.Node] || around[wk.fetch.Node] {
			linkOK = false
		}
	}
	c.Check("gather-walk", name+"|number-link", pos, linkOK, "after each step to the parent the parent's number is checked to be exactly one less than the child's, and any other value aborts the gather (this is the only check of a side branch's block numbers: the number is what makes the branch 'longer')")

	// --- best-recorded
	bestF := p.LookupField("chain", "reorganizer", "bestBlock")
	rec := an.Set{}
	for _, nd := range g.StmtNodes(func(n *an.Node) bool { _, ok := n.Ast.(*ast.AssignStmt); return ok }) {
		as := nd.Ast.(*ast.AssignStmt)
		if len(as.Lhs) != len(as.Rhs) {
			continue
		}
		for i, l := range as.Lhs {
			if bestF == nil || an.FieldOf(info, l) != bestF {
				continue
			}
			o := an.ObjOf(info, c07GapResolve(g, as.Rhs[i]))
			for _, s := range g.CallsTo("chain.(*ChainDB).GetBestBlock") {
				if o != nil && g.ResultVarAt(s, 0) == o && g.SingleDefOrParam(o) && g.Dominated(nd, g.ErrNilEdges(s)) {
					rec[nd] = true
				}
			}
		}
	}
	okRec := len(rec) > 0
	for _, r := range c07GapOKReturns(f) {
		if !g.Dominated(r, rec) {
			okRec = false
		}
	}
	c.Floor("gather-walk", 10)
	c.Check("gather-walk", name+"|best-recorded", f.Pos(), okRec, "a successful gather has recorded the current best block (read from the chain DB) as reorg.bestBlock: it is what a failed roll-forward is restored to and what the reorg marker names")
}

// ---------------------------------------------------------------------------
// rollforward-element: the block executed in iteration i is newBlocks[i].

func c07GapRollforwardElem(c *rep.Ctx) {
	f := c.Fn("chain.(*reorganizer).rollforward")
	if f == nil {
		return
	}
	g := f.Graph()
	info := f.Info()
	newF := c.Prog.LookupField("chain", "reorganizer", "newBlocks")
	exec := c07FieldCalls(c, f, "reorganizer", "executeBlockFn")
	if len(exec) != 1 || len(exec[0].Call.Args) != 2 {
		c.Undecide("rollforward-element", "chain.(*reorganizer).rollforward", "expected one call of executeBlockFn(bstate, block)")
		return
	}
	ok := c07GapLoopElement(g, info, f.Body, exec[0].Call.Args[1], exec[0].Call.Pos(), func(x ast.Expr) bool { return an.FieldOf(info, x) == newF && newF != nil })
	c.Check("rollforward-element", "chain.(*reorganizer).rollforward|executed-block", exec[0].Call.Pos(), ok, "the block executed in an iteration is the element of newBlocks at the loop's own index (not a fixed or mirrored index): together with the loop bounds every block is executed once, oldest first")
}

// c07GapLoopElement: e (locals resolved) is  S[i]  or the value variable of
// `range S`, where S is accepted by isSeq, the innermost loop enclosing pos is
// that loop and i is its index variable (offset 0, not reassigned in the body).
func c07GapLoopElement(g *an.Graph, info *types.Info, body ast.Node, e ast.Expr, pos token.Pos, isSeq func(ast.Expr) bool) bool {
	var loop ast.Stmt
	ast.Inspect(body, func(n ast.Node) bool {
		if n == nil {
			return false
		}
		switch s := n.(type) {
		case *ast.FuncLit:
			return false
		case *ast.ForStmt:
			if s.Body.Pos() <= pos && pos < s.Body.End() {
				loop = s
			}
		case *ast.RangeStmt:
			if s.Body.Pos() <= pos && pos < s.Body.End() {
				loop = s
			}
		}
		return true
	})
	if loop == nil {
		return false
	}
	var iv, vv types.Object
	var lbody *ast.BlockStmt
	switch s := loop.(type) {
	case *ast.ForStmt:
		lbody = s.Body
		if as, ok := s.Init.(*ast.AssignStmt); ok && len(as.Lhs) == 1 {
			iv = an.ObjOf(info, as.Lhs[0])
		}
	case *ast.RangeStmt:
		lbody = s.Body
		if !isSeq(s.X) {
			return false
		}
		if s.Key != nil {
			iv = an.ObjOf(info, s.Key)
		}
		if s.Value != nil {
			vv = an.ObjOf(info, s.Value)
		}
	}
	reassigned := func(o types.Object) bool {
		found := false
		ast.Inspect(lbody, func(n ast.Node) bool {
			if st, ok := n.(ast.Stmt); ok && o != nil && an.Assigns(info, st, o) {
				found = true
			}
			return !found
		})
		return found
	}
	r := c07GapResolve(g, e)
	if vv != nil && an.ObjOf(info, r) == vv && !reassigned(vv) {
		return true
	}
	ix, ok := ast.Unparen(r).(*ast.IndexExpr)
	if !ok || !isSeq(c07GapResolve(g, ix.X)) || iv == nil || reassigned(iv) {
		return false
	}
	b, off, lin := c07GapSplit(info, ix.Index)
	return lin && off == 0 && an.ObjOf(info, b) == iv
}

// ---------------------------------------------------------------------------
// swap-tip: the in-memory best block after the swap is element 0 of the new
// branch (the tip), the element whose number was compared with the old best.

func c07GapSwapTip(c *rep.Ctx) {
	f := c.Fn("chain.(*ChainDB).swapChainMapping")
	if f == nil {
		return
	}
	g := f.Graph()
	info := f.Info()
	sl := g.CallsTo("chain.(*ChainDB).setLatest")
	if len(sl) == 0 {
		c.Undecide("swap-tip", "chain.(*ChainDB).swapChainMapping", "no call of setLatest")
		return
	}
	param := f.ParamObj(0)
	isTip := func(e ast.Expr) bool {
		ix, ok := ast.Unparen(c07GapResolve(g, e)).(*ast.IndexExpr)
		return ok && param != nil && an.ObjOf(info, ix.X) == param && c07GapConstIs(info, ix.Index, "0")
	}
	for _, s := range sl {
		c.Check("swap-tip", "chain.(*ChainDB).swapChainMapping|setLatest", s.Call.Pos(), len(s.Call.Args) == 1 && isTip(s.Call.Args[0]), "the best block becomes element 0 of the new branch, i.e. the branch tip (gather records the tip first)")
	}
	// every height entry maps the number of a block to the hash of the same block
	n := 0
	for _, s := range g.Calls(func(fn *types.Func, _ *ast.CallExpr) bool {
		return fn != nil && an.FuncName(fn) == "github.com/aergoio/aergo-lib/db.(Bulk).Set"
	}) {
		if len(s.Call.Args) != 2 || !g.InLoop(s.Node) {
			continue
		}
		n++
		key := c07GapResolve(g, s.Call.Args[0])
		var noOf, hashOf ast.Expr
		if call, ok := ast.Unparen(key).(*ast.CallExpr); ok && an.CalleeName(info, call) == "types.BlockNoToBytes" && len(call.Args) == 1 {
			if nc, ok := ast.Unparen(c07GapResolve(g, call.Args[0])).(*ast.CallExpr); ok && c07GapNoGetters[an.CalleeName(info, nc)] {
				noOf, _ = c07GapChainRoot(info, nc)
			}
		}
		if hc, ok := ast.Unparen(c07GapResolve(g, s.Call.Args[1])).(*ast.CallExpr); ok && c07GapHashGetters[an.CalleeName(info, hc)] {
			hashOf, _ = c07GapChainRoot(info, hc)
		}
		same := noOf != nil && hashOf != nil && an.ObjOf(info, noOf) != nil && an.ObjOf(info, noOf) == an.ObjOf(info, hashOf)
		elem := same && c07GapLoopElement(g, info, f.Body, noOf, s.Call.Pos(), func(x ast.Expr) bool { return param != nil && an.ObjOf(info, x) == param })
		c.Check("swap-tip", "chain.(*ChainDB).swapChainMapping|height-entry", s.Call.Pos(), elem, "each height entry maps the number of the loop's own element to the hash of that same element")
	}
	if n == 0 {
		c.Undecide("swap-tip", "chain.(*ChainDB).swapChainMapping|height-entry", "no height entry written in a loop")
	}
	c.Floor("swap-tip", 2)
}

// ---------------------------------------------------------------------------
// resubmit: the abandoned transactions go to the transaction pool service, and
// a transaction is considered re-included by looking at every new block.

func c07GapResubmit(c *rep.Ctx) {
	f := c.Fn("chain.(*reorganizer).swapTxMapping")
	if f == nil {
		return
	}
	g := f.Graph()
	info := f.Info()
	newF := c.Prog.LookupField("chain", "reorganizer", "newBlocks")
	// MemPoolPut literals and the call that carries them
	n := 0
	ast.Inspect(f.Body, func(nd ast.Node) bool {
		call, ok := nd.(*ast.CallExpr)
		if !ok {
			return true
		}
		for _, a := range call.Args {
			x := ast.Unparen(a)
			if u, isU := x.(*ast.UnaryExpr); isU && u.Op == token.AND {
				x = ast.Unparen(u.X)
			}
			cl, isCl := x.(*ast.CompositeLit)
			if !isCl {
				continue
			}
			tv, has := info.Types[cl]
			if !has || tv.Type == nil || types.TypeString(tv.Type, nil) != an.Module+"/types/message.MemPoolPut" {
				continue
			}
			n++
			cn := an.CalleeName(info, call)
			send := cn == "pkg/component.(*BaseComponent).RequestTo" || cn == "pkg/component.(*BaseComponent).TellTo"
			target := len(call.Args) == 2 && c07GapConstIs(info, call.Args[0], "\"MemPoolSvc\"")
			c.Check("resubmit-target", "chain.(*reorganizer).swapTxMapping|MemPoolPut", call.Pos(), send && target, "the abandoned transaction is sent (RequestTo/TellTo) to the transaction pool service")
		}
		return true
	})
	if n == 0 {
		c.Undecide("resubmit-target", "chain.(*reorganizer).swapTxMapping", "no MemPoolPut message built")
	}
	// every delete from a map inside a loop over GetTxs(): the transactions are those of the covering loop's element
	m := 0
	ast.Inspect(f.Body, func(nd ast.Node) bool {
		rs, ok := nd.(*ast.RangeStmt)
		if !ok {
			return true
		}
		x, isCall := ast.Unparen(rs.X).(*ast.CallExpr)
		if !isCall || an.CalleeName(info, x) != "types.(*BlockBody).GetTxs" {
			return true
		}
		hasDelete := false
		ast.Inspect(rs.Body, func(k ast.Node) bool {
			if dc, ok := k.(*ast.CallExpr); ok && an.IsBuiltin(info, dc, "delete") {
				hasDelete = true
			}
			return true
		})
		if !hasDelete {
			return true
		}
		m++
		root, okRoot := c07GapChainRoot(info, x)
		elem := okRoot && c07GapLoopElement(g, info, f.Body, root, rs.Pos(), func(s ast.Expr) bool { return newF != nil && an.FieldOf(info, s) == newF })
		c.Check("resubmit-target", "chain.(*reorganizer).swapTxMapping|reincluded-scope", rs.Pos(), elem, "a transaction is dropped from the abandoned set by looking at the transactions of the loop's own new block (every new block is looked at, not a fixed one)")
		return true
	})
	if m == 0 {
		c.Undecide("resubmit-target", "chain.(*reorganizer).swapTxMapping|reincluded-scope", "no loop that removes re-included transactions")
	}
	c.Floor("resubmit-target", 2)
}

// ---------------------------------------------------------------------------
// mempool-follows: every executed block is announced to the pool (MemPoolDel
// with that block) before executeBlock succeeds.  During the roll-forward this
// is what moves the pool's state view to the new branch; the re-submitted
// transactions are validated (nonce, balance) against it.

func c07GapMempoolFollows(c *rep.Ctx) {
	f := c.Fn("chain.(*ChainService).executeBlock")
	if f == nil {
		return
	}
	g := f.Graph()
	info := f.Info()
	blockParam := f.ParamObj(1)
	// sendsDel(fn, paramIdx): fn unconditionally sends MemPoolDel{Block: param}
	sendsDel := func(fn *an.Func, param types.Object) an.Set {
		out := an.Set{}
		fi := fn.Info()
		fg := fn.Graph()
		for _, s := range fg.Calls(nil) {
			if s.Fn == nil {
				continue
			}
			cn := an.FuncName(s.Fn)
			if cn != "pkg/component.(*BaseComponent).RequestTo" && cn != "pkg/component.(*BaseComponent).TellTo" {
				continue
			}
			if len(s.Call.Args) != 2 || !c07GapConstIs(fi, s.Call.Args[0], "\"MemPoolSvc\"") {
				continue
			}
			x := ast.Unparen(s.Call.Args[1])
			if u, isU := x.(*ast.UnaryExpr); isU && u.Op == token.AND {
				x = ast.Unparen(u.X)
			}
			cl, isCl := x.(*ast.CompositeLit)
			if !isCl {
				continue
			}
			tv, has := fi.Types[cl]
			if !has || types.TypeString(tv.Type, nil) != an.Module+"/types/message.MemPoolDel" {
				continue
			}
			for _, el := range cl.Elts {
				if kv, ok := el.(*ast.KeyValueExpr); ok && an.ObjOf(fi, kv.Value) == param && param != nil && fg.SingleDefOrParam(param) {
					out[s.Node] = true
				}
			}
		}
		return out
	}
	ann := sendsDel(f, blockParam)
	for _, s := range g.Calls(nil) {
		if s.Fn == nil {
			continue
		}
		cf := c.Prog.FuncOf(s.Fn)
		if cf == nil || cf.Body == nil || cf == f {
			continue
		}
		for i, a := range s.Call.Args {
			if an.ObjOf(info, a) != blockParam || blockParam == nil {
				continue
			}
			inner := sendsDel(cf, cf.ParamObj(i))
			if len(inner) > 0 && cf.Graph().Dominated(cf.Graph().Exit, inner) {
				ann[s.Node] = true
			}
		}
	}
	ok := len(ann) > 0 && g.SingleDefOrParam(blockParam)
	pos := f.Pos()
	for _, r := range g.NilReturns() {
		if !g.Dominated(r, ann) {
			ok = false
			pos = r.Ast.Pos()
		}
	}
	c.Check("mempool-follows", "chain.(*ChainService).executeBlock|MemPoolDel", pos, ok, "every successfully executed block is announced to the transaction pool (MemPoolDel with that block, unconditionally): during a roll-forward this moves the pool's state view to the new branch before the abandoned transactions are offered back")
}

// ---------------------------------------------------------------------------
// exec-root: a received block is executed on top of the state DB's current
// root (the root rollback / the previous roll-forward step left), not on the
// root of the chain DB's best block (which stays the old tip during a reorg).

func c07GapExecRoot(c *rep.Ctx) {
	f := c.Fn("chain.newBlockExecutor")
	if f == nil {
		return
	}
	g := f.Graph()
	info := f.Info()
	n := 0
	for _, s := range g.CallsTo("state.(*ChainStateDB).OpenNewStateDB") {
		if len(s.Call.Args) != 1 {
			continue
		}
		n++
		arg := c07GapResolve(g, s.Call.Args[0])
		key := "chain.newBlockExecutor|OpenNewStateDB"
		switch {
		case c07GapGetterOn(g, arg, map[string]bool{"state.(*ChainStateDB).GetRoot": true}, func(ast.Expr) bool { return true }):
			c.Check("exec-root", key, s.Call.Pos(), true, "the block state is opened at the state DB's current root")
		case containsCallTo(info, arg, c07GapRootGetter):
			c.Check("exec-root", key, s.Call.Pos(), false, "the block state is opened at the state DB's current root (what rollback and the previous roll-forward step set), not at a root taken from a stored block header: the chain DB's best block is still the old tip while a branch is rolled forward")
		default:
			c.Undecide("exec-root", key, "the root the block state is opened at was not recognised")
		}
	}
	if n == 0 {
		c.Undecide("exec-root", "chain.newBlockExecutor", "no OpenNewStateDB call")
	}
}

// ---------------------------------------------------------------------------
// veto-refusal: an implementation of NeedReorganization refuses only as the
// result of comparing the fork point's number (its parameter); it never
// returns a constant false.

func c07GapVetoRefusal(c *rep.Ctx) {
	n := 0
	for _, f := range c.Prog.Funcs() {
		if f.Obj == nil || f.Obj.Name() != "NeedReorganization" || f.Body == nil {
			continue
		}
		sig, ok := f.Obj.Type().(*types.Signature)
		if !ok || sig.Recv() == nil || sig.Params().Len() != 1 || sig.Results().Len() != 1 {
			continue
		}
		if types.TypeString(sig.Params().At(0).Type(), nil) != an.Module+"/types.BlockNo" {
			continue
		}
		n++
		g := f.Graph()
		info := f.Info()
		param := f.ParamObj(0)
		for _, r := range g.Returns() {
			rs := r.Ast.(*ast.ReturnStmt)
			if len(rs.Results) != 1 {
				c.Undecide("veto-refusal", f.Name(), "bare return")
				continue
			}
			e := c07GapResolve(g, rs.Results[0])
			switch {
			case c07GapConstIs(info, e, "true"):
				c.Check("veto-refusal", f.Name()+"|return", rs.Pos(), true, "allows the reorganisation")
			case c07GapConstIs(info, e, "false"):
				// a constant refusal is the outcome of a comparison when a branch on the fork point's number dominates it
				decided := false
				for _, ft := range g.FactsAt(r) {
					if be, isCmp := ast.Unparen(c07GapResolve(g, ft.Cond)).(*ast.BinaryExpr); isCmp && param != nil && mentions(info, be, param) {
						decided = true
					}
				}
				c.Check("veto-refusal", f.Name()+"|return", rs.Pos(), decided, "the consensus veto refuses a reorganisation only as the outcome of comparing the fork point's number; a constant refusal blocks every longer branch on that path")
			default:
				be, isCmp := ast.Unparen(e).(*ast.BinaryExpr)
				if isCmp && param != nil && mentions(info, be, param) {
					c.Check("veto-refusal", f.Name()+"|return", rs.Pos(), true, "decided by a comparison of the fork point's number")
				} else {
					c.Undecide("veto-refusal", f.Name(), "returned expression not recognised")
				}
			}
		}
	}
	c.Floor("veto-refusal", 3)
	if n < 3 {
		c.Undecide("veto-refusal", "NeedReorganization", "fewer than three implementations found")
	}
}

// ---------------------------------------------------------------------------
// swap-skip: reorganizer.swapChainMapping may report success without swapping
// the height mapping only when the chain DB's best block already is the branch
// tip (a crash-recovery replay of a swap that had finished).  Skipping on any
// weaker condition leaves the chain DB on the abandoned branch while the state
// DB sits on the new one.

func c07GapSwapSkip(c *rep.Ctx) {
	f := c.Fn("chain.(*reorganizer).swapChainMapping")
	if f == nil {
		return
	}
	g := f.Graph()
	info := f.Info()
	name := "chain.(*reorganizer).swapChainMapping"
	swaps := sitesOf(f, "chain.(*ChainDB).swapChainMapping")
	if len(swaps) == 0 {
		c.Undecide("swap-skip", name, "no call of ChainDB.swapChainMapping")
		return
	}
	swapOK := an.Set{}
	for _, s := range swaps {
		for e := range g.ErrNilEdges(s) {
			swapOK[e] = true
		}
		// `return cdb.swapChainMapping(...)` : the return vertex itself
		if _, isRet := s.Node.Ast.(*ast.ReturnStmt); isRet {
			swapOK[s.Node] = true
		}
	}
	top := c.Prog.LookupField("chain", "reorganizer", "brTopBlock")
	isBest := func(r ast.Expr) bool {
		o := an.ObjOf(info, c07GapResolve(g, r))
		for _, s := range g.CallsTo("chain.(*ChainDB).GetBestBlock") {
			if o != nil && g.ResultVarAt(s, 0) == o && g.SingleDefOrParam(o) {
				return true
			}
		}
		return false
	}
	isTop := func(r ast.Expr) bool { return c07GapDenotesField(g, r, top) }
	at := func(e ast.Expr) (string, bool, bool) {
		call, ok := ast.Unparen(c07GapResolve(g, e)).(*ast.CallExpr)
		if !ok || an.CalleeName(info, call) != "bytes.Equal" || len(call.Args) != 2 {
			return "", false, false
		}
		a, b := call.Args[0], call.Args[1]
		if (c07GapGetterOn(g, a, c07GapHashGetters, isBest) && c07GapGetterOn(g, b, c07GapHashGetters, isTop)) ||
			(c07GapGetterOn(g, a, c07GapHashGetters, isTop) && c07GapGetterOn(g, b, c07GapHashGetters, isBest)) {
			return "done", false, true
		}
		return "", false, false
	}
	for _, r := range g.NilReturns() {
		if swapOK[r] || g.Dominated(r, swapOK) {
			continue
		}
		ok, how := g.GuardedAt(r, at, map[string]bool{"done": true})
		c.Check("swap-skip", name+"|already-swapped", r.Ast.Pos(), ok, "success without swapping the height mapping is reported only when the chain DB's best block already is the branch tip: "+how)
	}
	c.Check("swap-skip", name+"|swap-or-skip", f.Pos(), len(swapOK) > 0, "the height mapping is swapped through ChainDB.swapChainMapping and its failure is reported")
}
