package props

import (
	"go/ast"
	"go/token"
	"go/types"
	"reflect"
	"sort"
	"strings"

	"verif/checker/internal/an"
	"verif/checker/internal/rep"
)

// C19 gap review: rules for clauses that the first rounds left undecided.
//
//   flag-agreement       presence / flag bytes: the constant the writer emits on
//                        the arm that carries the field is the constant the reader
//                        tests for before it decodes the field
//   byte-order           the n-th multi-byte integer of a codec is written and read
//                        with the same byte order
//   bloom-header         the bytes stripped from the bloom filter's gob encoding are
//                        exactly the bytes the readers prepend again; both readers
//                        synthesise the same header
//   chainid-text         "magic/consensus": separator and position agreement of
//                        ChainID.Bytes and ChainID.Read
//   chainid-remainder    MakeChainId keeps everything behind the version prefix,
//                        ChainIdEqualWithoutVersion compares exactly that remainder
//   validchild           ValidChildOf accepts only (both ids empty) or equal remainders
//   header-version       the version in the chain id of a new block is Version(its own
//                        number); the executing version is the one in the chain id
//   sethardfork-blockno  the receipt format of a block is selected by the number of
//                        that very block and by a height-dependent table
//   store-codec          what is stored under the receipts / genesis / hardfork keys
//                        is produced by the encoder whose decoder the readers apply
//   hardfork-key-names   the stored hardfork record is keyed by the field names
//   hardfork-startup     the compatibility check sees the best block number, its
//                        refusal is fatal, the accepted table is persisted, the
//                        compiled-in table is chosen by the matching network test
//   older-node           heights of versions unknown to this node are refused exactly
//                        when active
//   fixdb-absent-only    stored heights are completed, never overwritten
//   merkle-interior      interior nodes up to the root are computed from both children
//   merkle-bloom-leaf    the receipts root commits to the block bloom filter
//   genesis-block-chainid  the genesis block carries the encoded chain id

func init() {
	extend("C19", c19GapAll)
}

func c19GapAll(c *rep.Ctx) {
	c19GapFlagAgreement(c)
	c19GapByteOrder(c)
	c19GapBloomHeader(c)
	c19GapChainIDText(c)
	c19GapChainIDRemainder(c)
	c19GapValidChild(c)
	c19GapHeaderVersion(c)
	c19GapSetHardForkBlockNo(c)
	c19GapStoreCodec(c)
	c19GapHardforkKeyNames(c)
	c19GapHardforkStartup(c)
	c19GapOlderNode(c)
	c19GapFixDbAbsentOnly(c)
	c19GapMerkleInterior(c)
	c19GapGenesisBlockChainID(c)
}

// ---------------------------------------------------------------------------
// helpers

// c19GapDef is one definition of a local variable.
type c19GapDef struct {
	rhs ast.Expr // right-hand side (for a tuple assignment from one call: the call)
	idx int      // index of the variable on the left-hand side
	n   int      // number of left-hand sides
}

// c19GapDefs lists every place where obj gets a value in f (assignments,
// declarations with a value, ++/--, range variables, address taken => nil entry).
func c19GapDefs(f *an.Func, obj types.Object) (defs []c19GapDef, opaque bool) {
	info := f.Info()
	ast.Inspect(f.TopDecl().Body, func(n ast.Node) bool {
		switch x := n.(type) {
		case *ast.AssignStmt:
			for i, l := range x.Lhs {
				if an.ObjOf(info, l) != obj {
					continue
				}
				if x.Tok != token.ASSIGN && x.Tok != token.DEFINE {
					opaque = true
					continue
				}
				if len(x.Lhs) == len(x.Rhs) {
					defs = append(defs, c19GapDef{x.Rhs[i], 0, 1})
				} else if len(x.Rhs) == 1 {
					defs = append(defs, c19GapDef{x.Rhs[0], i, len(x.Lhs)})
				}
			}
		case *ast.ValueSpec:
			for i, nm := range x.Names {
				if info.Defs[nm] != obj {
					continue
				}
				if len(x.Values) == len(x.Names) {
					defs = append(defs, c19GapDef{x.Values[i], 0, 1})
				} else if len(x.Values) == 1 {
					defs = append(defs, c19GapDef{x.Values[0], i, len(x.Names)})
				}
				// no value: the zero value, later assignments are counted above
			}
		case *ast.IncDecStmt:
			if an.ObjOf(info, x.X) == obj {
				opaque = true
			}
		case *ast.RangeStmt:
			if (x.Key != nil && an.ObjOf(info, x.Key) == obj) || (x.Value != nil && an.ObjOf(info, x.Value) == obj) {
				opaque = true
			}
		case *ast.UnaryExpr:
			if x.Op == token.AND && an.ObjOf(info, x.X) == obj {
				opaque = true
			}
		}
		return true
	})
	return
}

// c19GapResolve replaces a local variable that has exactly one definition by
// the defining expression (single-value definitions only), repeatedly.
func c19GapResolve(f *an.Func, e ast.Expr) ast.Expr {
	info := f.Info()
	for depth := 0; depth < 4; depth++ {
		e = ast.Unparen(e)
		id, ok := e.(*ast.Ident)
		if !ok {
			return e
		}
		v, isVar := an.ObjOf(info, id).(*types.Var)
		if !isVar || v.IsField() || v.Parent() == nil || v.Parent() == v.Pkg().Scope() {
			return e
		}
		if c19GapIsParam(f, v) {
			return e
		}
		defs, opaque := c19GapDefs(f, v)
		if opaque || len(defs) != 1 || defs[0].n != 1 {
			return e
		}
		e = defs[0].rhs
	}
	return e
}

func c19GapParams(f *an.Func) []types.Object {
	var out []types.Object
	if f.Type == nil || f.Type.Params == nil {
		return nil
	}
	for _, fl := range f.Type.Params.List {
		for _, nm := range fl.Names {
			out = append(out, f.Info().Defs[nm])
		}
	}
	return out
}

func c19GapIsParam(f *an.Func, o types.Object) bool {
	for g := f; g != nil; g = g.Parent {
		for _, p := range c19GapParams(g) {
			if p == o && o != nil {
				return true
			}
		}
		if r := c19Receiver(g); r != nil && r == o {
			return true
		}
	}
	return false
}

// c19GapConst returns the exact constant value of e ("" if not constant).
func c19GapConst(info *types.Info, e ast.Expr) string {
	if e == nil {
		return ""
	}
	if tv, ok := info.Types[e]; ok && tv.Value != nil {
		return tv.Value.ExactString()
	}
	return ""
}

// c19GapRoot: the object at the root of a selector / call chain
// (a.b().c.d() -> a).
func c19GapRoot(info *types.Info, e ast.Expr) types.Object {
	for {
		e = ast.Unparen(e)
		switch x := e.(type) {
		case *ast.CallExpr:
			if tv, ok := info.Types[x.Fun]; ok && tv.IsType() && len(x.Args) == 1 {
				e = x.Args[0]
				continue
			}
			e = x.Fun
		case *ast.SelectorExpr:
			if _, isPkg := an.ObjOf(info, x.X).(*types.PkgName); isPkg {
				return nil
			}
			e = x.X
		case *ast.StarExpr:
			e = x.X
		case *ast.UnaryExpr:
			e = x.X
		case *ast.IndexExpr:
			e = x.X
		case *ast.SliceExpr:
			e = x.X
		case *ast.Ident:
			return an.ObjOf(info, x)
		default:
			return nil
		}
	}
}

// c19GapLin: linear form of an integer expression with once-defined locals
// replaced by their definitions.
func c19GapLin(f *an.Func, e ast.Expr) (linForm, bool) {
	info := f.Info()
	e = ast.Unparen(e)
	if s := c19GapConst(info, e); s != "" {
		return linOf(info, e)
	}
	switch x := e.(type) {
	case *ast.BinaryExpr:
		if x.Op == token.ADD || x.Op == token.SUB {
			a, ok1 := c19GapLin(f, x.X)
			b, ok2 := c19GapLin(f, x.Y)
			if !ok1 || !ok2 {
				return nil, false
			}
			k := int64(1)
			if x.Op == token.SUB {
				k = -1
			}
			return a.add(b, k), true
		}
		return nil, false
	case *ast.CallExpr:
		if tv, ok := info.Types[x.Fun]; ok && tv.IsType() && len(x.Args) == 1 {
			return c19GapLin(f, x.Args[0])
		}
		return linForm{an.ExprString(e): 1}, true
	case *ast.Ident:
		r := c19GapResolve(f, x)
		if r != ast.Expr(x) {
			if l, ok := c19GapLin(f, r); ok {
				return l, true
			}
		}
		return linForm{an.ExprString(e): 1}, true
	case *ast.SelectorExpr:
		return linForm{an.ExprString(e): 1}, true
	}
	return nil, false
}

func c19GapBlocks(ifs *ast.IfStmt) (thenB, elseB *ast.BlockStmt, chained bool) {
	thenB = ifs.Body
	switch e := ifs.Else.(type) {
	case *ast.BlockStmt:
		elseB = e
	case *ast.IfStmt:
		chained = true
	}
	return
}

func c19GapMentionsField(info *types.Info, n ast.Node, fld *types.Var) bool {
	if n == nil || reflect.ValueOf(n).IsNil() {
		return false
	}
	found := false
	ast.Inspect(n, func(m ast.Node) bool {
		if sel, ok := m.(*ast.SelectorExpr); ok && an.FieldOf(info, sel) == fld {
			found = true
		}
		return !found
	})
	return found
}

func c19GapIsByteSlice(t types.Type) bool {
	sl, ok := t.Underlying().(*types.Slice)
	if !ok {
		return false
	}
	b, ok := sl.Elem().Underlying().(*types.Basic)
	return ok && b.Kind() == types.Uint8
}

// ---------------------------------------------------------------------------
// flag-agreement

type c19GapFlagPair struct{ writer, reader, pkg, typ string }

var c19GapFlagPairs = []c19GapFlagPair{
	{"types.(*Receipt).marshalBody", "types.(*Receipt).unmarshalBody", "types", "Receipt"},
	{"types.(*Receipt).marshalBodyV2", "types.(*Receipt).unmarshalBodyV2", "types", "Receipt"},
	{"types.(*Event).marshalStoreBinary", "types.(*Event).unmarshalStoreBinary", "types", "Event"},
	{"types.(*Receipts).MarshalBinary", "types.(*Receipts).UnmarshalBinary", "types", "Receipts"},
}

type c19GapWFlag struct {
	fld               *types.Var
	payload, bare     string // flag constants ("" = the arm writes no flag byte)
	pos               token.Pos
	undecided         string
	hasPayl, hasBareC bool
	subst             *types.Var // bare arm taken when the field equals this other field (the reader restores it from there)
}

// c19GapArmFlag: the constant of the single top-level `x.WriteByte(const)` of a block.
func c19GapArmFlag(info *types.Info, b *ast.BlockStmt) (string, int) {
	val, n := "", 0
	if b == nil {
		return "", 0
	}
	for _, st := range b.List {
		es, ok := st.(*ast.ExprStmt)
		if !ok {
			continue
		}
		call, ok := es.X.(*ast.CallExpr)
		if !ok || len(call.Args) != 1 {
			continue
		}
		fn := an.Callee(info, call)
		if fn == nil || fn.Name() != "WriteByte" {
			continue
		}
		if k := c19GapConst(info, call.Args[0]); k != "" {
			val = k
			n++
		}
	}
	return val, n
}

func c19GapWriterFlags(f *an.Func, st *types.Struct) []c19GapWFlag {
	info := f.Info()
	fset := map[*types.Var]bool{}
	for i := 0; i < st.NumFields(); i++ {
		fset[st.Field(i)] = true
	}
	var out []c19GapWFlag
	an.InspectShallow(f.Body, func(n ast.Node) bool {
		ifs, ok := n.(*ast.IfStmt)
		if !ok {
			return true
		}
		thenB, elseB, chained := c19GapBlocks(ifs)
		tv, tn := c19GapArmFlag(info, thenB)
		ev, en := c19GapArmFlag(info, elseB)
		if tn == 0 && en == 0 {
			return true
		}
		// the fields of the codec's struct the condition reads
		fields := map[*types.Var]bool{}
		ast.Inspect(ifs.Cond, func(m ast.Node) bool {
			if sel, ok := m.(*ast.SelectorExpr); ok {
				if v := an.FieldOf(info, sel); v != nil && fset[v] {
					fields[v] = true
				}
			}
			return true
		})
		if len(fields) != 1 {
			return true
		}
		var fld *types.Var
		for v := range fields {
			fld = v
		}
		w := c19GapWFlag{fld: fld, pos: ifs.Pos()}
		if chained || elseB == nil || tn > 1 || en > 1 {
			w.undecided = "the flag is not written by a two-armed if with at most one constant WriteByte per arm"
			out = append(out, w)
			return true
		}
		mt, me := c19GapMentionsField(info, thenB, fld), c19GapMentionsField(info, elseB, fld)
		payloadIsThen := false
		switch {
		case mt && !me:
			payloadIsThen = true
		case me && !mt:
			payloadIsThen = false
		case !mt && !me:
			// a bool field: the payload arm is the arm on which the field is true
			b, isB := fld.Type().Underlying().(*types.Basic)
			if !isB || b.Kind() != types.Bool {
				w.undecided = "neither arm carries the field and it is not a bool"
				out = append(out, w)
				return true
			}
			cond := ast.Unparen(ifs.Cond)
			neg := false
			for {
				u, isU := cond.(*ast.UnaryExpr)
				if !isU || u.Op != token.NOT {
					break
				}
				neg = !neg
				cond = ast.Unparen(u.X)
			}
			if an.FieldOf(info, cond) != fld {
				w.undecided = "the condition is not the bool field itself"
				out = append(out, w)
				return true
			}
			payloadIsThen = !neg
		default:
			w.undecided = "both arms carry the field"
			out = append(out, w)
			return true
		}
		if mt != me {
			// the arm without the field must be the arm on which the field is empty
			// (or equal to the value the reader substitutes)
			thenEmpty, subst, why := c19GapEmptyArm(info, ifs.Cond, fld)
			if why != "" {
				w.undecided = why
				out = append(out, w)
				return true
			}
			w.subst = subst
			if thenEmpty == payloadIsThen {
				w.undecided = "!the field is written on the arm where it is empty (or equal to the substitute) and left out where it is not"
				out = append(out, w)
				return true
			}
		}
		if payloadIsThen {
			w.payload, w.hasPayl, w.bare, w.hasBareC = tv, tn == 1, ev, en == 1
		} else {
			w.payload, w.hasPayl, w.bare, w.hasBareC = ev, en == 1, tv, tn == 1
		}
		out = append(out, w)
		return true
	})
	return out
}

// c19GapEmptyArm: does the then-edge of cond mean "the field is empty / nil /
// equal to another field (substitute)"?
func c19GapEmptyArm(info *types.Info, cond ast.Expr, fld *types.Var) (thenEmpty bool, subst *types.Var, why string) {
	neg := false
	cond = ast.Unparen(cond)
	for {
		u, isU := cond.(*ast.UnaryExpr)
		if !isU || u.Op != token.NOT {
			break
		}
		neg = !neg
		cond = ast.Unparen(u.X)
	}
	switch x := cond.(type) {
	case *ast.CallExpr:
		if fn := an.Callee(info, x); fn != nil && an.FuncName(fn) == "bytes.Equal" && len(x.Args) == 2 {
			a, b := an.FieldOf(info, x.Args[0]), an.FieldOf(info, x.Args[1])
			switch {
			case a == fld && b != nil && b != fld:
				return !neg, b, ""
			case b == fld && a != nil && a != fld:
				return !neg, a, ""
			}
		}
	case *ast.BinaryExpr:
		for _, pr := range [][2]ast.Expr{{x.X, x.Y}, {x.Y, x.X}} {
			l, r := ast.Unparen(pr[0]), pr[1]
			swapped := pr[0] != x.X
			isLen := false
			if call, ok := l.(*ast.CallExpr); ok && an.IsBuiltin(info, call, "len") && len(call.Args) == 1 && an.FieldOf(info, call.Args[0]) == fld {
				isLen = true
			}
			isNil := false
			if tv, ok := info.Types[r]; ok && tv.IsNil() && an.FieldOf(info, l) == fld {
				isNil = true
			}
			if !(isLen && c19GapConst(info, r) == "0") && !isNil {
				continue
			}
			op := x.Op
			if swapped {
				op = c19Flip(op)
			}
			switch op {
			case token.EQL, token.LEQ:
				return !neg, nil, ""
			case token.NEQ, token.GTR:
				return neg, nil, ""
			}
		}
	}
	return false, nil, "the condition deciding the flag is not an emptiness / nil / bytes.Equal test of the field"
}

type c19GapRFlag struct {
	k          string // the constant the flag byte is compared with
	decodeOnEq bool   // the field is decoded on the arm where byte == k
	pos        token.Pos
	undecided  string
	bareRhs    []ast.Expr // what the arm that does not decode stores in the field
}

// c19GapIsWireByte: e is data[i] of a []byte, or a once-defined local holding one.
func c19GapIsWireByte(f *an.Func, e ast.Expr) bool {
	info := f.Info()
	e = c19GapResolve(f, e)
	ix, ok := ast.Unparen(e).(*ast.IndexExpr)
	if !ok {
		return false
	}
	tv, ok := info.Types[ix.X]
	return ok && c19GapIsByteSlice(tv.Type)
}

// c19GapByteTest: cond is `wirebyte == K` / `wirebyte != K`; returns K and
// whether the true edge is the == edge.
func c19GapByteTest(f *an.Func, cond ast.Expr) (k string, trueIsEq bool, ok bool) {
	info := f.Info()
	neg := false
	cond = ast.Unparen(cond)
	for {
		u, isU := cond.(*ast.UnaryExpr)
		if !isU || u.Op != token.NOT {
			break
		}
		neg = !neg
		cond = ast.Unparen(u.X)
	}
	if _, isID := cond.(*ast.Ident); isID {
		// a once-defined bool local holding the test
		if def := ast.Unparen(c19GapResolve(f, cond)); def != cond {
			k, eq, ok := c19GapByteTest(f, def)
			return k, eq != neg, ok
		}
	}
	be, isB := cond.(*ast.BinaryExpr)
	if !isB || (be.Op != token.EQL && be.Op != token.NEQ) {
		return "", false, false
	}
	for _, pr := range [][2]ast.Expr{{be.X, be.Y}, {be.Y, be.X}} {
		if kv := c19GapConst(info, pr[1]); kv != "" && c19GapIsWireByte(f, pr[0]) {
			return kv, (be.Op == token.EQL) != neg, true
		}
	}
	return "", false, false
}

func c19GapAssignsField(info *types.Info, b *ast.BlockStmt, fld *types.Var) (rhs []ast.Expr) {
	if b == nil {
		return nil
	}
	ast.Inspect(b, func(n ast.Node) bool {
		as, ok := n.(*ast.AssignStmt)
		if !ok {
			return true
		}
		for i, l := range as.Lhs {
			if an.FieldOf(info, l) == fld {
				if len(as.Lhs) == len(as.Rhs) {
					rhs = append(rhs, as.Rhs[i])
				} else {
					rhs = append(rhs, nil)
				}
			}
		}
		return true
	})
	return
}

func c19GapReaderFlag(f *an.Func, fld *types.Var) []c19GapRFlag {
	info := f.Info()
	var out []c19GapRFlag
	fromWire := func(e ast.Expr) bool {
		if e == nil {
			return false
		}
		if c19GapConst(info, e) != "" {
			return true // constant true of a flag field
		}
		e = c19Unconv(info, e)
		if u, ok := e.(*ast.UnaryExpr); ok && u.Op == token.AND {
			return true // a value decoded into a local (bloom filter)
		}
		if se, ok := e.(*ast.SliceExpr); ok {
			if tv, ok := info.Types[se.X]; ok && c19GapIsByteSlice(tv.Type) {
				if _, isField := ast.Unparen(se.X).(*ast.SelectorExpr); !isField {
					return true
				}
			}
		}
		return false
	}
	an.InspectShallow(f.Body, func(n ast.Node) bool {
		switch x := n.(type) {
		case *ast.IfStmt:
			thenB, elseB, chained := c19GapBlocks(x)
			ta, ea := c19GapAssignsField(info, thenB, fld), c19GapAssignsField(info, elseB, fld)
			if len(ta) == 0 && len(ea) == 0 {
				return true
			}
			r := c19GapRFlag{pos: x.Pos()}
			k, trueIsEq, ok := c19GapByteTest(f, x.Cond)
			if !ok || chained {
				r.undecided = "the field is stored under a condition that is not `byte ==/!= constant` on a byte of the input"
				out = append(out, r)
				return false
			}
			r.k = k
			decodeThen := false
			switch {
			case len(ta) > 0 && len(ea) == 0:
				decodeThen = true
			case len(ea) > 0 && len(ta) == 0:
				decodeThen = false
			default:
				tw, ew := false, false
				for _, e := range ta {
					tw = tw || fromWire(e)
				}
				for _, e := range ea {
					ew = ew || fromWire(e)
				}
				if tw == ew {
					r.undecided = "cannot tell which arm decodes the field from the input"
					out = append(out, r)
					return false
				}
				decodeThen = tw
			}
			r.decodeOnEq = decodeThen == trueIsEq
			if decodeThen {
				r.bareRhs = ea
			} else {
				r.bareRhs = ta
			}
			out = append(out, r)
			return false
		case *ast.AssignStmt:
			// field = (byte == K)
			for i, l := range x.Lhs {
				if an.FieldOf(info, l) != fld || len(x.Lhs) != len(x.Rhs) {
					continue
				}
				if k, trueIsEq, ok := c19GapByteTest(f, x.Rhs[i]); ok {
					out = append(out, c19GapRFlag{k: k, decodeOnEq: trueIsEq, pos: x.Pos()})
				}
			}
		}
		return true
	})
	return out
}

func c19GapFlagAgreement(c *rep.Ctx) {
	p := c.Prog
	for _, pr := range c19GapFlagPairs {
		w, r := c.Fn(pr.writer), c.Fn(pr.reader)
		st := p.LookupStruct(pr.pkg, pr.typ)
		if w == nil || r == nil {
			continue
		}
		if st == nil {
			c.Undecide("flag-agreement", pr.pkg+"."+pr.typ, "struct not found")
			continue
		}
		for _, wf := range c19GapWriterFlags(w, st) {
			key := pr.writer + "~" + pr.reader + "|" + wf.fld.Name()
			if strings.HasPrefix(wf.undecided, "!") {
				c.Check("flag-agreement", key, wf.pos, false, strings.TrimPrefix(wf.undecided, "!"))
				continue
			}
			if wf.undecided != "" {
				c.Undecide("flag-agreement", key, "writer: "+wf.undecided)
				continue
			}
			rfs := c19GapReaderFlag(r, wf.fld)
			if len(rfs) != 1 {
				c.Undecide("flag-agreement", key, "reader: expected exactly one place where the field is stored under a test of a flag byte, found "+itoa(len(rfs)))
				continue
			}
			rf := rfs[0]
			if rf.undecided != "" {
				c.Undecide("flag-agreement", key, "reader: "+rf.undecided)
				continue
			}
			ok := false
			how := ""
			if rf.decodeOnEq {
				ok = wf.hasPayl && wf.payload == rf.k && (!wf.hasBareC || wf.bare != rf.k)
				how = "reader decodes the field when the byte equals " + rf.k + "; writer emits " + c19GapShow(wf.payload, wf.hasPayl) + " with the field and " + c19GapShow(wf.bare, wf.hasBareC) + " without"
			} else {
				ok = wf.hasBareC && wf.bare == rf.k && (!wf.hasPayl || wf.payload != rf.k)
				how = "reader takes the field as absent when the byte equals " + rf.k + "; writer emits " + c19GapShow(wf.bare, wf.hasBareC) + " without the field and " + c19GapShow(wf.payload, wf.hasPayl) + " with it"
			}
			if wf.subst != nil {
				// the reader's other arm restores the field from the very field the writer compared it with
				restored := false
				for _, e := range rf.bareRhs {
					if e != nil && an.FieldOf(r.Info(), e) == wf.subst {
						restored = true
					}
				}
				if !restored {
					ok = false
					how += "; the writer leaves the field out when it equals " + wf.subst.Name() + " but the reader does not restore it from there"
				}
			}
			c.Check("flag-agreement", key, wf.pos, ok, "the flag byte the writer emits on the arm that carries the field is the one on which the reader decodes it ("+how+")")
		}
	}
	c.Floor("flag-agreement", 4)
}

func c19GapShow(v string, has bool) string {
	if !has {
		return "no flag byte"
	}
	return v
}

// ---------------------------------------------------------------------------
// byte-order: the n-th multi-byte integer is written and read with one order

func c19GapMultiByteInt(t types.Type) bool {
	if pt, ok := t.Underlying().(*types.Pointer); ok {
		t = pt.Elem()
	}
	b, ok := t.Underlying().(*types.Basic)
	if !ok {
		return false
	}
	switch b.Kind() {
	case types.Int16, types.Int32, types.Int64, types.Uint16, types.Uint32, types.Uint64:
		return true
	}
	return false
}

func c19GapOrderSeq(c *rep.Ctx, f *an.Func, write bool, entry map[string]bool, depth int) (seq []types.Object, names []string) {
	info := f.Info()
	for _, call := range an.CallsIn(f.Body) {
		fn := an.Callee(info, call)
		if fn == nil || fn.Pkg() == nil {
			continue
		}
		var order types.Object
		hit := false
		if fn.Pkg().Path() == "encoding/binary" {
			switch {
			case write && strings.HasPrefix(fn.Name(), "PutUint") && fn.Name() != "PutUint8":
				order, hit = c19ByteOrder(info, an.FieldUse{SinkFn: fn, SinkCall: call}), true
			case !write && strings.HasPrefix(fn.Name(), "Uint") && fn.Name() != "Uint8":
				order, hit = c19ByteOrder(info, an.FieldUse{SinkFn: fn, SinkCall: call}), true
			case (write && fn.Name() == "Write" || !write && fn.Name() == "Read") && len(call.Args) == 3:
				if tv, ok := info.Types[call.Args[2]]; ok && c19GapMultiByteInt(tv.Type) {
					hit = true
					if sel, ok := ast.Unparen(call.Args[1]).(*ast.SelectorExpr); ok {
						order = info.Uses[sel.Sel]
					} else {
						order = an.ObjOf(info, call.Args[1])
					}
				}
			}
			if hit {
				seq = append(seq, order)
				nm := "?"
				if order != nil {
					nm = order.Name()
				}
				names = append(names, nm)
			}
			continue
		}
		// helpers of the same package that are not codec entry points themselves
		if callee := c.Prog.FuncOf(fn); callee != nil && callee.Body != nil && callee.Pkg == f.Pkg && depth < 2 && !entry[callee.Name()] && callee != f {
			s2, n2 := c19GapOrderSeq(c, callee, write, entry, depth+1)
			seq = append(seq, s2...)
			names = append(names, n2...)
		}
	}
	return
}

func c19GapByteOrder(c *rep.Ctx) {
	entry := map[string]bool{}
	for _, cd := range c19Codecs {
		entry[cd.writer], entry[cd.reader] = true, true
	}
	for k := range c19Versioned {
		entry[k] = true
	}
	for _, cd := range c19Codecs {
		w, r := c.Fn(cd.writer), c.Fn(cd.reader)
		if w == nil || r == nil {
			continue
		}
		ws, wn := c19GapOrderSeq(c, w, true, entry, 0)
		rs, rn := c19GapOrderSeq(c, r, false, entry, 0)
		key := cd.writer + "~" + cd.reader
		if len(ws) != len(rs) || len(ws) == 0 {
			c.Undecide("byte-order", key, "the writer emits "+itoa(len(ws))+" multi-byte integers, the reader decodes "+itoa(len(rs))+": positions cannot be matched")
			continue
		}
		ok := true
		for i := range ws {
			if ws[i] == nil || ws[i] != rs[i] {
				ok = false
			}
		}
		c.Check("byte-order", key, w.Pos(), ok, "the n-th multi-byte integer of the encoding is written and read with the same byte order (writer: "+strings.Join(wn, ",")+"; reader: "+strings.Join(rn, ",")+")")
	}
	c.Floor("byte-order", 5)
}

// ---------------------------------------------------------------------------
// bloom-header

type c19GapHdrItem struct {
	order types.Object
	bits  string
	val   string
}

func c19GapIsBloomMethod(fn *types.Func, name string) bool {
	return fn != nil && fn.Name() == name && fn.Pkg() != nil && strings.HasSuffix(fn.Pkg().Path(), "willf/bloom")
}

func c19GapBloomHeader(c *rep.Ctx) {
	p := c.Prog
	pk := p.Pkg("types")
	if pk == nil {
		c.Undecide("bloom-header", "types", "package not loaded")
		return
	}
	type synth struct {
		f     *an.Func
		items []c19GapHdrItem
		bytes int64
		bad   string
	}
	var synths []synth
	type strip struct {
		f *an.Func
		k string
		p token.Pos
	}
	var strips []strip
	for _, f := range p.Funcs() {
		if f.Pkg != pk || f.Body == nil {
			continue
		}
		info := f.Info()
		calls := an.CallsIn(f.Body)
		// --- readers: bf.ReadFrom(&buffer)
		for _, call := range calls {
			if !c19GapIsBloomMethod(an.Callee(info, call), "ReadFrom") || len(call.Args) != 1 {
				continue
			}
			buf := c19RootObj(info, call.Args[0])
			if buf == nil {
				continue
			}
			s := synth{f: f}
			pending := map[types.Object]c19GapHdrItem{}
			payloadSeen := false
			for _, k := range calls {
				if k.Pos() >= call.Pos() {
					break
				}
				fn := an.Callee(info, k)
				if fn == nil || fn.Pkg() == nil {
					continue
				}
				if fn.Pkg().Path() == "encoding/binary" && strings.HasPrefix(fn.Name(), "PutUint") && len(k.Args) == 2 {
					if o := c19RootObj(info, k.Args[0]); o != nil {
						pending[o] = c19GapHdrItem{c19ByteOrder(info, an.FieldUse{SinkFn: fn, SinkCall: k}), strings.TrimPrefix(fn.Name(), "PutUint"), c19GapConst(info, k.Args[1])}
					}
					continue
				}
				if fn.Name() == "Write" && len(k.Args) == 1 && c19RecvOf(info, k) == buf {
					o := an.ObjOf(info, k.Args[0])
					it, isHdr := pending[o]
					switch {
					case isHdr && o != nil && !payloadSeen:
						if it.val == "" || it.order == nil {
							s.bad = "a header word is not a constant"
						}
						s.items = append(s.items, it)
						s.bytes += map[string]int64{"16": 2, "32": 4, "64": 8}[it.bits]
						delete(pending, o)
					case isHdr:
						s.bad = "header bytes after the filter bytes"
					default:
						if payloadSeen {
							s.bad = "more than one payload write"
						}
						payloadSeen = true
					}
				}
			}
			if !payloadSeen {
				s.bad = "the filter bytes are not appended to the synthesised header"
			}
			synths = append(synths, s)
		}
		// --- writers: x := bf.GobEncode(); w.Write(x[K:])
		for _, s := range f.Graph().Calls(func(fn *types.Func, _ *ast.CallExpr) bool { return c19GapIsBloomMethod(fn, "GobEncode") }) {
			res := f.Graph().ResultVarAt(s, 0)
			if res == nil {
				continue
			}
			for _, k := range calls {
				fn := an.Callee(info, k)
				if fn == nil || fn.Name() != "Write" || len(k.Args) != 1 {
					continue
				}
				se, ok := ast.Unparen(k.Args[0]).(*ast.SliceExpr)
				if !ok || an.ObjOf(info, se.X) != res {
					continue
				}
				if se.High != nil || se.Low == nil || c19GapConst(info, se.Low) == "" {
					strips = append(strips, strip{f, "?", k.Pos()})
				} else {
					strips = append(strips, strip{f, c19GapConst(info, se.Low), k.Pos()})
				}
			}
		}
	}
	if len(synths) < 2 || len(strips) < 1 {
		c.Undecide("bloom-header", "types", "expected two functions that rebuild a bloom filter from stored bytes and one that strips the header, found "+itoa(len(synths))+" and "+itoa(len(strips)))
		return
	}
	sort.Slice(synths, func(i, j int) bool { return synths[i].f.Name() < synths[j].f.Name() })
	show := func(s synth) string {
		var out []string
		for _, it := range s.items {
			nm := "?"
			if it.order != nil {
				nm = it.order.Name()
			}
			out = append(out, nm+".u"+it.bits+"="+it.val)
		}
		return strings.Join(out, ",")
	}
	ref := synths[0]
	for _, s := range synths {
		same := s.bad == "" && len(s.items) == len(ref.items)
		if same {
			for i := range s.items {
				if s.items[i] != ref.items[i] {
					same = false
				}
			}
		}
		c.Check("bloom-header", "synth|"+s.f.Name(), s.f.Pos(), same, "every reader that rebuilds a bloom filter from its stored bits prepends the same header words (this: "+show(s)+"; "+ref.f.Name()+": "+show(ref)+") "+s.bad)
	}
	for _, st := range strips {
		c.Check("bloom-header", "strip|"+st.f.Name(), st.p, st.k == itoa64(ref.bytes) && ref.bytes > 0, "the writer strips exactly the "+itoa64(ref.bytes)+" header bytes that the readers prepend again (strips "+st.k+")")
	}
	c.Floor("bloom-header", 3)
}

// ---------------------------------------------------------------------------
// chainid-text: "<magic>SEP<consensus>"

func c19GapChainIDText(c *rep.Ctx) {
	p := c.Prog
	w, r := c.Fn("types.(*ChainID).Bytes"), c.Fn("types.(*ChainID).Read")
	st := p.LookupStruct("types", "ChainID")
	if w == nil || r == nil || st == nil {
		return
	}
	key := "types.(*ChainID).Bytes~types.(*ChainID).Read"
	fset := map[*types.Var]bool{}
	for i := 0; i < st.NumFields(); i++ {
		fset[st.Field(i)] = true
	}
	// --- writer: Sprintf("%sSEP%s", f1, f2) or f1 + SEP + f2
	winfo := w.Info()
	var wfields []*types.Var
	var wseps []string
	found := 0
	an.InspectShallow(w.Body, func(n ast.Node) bool {
		switch x := n.(type) {
		case *ast.CallExpr:
			if an.CalleeName(winfo, x) != "fmt.Sprintf" || len(x.Args) < 3 {
				return true
			}
			format := c19GapConst(winfo, x.Args[0])
			if format == "" {
				return true
			}
			var fs []*types.Var
			for _, a := range x.Args[1:] {
				v := an.FieldOf(winfo, a)
				if v == nil || !fset[v] {
					return true
				}
				fs = append(fs, v)
			}
			found++
			format = strings.Trim(format, `"`)
			parts := strings.Split(format, "%s")
			if len(parts) != len(fs)+1 || parts[0] != "" || parts[len(parts)-1] != "" {
				wfields, wseps = nil, []string{"?"}
				return true
			}
			wfields, wseps = fs, parts[1:len(parts)-1]
		case *ast.BinaryExpr:
			if x.Op != token.ADD {
				return true
			}
			// flatten a + b + c
			var ops []ast.Expr
			var flat func(e ast.Expr)
			flat = func(e ast.Expr) {
				if be, ok := ast.Unparen(e).(*ast.BinaryExpr); ok && be.Op == token.ADD {
					flat(be.X)
					flat(be.Y)
					return
				}
				ops = append(ops, e)
			}
			flat(x)
			if len(ops) < 3 || len(ops)%2 == 0 {
				return true
			}
			var fs []*types.Var
			var seps []string
			for i, o := range ops {
				if i%2 == 0 {
					v := an.FieldOf(winfo, o)
					if v == nil || !fset[v] {
						return true
					}
					fs = append(fs, v)
				} else {
					k := c19GapConst(winfo, o)
					if k == "" {
						return true
					}
					seps = append(seps, strings.Trim(k, `"`))
				}
			}
			found++
			wfields, wseps = fs, seps
			return false
		}
		return true
	})
	if found != 1 || len(wfields) < 2 {
		c.Undecide("chainid-text", key, "writer: the text part is not one Sprintf(\"%s<sep>%s\", fields...) or concatenation of fields and constant separators")
		return
	}
	sep := wseps[0]
	for _, s := range wseps {
		if s != sep || s == "" {
			c.Undecide("chainid-text", key, "writer: separators differ or are empty")
			return
		}
	}
	// --- reader: parts := strings.Split(X, SEP); len(parts) != N => error; field_i = parts[i]
	rinfo := r.Info()
	rg := r.Graph()
	splits := rg.CallsTo("strings.Split")
	if len(splits) != 1 || len(splits[0].Call.Args) != 2 {
		c.Undecide("chainid-text", key, "reader: expected exactly one strings.Split")
		return
	}
	rsep := strings.Trim(c19GapConst(rinfo, splits[0].Call.Args[1]), `"`)
	parts := rg.ResultVarAt(splits[0], 0)
	if parts == nil {
		c.Undecide("chainid-text", key, "reader: the result of strings.Split is not stored in a variable")
		return
	}
	idx := map[*types.Var]string{}
	an.InspectShallow(r.Body, func(n ast.Node) bool {
		as, ok := n.(*ast.AssignStmt)
		if !ok || len(as.Lhs) != len(as.Rhs) {
			return true
		}
		for i, l := range as.Lhs {
			v := an.FieldOf(rinfo, l)
			if v == nil || !fset[v] {
				continue
			}
			if ix, ok := ast.Unparen(as.Rhs[i]).(*ast.IndexExpr); ok && an.ObjOf(rinfo, ix.X) == parts {
				idx[v] = c19GapConst(rinfo, ix.Index)
			}
		}
		return true
	})
	// count guard: a failure return on len(parts) != N
	countOK := false
	for _, n := range rg.Nodes {
		if n.Kind != an.KTrue && n.Kind != an.KFalse {
			continue
		}
		be, ok := ast.Unparen(n.Ast.(ast.Expr)).(*ast.BinaryExpr)
		if !ok || (be.Op != token.NEQ && be.Op != token.EQL) {
			continue
		}
		call, ok := ast.Unparen(be.X).(*ast.CallExpr)
		if !ok || !an.IsBuiltin(rinfo, call, "len") || an.ObjOf(rinfo, call.Args[0]) != parts {
			continue
		}
		if c19GapConst(rinfo, be.Y) != itoa(len(wfields)) {
			continue
		}
		// the edge on which the count is right dominates every store from parts
		right := (be.Op == token.EQL) == (n.Kind == an.KTrue)
		if !right {
			continue
		}
		all := true
		an.InspectShallow(r.Body, func(m ast.Node) bool {
			if ix, ok := m.(*ast.IndexExpr); ok && an.ObjOf(rinfo, ix.X) == parts {
				if nd := rg.NodeContaining(ix.Pos()); nd == nil || !rg.Dominated(nd, an.SetOf(n)) {
					all = false
				}
			}
			return true
		})
		countOK = all
	}
	c.Check("chainid-text", key+"|separator", splits[0].Call.Pos(), rsep == sep && sep != "", "the reader splits the text part at the separator the writer puts between the fields (writer "+sep+", reader "+rsep+")")
	c.Check("chainid-text", key+"|count", splits[0].Call.Pos(), countOK, "the reader takes the parts only when their number equals the number of fields the writer joins ("+itoa(len(wfields))+")")
	for i, f := range wfields {
		c.Check("chainid-text", key+"|"+f.Name(), r.Pos(), idx[f] == itoa(i), "field "+f.Name()+" is written at position "+itoa(i)+" of the text part and read from position "+idx[f])
	}
	c.Floor("chainid-text", 4)
}

// ---------------------------------------------------------------------------
// chainid-remainder

func c19GapChainIDRemainder(c *rep.Ctx) {
	p := c.Prog
	size := ""
	if cst, ok := p.LookupObj("types", "versionByteSize").(*types.Const); ok {
		size = cst.Val().ExactString()
	}
	if size == "" {
		c.Undecide("chainid-remainder", "types.versionByteSize", "constant not found")
		return
	}
	// openFrom: e is X[size:] ; returns root object of X
	openFrom := func(info *types.Info, e ast.Expr) types.Object {
		se, ok := ast.Unparen(e).(*ast.SliceExpr)
		if !ok || se.High != nil || se.Low == nil || c19GapConst(info, se.Low) != size {
			return nil
		}
		return an.ObjOf(info, se.X)
	}
	if f := c.Fn("types.ChainIdEqualWithoutVersion"); f != nil {
		info := f.Info()
		g := f.Graph()
		params := c19GapParams(f)
		ok := len(params) == 2
		why := ""
		// every return that can yield true is bytes.Equal(a[size:], b[size:])
		for _, r := range g.Returns() {
			rs := r.Ast.(*ast.ReturnStmt)
			if len(rs.Results) != 1 {
				ok = false
				continue
			}
			if c19GapConst(info, rs.Results[0]) == "false" {
				continue
			}
			call, isC := ast.Unparen(rs.Results[0]).(*ast.CallExpr)
			if !isC || an.CalleeName(info, call) != "bytes.Equal" || len(call.Args) != 2 {
				ok, why = false, "a return is neither false nor bytes.Equal of two slices"
				continue
			}
			a, b := openFrom(info, call.Args[0]), openFrom(info, call.Args[1])
			if a == nil || b == nil || a == b || !ok || !((a == params[0] && b == params[1]) || (a == params[1] && b == params[0])) {
				ok, why = false, "the compared operands are not the two ids from versionByteSize to the end"
			}
		}
		c.Check("chainid-remainder", "types.ChainIdEqualWithoutVersion", f.Pos(), ok, "two chain ids are equal without version exactly when everything behind the first versionByteSize bytes is equal: the only accepting return is bytes.Equal(a[versionByteSize:], b[versionByteSize:]) "+why)
	}
	if f := c.Fn("types.MakeChainId"); f != nil {
		info := f.Info()
		g := f.Graph()
		params := c19GapParams(f)
		ok := len(params) == 2
		why := ""
		n := 0
		for _, r := range g.Returns() {
			rs := r.Ast.(*ast.ReturnStmt)
			if len(rs.Results) != 1 {
				ok = false
				continue
			}
			res := an.ObjOf(info, rs.Results[0])
			if ok && res == params[0] {
				// shortcut: the id already carries the version: guarded by bytes.Equal(cid[:size], ChainIdVersion(v))
				guarded := false
				for _, ft := range g.FactsAt(r) {
					call, isC := ast.Unparen(ft.Cond).(*ast.CallExpr)
					if !isC || !ft.Val || an.CalleeName(info, call) != "bytes.Equal" || len(call.Args) != 2 {
						continue
					}
					for _, pr := range [][2]ast.Expr{{call.Args[0], call.Args[1]}, {call.Args[1], call.Args[0]}} {
						se, isS := ast.Unparen(pr[0]).(*ast.SliceExpr)
						if !isS || se.Low != nil || se.High == nil || c19GapConst(info, se.High) != size || an.ObjOf(info, se.X) != params[0] {
							continue
						}
						if cc, isCC := ast.Unparen(c19GapResolve(f, pr[1])).(*ast.CallExpr); isCC && an.CalleeName(info, cc) == "types.ChainIdVersion" && len(cc.Args) == 1 && an.ObjOf(info, cc.Args[0]) == params[1] {
							guarded = true
						}
					}
				}
				if !guarded {
					ok, why = false, "the id is returned unchanged without a test that its prefix already is the requested version"
				}
				continue
			}
			n++
			if res == nil || !ok {
				ok, why = false, "a return is neither the parameter nor a local buffer"
				continue
			}
			// res = make([]byte, len(cid)); copy(res, ChainIdVersion(v)); copy(res[size:], cid[size:])
			def := c19GapResolve(f, rs.Results[0])
			mk, isMk := ast.Unparen(def).(*ast.CallExpr)
			sized := false
			if isMk && an.IsBuiltin(info, mk, "make") && len(mk.Args) == 2 {
				if l, isL := ast.Unparen(mk.Args[1]).(*ast.CallExpr); isL && an.IsBuiltin(info, l, "len") && an.ObjOf(info, l.Args[0]) == params[0] {
					sized = true
				}
			}
			prefix, rest := an.Set{}, an.Set{}
			for _, s := range g.Calls(func(_ *types.Func, call *ast.CallExpr) bool {
				return an.IsBuiltin(info, call, "copy") && len(call.Args) == 2
			}) {
				dst, src := s.Call.Args[0], s.Call.Args[1]
				if an.ObjOf(info, dst) == res {
					if cc, isCC := ast.Unparen(c19GapResolve(f, src)).(*ast.CallExpr); isCC && an.CalleeName(info, cc) == "types.ChainIdVersion" && len(cc.Args) == 1 && an.ObjOf(info, cc.Args[0]) == params[1] {
						prefix[s.Node] = true
					}
				}
				if openFrom(info, dst) == res && openFrom(info, src) == params[0] {
					rest[s.Node] = true
				}
			}
			if !sized || len(prefix) == 0 || len(rest) == 0 || !g.Dominated(r, prefix) || !g.Dominated(r, rest) {
				ok, why = false, "the new id is not: a buffer of len(cid), the version bytes copied to its start, cid[versionByteSize:] copied behind them"
			}
		}
		c.Check("chainid-remainder", "types.MakeChainId", f.Pos(), ok && n >= 1, "MakeChainId(cid, v) = ChainIdVersion(v) followed by the unchanged remainder of cid, same length "+why)
	}
	c.Floor("chainid-remainder", 2)
}

// ---------------------------------------------------------------------------
// validchild

func c19GapValidChild(c *rep.Ctx) {
	f := c.Fn("types.(*Block).ValidChildOf")
	if f == nil {
		return
	}
	info := f.Info()
	g := f.Graph()
	recv := c19Receiver(f)
	params := c19GapParams(f)
	if recv == nil || len(params) != 1 {
		c.Undecide("validchild", "types.(*Block).ValidChildOf", "signature changed")
		return
	}
	// side: which block does an expression (a chain id) come from?
	side := func(e ast.Expr) types.Object {
		e = c19GapResolve(f, e)
		if !containsCallTo(info, e, "types.(*BlockHeader).GetChainID") {
			if fv := an.FieldOf(info, e); fv == nil || fv.Name() != "ChainID" {
				return nil
			}
		}
		return c19GapRoot(info, e)
	}
	lenZero := func(e ast.Expr) (types.Object, bool, bool) {
		be, ok := ast.Unparen(e).(*ast.BinaryExpr)
		if !ok || (be.Op != token.EQL && be.Op != token.NEQ) || c19GapConst(info, be.Y) != "0" {
			return nil, false, false
		}
		call, ok := ast.Unparen(be.X).(*ast.CallExpr)
		if !ok || !an.IsBuiltin(info, call, "len") {
			return nil, false, false
		}
		s := side(call.Args[0])
		return s, be.Op == token.NEQ, s != nil
	}
	at := func(e ast.Expr) (string, bool, bool) {
		s, neg, ok := lenZero(e)
		if !ok {
			return "", false, false
		}
		switch s {
		case recv:
			return "C", neg, true
		case params[0]:
			return "P", neg, true
		}
		return "", false, false
	}
	ok := true
	why := ""
	eq := 0
	for _, r := range g.Returns() {
		rs := r.Ast.(*ast.ReturnStmt)
		if len(rs.Results) != 1 {
			ok = false
			continue
		}
		switch c19GapConst(info, rs.Results[0]) {
		case "false":
			continue
		case "true":
			if good, _ := g.GuardedAt(r, at, map[string]bool{"C": true, "P": true}); !good {
				ok, why = false, "`true` is returned on a path where not both chain ids are known to be empty"
			}
			continue
		}
		call, isC := ast.Unparen(rs.Results[0]).(*ast.CallExpr)
		if !isC || an.CalleeName(info, call) != "types.ChainIdEqualWithoutVersion" || len(call.Args) != 2 {
			ok, why = false, "a return is neither a constant nor ChainIdEqualWithoutVersion"
			continue
		}
		a, b := side(call.Args[0]), side(call.Args[1])
		if !((a == recv && b == params[0]) || (a == params[0] && b == recv)) {
			ok, why = false, "the compared ids are not the chain id of the block and the chain id of the parent"
		}
		eq++
	}
	c.Check("validchild", "types.(*Block).ValidChildOf", f.Pos(), ok && eq >= 1, "a block is a valid child only if both chain ids are empty (legacy) or ChainIdEqualWithoutVersion(parent's id, block's id) "+why)
	c.Floor("validchild", 1)
}

// ---------------------------------------------------------------------------
// header-version

// c19GapLitValues maps the fields of a struct literal (keyed or positional) to their values.
func c19GapLitValues(info *types.Info, cl *ast.CompositeLit, st *types.Struct) map[string]ast.Expr {
	vals := map[string]ast.Expr{}
	for i, el := range cl.Elts {
		if kv, ok := el.(*ast.KeyValueExpr); ok {
			if id, ok := kv.Key.(*ast.Ident); ok {
				vals[id.Name] = kv.Value
			}
		} else if i < st.NumFields() {
			vals[st.Field(i).Name()] = el
		}
	}
	return vals
}

func c19GapFindLit(f *an.Func, st *types.Struct) *ast.CompositeLit {
	var out *ast.CompositeLit
	n := 0
	an.InspectShallow(f.Body, func(m ast.Node) bool {
		if cl, ok := m.(*ast.CompositeLit); ok {
			if tv, ok := f.Info().Types[cl]; ok {
				if s, ok := tv.Type.Underlying().(*types.Struct); ok && s == st {
					out = cl
					n++
				}
			}
		}
		return true
	})
	if n != 1 {
		return nil
	}
	return out
}

func c19GapHeaderVersion(c *rep.Ctx) {
	p := c.Prog
	st := p.LookupStruct("types", "BlockHeaderInfo")
	if st == nil {
		c.Undecide("header-version", "types.BlockHeaderInfo", "struct not found")
		return
	}
	// rootOf: the root object of a getter / selector chain, looking through once-defined locals
	// ( hdr := b.GetHeader(); hdr.GetBlockNo()  has root b )
	var rootOf func(f *an.Func, e ast.Expr, depth int) types.Object
	rootOf = func(f *an.Func, e ast.Expr, depth int) types.Object {
		info := f.Info()
		r := c19GapRoot(info, e)
		if r == nil || depth > 4 {
			return r
		}
		if v, isVar := r.(*types.Var); isVar && !v.IsField() {
			if rhs, _ := f.Graph().SingleDef(r); rhs != nil {
				if r2 := rootOf(f, rhs, depth+1); r2 != nil {
					return r2
				}
			}
		}
		return r
	}
	blockNoOf := func(f *an.Func, e ast.Expr, root types.Object) bool {
		info := f.Info()
		e = c19GapResolve(f, e)
		isNo := containsCallTo(info, e, "types.(*BlockHeader).GetBlockNo", "types.(*Block).BlockNo")
		if fv := an.FieldOf(info, e); fv != nil && fv.Name() == "BlockNo" {
			isNo = true
		}
		return isNo && rootOf(f, e, 0) == root && root != nil
	}
	chainIDOf := func(f *an.Func, e ast.Expr, root types.Object) bool {
		info := f.Info()
		e = c19GapResolve(f, e)
		if rootOf(f, e, 0) != root || root == nil {
			return false
		}
		if containsCallTo(info, e, "types.(*BlockHeader).GetChainID") {
			return true
		}
		fv := an.FieldOf(info, e)
		return fv != nil && fv.Name() == "ChainID"
	}
	if f := c.Fn("types.NewBlockHeaderInfoFromPrevBlock"); f != nil {
		info := f.Info()
		g := f.Graph()
		params := c19GapParams(f)
		cl := c19GapFindLit(f, st)
		if cl == nil || len(params) != 3 {
			c.Undecide("header-version", "types.NewBlockHeaderInfoFromPrevBlock", "no single BlockHeaderInfo literal / signature changed")
		} else {
			prev, bv := params[0], params[2]
			vals := c19GapLitValues(info, cl, st)
			ok, why := true, ""
			vs := g.CallsTo("types.(BlockVersionner).Version")
			if len(vs) != 1 || len(vs[0].Call.Args) != 1 || c19RecvOf(info, vs[0].Call) != bv {
				ok, why = false, "expected one call bv.Version(no) on the versionner parameter"
			}
			var noLin linForm
			if ok {
				// No = prev's number + 1
				l, lok := c19GapLin(f, vals["No"])
				noLin = l
				one := lok && len(l) == 2 && l["1"] == 1
				operand := false
				if one {
					// exactly one non-constant operand with coefficient 1, which is prev's block number
					an.InspectShallow(c19GapResolve(f, vals["No"]), func(m ast.Node) bool {
						if e, isE := m.(ast.Expr); isE && blockNoOf(f, e, prev) {
							if le, lok := c19GapLin(f, e); lok && len(le) == 1 {
								for k, v := range le {
									if v == 1 && l[k] == 1 {
										operand = true
									}
								}
							}
						}
						return !operand
					})
				}
				if !one || !operand {
					ok, why = false, "the number of the new block is not the parent's number + 1"
				}
			}
			if ok {
				al, alok := c19GapLin(f, vs[0].Call.Args[0])
				if !alok || al.String() != noLin.String() {
					ok, why = false, "Version is asked for "+al.String()+", the block's number is "+noLin.String()
				}
			}
			if ok {
				v := g.ResultVarAt(vs[0], 0)
				isV := func(e ast.Expr) bool {
					if v != nil && an.ObjOf(info, e) == v {
						return true
					}
					return ast.Unparen(c19GapResolve(f, e)) == ast.Expr(vs[0].Call)
				}
				if !isV(vals["ForkVersion"]) {
					ok, why = false, "ForkVersion is not the result of bv.Version(no)"
				}
				mc, isC := ast.Unparen(c19GapResolve(f, vals["ChainId"])).(*ast.CallExpr)
				if ok && (!isC || an.CalleeName(info, mc) != "types.MakeChainId" || len(mc.Args) != 2 || !isV(mc.Args[1]) || !chainIDOf(f, mc.Args[0], prev)) {
					ok, why = false, "ChainId is not MakeChainId(parent's chain id, bv.Version(no))"
				}
			}
			c.Check("header-version", "types.NewBlockHeaderInfoFromPrevBlock", f.Pos(), ok, "a produced block gets the number parent+1, the version Version(that number) as ForkVersion and as the version prefix of the parent's chain id "+why)
		}
	}
	if f := c.Fn("types.NewBlockHeaderInfo"); f != nil {
		info := f.Info()
		params := c19GapParams(f)
		cl := c19GapFindLit(f, st)
		if cl == nil || len(params) != 1 {
			c.Undecide("header-version", "types.NewBlockHeaderInfo", "no single BlockHeaderInfo literal / signature changed")
		} else {
			b := params[0]
			vals := c19GapLitValues(info, cl, st)
			ok, why := true, ""
			if !blockNoOf(f, vals["No"], b) {
				ok, why = false, "No is not the block's own number"
			}
			if ok && !chainIDOf(f, vals["ChainId"], b) {
				ok, why = false, "ChainId is not the block's own chain id"
			}
			if ok {
				dc, isC := ast.Unparen(c19GapResolve(f, vals["ForkVersion"])).(*ast.CallExpr)
				if !isC || an.CalleeName(info, dc) != "types.DecodeChainIdVersion" || len(dc.Args) != 1 || !chainIDOf(f, dc.Args[0], b) {
					ok, why = false, "ForkVersion is not DecodeChainIdVersion(the block's own chain id)"
				}
			}
			c.Check("header-version", "types.NewBlockHeaderInfo", f.Pos(), ok, "a received block is executed under its own number, its own chain id and the version decoded from that chain id "+why)
		}
	}
	c.Floor("header-version", 2)
}

// ---------------------------------------------------------------------------
// sethardfork-blockno

var c19GapSetHardForkExempt = map[string]string{
	"contract/vm_direct.newBlockExecutor": "development harness, not part of the node: it builds its own block with BlockNo bestBlockNo+1 and versions it with the same expression",
}

func c19GapSetHardForkBlockNo(c *rep.Ctx) {
	p := c.Prog
	blockT := p.LookupObj("types", "Block")
	dummy := p.LookupObj("types", "DummyBlockVersionner")
	if blockT == nil {
		c.Undecide("sethardfork-blockno", "types.Block", "type not found")
		return
	}
	isBlockPtr := func(t types.Type) bool {
		pt, ok := t.(*types.Pointer)
		return ok && types.Identical(pt.Elem(), blockT.Type())
	}
	n := 0
	for _, cs := range p.CallSitesOf(map[string]bool{"types.(*Receipts).SetHardFork": true}) {
		if cs.Fn == nil || len(cs.Call.Args) != 2 {
			continue
		}
		f := cs.Fn
		key := f.Name()
		n++
		if why, ex := c19GapSetHardForkExempt[f.TopDecl().Name()]; ex {
			c.CheckTrivial("sethardfork-blockno", key, cs.Call.Pos(), true, "exempt: "+why)
			continue
		}
		info := f.Info()
		arg := c19GapResolve(f, cs.Call.Args[1])
		ok, how := false, ""
		// (a) X.No of the header info built in this function
		if sel, isS := ast.Unparen(arg).(*ast.SelectorExpr); isS {
			if fv := an.FieldOf(info, sel); fv != nil && fv.Name() == "No" {
				def := c19GapResolve(f, sel.X)
				if call, isC := ast.Unparen(def).(*ast.CallExpr); isC {
					switch an.CalleeName(info, call) {
					case "types.NewBlockHeaderInfoFromPrevBlock", "types.NewBlockHeaderInfo":
						ok, how = true, "the number in the header info of the block being built"
					}
				}
			}
		}
		// (b) B.BlockNo() of a *types.Block parameter
		if !ok {
			if call, isC := ast.Unparen(arg).(*ast.CallExpr); isC && containsCallTo(info, call, "types.(*Block).BlockNo", "types.(*BlockHeader).GetBlockNo") {
				if l, lok := c19GapLin(f, arg); lok && len(l) == 1 {
					root := c19GapRoot(info, call)
					if root != nil && c19GapIsParam(f, root) && isBlockPtr(root.Type()) {
						ok, how = true, "the number of the block handed in"
						// ... unless that block is the parent a new block is being built on
						for _, k := range an.CallsIn(f.TopDecl().Body) {
							if an.CalleeName(info, k) == "types.NewBlockHeaderInfoFromPrevBlock" && len(k.Args) > 0 && c19GapRoot(info, k.Args[0]) == root {
								ok, how = false, "the block handed in is the parent of the block being built"
							}
						}
					}
				}
			}
		}
		// (c) the block number parameter under which the stored record is looked up
		if !ok {
			if o := an.ObjOf(info, arg); o != nil && c19GapIsParam(f, o) {
				for _, k := range an.CallsIn(f.TopDecl().Body) {
					if an.CalleeName(info, k) == "types/dbkey.Receipts" && len(k.Args) == 2 && an.ObjOf(info, k.Args[1]) == o {
						ok, how = true, "the block number the stored record is keyed by"
					}
				}
			}
		}
		c.Check("sethardfork-blockno", key+"|height", cs.Call.Pos(), ok, "the receipt format version is selected with the number of the very block the receipts belong to (header info of the block being built, the block handed in, or the key of the stored record); "+how)
		// the table must depend on the height
		tv, has := info.Types[cs.Call.Args[0]]
		constTable := has && dummy != nil && types.Identical(tv.Type, dummy.Type())
		c.Check("sethardfork-blockno", key+"|table", cs.Call.Pos(), has && !constTable, "the version table handed to SetHardFork is the node's hardfork configuration, not a constant version")
	}
	if n < 5 {
		c.Undecide("sethardfork-blockno", "types.(*Receipts).SetHardFork", "fewer call sites than on the reference tree (6)")
	}
	c.Floor("sethardfork-blockno", 9)
}

// ---------------------------------------------------------------------------
// store-codec

type c19GapStoreRow struct {
	key     string   // dbkey constructor
	encoder []string // the stored value is the result of one of these
	decoder []string // the value read is handed to one of these
	what    string
}

var c19GapStoreRows = []c19GapStoreRow{
	{"types/dbkey.Receipts", []string{"internal/enc/gob.Encode"}, []string{"internal/enc/gob.Decode"}, "receipts of a block (gob envelope around Receipts.MarshalBinary)"},
	{"types/dbkey.Genesis", []string{"types.(Genesis).Bytes"}, []string{"types.GetGenesisFromBytes"}, "genesis info"},
	{"types/dbkey.HardFork", []string{"encoding/json.Marshal"}, []string{"encoding/json.Unmarshal"}, "hardfork heights"},
}

func c19GapStoreCodec(c *rep.Ctx) {
	p := c.Prog
	total := 0
	for _, row := range c19GapStoreRows {
		enc, dec := map[string]bool{}, map[string]bool{}
		for _, e := range row.encoder {
			enc[e] = true
		}
		for _, d := range row.decoder {
			dec[d] = true
		}
		sets, gets := 0, 0
		for _, cs := range p.CallSitesOf(map[string]bool{row.key: true}) {
			if cs.Fn == nil {
				continue
			}
			f := cs.Fn
			info := f.Info()
			// the call the key is an argument of
			var outer *ast.CallExpr
			for _, k := range an.CallsIn(f.Body) {
				for _, a := range k.Args {
					if ast.Unparen(a) == ast.Expr(cs.Call) {
						outer = k
					}
				}
			}
			if outer == nil {
				c.Undecide("store-codec", row.key+"|"+f.Name(), "the key is not used directly as an argument of a store access")
				continue
			}
			name := ""
			if sel, ok := ast.Unparen(outer.Fun).(*ast.SelectorExpr); ok {
				name = sel.Sel.Name
			}
			switch {
			case name == "Set" && len(outer.Args) == 2:
				sets++
				total++
				v := c19GapResolve(f, outer.Args[1])
				ok := false
				var call *ast.CallExpr
				if cc, isC := ast.Unparen(v).(*ast.CallExpr); isC {
					call = cc
				} else if o := an.ObjOf(info, v); o != nil {
					// val, _ := Encode(x)
					if defs, opaque := c19GapDefs(f, o); !opaque && len(defs) == 1 && defs[0].idx == 0 {
						call, _ = ast.Unparen(defs[0].rhs).(*ast.CallExpr)
					}
				}
				got := "not a call"
				if call != nil {
					got = an.CalleeName(info, call)
					ok = enc[got]
				}
				c.Check("store-codec", row.key+"|Set|"+f.Name(), outer.Pos(), ok, "the value stored as "+row.what+" is produced by "+strings.Join(row.encoder, "/")+", the encoder whose decoder every reader applies (got "+got+")")
			case name == "Get" && len(outer.Args) == 1:
				gets++
				total++
				// the variable holding the bytes
				var data types.Object
				an.InspectShallow(f.Body, func(m ast.Node) bool {
					if as, ok := m.(*ast.AssignStmt); ok && len(as.Lhs) == 1 && len(as.Rhs) == 1 && ast.Unparen(as.Rhs[0]) == ast.Expr(outer) {
						data = an.ObjOf(info, as.Lhs[0])
					}
					return true
				})
				if data == nil {
					c.Undecide("store-codec", row.key+"|Get|"+f.Name(), "the bytes read are not stored in a variable")
					continue
				}
				other := ""
				for _, k := range an.CallsIn(f.Body) {
					for _, a := range k.Args {
						if an.ObjOf(info, a) != data {
							continue
						}
						switch nm := an.CalleeName(info, k); {
						case dec[nm]:
						case an.IsBuiltin(info, k, "len"):
						default:
							if tvf, ok := info.Types[k.Fun]; ok && tvf.IsType() {
								continue
							}
							other = nm
						}
					}
				}
				c.Check("store-codec", row.key+"|Get|"+f.Name(), outer.Pos(), other == "", "the bytes read as "+row.what+" are only tested for presence or decoded with "+strings.Join(row.decoder, "/")+" (other consumer: "+other+")")
			case name == "Delete" || name == "Exist":
			default:
				c.Undecide("store-codec", row.key+"|"+f.Name(), "unknown store access "+name)
			}
		}
		if sets == 0 || gets == 0 {
			c.Undecide("store-codec", row.key, "no writer or no reader of the record found")
		}
	}
	c.Floor("store-codec", 7)
}

// ---------------------------------------------------------------------------
// hardfork-key-names

func c19GapHardforkKeyNames(c *rep.Ctx) {
	st := c.Prog.LookupStruct("config", "HardforkConfig")
	if st == nil {
		c.Undecide("hardfork-key-names", "config.HardforkConfig", "struct not found")
		return
	}
	for i := 0; i < st.NumFields(); i++ {
		fld := st.Field(i)
		tag := reflect.StructTag(st.Tag(i)).Get("json")
		name := strings.Split(tag, ",")[0]
		c.Check("hardfork-key-names", "config.HardforkConfig."+fld.Name(), fld.Pos(), (name == "" || name == fld.Name()) && name != "-",
			"the hardfork record is stored with json.Marshal(HardforkConfig) and read back by field name (CheckCompatibility looks up \""+fld.Name()+"\", FixDbConfig the reflected field name): the JSON key of the field must be its name (json tag: "+tag+")")
	}
	c.Floor("hardfork-key-names", 4)
}

// ---------------------------------------------------------------------------
// hardfork-startup

func c19GapHardforkStartup(c *rep.Ctx) {
	p := c.Prog
	f := c.Fn("chain.(*ChainService).checkHardfork")
	if f == nil {
		return
	}
	info := f.Info()
	g := f.Graph()
	chk := g.CallsTo("config.(*HardforkConfig).CheckCompatibility")
	if len(chk) != 1 || len(chk[0].Call.Args) != 2 {
		c.Undecide("hardfork-startup", "chain.(*ChainService).checkHardfork", "expected one CheckCompatibility call")
		return
	}
	// (a) the height is the best block number
	h := c19GapResolve(f, chk[0].Call.Args[1])
	hc, isC := ast.Unparen(h).(*ast.CallExpr)
	okH := isC && (an.CalleeName(info, hc) == "chain.(*ChainDB).getBestBlockNo")
	c.Check("hardfork-startup", "chain.(*ChainService).checkHardfork|height", chk[0].Call.Pos(), okH, "the compatibility of the configured heights is checked against the best block number of the chain DB (a fork counts as active from its height on): "+an.ExprString(chk[0].Call.Args[1]))
	// (b) every return that can report success has written the table
	nilEdges := g.ErrNilEdges(chk[0])
	okP, whyP := len(nilEdges) > 0, ""
	ws := g.CallsTo("chain.(*ChainDB).WriteHardfork")
	wEdges := an.Set{}
	for _, s := range ws {
		for e := range g.ErrNilEdges(s) {
			wEdges[e] = true
		}
	}
	fails := g.FailureReturns()
	for _, r := range g.Returns() {
		rs := r.Ast.(*ast.ReturnStmt)
		if len(rs.Results) != 1 {
			okP = false
			continue
		}
		if call, isCall := ast.Unparen(rs.Results[0]).(*ast.CallExpr); isCall && an.CalleeName(info, call) == "chain.(*ChainDB).WriteHardfork" {
			continue // the verdict of the write itself
		}
		if tv, has := info.Types[rs.Results[0]]; fails[r] && !(has && tv.IsNil()) {
			continue // an error outcome
		}
		written := len(wEdges) > 0 && g.Dominated(r, wEdges)
		if !written {
			// `err := WriteHardfork(..); return err`
			for _, s := range ws {
				if v := g.ResultVarAt(s, 0); v != nil && an.ObjOf(info, rs.Results[0]) == v && g.Dominated(r, an.SetOf(s.Node)) {
					clean := true
					for nd := range g.Between(s.Node, r) {
						if nd != s.Node && nd.Ast != nil && nd.Kind == an.KStmt && an.Assigns(info, nd.Ast, v) {
							clean = false
						}
					}
					written = written || clean
				}
			}
		}
		if !written {
			okP, whyP = false, "a return that can report success is reached without the accepted table having been written"
		}
	}
	c.Check("hardfork-startup", "chain.(*ChainService).checkHardfork|persist", f.Pos(), okP, "every successful outcome of checkHardfork has written the accepted table to the chain DB (later restarts are checked against it) "+whyP)
	// (c) network tables
	for _, row := range [][2]string{{"types.(*Genesis).IsMainNet", "MainNetHardforkConfig"}, {"types.(*Genesis).IsTestNet", "TestNetHardforkConfig"}} {
		tbl := p.LookupObj("config", row[1])
		sites := g.CallsTo(row[0])
		if tbl == nil || len(sites) != 1 {
			c.Undecide("hardfork-startup", "chain.(*ChainService).checkHardfork|"+row[1], "network test or table not found")
			continue
		}
		edges := g.BoolEdges(sites[0], true)
		ok, n := true, 0
		for _, nd := range g.StmtNodes(func(n *an.Node) bool { _, isA := n.Ast.(*ast.AssignStmt); return isA }) {
			as := nd.Ast.(*ast.AssignStmt)
			for _, rhs := range as.Rhs {
				uses := false
				ast.Inspect(rhs, func(m ast.Node) bool {
					if id, isID := m.(*ast.Ident); isID && info.Uses[id] == tbl {
						uses = true
					}
					return true
				})
				if !uses {
					continue
				}
				n++
				if len(edges) == 0 || !g.Dominated(nd, edges) {
					ok = false
				}
			}
		}
		c.Check("hardfork-startup", "chain.(*ChainService).checkHardfork|"+row[1], f.Pos(), ok && n >= 1, "the compiled-in table "+row[1]+" is installed only where "+shortName(row[0])+"() is true")
	}
	// (d) a refusal is fatal for every caller
	n := 0
	for _, cs := range p.CallSitesOf(map[string]bool{"chain.(*ChainService).checkHardfork": true}) {
		if cs.Fn == nil {
			continue
		}
		n++
		cg := cs.Fn.Graph()
		ok := false
		for _, s := range cg.CallsTo("chain.(*ChainService).checkHardfork") {
			if s.Call != cs.Call {
				continue
			}
			edges := cg.ErrNilEdges(s)
			// the caller either stops (panic) or returns the error: normal continuation only on the nil edge
			cont := cg.Reach([]*an.Node{s.Node}, edges.Union(cg.FailureReturns()))
			ok = len(edges) > 0 && !cont[cg.Exit]
		}
		c.Check("hardfork-startup", cs.Fn.Name()+"|fatal", cs.Call.Pos(), ok, "when checkHardfork refuses the configuration the caller does not carry on (panic or error return): no block is processed with a table that contradicts the stored one")
	}
	if n == 0 {
		c.Undecide("hardfork-startup", "chain.(*ChainService).checkHardfork", "no caller")
	}
	c.Floor("hardfork-startup", 5)
}

// ---------------------------------------------------------------------------
// older-node

func c19GapOlderNode(c *rep.Ctx) {
	f := c.Fn("config.checkOlderNode")
	if f == nil {
		return
	}
	info := f.Info()
	g := f.Graph()
	params := c19GapParams(f)
	if len(params) != 3 {
		c.Undecide("older-node", "config.checkOlderNode", "signature changed")
		return
	}
	maxVer, latest, dbCfg := params[0], params[1], params[2]
	// ver: the parsed key; bno: the range value
	var rng *ast.RangeStmt
	an.InspectShallow(f.Body, func(n ast.Node) bool {
		if rs, ok := n.(*ast.RangeStmt); ok && an.ObjOf(info, rs.X) == dbCfg {
			rng = rs
		}
		return true
	})
	ps := g.CallsTo("strconv.ParseUint")
	if rng == nil || rng.Value == nil || len(ps) != 1 {
		c.Undecide("older-node", "config.checkOlderNode", "no range over the stored table / no ParseUint of the key")
		return
	}
	bno := an.ObjOf(info, rng.Value)
	ver := g.ResultVarAt(ps[0], 0)
	// failure returns that report an active unknown fork (not the parse error)
	parseErr := g.ResultVarAt(ps[0], 1)
	var fails []*an.Node
	for _, r := range g.Returns() {
		rs := r.Ast.(*ast.ReturnStmt)
		if len(rs.Results) != 1 {
			continue
		}
		if tv, has := info.Types[rs.Results[0]]; has && tv.IsNil() {
			continue
		}
		if o := an.ObjOf(info, rs.Results[0]); o != nil && o == parseErr {
			continue
		}
		fails = append(fails, r)
	}
	if len(fails) != 1 || ver == nil {
		c.Undecide("older-node", "config.checkOlderNode", "expected exactly one refusing return")
		return
	}
	F := fails[0]
	// ordering atom: ver ? maxVer ; fork atom: isFork(bno, latest)
	isOrd := func(e ast.Expr) (sign func(int) bool, ok bool) {
		be, isB := ast.Unparen(e).(*ast.BinaryExpr)
		if !isB {
			return nil, false
		}
		switch be.Op {
		case token.LSS, token.LEQ, token.GTR, token.GEQ, token.EQL, token.NEQ:
		default:
			return nil, false
		}
		lx, ok1 := linOf(info, be.X)
		ly, ok2 := linOf(info, be.Y)
		if !ok1 || !ok2 {
			return nil, false
		}
		d := lx.add(ly, -1) // X - Y
		cv, cm, k := d[ver.Name()], d[maxVer.Name()], d["1"]
		extra := len(d)
		for _, nm := range []string{ver.Name(), maxVer.Name(), "1"} {
			if _, has := d[nm]; has {
				extra--
			}
		}
		if extra != 0 || cv*cm != -1 {
			return nil, false
		}
		// X - Y = cv*(ver - maxVer) + k ; truth for s = sign(ver - maxVer) in the worst case |ver-maxVer| = 1 or large
		return func(s int) bool {
			holds := func(delta int64) bool {
				v := cv*delta + k
				switch be.Op {
				case token.LSS:
					return v < 0
				case token.LEQ:
					return v <= 0
				case token.GTR:
					return v > 0
				case token.GEQ:
					return v >= 0
				case token.EQL:
					return v == 0
				}
				return v != 0
			}
			switch {
			case s == 0:
				return holds(0)
			case s > 0:
				return holds(1) && holds(1<<20)
			default:
				return holds(-1) && holds(-(1 << 20))
			}
		}, true
	}
	ordOK, forkOK := false, false
	var inner *an.Node
	for _, ft := range g.FactsAt(F) {
		if sign, ok := isOrd(ft.Cond); ok {
			// the refusing return needs ver > maxVer, and every ver > maxVer takes this edge
			gt, eq, lt := sign(1) == ft.Val, sign(0) == ft.Val, sign(-1) == ft.Val
			// sign(+1) must hold for both the smallest and a large excess: recompute for "some excess fails"
			ordOK = gt && !eq && !lt
			if inner == nil || g.Dominated(ft.Edge, an.SetOf(inner)) {
				inner = ft.Edge
			}
			continue
		}
		if call, isC := ast.Unparen(ft.Cond).(*ast.CallExpr); isC && an.CalleeName(info, call) == "config.isFork" && len(call.Args) == 2 {
			forkOK = ft.Val && an.ObjOf(info, call.Args[0]) == bno && bno != nil && an.ObjOf(info, call.Args[1]) == latest
			if inner == nil || g.Dominated(ft.Edge, an.SetOf(inner)) {
				inner = ft.Edge
			}
		}
	}
	// no way around the refusal once both hold
	sure := inner != nil && g.PostDominated(inner, an.SetOf(F))
	c.Check("older-node", "config.checkOlderNode", F.Ast.Pos(), ordOK && forkOK && sure, "a stored height of a version this node does not know (version > max known) is refused exactly when that fork is active at the best block: guarded by `ver > maxVer` (every excess, no equality) and isFork(height, latest), and not skippable")
	c.Floor("older-node", 1)
}

// ---------------------------------------------------------------------------
// fixdb-absent-only

func c19GapFixDbAbsentOnly(c *rep.Ctx) {
	f := c.Fn("config.(HardforkDbConfig).FixDbConfig")
	if f == nil {
		return
	}
	info := f.Info()
	g := f.Graph()
	recv := c19Receiver(f)
	n := 0
	for _, nd := range g.StmtNodes(func(n *an.Node) bool { _, isA := n.Ast.(*ast.AssignStmt); return isA }) {
		as := nd.Ast.(*ast.AssignStmt)
		for _, l := range as.Lhs {
			ix, ok := ast.Unparen(l).(*ast.IndexExpr)
			if !ok || an.ObjOf(info, ix.X) != recv || recv == nil {
				continue
			}
			n++
			key := an.ObjOf(info, ix.Index)
			guarded := false
			for _, ft := range g.FactsAt(nd) {
				cond := ast.Unparen(ft.Cond)
				neg := false
				for {
					u, isU := cond.(*ast.UnaryExpr)
					if !isU || u.Op != token.NOT {
						break
					}
					neg = !neg
					cond = ast.Unparen(u.X)
				}
				o := an.ObjOf(info, cond)
				if o == nil {
					continue
				}
				// o is the comma-ok of recv[key]
				defs, opaque := c19GapDefs(f, o)
				if opaque || len(defs) != 1 || defs[0].n != 2 || defs[0].idx != 1 {
					continue
				}
				dx, isIx := ast.Unparen(defs[0].rhs).(*ast.IndexExpr)
				if !isIx || an.ObjOf(info, dx.X) != recv || an.ObjOf(info, dx.Index) != key || key == nil {
					continue
				}
				exists := ft.Val != neg
				if !exists {
					guarded = true
				}
			}
			c.Check("fixdb-absent-only", "config.(HardforkDbConfig).FixDbConfig|store", as.Pos(), guarded, "FixDbConfig completes the stored table with heights of versions it does not contain yet; a stored height is never replaced by the configured one (the compatibility check compares exactly these two)")
		}
	}
	if n == 0 {
		c.Undecide("fixdb-absent-only", "config.(HardforkDbConfig).FixDbConfig", "no store into the table found")
	}
	c.Floor("fixdb-absent-only", 1)
}

// ---------------------------------------------------------------------------
// merkle-interior, merkle-bloom-leaf

func c19GapMerkleInterior(c *rep.Ctx) {
	p := c.Prog
	if f := c.Fn("internal/merkle.CalculateMerkleTree"); f != nil {
		info := f.Info()
		// the tree slice: the local that is returned and made with a size
		var tree types.Object
		var size ast.Expr
		an.InspectShallow(f.Body, func(n ast.Node) bool {
			as, ok := n.(*ast.AssignStmt)
			if !ok || len(as.Lhs) != 1 || len(as.Rhs) != 1 {
				return true
			}
			if mk, ok := ast.Unparen(as.Rhs[0]).(*ast.CallExpr); ok && an.IsBuiltin(info, mk, "make") && len(mk.Args) == 2 {
				if tv, ok := info.Types[mk]; ok {
					if sl, ok := tv.Type.Underlying().(*types.Slice); ok && c19GapIsByteSlice(sl.Elem()) {
						tree, size = an.ObjOf(info, as.Lhs[0]), mk.Args[1]
					}
				}
			}
			return true
		})
		// the interior loop: for i := ...; i < N; i++ { ... tree[i] = calc(h, tree[lc], tree[rc]) }
		var loop *ast.ForStmt
		var store *ast.AssignStmt
		an.InspectShallow(f.Body, func(n ast.Node) bool {
			fs, ok := n.(*ast.ForStmt)
			if !ok || fs.Cond == nil || fs.Post == nil || fs.Init == nil {
				return true
			}
			an.InspectShallow(fs.Body, func(m ast.Node) bool {
				as, ok := m.(*ast.AssignStmt)
				if !ok || len(as.Lhs) != 1 || len(as.Rhs) != 1 {
					return true
				}
				ix, ok := ast.Unparen(as.Lhs[0]).(*ast.IndexExpr)
				if !ok || an.ObjOf(info, ix.X) != tree || tree == nil {
					return true
				}
				if call, ok := ast.Unparen(as.Rhs[0]).(*ast.CallExpr); ok && len(call.Args) >= 2 && an.CalleeVar(info, call) != nil {
					loop, store = fs, as
				}
				return true
			})
			return true
		})
		if tree == nil || loop == nil {
			c.Undecide("merkle-interior", "internal/merkle.CalculateMerkleTree", "tree slice or interior loop not recognised")
		} else {
			// --- bound
			iobj := types.Object(nil)
			if as, ok := loop.Init.(*ast.AssignStmt); ok && len(as.Lhs) == 1 {
				iobj = an.ObjOf(info, as.Lhs[0])
			}
			okB := false
			if be, ok := ast.Unparen(loop.Cond).(*ast.BinaryExpr); ok && iobj != nil {
				x, y, op := be.X, be.Y, be.Op
				if an.ObjOf(info, y) == iobj {
					x, y, op = y, x, c19Flip(op)
				}
				if an.ObjOf(info, x) == iobj {
					ls, ok1 := c19GapLin(f, size)
					lb, ok2 := c19GapLin(f, y)
					if ok1 && ok2 {
						d := lb.add(ls, -1) // bound - size
						switch {
						case op == token.LSS && len(d) == 0:
							okB = true
						case op == token.LEQ && len(d) == 1 && d["1"] == -1:
							okB = true
						case op == token.NEQ && len(d) == 0:
							okB = true
						}
					}
					// also: i < len(tree)
					if call, isC := ast.Unparen(y).(*ast.CallExpr); isC && op == token.LSS && an.IsBuiltin(info, call, "len") && an.ObjOf(info, call.Args[0]) == tree {
						okB = true
					}
				}
			}
			if post, ok := loop.Post.(*ast.IncDecStmt); !ok || post.Tok != token.INC || an.ObjOf(info, post.X) != iobj {
				okB = false
			}
			ix := ast.Unparen(store.Lhs[0]).(*ast.IndexExpr)
			if an.ObjOf(info, ix.Index) != iobj {
				okB = false
			}
			c.Check("merkle-interior", "internal/merkle.CalculateMerkleTree|bound", loop.Pos(), okB, "the loop that computes the interior nodes runs up to the last index of the tree in steps of one and stores node i at index i: the root (last element) is computed")
			// --- children: calc(h, tree[a], tree[b]) with b - a == 1
			call := ast.Unparen(store.Rhs[0]).(*ast.CallExpr)
			okC := false
			var kids []ast.Expr
			for _, a := range call.Args {
				if kx, ok := ast.Unparen(a).(*ast.IndexExpr); ok && an.ObjOf(info, kx.X) == tree {
					kids = append(kids, kx.Index)
				}
			}
			if len(kids) == 2 {
				okC = c19GapLoopDiff(f, loop, kids[0], kids[1]) == 1
			}
			c.Check("merkle-interior", "internal/merkle.CalculateMerkleTree|children", store.Pos(), okC, "an interior node is computed from two adjacent nodes of the level below, left (index a) before right (index a+1)")
			// --- the combining function writes both children, in order, into a reset hash and returns its sum
			okH, whyH := false, "the combining function is not a local function literal"
			if fv := an.CalleeVar(info, call); fv != nil {
				if defs, opaque := c19GapDefs(f, fv); !opaque && len(defs) == 1 {
					if lit, ok := ast.Unparen(defs[0].rhs).(*ast.FuncLit); ok {
						if lf := p.LitFunc(lit); lf != nil {
							okH, whyH = c19GapCombiner(lf, call)
						}
					}
				}
			}
			c.Check("merkle-interior", "internal/merkle.CalculateMerkleTree|combine", store.Pos(), okH, "parent = H(left || right): the hash is reset, both children are written in order and the digest is returned ("+whyH+")")
		}
	}
	// merkle-bloom-leaf
	if f := c.Fn("types.(*Receipts).MerkleRoot"); f != nil {
		info := f.Info()
		bloom := p.LookupField("types", "Receipts", "bloom")
		n := 0
		an.InspectShallow(f.Body, func(m ast.Node) bool {
			as, ok := m.(*ast.AssignStmt)
			if !ok || len(as.Lhs) != 1 || len(as.Rhs) != 1 {
				return true
			}
			if _, isIx := ast.Unparen(as.Lhs[0]).(*ast.IndexExpr); isIx && an.FieldOf(info, as.Rhs[0]) == bloom && bloom != nil {
				n++
			}
			return true
		})
		c.Check("merkle-bloom-leaf", "types.(*Receipts).MerkleRoot", f.Pos(), n == 1, "the block's bloom filter is a leaf of the receipts tree (where and under which condition is decided by merkle-fill): the receipts root commits to it")
	}
	c.Floor("merkle-interior", 3)
	c.Floor("merkle-bloom-leaf", 1)
}

// c19GapLoopDiff: b - a for two index expressions of one loop iteration, with
// locals that are assigned exactly once inside the loop body (before use,
// at top level) replaced by their right-hand sides.  Returns -999 if unknown.
func c19GapLoopDiff(f *an.Func, loop *ast.ForStmt, a, b ast.Expr) int64 {
	info := f.Info()
	var lin func(e ast.Expr, depth int) (linForm, bool)
	lin = func(e ast.Expr, depth int) (linForm, bool) {
		e = ast.Unparen(e)
		if id, ok := e.(*ast.Ident); ok && depth < 4 {
			obj := an.ObjOf(info, id)
			var rhs []ast.Expr
			for _, st := range loop.Body.List {
				if as, ok := st.(*ast.AssignStmt); ok && as.Tok == token.ASSIGN || ok && as.Tok == token.DEFINE {
					for i, l := range as.Lhs {
						if an.ObjOf(info, l) == obj && len(as.Lhs) == len(as.Rhs) {
							rhs = append(rhs, as.Rhs[i])
						}
					}
				}
			}
			if len(rhs) == 1 {
				return lin(rhs[0], depth+1)
			}
			return linForm{id.Name: 1}, true
		}
		if be, ok := e.(*ast.BinaryExpr); ok && (be.Op == token.ADD || be.Op == token.SUB) {
			x, ok1 := lin(be.X, depth)
			y, ok2 := lin(be.Y, depth)
			if !ok1 || !ok2 {
				return nil, false
			}
			k := int64(1)
			if be.Op == token.SUB {
				k = -1
			}
			return x.add(y, k), true
		}
		return linOf(info, e)
	}
	la, ok1 := lin(a, 0)
	lb, ok2 := lin(b, 0)
	if !ok1 || !ok2 {
		return -999
	}
	d := lb.add(la, -1)
	if len(d) == 1 {
		if v, has := d["1"]; has {
			return v
		}
	}
	return -999
}

// c19GapCombiner: lf is func(h hash.Hash, l, r []byte) []byte.
func c19GapCombiner(lf *an.Func, call *ast.CallExpr) (bool, string) {
	info := lf.Info()
	g := lf.Graph()
	params := c19GapParams(lf)
	// which parameters receive the two children?
	var kids []types.Object
	var hasher types.Object
	for i, a := range call.Args {
		if i >= len(params) {
			return false, "argument count"
		}
		if _, isIx := ast.Unparen(a).(*ast.IndexExpr); isIx {
			kids = append(kids, params[i])
		} else {
			hasher = params[i]
		}
	}
	if len(kids) != 2 || hasher == nil {
		return false, "expected (hash, left, right)"
	}
	var writes []an.Site
	var reset, sum *an.Site
	for _, s := range g.Calls(func(fn *types.Func, k *ast.CallExpr) bool { return fn != nil && c19RecvOf(info, k) == hasher }) {
		s := s
		switch s.Fn.Name() {
		case "Write":
			writes = append(writes, s)
		case "Reset":
			reset = &s
		case "Sum":
			sum = &s
		default:
			return false, "unexpected use of the hash: " + s.Fn.Name()
		}
	}
	if reset == nil || sum == nil || len(writes) != 2 {
		return false, "expected Reset, two Writes, Sum"
	}
	if an.ObjOf(info, writes[0].Call.Args[0]) != kids[0] || an.ObjOf(info, writes[1].Call.Args[0]) != kids[1] {
		return false, "the two writes are not (left, right)"
	}
	if !g.Dominated(writes[0].Node, an.SetOf(reset.Node)) || !g.Dominated(writes[1].Node, an.SetOf(writes[0].Node)) || !g.Dominated(sum.Node, an.SetOf(writes[1].Node)) {
		return false, "order is not Reset, Write(left), Write(right), Sum"
	}
	for _, r := range g.Returns() {
		rs := r.Ast.(*ast.ReturnStmt)
		if len(rs.Results) != 1 || ast.Unparen(rs.Results[0]) != ast.Expr(sum.Call) {
			return false, "a return does not hand back the digest"
		}
	}
	return true, "holds"
}

// ---------------------------------------------------------------------------
// genesis-block-chainid

func c19GapGenesisBlockChainID(c *rep.Ctx) {
	p := c.Prog
	f := c.Fn("types.(*Genesis).Block")
	if f == nil {
		return
	}
	info := f.Info()
	g := f.Graph()
	recv := c19Receiver(f)
	idF := p.LookupField("types", "Genesis", "ID")
	bs := g.CallsTo("types.(*ChainID).Bytes")
	sc := g.CallsTo("types.(*Block).SetChainID")
	sb := g.CallsTo("types.(*Genesis).SetBlock")
	ok, why := true, ""
	if len(bs) != 1 || len(sc) != 1 || len(sb) != 1 || idF == nil {
		ok, why = false, "expected one SetBlock, one ID.Bytes() and one SetChainID"
	}
	if ok {
		sel, _ := ast.Unparen(bs[0].Call.Fun).(*ast.SelectorExpr)
		if sel == nil || an.FieldOf(info, sel.X) != idF || c19RootObj(info, sel.X.(*ast.SelectorExpr).X) != recv {
			ok, why = false, "the encoded id is not the receiver's ID"
		}
	}
	if ok {
		id := g.ResultVarAt(bs[0], 0)
		if id == nil || len(sc[0].Call.Args) != 1 || an.ObjOf(info, sc[0].Call.Args[0]) != id {
			ok, why = false, "SetChainID is not given the bytes returned by ID.Bytes()"
		}
	}
	if ok {
		// after the block was created the chain id is set unless encoding failed
		nilEdges := g.ErrNilEdges(bs[0])
		if len(nilEdges) == 0 || !g.Dominated(sc[0].Node, nilEdges) {
			ok, why = false, "SetChainID is not on the success edge of ID.Bytes()"
		}
		for e := range nilEdges {
			if !g.PostDominated(e, an.SetOf(sc[0].Node)) {
				ok, why = false, "the chain id can be skipped although encoding succeeded"
			}
		}
		if !g.PostDominated(sb[0].Node, an.SetOf(bs[0].Node)) {
			ok, why = false, "a freshly created genesis block can be returned without its chain id having been encoded"
		}
	}
	c.Check("genesis-block-chainid", "types.(*Genesis).Block", f.Pos(), ok, "the genesis block built from a Genesis carries ID.Bytes() as its chain id (every later block is tied to it through ValidChildOf) "+why)
	c.Floor("genesis-block-chainid", 1)
}
